"""C16 type selection and output file naming follow the command line.

Theorems: coq/Properties/C16.v (model coq/Model/Cli.v, declarative reading
coq/Model/CliSpec.v, proofs coq/Proofs/CliProofs.v).  Correspondence (L2):
random multi-file package skeletons (harness/cligen.py) x the four subcommands
x {-type lists, -file, -type=*, -sep, invalid command lines}; the freshly built
shoot binary is run on each rendered package, the directory tree is compared
before/after, every created file is parsed by harness/go/cmd/gosig (which types
it holds, by marker-method receivers), the diagnostics and the file list of the
success message are read from stderr; coq/Corr/CliCorr.v recomputes the model
and evaluates the property (the theorems' own `meets ... (spec ...)`) on the
observation inside Coq.
"""
import concurrent.futures as cf
import copy
import hashlib
import json
import re
import shutil
from pathlib import Path

import cligen
import l2
import lib

PAR = 4
SUBS = ["new", "enum", "rest", "map"]
COQ_SUB = {"new": "CNew", "enum": "CEnum", "rest": "CRest", "map": "CMap"}
MARKER = {"new": "ShootNew", "enum": "ShootEnum", "rest": "ShootRest", "map": "ShootMap"}

DIAGS = [
    (r"type not exists: ", "DgNotExists"),          # must come after the src/dest variants (see classify)
    (r"is not a struct type", "DgNotStruct"),
    (r"is not in the specified file", "DgNotInFile"),
    (r"should not be an alias", "DgAlias"),
    (r"can't handle non-integer constant type", "DgNonIntConst"),
    (r"rest client interface not exists", "DgRestNotExists"),
    (r"file must be a go file", "DgFileNotGo"),
    (r"file not exists", "DgFileNotExists"),
    (r"more than one type is written to", "DgSameFile"),
]

FINDING_OF_CLASS = {2: "K_star_no_generate_line", 3: "K_star_sep_file"}


def classify_diag(line):
    if "enum type not exists or has no constants" in line:
        return "DgEnumNone"
    if "src type not exists" in line:
        return "DgSrcNotExists"
    if "dest type not exists" in line:
        return "DgDestNotExists"
    for pat, d in DIAGS:
        if re.search(pat, line):
            return d
    return None


# ------------------------------------------------------------------- cases
class Case:
    def __init__(self, pkg, cmd, args, from_parent=None, tag="", pre=None):
        self.pkg, self.cmd, self.args, self.from_parent, self.tag = pkg, cmd, list(args), from_parent, tag
        self.pre = pre              # [subcommand, args...] run first in p/: its outputs become files of the package
        self.pkg0 = None            # the skeleton before the pre-step added the generated files
        self.obs = None
        self.dir = None

    def argv(self):
        return [self.cmd] + self.args

    def cmdline(self):
        return "shoot " + " ".join(self.argv())

    def key(self):
        h = hashlib.sha1(json.dumps([cligen.pkg_to_json(self.pkg0 or self.pkg), self.cmd, self.args, self.pre],
                                    sort_keys=True).encode())
        return h.hexdigest()

    def to_json(self):
        return {"pkg": cligen.pkg_to_json(self.pkg0 or self.pkg), "cmd": self.cmd, "args": self.args,
                "from_parent": self.from_parent, "tag": self.tag, "pre": self.pre}

    @staticmethod
    def from_json(j):
        return Case(cligen.pkg_from_json(j["pkg"]), j["cmd"], j["args"], j.get("from_parent"), j.get("tag", ""),
                    j.get("pre"))


def extra_flags(rng, cmd, heavy=False):
    """flags that do not take part in selection/naming but are part of the command line
    (heavy: the package imports net/http; `new -getset` reloads the package after every type, ~2 s each there)"""
    if cmd == "new":
        fl = rng.choice([[], [], [], ["-getset"], ["-json"], ["-exp"], ["-short"], ["-getset", "-json"],
                         ["-tagcase=lower"], ["-tagcase", "upper"]])
        return [x for x in fl if not (heavy and x == "-getset")]
    if cmd == "enum":
        return rng.choice([[], [], [], ["-json"], ["-text"], ["-bit"], ["-sql", "-gorm"]])
    if cmd == "map":
        return ["-path=../dest"] + rng.choice([[], [], ["-alias=dd"], ["-i"], ["-way=->"], ["-way", "both"]])
    return []


def pick_names(rng, cmd, p):
    """a -type list: mostly names the subcommand can generate for, sometimes
    wrong-kind, `_`-prefixed, function-local or missing names"""
    good = cligen.nameable_names(cmd, p)
    everything = cligen.all_names(p)
    n = rng.choice([1, 1, 2, 2, 3])
    r = rng.random()
    out = []
    shadowed = [x for x in cligen.shadowed_names(p) if x in good]
    if shadowed and rng.random() < 0.5:       # a type whose name is re-declared inside a function of another file
        out = [rng.choice(shadowed)] + rng.sample(good, min(n - 1, len(good)))
        return list(dict.fromkeys(out))
    if r < 0.55 and good:
        out = rng.sample(good, min(n, len(good)))
    elif r < 0.85 and everything:
        # mix: mostly good, one arbitrary declaration somewhere
        out = rng.sample(good, min(n - 1, len(good))) if good else []
        out.insert(rng.randint(0, len(out)), rng.choice(everything))
    elif r < 0.95:
        out = rng.sample(good, min(n - 1, len(good))) if good else []
        out.insert(rng.randint(0, len(out)), rng.choice(["Nope", "nope", "Missing", "T", "_none", "InTest", "SubT", "Ignored"]))
    else:
        out = [rng.choice(everything)] if everything else ["Nope"]
        if rng.random() < 0.3:
            out = out + out               # the same type twice
    return out or ["Nope"]


def decl_file_of(p, name):
    for f, t in p.all_specs(local=False):
        if t.name == name:
            return f.name
    return None


def gen_cmdlines(rng, cmd, p):
    """-> list of (args, generate_line_plan, tag); args = what follows the subcommand"""
    res = []
    heavy = any(t.rhs == "iface_rest" for _, t in p.all_specs())
    xf = lambda: extra_flags(rng, cmd, heavy)

    # --- -type=A,B
    for _ in range(rng.choice([1, 2])):
        names = pick_names(rng, cmd, p)
        tyarg = ["-type=" + ",".join(names)] if rng.random() < 0.85 else ["-type", ",".join(names)]
        args = xf() + tyarg
        r = rng.random()
        if r < 0.12:
            f = decl_file_of(p, names[0])
            if f is None or rng.random() < 0.25:
                f = rng.choice(p.files).name
            args = args + ["-file=" + f]
        elif r < 0.22:
            args = args + [rng.choice(["-sep", "-separate", "-sep=false", "-sep=true"])]
        rng.shuffle(args) if rng.random() < 0.3 and "-type" not in args and "-tagcase" not in args and "-way" not in args else None
        res.append((args, None, "list"))

    # --- a type whose name is re-declared inside a function of another file, named explicitly
    sh = [x for x in cligen.shadowed_names(p) if x in cligen.nameable_names(cmd, p)]
    if sh:
        res.append((xf() + ["-type=" + ",".join(rng.sample(sh, min(len(sh), rng.choice([1, 2]))))], None, "list"))

    # --- -file=f
    f = rng.choice(p.files).name
    if p.others and rng.random() < 0.4:
        f = rng.choice(p.others)[0]          # exists, but is not a file of the package
    args = xf() + ["-file=" + f]
    r = rng.random()
    if r < 0.35:
        args.append(rng.choice(["-sep", "-separate"]))
    if rng.random() < 0.15:
        args.insert(rng.randint(0, len(args)), "-type=*")
    if rng.random() < 0.06:
        args = [a if not a.startswith("-file=") else rng.choice(["-file=nofile.go", "-file=notes.txt", "-file=go"])
                for a in args]
    res.append((args, None, "file"))

    # --- -type=*
    args = xf() + (["-type=*"] if rng.random() < 0.88 else ["-type", "*"])
    if rng.random() < 0.4:
        args.append(rng.choice(["-sep", "-separate"]))
    plan = rng.choices(["match", "match2", "other", "none", "spaced"], [60, 10, 10, 15, 5])[0]
    res.append((args, plan, "star"))

    # --- rejected command lines (now and then)
    if rng.random() < 0.25:
        names = cligen.nameable_names(cmd, p) or ["Nope"]
        bad = rng.choice([
            [], ["-nosuch", "-type=" + names[0]], ["-sep"], ["-type="], ["-h"], ["-help"],
            ["-sep=maybe", "-type=" + names[0]], ["-type"], ["--", "-type=" + names[0]],
            ["-=x", "-type=" + names[0]], ["---type=" + names[0]],
            ["-tagcase=weird", "-type=" + names[0]] if cmd == "new" else ["-way=sideways", "-type=" + names[0]]
            if cmd == "map" else ["-getset", "-type=" + names[0]] if cmd != "new" else ["-bit", "-type=" + names[0]],
            ["--type=" + names[0]] + (["-path=../dest"] if cmd == "map" else []),
        ])
        res.append((bad, None, "bad"))
    return res


def apply_generate_plan(rng, p, cmd, args, plan, dirarg):
    """insert //go:generate lines into the skeleton according to the plan"""
    full = "shoot " + " ".join([cmd] + args + ([dirarg] if dirarg else []))
    if plan in ("match", "match2"):
        f1 = cligen.add_generate_line(rng, p, full)
        if plan == "match2" and len(p.files) > 1:
            f2 = rng.choice([f for f in p.files if f is not f1])
            cligen.add_generate_line(rng, p, full, f=f2)
    elif plan == "other":
        other = rng.choice([full + " -v", "shoot " + cmd + " -type=* ./elsewhere", full.replace("shoot ", "shoot  ", 1),
                            full + " "])
        if other != full:
            cligen.add_generate_line(rng, p, other, variant="plain")
    elif plan == "spaced":
        f = rng.choice(p.files)
        f.decls.insert(rng.randint(0, len(f.decls)), ("comment", "// go:generate " + full))
    # a generate line of another subcommand is always harmless noise
    if rng.random() < 0.3:
        cligen.add_generate_line(rng, p, "shoot " + rng.choice(SUBS) + " -type=Nothing")


def pair_cases(rng):
    """deterministic part of every run: -file mode of every subcommand on packages whose file names are related
    (one a proper suffix / prefix of the other, both sort orders), plus -file values that differ from a file name
    only in case or by a leading ./"""
    cases = []
    for cmd in SUBS:
        xf = ["-path=../dest"] if cmd == "map" else []
        for short, long_ in cligen.NAME_PAIRS:
            skel = cligen.gen_pair_pkg(rng, cmd, short, long_)
            for f, sep in [(short, rng.choice([[], ["-sep"]])), (long_, []), (short, ["-type=*"])]:
                cases.append(Case(copy.deepcopy(skel), cmd, xf + ["-file=" + f] + sep, None, "pair"))
        short, long_ = cligen.NAME_PAIRS[SUBS.index(cmd) % len(cligen.NAME_PAIRS)]
        skel = cligen.gen_pair_pkg(rng, cmd, short, long_)
        # a -file value that differs in case names no file (on this file system): "file not exists"
        cases.append(Case(copy.deepcopy(skel), cmd, xf + ["-file=" + short.capitalize()], None, "pair"))
        # ./f.go exists for os.Stat but is never equal to the base name of a loaded file: nothing is generated
        p = copy.deepcopy(skel)
        p.others = [("./" + short, None)]
        cases.append(Case(p, cmd, xf + ["-file=./" + short], None, "pair"))
        # a type group mixing ineligible and eligible specs, in a file with a dot in its base name and a renamed shoot
        # import; the //go:generate line in a declaration-free doc.go; a local type of an earlier file shadowing a named type
        skel, good = cligen.gen_group_pkg(rng, cmd)
        cases.append(Case(copy.deepcopy(skel), cmd, xf + ["-file=model.v2.go"], None, "group"))
        cases.append(Case(copy.deepcopy(skel), cmd, xf + ["-type=" + ",".join(good)], None, "group"))
        p = copy.deepcopy(skel)
        p.files[1].decls.append(("comment", "//go:generate shoot " + " ".join([cmd] + xf + ["-type=*"])))
        cases.append(Case(p, cmd, xf + ["-type=*"], None, "group"))
        # source files that begin with a foreign "Code generated ... DO NOT EDIT." header, a licence block, a build tag
        skel = cligen.gen_header_pkg(rng, cmd)
        for fname, extra in [("wire_gen.go", []), ("api.pb.go", ["-sep"]), ("mock_gen.go", []), ("lic.go", rng.choice([[], ["-sep"]]))]:
            cases.append(Case(copy.deepcopy(skel), cmd, xf + ["-file=" + fname] + extra, None, "header"))
        for extra in ([], ["-sep"]):
            p = copy.deepcopy(skel)
            p.files[3].decls.insert(0, ("comment", "//go:generate shoot " + " ".join([cmd] + xf + ["-type=*"] + extra)))
            cases.append(Case(p, cmd, xf + ["-type=*"] + extra, None, "header"))
    return cases


def gen_cases(run, nskel):
    rng = run.rng
    cases = pair_cases(rng)
    for i in range(nskel):
        with_rest = (i % 5 == 0)
        skel = cligen.gen_pkg(rng, with_rest=with_rest, want_collision=(rng.random() < 0.08))
        for cmd in SUBS:
            if cmd == "rest" and not with_rest and rng.random() < 0.6:
                continue
            for args, plan, tag in gen_cmdlines(rng, cmd, skel):
                p = copy.deepcopy(skel)
                from_parent = None
                # (`-type *` in two arguments together with a [dir] argument runs into C17's open finding
                #  K_clean_own_output: Clean() deletes the file just written; kept out of this stream)
                if rng.random() < 0.15 and tag != "bad" and not ("-type" in args and "*" in args):
                    from_parent = rng.choice(["./p", "p", "./p/"])
                    if from_parent == "./p/":
                        from_parent = "./p"
                if plan is not None:
                    apply_generate_plan(rng, p, cmd, args, plan, from_parent)
                cases.append(Case(p, cmd, args + ([from_parent] if from_parent else []), from_parent, tag))
        # a package that already holds shoot output: `shoot rest -file=f` first, then new / map over the result
        rest_files = [f.name for f in skel.files if any(d[0] == "type" and any(t.rhs == "iface_rest" for t in d[1])
                                                        for d in f.decls)]
        if with_rest and rest_files:
            f = rng.choice(rest_files)
            out = f[:-3] + ".shootrest.go"
            for cmd2, args2, plan in [("new", ["-type=*"], "match"), ("new", ["-file=" + out] + rng.choice([[], ["-sep"]]), None),
                                      ("map", ["-path=../dest", "-file=" + out], None)][:rng.choice([1, 2, 3])]:
                p = copy.deepcopy(skel)
                if plan:
                    apply_generate_plan(rng, p, cmd2, args2, plan, None)
                cases.append(Case(p, cmd2, args2, None, "preout", pre=["rest", "-file=" + f]))
    return cases


# ---------------------------------------------------------------- execution
def run_case(shoot, k, timeout=60):
    """write the package, run shoot, observe"""
    base = k.dir
    if base.exists():
        shutil.rmtree(base)
    if k.pkg0 is not None:
        k.pkg = copy.deepcopy(k.pkg0)
    files = cligen.render_go(k.pkg)
    l2.write_files(base, files)
    if k.pre:
        k.pkg0 = copy.deepcopy(k.pkg)
        b0 = l2.snapshot(base)
        l2.run_shoot(shoot, base / "p", k.pre, timeout=timeout)
        new = sorted(n for n in l2.snapshot(base) if n not in b0)
        k.pre_files = new
        add_generated_files(k, base, new)
    before = l2.snapshot(base)
    cwd = base if k.from_parent else base / "p"
    r = l2.run_shoot(shoot, cwd, k.argv(), timeout=timeout)
    after = l2.snapshot(base)
    created = sorted(n for n in after if n not in before)
    modified = sorted(n for n in after if n in before and after[n] != before[n])
    deleted = sorted(n for n in before if n not in after)
    inpkg = [n for n in created if n.startswith("p/") and "/" not in n[2:]]
    stray = bool(modified or deleted or [n for n in created if n not in inpkg])
    err = r["err"]
    msg_lines = [ln for ln in err.splitlines() if "❌" in ln]
    diag = classify_diag(msg_lines[0]) if msg_lines else None
    listed = []
    lines = err.splitlines()
    for i, ln in enumerate(lines):
        if "go generate successfully" in ln:
            for ln2 in lines[i + 1:]:
                if ln2.startswith("\t"):
                    listed.append(ln2.strip())
                else:
                    break
    k.obs = {"rc": r["rc"], "msg": bool(msg_lines), "diag": diag, "nothing": "nothing generated" in err,
             "created": [n[2:] for n in inpkg], "listed": listed, "stray": stray,
             "stray_detail": {"modified": modified, "deleted": deleted,
                              "created_elsewhere": [n for n in created if n not in inpkg]},
             "stderr": err[-1500:], "timed_out": r["timed_out"], "panicked": r["panicked"], "files": {}}
    return k


GOSIG = [None]


def add_generated_files(k, base, new):
    """the files a pre-step wrote become files of the skeleton (their type specs read back with gosig -decls)"""
    paths = [str(base / n) for n in new if n.startswith("p/") and "/" not in n[2:] and not n[2:].startswith((".", "_"))]
    if not paths:
        return
    rc, out, err = lib.sh([str(GOSIG[0]), "-decls"], input="\n".join(paths) + "\n", timeout=120)
    if rc != 0:
        raise lib.CheckBroken("gosig -decls failed: " + err[-1000:])
    per = {}
    for line in out.splitlines():
        f = line.split("\t")
        per.setdefault(f[0], []).append(f[1:])
    for pth in paths:
        gf = cligen.File(Path(pth).name)
        for ent in per.get(pth, []):
            if ent[0] == "TYPE":
                name, kind, alias, tps = ent[1], ent[2], ent[3] == "1", [x for x in ent[4].split(",") if x] if len(ent) > 4 else []
                if kind != "struct":
                    raise lib.CheckBroken("pre-step output declares a non-struct type (not supported by the skeleton reader): %s" % ent)
                gf.decls.append(("type", [cligen.TS(name, "generated_struct", name + " struct{}", alias=alias, rhs="struct",
                                                    tparams=tps)], None, False))
            elif ent[0] == "LOCAL":
                gf.decls.append(("func", "gen", [cligen.TS(ent[1], "generated_local", ent[1] + " struct{}",
                                                           rhs="struct" if ent[2] == "struct" else "named")]))
            elif ent[0] == "PARSE_ERROR":
                raise lib.CheckBroken("pre-step output does not parse: %s" % ent)
        k.pkg.files.append(gf)
    k.pkg.files.sort(key=lambda f: f.name)


def sig_files(gosig, cases):
    """fill obs['files'][name] = [type, ...] for every created file (one gosig call)"""
    paths = []
    for k in cases:
        for n in k.obs["created"]:
            paths.append(str(k.dir / "p" / n))
    if not paths:
        return
    rc, out, err = lib.sh([str(gosig)], input="\n".join(paths) + "\n", timeout=600)
    if rc != 0:
        raise lib.CheckBroken("gosig failed: " + err[-2000:])
    per = {}
    for line in out.splitlines():
        f = line.split("\t")
        if len(f) < 3:
            continue
        per.setdefault(f[0], []).append((f[1], f[2]))
    for k in cases:
        for n in k.obs["created"]:
            ents = per.get(str(k.dir / "p" / n), [])
            types = []
            for marker, recv in ents:
                if marker == "END":
                    continue
                if marker == "PARSE_ERROR":
                    types.append("?parse-error")
                elif marker != MARKER[k.cmd]:
                    types.append("?" + marker + ":" + recv)
                else:
                    types.append(recv)
            k.obs["files"][n] = types


def execute(run, shoot, gosig, cases, tag="c", par=PAR, timeout=60):
    GOSIG[0] = gosig
    root = l2.make_module(run, "vmod_" + tag)
    for i, k in enumerate(cases):
        k.dir = root / ("%s%05d" % (tag, i))
    with cf.ThreadPoolExecutor(max_workers=par) as ex:
        list(ex.map(lambda k: run_case(shoot, k, timeout), cases))
    sig_files(gosig, cases)
    return root


def confirm(run, shoot, gosig, cases, mism, classes):
    """a mismatch must persist when the case is run again alone (a loaded machine can hit the timeout):
    re-run the mismatching cases one at a time with a long timeout and compare again"""
    if not mism:
        return []
    idxs = [i for i, _ in mism[:40]]
    sub = [cases[i] for i in idxs]
    execute(run, shoot, gosig, sub, tag="re", par=1, timeout=300)
    m2, _ = coq_shards(run, sub, "c16re")
    return [(idxs[j], v) for j, v in m2]


def validate_render(run, cases, n):
    """the rendered skeletons must be compilable Go packages (otherwise go/types facts such as
    `integer underlying type` would not be what the skeleton claims): go build a sample"""
    root = l2.make_module(run, "vmod_build")
    seen, k = set(), 0
    for c in cases[::max(1, len(cases) // (n + 1))]:
        key = json.dumps(cligen.pkg_to_json(c.pkg), sort_keys=True)
        if key in seen:
            continue
        seen.add(key)
        l2.write_files(root / ("b%05d" % k), cligen.render_go(c.pkg))
        k += 1
        if k >= n:
            break
    ok, errs = l2.go_build(root)
    if not ok:
        raise lib.CheckBroken("a rendered skeleton package does not compile (generator defect): %s"
                              % json.dumps(errs)[:3000])
    return k


# -------------------------------------------------------------- Coq rendering
def cs(s):
    return cligen.cs(s)


def coq_obs(o):
    rc = o["rc"] if 0 <= o["rc"] < 1000 else 999
    files = "[" + "; ".join("(%s, [%s])" % (cs(n), "; ".join(cs(t) for t in o["files"].get(n, ["?unread"])))
                            for n in o["created"]) + "]"
    return ("{| o_exit := %d%%N; o_msg := %s; o_diag := %s; o_nothing := %s; o_files := %s; o_listed := [%s]; "
            "o_stray := %s |}" % (rc, cligen.cb(o["msg"]), "Some " + o["diag"] if o["diag"] else "None",
                                  cligen.cb(o["nothing"]), files, "; ".join(cs(x) for x in o["listed"]),
                                  cligen.cb(o["stray"] or o["panicked"] or o["timed_out"])))


def coq_case(k):
    return ("{| c_cmd := %s; c_args := [%s]; c_pkg := %s; c_obs := %s |}"
            % (COQ_SUB[k.cmd], "; ".join(cs(a) for a in k.args), cligen.coq_pkg(k.pkg), coq_obs(k.obs)))


HEAD = ("From Coq Require Import List String NArith.\nFrom Shoot Require Import Model.Cli Model.CliSpec Corr.CliCorr.\n"
        "Import ListNotations.\nLocal Open Scope string_scope.\nSet Printing Width 1000000.\nSet Printing Depth 1000000.\n")


def coq_shards(run, cases, tag, shard=120):
    """-> (mismatches [(index, verdict)], classes [int per case])"""
    nsh = (len(cases) + shard - 1) // shard

    def one(j):
        lo = j * shard
        part = cases[lo:lo + shard]
        body = (HEAD + "Definition cases : list case := [\n%s\n].\n"
                "Definition M := Eval vm_compute in mismatches cases.\nPrint M.\n"
                "Definition C := Eval vm_compute in classes cases.\nPrint C.\n"
                % ";\n".join(coq_case(k) for k in part))
        out = run.coq_eval("%s_%d" % (tag, j), body)
        mm = [(lo + i, v) for i, v in lib.parse_coq_list_pairs(out, "M")]
        flat = " ".join(out.split())
        m = re.search(r"C = (\[.*?\])\s*: list N", flat)
        if not m:
            raise lib.CheckBroken("cannot parse classes: " + flat[-1500:])
        cl = [int(x) for x in re.findall(r"(\d+)%N", m.group(1))] if "%N" in m.group(1) else \
             [int(x) for x in re.findall(r"\d+", m.group(1))]
        if len(cl) != len(part):
            raise lib.CheckBroken("classes: %d for %d cases" % (len(cl), len(part)))
        return mm, cl
    mism, classes = [], []
    with cf.ThreadPoolExecutor(max_workers=PAR) as ex:
        for mm, cl in ex.map(one, range(nsh)):
            mism.extend(mm)
            classes.extend(cl)
    return mism, classes


def coq_predicted(run, k, tag):
    body = (HEAD + "Definition k : case := %s.\n"
            "Definition P := Eval vm_compute in predicted k.\nPrint P.\n"
            "Definition H := Eval vm_compute in (property_holds k, verdict k, case_class k).\nPrint H.\n" % coq_case(k))
    try:
        out = run.coq_eval(tag, body)
    except lib.CheckBroken as e:
        return "coqc failed: %s" % e
    return " ".join(out.split())[:6000]


# ------------------------------------------------------------ known findings
def witness_run(run, shoot, gosig, name, files, cmd, args, from_parent=None):
    """run shoot on a literal witness package; -> (obs, dir)"""
    root = l2.make_module(run, "vmod_w")
    d = root / name
    if d.exists():
        shutil.rmtree(d)
    l2.write_files(d, files)
    before = l2.snapshot(d)
    r = l2.run_shoot(shoot, d if from_parent else d / "p", [cmd] + args, timeout=30)
    after = l2.snapshot(d)
    created = sorted(n for n in after if n not in before)
    changed = sorted(n for n in before if n not in after or after[n] != before[n])
    types = {}
    if created:
        rc, out, err = lib.sh([str(gosig)], input="\n".join(str(d / n) for n in created) + "\n", timeout=120)
        for line in out.splitlines():
            f = line.split("\t")
            if len(f) >= 3 and f[1] not in ("END", "PARSE_ERROR"):
                types.setdefault(str(Path(f[0]).relative_to(d)), []).append(f[2])
    return {"rc": r["rc"], "err": r["err"], "created": created, "changed": changed, "types": types,
            "panicked": r["panicked"], "timed_out": r["timed_out"]}


def clean_failure(o):
    return o["rc"] in (1, 2) and "❌" in o["err"] and not o["created"] and not o["changed"] and not o["panicked"]


def handlers(run, shoot, gosig):
    def entry_files(e):
        return {("p/" + n if not n.startswith(("p/", "dest/")) else n): t for n, t in e["witness"]["files"].items()}

    def h_star_no_generate_line(e):
        o = witness_run(run, shoot, gosig, "w_star", entry_files(e), "new", ["-type=*"])
        if o["rc"] == 0 and o["created"] == ["p/.shootnew.go"] and not o["changed"]:
            return "buggy"
        if clean_failure(o) or (o["rc"] == 0 and o["created"] and not o["changed"]
                                and all(re.match(r"p/(a|b)\.shootnew\.", n) for n in o["created"])):
            return "correct"
        return "other: rc=%s created=%s stderr=%s" % (o["rc"], o["created"], o["err"][-300:])

    def h_enum_missing_silent(e):
        o = witness_run(run, shoot, gosig, "w_enummiss", entry_files(e), "enum", ["-type=Color,Nope"])
        if o["rc"] == 0 and o["created"] == ["p/a.shootenum.color.go"] and "❌" not in o["err"]:
            return "buggy"
        if clean_failure(o):
            return "correct"
        return "other: rc=%s created=%s stderr=%s" % (o["rc"], o["created"], o["err"][-300:])

    def h_star_sep_file(e):
        o = witness_run(run, shoot, gosig, "w_starsep", entry_files(e), "new", ["-type=*", "-sep"])
        if o["rc"] == 0 and sorted(o["created"]) == ["p/a.shootnew.alpha.go", "p/a.shootnew.order.go"]:
            return "buggy"
        if (o["rc"] == 0 and sorted(o["created"]) == ["p/a.shootnew.alpha.go", "p/b.shootnew.order.go"]) or clean_failure(o):
            return "correct"
        return "other: rc=%s created=%s stderr=%s" % (o["rc"], o["created"], o["err"][-300:])

    def h_local_type_listed(e):
        o = witness_run(run, shoot, gosig, "w_local", entry_files(e), "new", ["-file=a.go"])
        ty = o["types"].get("p/a.shootnew.go", [])
        if o["rc"] == 0 and ty == ["Alpha", "Loc"]:
            return "buggy"
        if o["rc"] == 0 and ty == ["Alpha"] and o["created"] == ["p/a.shootnew.go"]:
            return "correct"
        return "other: rc=%s created=%s types=%s stderr=%s" % (o["rc"], o["created"], o["types"], o["err"][-300:])

    def h_lower_collision(e):
        o = witness_run(run, shoot, gosig, "w_collide", entry_files(e), "new", ["-type=Order,ORDER"])
        if o["rc"] == 0 and o["created"] == ["p/a.shootnew.order.go"]:
            return "buggy"
        if clean_failure(o) or (o["rc"] == 0 and len(o["created"]) == 2 and
                                sorted(sum(o["types"].values(), [])) == ["ORDER", "Order"]):
            return "correct"
        return "other: rc=%s created=%s stderr=%s" % (o["rc"], o["created"], o["err"][-300:])

    # ---- fixed findings: the defect coming back is a violation
    def h_getgofile_ambiguous(e):
        files = {"p/A0.go": "package p\n\nfunc helper() {\n\ttype T int\n\tvar _ T\n}\n",     # a local T in an earlier file
                 "p/a.go": "package p\n\ntype T struct {\n\tx int\n}\n",
                 "p/b.go": "package p\n\ntype R[T any] struct {\n\tv T\n}\n\ntype Q[T any, U any] struct {\n\tv T\n\tu U\n}\n"}
        seen = set()
        for i in range(12):
            o = witness_run(run, shoot, gosig, "w_ambig", files, "new", ["-type=T"])
            if o["rc"] != 0 or len(o["created"]) != 1:
                return "other: rc=%s created=%s stderr=%s" % (o["rc"], o["created"], o["err"][-300:])
            seen.add(o["created"][0])
        if seen == {"p/a.shootnew.t.go"}:
            return "correct"
        if "p/b.shootnew.t.go" in seen or "p/A0.shootnew.t.go" in seen:
            return "buggy"
        return "other: %s" % sorted(seen)

    def h_enum_star_kinds(e):
        src = "package p\n\n" + "".join(
            "type %s %s\n\nconst (\n\t%sA %s = iota\n\t%sB\n)\n\n" % (n, u, n, n, n)
            for n, u in [("K64", "int64"), ("K8", "uint8"), ("KI", "int"), ("KU16", "uint16"), ("KI8", "int8")])
        o = witness_run(run, shoot, gosig, "w_kinds", {"p/k.go": src}, "enum", ["-file=k.go"])
        ty = o["types"].get("p/k.shootenum.go", [])
        if o["rc"] == 0 and ty == ["K64", "K8", "KI", "KU16", "KI8"]:
            return "correct"
        if o["rc"] == 0 and ty and set(ty) < {"K64", "K8", "KI", "KU16", "KI8"}:
            return "buggy"
        return "other: rc=%s types=%s stderr=%s" % (o["rc"], o["types"], o["err"][-300:])

    def h_rest_missing_type(e):
        src = ('package p\n\nimport (\n\t"context"\n\t"net/http"\n\n\t"github.com/lopolopen/shoot"\n)\n\n'
               'type Client interface {\n\tshoot.RestClient[Client]\n\n\t//shoot: Get("/x")\n'
               '\tGetX(ctx context.Context) (*http.Response, error)\n}\n\ntype Plain interface {\n\tFoo() int\n}\n')
        res = []
        for name in ("Nope", "Plain"):
            o = witness_run(run, shoot, gosig, "w_restmiss", {"p/c.go": src}, "rest", ["-type=" + name])
            if o["rc"] == 0 and o["created"]:
                return "buggy"
            res.append(clean_failure(o))
        if all(res):
            return "correct"
        return "other: %s" % res

    def h_filename_case_clash(e):
        w = e["witness"]
        o = witness_run(run, shoot, gosig, "w_clash", w["files"], w["args_a"][0], w["args_a"][1:])
        if o["rc"] == 0 and o["created"] == ["p/" + w["file"]]:
            return "buggy"
        if clean_failure(o):
            return "correct"
        return "other: rc=%s created=%s stderr=%s" % (o["rc"], o["created"], o["err"][-300:])

    return {"K_filename_case_clash": h_filename_case_clash, "K_star_no_generate_line": h_star_no_generate_line, "K_enum_missing_silent": h_enum_missing_silent,
            "K_star_sep_file": h_star_sep_file, "K_local_type_listed": h_local_type_listed,
            "K_lower_collision": h_lower_collision, "K_getgofile_ambiguous": h_getgofile_ambiguous,
            "K_enum_star_kinds": h_enum_star_kinds, "K_rest_missing_type": h_rest_missing_type}


# ---------------------------------------------------------------------- main
def nontrivial(k):
    """a case is non-trivial when shoot wrote a file or printed a diagnostic, and the package mixes
    declarations the subcommand can and cannot generate for"""
    p = k.pkg
    specs = [t for _, t in p.all_specs(local=False)]
    el = [cligen.eligible(k.cmd, p, t) for t in specs]
    return (bool(k.obs["created"]) or k.obs["msg"]) and any(el) and not all(el)


def report(run, cases, mism, classes, measured, root_tag):
    """turn mismatches into violations; returns number reported"""
    n = 0
    tolerated = 0
    for idx, v in mism:
        k = cases[idx]
        cl = classes[idx]
        if v == 1 and cl in FINDING_OF_CLASS and measured.get(FINDING_OF_CLASS[cl]) == "correct":
            # the open finding of this input class no longer reproduces (someone repaired /repo): the
            # literal model still shows the defect, the property holds on the observation -> quiet
            tolerated += 1
            continue
        if n >= 5:
            n += 1
            continue
        n += 1
        pred = coq_predicted(run, k, "%s_pred_%d" % (root_tag, idx))
        run.violation({
            "kind": "property-fails-on-implementation" if v == 2 else "correspondence-broken",
            "theorem": "C16_run_refines_spec (Properties/C16.v): meets (run ...) (spec ...)",
            "correspondence": "L2:C16:shoot binary vs Model/Cli.v (Corr/CliCorr.v)",
            "subcommand": k.cmd, "args": k.args, "cwd": "<case>/" if k.from_parent else "<case>/p/",
            "command_line": k.cmdline(), "sources": cligen.render_go(k.pkg),
            "observed": {x: k.obs[x] for x in ("rc", "msg", "diag", "nothing", "created", "files", "listed", "stray",
                                                "stray_detail", "stderr", "timed_out", "panicked")},
            "model_predicted_and_verdict": pred, "input_class": cl, "case": k.to_json(),
            "how": "write `sources` under a module that replaces github.com/lopolopen/shoot => /repo, "
                   "cd p (or the case dir when a [dir] argument is given) and run the command line",
        }, no_input=(v != 2))
    return n, tolerated


def main(run):
    proof_ok = run.prove("Properties/C16.v", ["Corr/CliCorr.v"])
    shoot = run.build_shoot()
    gosig = run.build_helper("gosig")
    measured = run.replay_findings(handlers(run, shoot, gosig))
    run.log("findings:", measured)

    nskel = 400 if run.thorough() else 30
    cases = gen_cases(run, nskel)
    # corpus of past failures first
    corpus = sorted((lib.VERIF / "corpus" / "C16").glob("*.json")) if (lib.VERIF / "corpus" / "C16").exists() else []
    ccases = [Case.from_json(json.loads(pth.read_text())["case"]) for pth in corpus]
    cases = ccases + cases
    run.log("cases: %d (skeletons %d, corpus %d)" % (len(cases), nskel, len(ccases)))
    nbuilt = validate_render(run, cases, 400 if run.thorough() else 40)
    run.log("rendered skeletons compiled:", nbuilt)
    execute(run, shoot, gosig, cases)
    run.log("shoot runs done")
    mism, classes = coq_shards(run, cases, "c16cases")
    run.log("coq done: %d mismatches" % len(mism))
    first_pass = len(mism)
    mism = confirm(run, shoot, gosig, cases, mism, classes)
    if first_pass:
        run.log("re-run alone: %d of %d mismatches persist" % (len(mism), min(first_pass, 40)))
    nrep, tolerated = report(run, cases, mism, classes, measured, "c16")
    if not proof_ok and nrep == 0:
        run.proof_failure_violation()

    # ----- coverage
    by_cmd, by_tag, by_class, exits, diags = {}, {}, {}, {}, {}
    for k, cl in zip(cases, classes):
        by_cmd[k.cmd] = by_cmd.get(k.cmd, 0) + 1
        by_tag[k.tag or "corpus"] = by_tag.get(k.tag or "corpus", 0) + 1
        by_class[str(cl)] = by_class.get(str(cl), 0) + 1
        exits[str(k.obs["rc"])] = exits.get(str(k.obs["rc"]), 0) + 1
        if k.obs["diag"]:
            diags[k.obs["diag"]] = diags.get(k.obs["diag"], 0) + 1
    distinct = {}
    for k in cases:
        distinct.setdefault(k.key(), k)
    dn = sum(1 for k in distinct.values() if nontrivial(k))
    written = sum(len(k.obs["created"]) for k in cases)
    kinds = {}
    for k in distinct.values():
        for _, t in k.pkg.all_specs():
            kinds[t.kind] = kinds.get(t.kind, 0) + 1

    def sample(k):
        return {"command_line": k.cmdline(), "cwd": "case dir" if k.from_parent else "p/",
                "files": {n: t for n, t in cligen.render_go(k.pkg).items()},
                "observed": {x: k.obs[x] for x in ("rc", "diag", "nothing", "files", "listed")}}
    picks = []
    for want in ("list", "file", "star"):
        for k in cases:
            if k.tag == want and k.obs["created"] and nontrivial(k):
                picks.append(sample(k))
                break
    cov = {
        "evaluations": len(cases),
        "distinct_nontrivial": dn,
        "rule": ("%d random multi-file package skeletons (1-4 files; exported/unexported/`_`-prefixed/generic structs, "
                 "aliases of structs and of integers, named non-integer types with and without constants, integer types "
                 "of every kind with constants in the same or another file, without constants, over another named "
                 "integer, interfaces with/without shoot.RestClient (exported, unexported, `_`-prefixed, embedding "
                 "error), named struct types, grouped type declarations, function-local types, type parameters named "
                 "like package-level types, case-colliding names; a dest package with same-named structs / non-structs) "
                 "x the four subcommands x {-type lists mixing eligible, wrong-kind, local, missing and repeated names "
                 "(optionally with -file), -file (optionally -sep, -type=*), -type=* (optionally -sep) with a matching "
                 "//go:generate line in one or two files / a non-matching one / none, rejected command lines} x "
                 "{cwd = package dir, [dir] argument}, with subcommand flags that do not take part in selection. "
                 "non-trivial = distinct (package, command line) on which shoot wrote a file or printed a diagnostic "
                 "and whose package has both declarations the subcommand can and cannot generate for" % nskel),
        "exhaustive": False,
        "traces_validated_against_impl": len(cases),
        "programs": len(cases),
        "rendered_skeletons_compiled_with_go_build": nbuilt,
        "files_written_by_shoot": written,
        "cases_by_subcommand": by_cmd, "cases_by_mode": by_tag,
        "cases_by_input_class": {"legend": "0 inside the theorems' guard; 2 K_star_no_generate_line; 3 K_star_sep_file; "
                                 "7 map -to (not modelled, never generated); 8 command line rejected by flag parsing; "
                                 "9 outside the grammar (duplicate package-level type names after a pre-step)", **by_class},
        "exit_codes": exits, "diagnostic_classes": diags,
        "declaration_kinds_in_distinct_cases": kinds,
        "dir_argument_cases": sum(1 for k in cases if k.from_parent),
        "input_class_counters": {
            "-file names an existing .go file that is not a file of the package (_test.go, build-constrained, _x.go, sub/a.go)":
                sum(1 for k in cases if any(a.startswith("-file=") and a[6:] in [n for n, _ in (k.pkg0 or k.pkg).others] for a in k.args)),
            "packages with such other files": sum(1 for k in cases if (k.pkg0 or k.pkg).others),
            "//go:generate line inside a block comment": sum(1 for k in cases for f in k.pkg.files for d in f.decls
                                                            if d[0] == "comment" and d[1].startswith("/*")),
            "package with a declaration-free file": sum(1 for k in cases if "declfree" in k.pkg.features),
            "renamed import of the shoot package in a file with a RestClient interface":
                sum(1 for k in cases if any(f.shoot_alias != "shoot" and any(d[0] == "type" and any(t.rhs == "iface_rest" for t in d[1])
                                                                               for d in f.decls) for f in k.pkg.files)),
            "const blocks with a blank (_) constant": sum(1 for k in cases for f in k.pkg.files for d in f.decls
                                                         if d[0] == "const" and "_" in d[2]),
            "untyped const specs `const N = T(1)`": sum(1 for k in cases for f in k.pkg.files for d in f.decls if d[0] == "rawconst"),
            "package already holds shoot output (rest run first)": sum(1 for k in cases if k.pre),
            "deterministic: -file mode on related file names (suffix / prefix pairs, both sort orders, case, ./) x 4 subcommands":
                sum(1 for k in cases if k.tag == "pair"),
            "deterministic: type group mixing ineligible and eligible specs / dotted base name / renamed import / "
            "generate line in a declaration-free doc.go / local type of an earlier file shadowing a named type x 4 subcommands":
                sum(1 for k in cases if k.tag == "group"),
            "deterministic: listing modes on source files that begin with a foreign `Code generated ... DO NOT EDIT.` header "
            "(wire / protoc / mockgen), a licence block, a build tag x 4 subcommands": sum(1 for k in cases if k.tag == "header"),
            "map -to (not modelled, must be 0)": sum(1 for c_ in classes if c_ == 7),
        },
        "findings_measured": measured,
        "repaired_class_cases_tolerated": tolerated,
        "mismatches_not_reproduced_when_run_alone": min(first_pass, 40) - len(mism),
        "samples": picks[:3] or [sample(cases[0])],
        "trusted_base": lib.TRUSTED_BASE_COMMON + [
            "a package is abstracted to a skeleton (Model/Cli.v pkg): per file the type specs with the facts the "
            "code inspects (AST shape of the right-hand side: struct / interface embedding shoot.RestClient or not / "
            "anything else; alias; integer underlying type as decided by go/types; type parameter names), const "
            "blocks by their type identifier, function-local type declarations, // comment lines; go/parser, "
            "go/types and packages.Load (file order = sorted file names) are not modelled",
            "the regular expression of findCmdLine is modelled as: the comment starts with //go:generate and what "
            "follows ends with the command line (one-line // comments only)",
            "flag.FlagSet.Parse (ExitOnError) is re-implemented by hand in Model/Cli.v parse_args",
            "template execution, goimports/gofmt and MergeSources are not modelled: every selected type is assumed to "
            "generate successfully (the generator keeps to struct/enum/interface bodies on which they do); which "
            "types a written file holds is observed through the marker methods ShootNew/ShootEnum/ShootRest/ShootMap",
            "the order of the Go map iterations (TypesInfo.Defs in getGoFile, srcMap in main) is an arbitrary "
            "permutation oracle in the theorems; the correspondence compares file sets and message lists as multisets",
            "the existence check of ParseCommonFlags on -file is modelled on the skeleton: the file exists iff it is a file "
            "of the package or one of the listed other .go files below the directory (p_others: _test.go, excluded by a build "
            "constraint or a GOOS suffix, starting with `_`, in a sub-directory), which packages.Load does not make part "
            "of the package; the [dir] argument is assumed to exist",
            "`shoot map -to=...` (destination type renaming) and a -path that is not an existing package are NOT modelled "
            "(shoot_cli returns CNotModelled for -to; the stream always passes -path=../dest and never -to)",
            "constants of a type are the typed const specs `N T = ...` / carried-down names (what enumer.makeStr reads), "
            "blank names excluded; `const N = T(1)` is a constant of T for Go but not for shoot, nor for the model",
        ],
    }
    return run.finish(cov, assumptions=[
        "eligibility as read from the property and the documentation: new = struct type specs not starting with `_` "
        "(unexported ones included: the code names their file with a `_`); enum = defined (non-alias) integer types "
        "with at least one typed constant; rest = interfaces embedding shoot.RestClient; map = structs with a "
        "same-named struct in the destination package (-file/-type=* additionally require an exported name)",
        "all-in-one output of -type=* is named after the first file (package order) one of whose comments has a line "
        "`//go:generate <anything><command line>` (C16_find_cmd_line_iff; // comments and lines of block comments)",
        "-file=f.go for an existing f.go that is not a file of the package (x_test.go, build-constraint excluded, sub/a.go): "
        "no declaration of f.go belongs to the package, so the reading is `nothing is generated, exit 0` "
        "(C16_other_file_generates_nothing); the binary prints the `nothing generated` warning",
        "C16_message_lists_every_file holds by the shape of main's loop as modelled; the correspondence run carries the sentence",
        "open findings (classes kept out of the guard of the theorems, compared against the literal model, "
        "witness replayed on every run): K_star_no_generate_line, K_star_sep_file; repaired in /repo and now inside "
        "the theorems and the comparison stream: K_enum_missing_silent, K_local_type_listed, K_lower_collision "
        "(= K_filename_case_clash)",
    ])


def replay(run, path):
    r = json.load(open(path))
    run.prove("Properties/C16.v", ["Corr/CliCorr.v"])
    if "case" not in r:
        print("nothing to replay (no concrete input in %s)" % path)
        return 0
    shoot = run.build_shoot()
    gosig = run.build_helper("gosig")
    k = Case.from_json(r["case"])
    execute(run, shoot, gosig, [k], tag="r")
    mism, classes = coq_shards(run, [k], "c16replay")
    print("command line:", k.cmdline())
    print("observed:", json.dumps({x: k.obs[x] for x in ("rc", "msg", "diag", "nothing", "files", "listed", "stray")}))
    print("model:", coq_predicted(run, k, "c16replay_pred"))
    if mism:
        print("VIOLATION property=C16 replay=%s" % path)
        return 1
    return 0
