"""C07: the bytes shoot writes depend only on the hand-written sources and the command line.

Theorems: coq/Properties/C07.v (model coq/Model/Gen.v: every Go map loop takes an
iteration oracle, the package view is hand-written files + earlier output + overlay).
Correspondence (coq/Corr/GenCorr.v corr_c07 / Pb_c07): packages of
harness/histgen.py x the four subcommands x histories of length <= 4 over
{fresh run, repeat, edit the sources leaving the stale output, delete the output}
x 5 (quick) / 20 (thorough) process executions per point, one of them in a copy
of the module at a different absolute path, one given [dir] from the parent
directory, plus the same command on a fresh copy of the current sources; byte
comparison of the written files; the model predicts per point the outcome class,
the files written, the generated files present and, per file, 'equal to what was
there before'."""
import copy
import json
import shutil
from pathlib import Path

import lib
import l2
import histgen
import histlib
from histlib import Site, run_cmd, h60

EXECS_QUICK, EXECS_THOROUGH = 5, 20
PLAN_QUICK = {"new": 4, "enum": 3, "rest": 2, "map": 3}
PLAN_THOROUGH = {"new": 40, "enum": 20, "rest": 20, "map": 25}


# ------------------------------------------------------------------ edits
def edit_spec(rng, spec, sel):
    """a deep copy of spec with one edit of the hand-written sources; returns (spec', description)"""
    s = copy.deepcopy(spec)
    sub = s.sub
    r = rng.random()
    if r < 0.15:
        # an edit no subcommand looks at
        f = rng.choice(s.hfiles)
        have = {d.name for hf in s.hfiles for d in hf.decls if isinstance(d, histgen.Other)}
        nm = "touch%d" % rng.randint(0, 9999)
        while nm in have:
            nm = "touch%d" % rng.randint(0, 999999)
        f.decls.append(histgen.Other(nm, "func %s() {}\n" % nm))
        return s, "add an unrelated function"
    if sub == "new":
        structs = [st for st in s.structs()]
        st = rng.choice([x for x in structs if x.name in sel] or structs)
        k = rng.random()
        own = [it for it in st.items if isinstance(it, histgen.SField)]
        if k < 0.4 or not own:
            have = {it.name for x in structs for it in x.items if isinstance(it, histgen.SField)}
            n = "ed%d" % rng.randint(0, 999)
            while n in have:
                n = "ed%d" % rng.randint(0, 99999)
            st.items.append(histgen.SField(n, rng.choice(["int", "string", "bool"])))
            return s, "add field %s to %s" % (n, st.name)
        if k < 0.6 and len(own) > 1:
            it = rng.choice(own)
            st.items.remove(it)
            return s, "remove field %s of %s" % (it.name, st.name)
        if k < 0.8:
            it = rng.choice(own)
            it.ty = "float64" if it.ty != "float64" else "int"
            it.goty = None
            it.ptr = False
            it.deflt = ""
            return s, "change the type of %s.%s" % (st.name, it.name)
        if k < 0.9:
            # type-level directive: a whole accessor interface of the type appears / disappears (what embedders embed)
            embedded = {it.tname for x in structs for it in x.items if isinstance(it, histgen.Embed)}
            tgt = rng.choice([x for x in structs if x.name in embedded and x.name in sel] or [st])
            if tgt.dgetter or tgt.dsetter:
                tgt.dgetter = tgt.dsetter = False
            elif rng.random() < 0.5:
                tgt.hasdoc, tgt.dgetter = True, True
            else:
                tgt.hasdoc, tgt.dsetter = True, True
            return s, "toggle the type-level getter/setter directive of %s" % tgt.name
        cands = [it for it in own if not it.name[:1].isupper()]
        if cands:
            it = rng.choice(cands)
            it.hasdoc, it.dget, it.dset = True, not it.dget, it.dset
            return s, "toggle the get directive of %s.%s" % (st.name, it.name)
        st.items.append(histgen.SField("ed%d" % rng.randint(0, 999), "int"))
        return s, "add a field to %s" % st.name
    if sub == "enum":
        consts = [d for f in s.hfiles for d in f.decls if isinstance(d, histgen.Consts)]
        if consts and rng.random() < 0.8:
            c = rng.choice(consts)
            used = {v for d in consts if d.ty == c.ty for _, v in d.cs}
            v = max(used) + rng.randint(1, 5)
            if rng.random() < 0.6:
                c.cs.append(("%sEd%d" % (c.ty, v), v))
                return s, "add a constant to %s" % c.ty
            n, _ = c.cs[-1]
            c.cs[-1] = (n, v)
            return s, "change the value of %s" % n
        f = rng.choice(s.hfiles)
        have = {d.name for hf in s.hfiles for d in hf.decls if isinstance(d, histgen.IntType)}
        k = 0
        while "Extra%d" % k in have:
            k += 1
        nm = "Extra%d" % k
        f.decls.append(histgen.IntType(nm))
        f.decls.append(histgen.Consts(nm, [(nm + "One", 1), (nm + "Two", 2)]))
        return s, "add an enum type"
    if sub == "rest":
        ifs = [d for f in s.hfiles for d in f.decls if isinstance(d, histgen.RIface)]
        it = rng.choice([x for x in ifs if x.name in sel] or ifs)
        k = rng.random()
        if k < 0.4:
            have = {m.name for m in it.methods}
            k = 0
            while "Extra%d" % k in have:
                k += 1
            it.methods.append(histgen.RMethod("Extra%d" % k, "get", "/extra/{id}", ["id"], [],
                                              [histgen.RParam("id", "int", "scalar")]))
            return s, "add a method to %s" % it.name
        if k < 0.7 and it.methods:
            m = rng.choice(it.methods)
            m.path = m.path + "/v2"
            return s, "change the path of %s.%s" % (it.name, m.name)
        it.headers = [h for h in it.headers if h[0] != "X-Ed"] + [("X-Ed", "v%d" % rng.randint(0, 99))]
        return s, "change the headers of %s" % it.name
    # map
    pairs = [st for st in s.structs() if st.name in sel]
    if not pairs:
        pairs = s.structs()
    st = rng.choice(pairs)
    dst = next((d for f in s.dest for d in f.decls if isinstance(d, histgen.Struct) and d.name == st.name), None)
    shootnew = (s.destauxcmd and st.name in s.destauxcmd.types) or (s.auxcmd and st.name in s.auxcmd.types)
    if dst is not None and not shootnew and rng.random() < 0.7:
        have = {it.name for x in s.structs() for it in x.items if isinstance(it, histgen.SField)}
        n = "Ed%d" % rng.randint(0, 999)
        while n in have:
            n = "Ed%d" % rng.randint(0, 99999)
        ty = rng.choice(["int", "string"])
        st.items.append(histgen.SField(n, ty))
        dst.items.append(histgen.SField(n, ty if rng.random() < 0.7 else "int64"))
        return s, "add field %s to both sides of %s" % (n, st.name)
    own = [it for it in st.items if isinstance(it, histgen.SField)]
    if own and not shootnew:
        it = rng.choice(own)
        it.maptag = "-" if it.maptag != "-" else ""
        return s, "toggle map:\"-\" on %s.%s" % (st.name, it.name)
    f = rng.choice(s.hfiles)
    have = {d.name for hf in s.hfiles for d in hf.decls if isinstance(d, histgen.Other)}
    k = 0
    while "touchm%d" % k in have:
        k += 1
    f.decls.append(histgen.Other("touchm%d" % k, "func touchm%d() {}\n" % k))
    return s, "add an unrelated function"


# ------------------------------------------------------------------ cases
class Case:
    def __init__(self, idx, spec, cmd, sel, points):
        self.idx, self.spec, self.cmd, self.sel, self.points = idx, spec, cmd, sel, points

    def describe(self):
        return {"subcommand": self.spec.sub, "command": self.cmd.argv(),
                "history": [{"edit": p["edit_desc"], "delete_output": p["delete"]} for p in self.points]}


def make_case(rng, idx, sub):
    import c08
    for _ in range(50):
        spec = histgen.gen_pkg(rng, sub)
        files = sorted({f.name for f in spec.hfiles})
        r = rng.random()
        if r < 0.35:
            cands = [f for f in files if len(c08.generating(spec, spec.eligible(f))) >= 2]
            if not cands:
                continue
            f = rng.choice(cands)
            cmd = spec.cmd_file(f, sep=rng.random() < 0.3)
            sel = c08.generating(spec, spec.eligible(f))
        elif r < 0.55:
            sel = c08.generating(spec, spec.eligible())
            if len(sel) < 2:
                continue
            cmd = spec.cmd_star(sep=rng.random() < 0.3)
            hf = rng.choice(spec.hfiles)
            hf.gen.append("//go:generate go run github.com/lopolopen/shoot/cmd/shoot " + " ".join(cmd.argv()))
            # the same command given [dir] from the module root has its own line (the command line is matched verbatim)
            hf.gen.append("//go:generate go run github.com/lopolopen/shoot/cmd/shoot " + " ".join(cmd.argv()) + " ./" + spec.name)
        else:
            allsel = c08.generating(spec, spec.eligible())
            if len(allsel) < 2:
                continue
            sel = rng.sample(allsel, rng.randint(2, min(4, len(allsel))))
            cmd = spec.cmd_types(sel)
        # history: the first point is the fresh run
        kinds = ["fresh"] + [rng.choice(["repeat", "edit", "edit", "delete", "edit+delete"]) for _ in range(rng.randint(1, 3))]
        points, cur = [], spec
        for k in kinds:
            p = {"edit": None, "edit_desc": None, "delete": k in ("delete", "edit+delete"), "spec": cur}
            if k in ("edit", "edit+delete"):
                cur, desc = edit_spec(rng, cur, sel)
                cur.auxcmd, cur.destauxcmd = spec.auxcmd, spec.destauxcmd
                p["edit"], p["edit_desc"], p["spec"] = cur, desc, cur
            points.append(p)
        return Case(idx, spec, cmd, sel, points)
    raise lib.CheckBroken("could not generate a %s package" % sub)


def gen_files(pkgdir, sub):
    """{name: bytes} of the generated files of this subcommand in the package directory"""
    res = {}
    for p in Path(pkgdir).iterdir():
        if p.is_file() and (".shoot" + sub) in p.name:
            res[p.name] = p.read_bytes()
    return res


def exec_obs(r, pkgdir, sub):
    fs = gen_files(pkgdir, sub)
    files = []
    for n in sorted(fs, key=lambda x: x.encode()):
        raw = fs[n]
        files.append((n, h60(raw), h60(raw.partition(b"\n")[2])))
    return {"ok": r["rc"] == 0, "files": files, "written": sorted(r["written"], key=lambda x: x.encode()),
            "rc": r["rc"], "err": r["err"][-400:], "panicked": r["panicked"], "timed_out": r["timed_out"]}


def copy_site(src_root, dst_root, spec):
    if Path(dst_root).exists():
        shutil.rmtree(dst_root)
    shutil.copytree(src_root, dst_root)
    s = Site.__new__(Site)
    s.root, s.spec, s.pkgdir = Path(dst_root), spec, Path(dst_root) / spec.name
    return s


def write_sources(site, files, sub, keep_generated=True):
    """replace the hand-written files of the package (and destination) directories; generated files stay"""
    for d in {Path(k).parent for k in files}:
        dd = site.root / d
        dd.mkdir(parents=True, exist_ok=True)
        for p in dd.iterdir():
            if p.is_file() and p.suffix == ".go" and ".shoot" not in p.name:
                p.unlink()
    l2.write_files(site.root, {k: v for k, v in files.items()})


def execute_case(run, shoot, case, nexec):
    spec = case.spec
    root = run.scratch / "c07" / ("k%04d" % case.idx)
    base = {}          # id(spec version) -> base files (with aux outputs)

    def files_of(sp, tag):
        if id(sp) not in base:
            base[id(sp)] = histlib.base_files(run, shoot, sp, "h%04d_%s" % (case.idx, tag))
        return base[id(sp)]
    main = Site(root / "main", spec, files_of(spec, "v0"))
    case.sources = [files_of(spec, "v0")]
    sub = spec.sub
    for pi, pt in enumerate(case.points):
        sp = pt["spec"]
        if pt["edit"] is not None:
            fl = files_of(sp, "v%d" % pi)
            case.sources.append(fl)
            write_sources(main, fl, sub)
        if pt["delete"]:
            for n in gen_files(main.pkgdir, sub):
                (main.pkgdir / n).unlink()
        # executions from this same point: copies of the module directory; the last but one at a deeper path, the
        # last one given [dir] from the parent directory
        execs = []
        for e in range(nexec):
            if e == nexec - 1:
                dst = root / ("p%d" % pi) / "reloc" / "a" / "b" / ("m%d" % e)
            elif e == nexec - 2:
                dst = root / ("p%d" % pi) / "elsewhere" / ("m%d" % e)
            else:
                dst = root / ("p%d" % pi) / ("m%d" % e)
            dst.parent.mkdir(parents=True, exist_ok=True)
            site = copy_site(main.root, dst, sp)
            if e == nexec - 1:
                r = run_cmd(shoot, site, case.cmd, cwd=site.root, args=case.cmd.argv() + ["./" + sp.name])
            else:
                r = run_cmd(shoot, site, case.cmd)
            execs.append(exec_obs(r, site.pkgdir, sub))
            if e == 0:
                first = site
            else:
                shutil.rmtree(site.root, ignore_errors=True)
        pt["execs"] = execs[:-1]
        pt["dirarg"] = execs[-1]
        # the same command on a fresh copy of the current sources
        ref = Site(root / ("p%d" % pi) / "ref", sp, files_of(sp, "v%d" % pi))
        pt["ref"] = exec_obs(run_cmd(shoot, ref, case.cmd), ref.pkgdir, sub)
        shutil.rmtree(ref.root, ignore_errors=True)
        # the history continues from the first execution
        shutil.rmtree(main.root)
        shutil.move(str(first.root), str(main.root))
    shutil.rmtree(root, ignore_errors=True)
    return case


def coq_exec(o):
    return ("{| x_ok := %s; x_files := %s; x_written := %s |}"
            % (histgen.cb(o["ok"]), histgen.clist("(%s, %d%%N, %d%%N)" % (histgen.cs(n), a, b) for n, a, b in o["files"]),
               histgen.clist(histgen.cs(n) for n in o["written"])))


def coq_case(case):
    pts = []
    for pt in case.points:
        pts.append("{| hp_edit := %s; hp_delete := %s; hp_execs := %s; hp_dirarg := Some %s; hp_ref := %s |}"
                   % ("Some " + pt["edit"].coq() if pt["edit"] is not None else "None", histgen.cb(pt["delete"]),
                      histgen.clist(coq_exec(x) for x in pt["execs"]), coq_exec(pt["dirarg"]), coq_exec(pt["ref"])))
    return "{| h_pkg := %s; h_cmd := %s; h_points := %s |}" % (case.spec.coq(), case.cmd.coq(), histgen.clist(pts))


# ------------------------------------------------------------------ known findings
def handlers(run, shoot):
    import c08

    def site(tag, files, pkg="p"):
        return c08._site(run, "c07_" + tag, files, pkg)

    def sh(s, args, cwd=None):
        return l2.run_shoot(shoot, cwd or s.pkgdir, args, timeout=60)

    def embed_order(entry):
        w = entry["witness"]
        s = site("eo", w["files"])
        args = ["new", "-getset", "-file=f.go"]
        r1 = sh(s, args)
        t1 = (s.pkgdir / "f.shootnew.go").read_text() if r1["rc"] == 0 else ""
        r2 = sh(s, args)
        t2 = (s.pkgdir / "f.shootnew.go").read_text() if r2["rc"] == 0 else ""
        if r1["rc"] != 0 or r2["rc"] != 0:
            return "other: exit %s / %s" % (r1["rc"], r2["rc"])
        if t1 == t2:
            return "correct"
        return "buggy" if ("BaseGetter\n" in t2 and "\tBaseGetter\n" not in t1) else "other: second run differs in another way"

    def alias_dup(entry):
        w = entry["witness"]
        seen = set()
        for i in range(min(w.get("runs", 24), 16)):
            s = site("ad", w["files"])
            r = sh(s, w["args"])
            if r["rc"] != 0:
                return "other: exit %s: %s" % (r["rc"], r["err"][-300:])
            txt = (s.pkgdir / w["file"]).read_text()
            seen.add(tuple(l.strip() for l in txt.splitlines() if "strings.Replace" in l))
            shutil.rmtree(s.root, ignore_errors=True)
            if len(seen) > 1:
                return "buggy"
        return "correct"

    def cwd_dep(entry):
        """run the same command line from inside the module and from outside it (absolute [dir])"""
        w = entry["witness"]
        a, b = site(entry["id"] + "_a", w["files"], w["pkg"]), site(entry["id"] + "_b", w["files"], w["pkg"])
        ra = sh(a, w["args"] + [str(a.pkgdir)], cwd=a.root)
        rb = sh(b, w["args"] + [str(b.pkgdir)], cwd=run.scratch)
        if ra["rc"] != 0:
            return "other: the run from inside the module failed: %s" % ra["err"][-300:]
        if rb["rc"] != 0:
            return "buggy" if w["mode"] == "fatal" else "other: exit %s from outside the module: %s" % (rb["rc"], rb["err"][-300:])
        ta = (a.pkgdir / w["file"]).read_text().split("\n", 1)[1]
        tb = (b.pkgdir / w["file"]).read_text().split("\n", 1)[1]
        if ta == tb:
            return "correct"
        return "buggy" if w["mode"] == "import-dropped" and w["import"] in ta and w["import"] not in tb else \
            "other: outputs differ unexpectedly"

    def aio_stale(entry):
        w = entry["witness"]
        s = site("as", w["files_v1"])
        r1 = sh(s, w["args"])
        write_sources(s, w["files_v2"], "new")
        r2 = sh(s, w["args"])
        f = site("as_ref", w["files_v2"])
        r3 = sh(f, w["args"])
        if r1["rc"] or r2["rc"] or r3["rc"]:
            return "other: exit %s %s %s" % (r1["rc"], r2["rc"], r3["rc"])
        return "correct" if (s.pkgdir / w["file"]).read_text() == (f.pkgdir / w["file"]).read_text() else "buggy"

    def getgofile(entry):
        w = entry["witness"]
        files = {"g/" + k: v for k, v in w["files"].items()}
        names = set()
        for i in range(16):
            s = site("gg", files, "g")
            r = sh(s, ["new", "-type=T"])
            if r["rc"] != 0:
                return "other: exit %s" % r["rc"]
            names |= {p.name for p in s.pkgdir.iterdir() if ".shootnew" in p.name}
            shutil.rmtree(s.root, ignore_errors=True)
        return "correct" if names == {"a.shootnew.t.go"} else "buggy"
    def selects_generated(entry):
        w = entry["witness"]
        a, b = site("sg_a", w["files"]), site("sg_b", w["files"])
        ra = sh(a, w["args"])
        rp = sh(b, w["args_prepare"])
        rb = sh(b, w["args"])
        if ra["rc"] or rp["rc"] or rb["rc"]:
            return "other: exit %s %s %s: %s" % (ra["rc"], rp["rc"], rb["rc"], (ra["err"] + rp["err"] + rb["err"])[-300:])
        ta = (a.pkgdir / w["file"]).read_text()
        tb = (b.pkgdir / w["file"]).read_text()
        if ta == tb:
            return "correct"
        return "buggy" if "func Newclient(" in tb and "func Newclient(" not in ta else "other: outputs differ unexpectedly"

    return {"K_new_selects_generated": selects_generated, "K_embed_order": embed_order, "K_rest_alias_dup": alias_dup, "K_rest_cwd": cwd_dep, "K_goimports_cwd": cwd_dep,
            "K_aio_overlay_stale": aio_stale, "K_getgofile_ambiguous": getgofile}


def corpus_histories(start):
    """fixed histories for classes the random stream reaches rarely"""
    S, E, F = histgen.Struct, histgen.Embed, histgen.SField
    res = []

    def point(spec, edit=None, desc=None, delete=False):
        return {"edit": edit, "edit_desc": desc, "delete": delete, "spec": spec}
    # (1) new -json -type=*: the second run lists the types of the first run's output too; the helper struct of the JSON
    # code (_json_T) must not be picked up as a type to construct (repeat = fresh)
    fj = histgen.HFile("user.go", [S("User", [F("name", "string"), F("age", "int", jsontag="jage"), F("Open", "bool")]),
                                    S("Acct", [F("id", "int64"), F("memo", "string")])])
    pj = histgen.Pkg("new", "p", [fj], ["-getset", "-json"])
    cj = pj.cmd_star()
    fj.gen.append("//go:generate go run github.com/lopolopen/shoot/cmd/shoot " + " ".join(cj.argv()))
    fj.gen.append("//go:generate go run github.com/lopolopen/shoot/cmd/shoot " + " ".join(cj.argv()) + " ./p")
    res.append(Case(start, pj, cj, ["User", "Acct"], [point(pj), point(pj), point(pj), point(pj, delete=True)]))
    # (2) new -getset, one file per type, Son embeds Base and comes after it: the accessor interfaces of Base change
    # (type-level getter directive: BaseSetter disappears) while the old output stays in place; Son must be generated
    # against the NEW interfaces of Base (overlay + reload after Base), as in a fresh run
    def chain(dgetter, dsetter):
        fb = histgen.HFile("base.go", [S("Base", [F("z", "string"), F("b", "int")], hasdoc=dgetter or dsetter,
                                         dgetter=dgetter, dsetter=dsetter),
                                       S("Son", [E("Base"), F("k", "string")])])
        return histgen.Pkg("new", "p", [fb], ["-getset"])
    v0, v1, v2 = chain(False, False), chain(True, False), chain(False, True)
    for k, cmd in enumerate((v0.cmd_types(["Base", "Son"]), v0.cmd_file("base.go", sep=True))):
        res.append(Case(start + 1 + k, v0, cmd, ["Base", "Son"],
                        [point(v0), point(v1, v1, "type-level getter directive on Base"), point(v1),
                         point(v2, v2, "type-level setter directive on Base"), point(v0, v0, "no type-level directive")]))
    return res


# ------------------------------------------------------------------ main
def main(run):
    proof_ok = run.prove("Properties/C07.v", ["Corr/GenCorr.v"])
    shoot = run.build_shoot()
    outcome = run.replay_findings(handlers(run, shoot))
    plan = PLAN_THOROUGH if run.thorough() else PLAN_QUICK
    nexec = EXECS_THOROUGH if run.thorough() else EXECS_QUICK
    cases = []
    for sub in ("new", "enum", "rest", "map"):
        for _ in range(plan[sub]):
            cases.append(make_case(run.rng, len(cases), sub))
    import c08
    cases += corpus_histories(len(cases))
    for cc in c08.corpus_cases(0):
        # fresh, repeat, delete the output and run
        pts = [{"edit": None, "edit_desc": None, "delete": d, "spec": cc.spec} for d in (False, False, True)]
        names = {s.name for s in cc.spec.structs()}
        if cc.spec.dirarg == "abs":
            # C08 drives this chain with an absolute [dir]; here it is run from inside the package directory
            sp = copy.copy(cc.spec)
            sp.dirarg = False
            cc = c08.Case(cc.idx, sp, sp.cmd_file("chain.go"), sp.cmd_file("chain.go", sep=True), cc.sel, [sp.cmd_types(cc.sel)])
        if "Delta" in names or cc.spec.dirarg or "-short" in cc.spec.flags or cc.spec.sub == "rest":
            continue                       # the name-collision shapes and the [dir]-driven case stay with C08 (C07 has its own [dir] run)
        cmds = [cc.aio] if (cc.spec.sub == "map" or "Leaf" in names) else ([cc.aio, cc.perms[0]] if "Mid" in names else [cc.perms[0]])
        for cmd in cmds:
            cases.append(Case(len(cases), cc.spec, cmd, cc.sel, [dict(p) for p in pts]))
    run.log("cases:", len(cases), "points:", sum(len(c.points) for c in cases))
    histlib.pmap(lambda c: execute_case(run, shoot, c, nexec), cases)
    nruns = sum(len(p["execs"]) + 2 for c in cases for p in c.points)
    run.log("shoot runs done:", nruns)
    # fixed block (harness/c07fixed.py): no draw from run.rng, judged by direct byte comparison
    import c07fixed
    fx_stale, fx_det = c07fixed.run_fixed(run, shoot, histlib.pmap)
    fx_runs = sum(x.get("runs", 0) for x in fx_stale + fx_det)
    fx_fail = [x for x in fx_stale + fx_det if x.get("fail") or x.get("broken")]
    run.log("fixed block: %d stale-output histories, %d repeated-execution cases, %d shoot runs, %d failing"
            % (len(fx_stale), len(fx_det), fx_runs, len(fx_fail)))
    for x in fx_fail[:6]:
        c = x["case"]
        stale = "v0" in c
        run.violation({"kind": "property-fails-on-implementation" if x.get("fail") else "correspondence-broken",
                       "theorem": "C07_run_independent_of_schedule_and_history / C07_twice_is_fixpoint",
                       "correspondence": "L2:C07:fixed block (harness/c07fixed.py): direct byte comparison of what the command wrote",
                       "case": {"name": c["name"], "package_dir": c["pkg"], "command": c["args"],
                                "history": (["fresh run on sources_v0", "edit: " + c["edit"] + " (output left in place)", "run", "run",
                                             "delete the output", "run"] if stale else
                                            "the same command %d times: fresh, then cycling repeat / delete the output and run / fresh "
                                            "copy of the module at another path" % c07fixed.NEXEC_QUICK)},
                       "sources_by_version": [c["v0"], c["v1"]] if stale else [c["files"]],
                       "expected": ("every run after the edit writes the bytes the same command writes on a fresh copy of the edited "
                                    "sources" if stale else "every execution writes the same bytes"),
                       "observed": x.get("fail") or x.get("broken"), "steps": x.get("steps"),
                       "how": "module with go.mod `replace shoot => <repo>`, the files of sources_by_version[0] written below it, the "
                              "command run in <package_dir>; files named *.shoot*.go are the output"},
                      no_input=not x.get("fail"))
    rendered = [coq_case(c) for c in cases]
    mism, skipped = histlib.coq_shards(run, "c07", rendered, "mismatches_c07", "c07case", shard=5, count_fn="skipped_c07")
    run.log("coq done, mismatches:", mism)
    for idx, v in mism[:5]:
        c = cases[idx]
        run.violation({"kind": "property-fails-on-implementation" if v == 2 else "correspondence-broken",
                       "theorem": "C07_run_independent_of_schedule_and_history / C07_twice_is_fixpoint",
                       "correspondence": "L2:C07:byte comparison along histories vs Model/Gen.v run (Corr/GenCorr.v corr_c07 / Pb_c07)",
                       "case": c.describe(), "sources_by_version": c.sources,
                       "observed": [{k: p[k] for k in ("execs", "dirarg", "ref")} for p in c.points],
                       "coq_case": rendered[idx],
                       "how": "write version 0 of the sources into a module (go.mod: replace shoot => /repo); per history point: "
                              "apply the edit / delete the *.shoot<cmd>*.go files, copy the module directory, run the command in "
                              "each copy (the last one as `shoot <args> ./<pkg>` from the module root), compare the bytes; the "
                              "reference is the same command on a fresh copy of the current sources"}, no_input=(v != 2))
    if not proof_ok and not mism and not fx_fail:
        run.proof_failure_violation()
    kinds = {}
    changed = 0
    for c in cases:
        for i, p in enumerate(c.points):
            k = ("fresh" if i == 0 else ("edit" if p["edit"] is not None else "") + ("+delete" if p["delete"] else "") or "repeat")
            kinds[k] = kinds.get(k, 0) + 1
            if i > 0 and p["execs"][0]["files"] != c.points[i - 1]["execs"][0]["files"]:
                changed += 1
    cov = {
        "evaluations": nruns + fx_runs,
        "fixed_block": {"stale_output_histories": len(fx_stale), "repeated_execution_cases": len(fx_det),
                        "executions_per_repeated_case": c07fixed.NEXEC_THOROUGH if run.thorough() else c07fixed.NEXEC_QUICK,
                        "shoot_invocations": fx_runs, "failing": len(fx_fail),
                        "cases": [x["case"]["name"] for x in fx_stale + fx_det]},
        "distinct_nontrivial": len({json.dumps([c.cmd.argv(), c.sources], sort_keys=True) for c in cases
                                    if any(p["edit"] is not None or p["delete"] for p in c.points)}),
        "rule": ("packages of harness/histgen.py (%s), command in one of the modes -file= (+ -sep), -type=* with a go:generate "
                 "line (+ -sep), -type=<2..4 names>; histories: fresh run, then 1..3 points out of {repeat, edit the sources and "
                 "keep the stale output, delete the output, both}; edits: add/remove/retype a field, toggle a field directive or the type-level getter/setter directive of an embedded struct, add a "
                 "constant / change a value / add a type, add a method / change a path / change headers, add a field to both map "
                 "sides / toggle map:\"-\", add an unrelated function; per point %d executions from copies of the same directory "
                 "(one copy at a deeper absolute path, one given [dir] from the module root) and the same command on a fresh "
                 "copy of the current sources.  non-trivial = distinct (command, source versions) whose history has an edit or a "
                 "deletion; plus fixed histories: the corpus packages of c08.py (fresh, repeat, delete), new -getset -json -type=* "
                 "repeated twice (the second run lists the first run's output), new -getset with one file per type where the "
                 "accessor interfaces of the embedded type appear/disappear while the old output stays; plus the fixed block of "
                 "harness/c07fixed.py (same on every seed, direct byte comparison, not part of distinct_nontrivial): new with "
                 "-getset/-json/-opt combinations where a field's accessor directive appears/disappears between runs with the "
                 "stale output in place, enum/map analogues, and repeated executions of map on ShootNew-marker types with "
                 "hand-written accessors (parseGetSetMethods fallback), a wide new -getset -json -opt type, enum -json -type=*"
                 % (plan, nexec)),
        "exhaustive": False,
        "traces_validated_against_impl": sum(len(c.points) for c in cases),
        "programs": len(cases),
        "shoot_invocations": nruns,
        "history_points_by_kind": kinds,
        "points_exempt_from_fresh_reference_comparison": sum(skipped),
        "points_judged_against_fresh_reference": sum(len(c.points) for c in cases) - sum(skipped),
        "points_whose_output_changed": changed,
        "failed_runs": sum(1 for c in cases for p in c.points for x in p["execs"] if not x["ok"]),
        "findings_measured": outcome,
        "samples": [{"case": c.describe(), "sources_v0": c.sources[0]} for c in (cases[0], cases[len(cases) // 2], cases[-1])],
        "trusted_base": lib.TRUSTED_BASE_COMMON + TRUSTED,
    }
    return run.finish(cov, assumptions=ASSUMPTIONS)


TRUSTED = [
    "the model takes no absolute path and no clock: that the implementation does not either is observed (relocated copies, "
    "[dir] from the parent), not proved; the two known cwd dependences (K_rest_cwd, K_goimports_cwd) are replayed",
    "every Go `range` over a map of the modelled code goes through an oracle; Go's randomised iteration is sampled by the "
    "repeated process executions (a fresh seed per process)",
    "packages.Load with an overlay = hand-written + generated-on-disk with overlay entries replacing/adding by file name, "
    "sorted by name; Scope.Lookup on a redeclared name = the declaration of the first file in that order",
    "gofmt/goimports are deterministic functions of their input (a parameter); the template text is abstracted to tokens: "
    "'bytes equal to the previous step' is predicted through equality of the abstract files",
    "the per-type analyses are transcribed for the compact grammar of harness/histgen.py (see C08's trusted base)",
]
ASSUMPTIONS = [
    "'earlier shoot output' in the generated histories = output of earlier runs of the SAME command on possibly edited sources; files "
    "generated by other subcommands (the shoot-new side the mapper reads) count as inputs -- except that `new -type=*` selecting a "
    "struct that `rest` generated is a defect (open finding K_new_selects_generated: witness replayed, class outside the random stream)",
    "the model takes no path and no clock: location-independence holds by construction of the model and is only OBSERVED for the "
    "implementation (relocated copies, [dir] from the module root)",
    "K_embed_order / K_aio_overlay_stale (open): points at which a selected type embeds another selected struct (new) are "
    "compared with the model (which reproduces the dependence on generated files) but excluded from the history-independence "
    "sentence",
    "K_rest_alias_dup (open): two parameters aliased to one name are outside the generated stream; the witness is replayed",
    "K_rest_cwd / K_goimports_cwd (open): invoking with [dir] from OUTSIDE the module is outside the stream (from the module "
    "root it is inside); the witnesses are replayed",
]


def replay(run, path):
    r = json.load(open(path))
    print("replay of %s: re-run `VERIF_SEED=%s bin/check C07 %s` (cases are regenerated from the seed); sources, commands and "
          "observations are in the file" % (path, r.get("seed"), r.get("tier", "quick")))
    run.tier = r.get("tier", "quick")
    return main(run)
