"""C18 clean failures: theorems in coq/Properties/C18.v, correspondence of
coq/Model/Fail.v (phase/effect-log model of one shoot run) with the freshly built
shoot binary on typed damaged inputs (harness/failgen.py), compared inside Coq
(coq/Corr/FailCorr.v)."""
import concurrent.futures as cf
import hashlib
import json
import os
import re
import shutil
from pathlib import Path

import failgen
import lib
import l2

PAR = 4
SHOOT_TIMEOUT = 25

DIAG_PATTERNS = [
    ("DWorkDir", r"working dir not exists"),
    ("DFileNotGo", r"file must be a go file"),
    ("DFileNotExists", r"❌ file not exists"),
    ("DGormNeedsSql", r"-gorm only works when -sql"),
    ("DToNeedsType", r"-to only works when -type"),
    ("DToAlign", r"-to list must align"),
    ("DDestDir", r"destination dir not exists"),
    ("DNoPackage", r"no package found with pattern"),
    ("DMultiPkg", r"multiple packages found"),
    ("DNotInFile", r"is not in the specified file"),
    ("DNewNotExists", r"❌ type not exists"),
    ("DNewNotStruct", r"is not a struct type"),
    ("DNewExportedGetSet", r"should not has get/set flag"),
    ("DEnumAlias", r"should not be an alias"),
    ("DEnumNonInt", r"can't handle non-integer constant type"),
    ("DEnumNotIntValue", r"constant is not an integer"),
    ("DEnumNotExists", r"enum type not exists or has no constants"),
    ("DDupOutput", r"more than one type is written to"),
    ("DRestArrayReturn", r"unsupported array return type"),
    ("DRestNotExists", r"rest client interface not exists"),
    ("DRestParamType", r"unsupported param type"),
    ("DRestAmbiguousBody", r"ambiguous body binding"),
    ("DRestAmbiguousQuery", r"ambiguous query map binding"),
    ("DRestNeedsBody", r"needs a struct parameter as request body"),
    ("DRestUnnamedParam", r"parameters must be named"),
    ("DRestPtrPathParam", r"must not be a pointer"),
    ("DRestBadPath", r"bad path format"),
    ("DRestFewResults", r"should at least return response and error"),
    ("DRestManyResults", r"must not return more than three"),
    ("DRestSecondToLast", r"second to last return value"),
    ("DRestLast", r"the last return value of method"),
    ("DRestNamedResults", r"named return list is not supported"),
    ("DRestReturnType", r"unsupported return type"),
    ("DRestExtract", r"extract struct fields"),
    ("DMapSrcNotExists", r"src type not exists"),
    ("DMapDestNotExists", r"dest type not exists"),
    ("DMapPtrRecv", r"reserved func must have a pointer receiver"),
    ("DMapWriteParam", r"parameter of write method must be"),
    ("DMapDupWrite", r"more than one manual write method"),
    ("DMapReadParam", r"parameter of read method must be"),
    ("DMapDupRead", r"more than one manual read method"),
    ("DExecTemplate", r"executing template"),
    ("DFormatSource", r"❌ format source"),
    ("DMergeSources", r"merge sources error"),
    ("DCreateTemp", r"creating temporary file"),
    ("DWriteTemp", r"❌ writing output"),
    ("DRename", r"moving tempfile to output file"),
    ("DLoadError", r"named files must be \.go files|❌ -: |❌ err: |❌ go: "),
]
DIAG_RE = [(n, re.compile(p)) for n, p in DIAG_PATTERNS]


def classify(rc, out, err):
    """the diagnostic class of a finished run, from its output only"""
    txt = err + "\n" + out
    if rc == 0:
        if "go generate successfully" in err:
            return "DSuccess"
        if "nothing generated" in err:
            return "DNothing"
        if re.match(r"^v\d+\.\d+", out.strip()) and not err.strip():
            return "DVersion"
        if "Usage" in err:
            return "DHelp"
        return "DOther"
    if rc == 2:
        bad = re.search(r"flag provided but not defined|bad flag syntax|invalid (boolean )?value|flag needs an argument", err)
        if "Usage: shoot <subcommand>" in err:
            return "DTopFlag" if bad else "DUsageNoArgs"
        if re.search(r"Usage of (new|enum|rest|map):", err):
            return "DFlagError" if bad else "DUsageNoSubArgs"
        return "DOther"
    if rc == 1:
        fatal = [l for l in err.splitlines() if "❌" in l]
        if "go generate successfully" in err and fatal:
            return "DCleanError"
        last = fatal[-1] if fatal else ""
        for n, r in DIAG_RE:
            if r.search(last):
                return n
        return "DOther"
    return "DOther"


def has_diagnostic(rc, out, err):
    """the run said what happened in shoot's own voice: a cross-marked fatal line for exit 1, the usage text (with the
    flag package's error line where there is one) for exit 2, a success / nothing-generated / usage / version line for 0"""
    if rc == 1:
        return any("❌" in l for l in err.splitlines())
    if rc == 2:
        return bool(re.search(r"Usage: shoot <subcommand>|Usage of (new|enum|rest|map):", err))
    if rc == 0:
        return bool(re.search(r"go generate successfully|nothing generated|Usage", err) or re.match(r"^v\d+\.\d+", out.strip()))
    return False


def snapshot(d):
    """{relative name: digest} for every entry below d (files by content, directories and symlinks by kind)"""
    res = {}
    d = Path(d)
    for root, dirs, files in os.walk(d, followlinks=False):
        for n in dirs + files:
            p = Path(root) / n
            rel = str(p.relative_to(d))
            if p.is_symlink():
                res[rel] = "link:" + os.readlink(p)
            elif p.is_dir():
                res[rel] = "dir"
            else:
                res[rel] = hashlib.sha1(p.read_bytes()).hexdigest()
    return res


def write_layout(base, layout):
    base = Path(base)
    (base / "p").mkdir(parents=True, exist_ok=True)
    for rel, v in sorted(layout.items(), key=lambda kv: (not isinstance(kv[1], tuple), kv[0])):
        p = base / rel
        p.parent.mkdir(parents=True, exist_ok=True)
        if isinstance(v, tuple):
            if v[0] == "dir":
                p.mkdir(exist_ok=True)
            else:
                os.symlink(v[1], p)
        else:
            p.write_text(v)


class World:
    """scratch Go module holding one directory per case"""
    def __init__(self, run):
        self.run = run
        self.shoot = run.build_shoot()
        self.mod = l2.make_module(run, "c18mod")
        self.nomod = run.scratch / "c18nomod"
        self.nomod.mkdir(exist_ok=True)

    def case_dir(self, case, cid):
        return (self.mod if case.inmodule else self.nomod) / cid

    def execute(self, case, cid, timeout=SHOOT_TIMEOUT, keep=False, fault=None):
        """render, run shoot, observe; returns the observation dict.  fault: None | 'immutable' | 'full'"""
        d = self.case_dir(case, cid)
        if d.exists():
            shutil.rmtree(d)
        layout = case.layout("c18mod/" + cid)
        undo = []
        try:
            if fault == "full":
                # the package directory is a tiny tmpfs that is filled up after the sources were written
                (d / "p").mkdir(parents=True)
                lib.sh(["mount", "-t", "tmpfs", "-o", "size=64k", "tmpfs", str(d / "p")], check=True)
                undo.append(["umount", "-l", str(d / "p")])
            write_layout(d, layout)
            if fault == "full":
                try:
                    with open(d / "p" / "zz_fill.bin", "wb") as fh:
                        while True:
                            fh.write(b"x" * 4096)
                            fh.flush()
                except OSError:
                    pass
            if fault == "immutable":
                lib.sh(["chattr", "+i", str(d / "p")], check=True)
                undo.append(["chattr", "-i", str(d / "p")])
            before = snapshot(d)
            cwd = d / "p" if case.cwd_is_pkg else d
            r = l2.run_shoot(self.shoot, cwd, case.args, timeout=timeout)
            after = snapshot(d)
        finally:
            for u in reversed(undo):
                lib.sh(u)
        changed = sorted(n for n in set(before) | set(after) if before.get(n) != after.get(n))
        files = sorted((n[2:] if n.startswith("p/") else "../" + n) for n in changed)
        o = {"rc": r["rc"], "diag": classify(r["rc"], r["out"], r["err"]) if not r["timed_out"] else "DOther",
             "hasdiag": has_diagnostic(r["rc"], r["out"], r["err"]) and not r["timed_out"], "panic": r["panicked"],
             "timeout": r["timed_out"], "changed": bool(changed), "files": files,
             "stderr_tail": r["err"][-600:], "stdout_tail": r["out"][-200:], "wall": round(r["wall"], 3)}
        if not keep:
            shutil.rmtree(d, ignore_errors=True)
        return o, layout


def coq_obs(o):
    return ("{| o_exit := %d; o_diag := %s; o_hasdiag := %s; o_panic := %s; o_timeout := %s; o_changed := %s; o_files := %s |}"
            % (o["rc"] if o["rc"] >= 0 else 255, o["diag"], failgen.cb(o["hasdiag"]), failgen.cb(o["panic"]),
               failgen.cb(o["timeout"]), failgen.cb(o["changed"]), failgen.clist(failgen.cs(f) for f in o["files"])))


def coq_case(case, o):
    if case.opaque is not None:
        return "{| c_kind := KOpaque; c_obs := %s |}" % coq_obs(o)
    if getattr(case, "fault_at", None) is not None:
        return "{| c_kind := KFault %s %d; c_obs := %s |}" % (case.coq_input(), case.fault_at, coq_obs(o))
    return ("{| c_kind := KModel %s %s; c_obs := %s |}"
            % (case.coq_input(), failgen.clist(failgen.cs(u) for u in case.uncertain), coq_obs(o)))


HEADER = ("From Coq Require Import List String NArith.\n"
          "From Shoot Require Import Model.Fail Corr.FailCorr.\n"
          "Import ListNotations.\nLocal Open Scope string_scope.\n"
          "Set Printing Width 1000000.\nSet Printing Depth 1000000.\n")


GUARDS = [0, 0, 0]      # cases with a model input / inside input_ok / with regular files only (summed over all shards)


def coq_mismatches(run, tag, rendered, fn="mismatches", shard=60, count=False):
    """evaluate the comparison inside Coq, in shards; returns [(index, verdict)]"""
    def one(k):
        lo = k * shard
        body = (HEADER + "Definition cases : list case := [\n%s\n].\n"
                "Definition M := Eval vm_compute in %s cases.\nPrint M.\n"
                "Definition G := Eval vm_compute in guard_counts cases.\nPrint G.\n"
                % (";\n".join(rendered[lo:lo + shard]), fn))
        out = run.coq_eval("%s_%d" % (tag, k), body)
        g = re.search(r"G = \((\d+)%?N?, (\d+)%?N?, (\d+)%?N?\)", " ".join(out.split()))
        if g is None:
            raise lib.CheckBroken("cannot parse guard counts: " + out[-500:])
        return [(lo + i, v) for i, v in lib.parse_coq_list_pairs(out, "M")], [int(x) for x in g.groups()]
    res = []
    n = (len(rendered) + shard - 1) // shard
    with cf.ThreadPoolExecutor(max_workers=PAR) as ex:
        for r, g in ex.map(one, range(n)):
            res.extend(r)
            if count:
                for j in range(3):
                    GUARDS[j] += g[j]
    return res


def coq_predicted(run, tag, case):
    """the model's prediction for one case, as text (for replay files)"""
    body = (HEADER + "Definition P := Eval vm_compute in (predicted %s, fst (run id_order no_fault %s)).\nPrint P.\n"
            % (case.coq_input(), case.coq_input()))
    try:
        out = run.coq_eval(tag, body)
        return " ".join(out.split())[:1500]
    except lib.CheckBroken as e:
        return "unavailable: %s" % e


def run_cases(world, cases, tag):
    def one(k):
        return world.execute(cases[k], "%s%04d" % (tag, k))
    with cf.ThreadPoolExecutor(max_workers=PAR) as ex:
        res = list(ex.map(one, range(len(cases))))
    return [r[0] for r in res], [r[1] for r in res]


# ------------------------------------------------------------ opaque stream

TOKEN_RE = re.compile(r'[A-Za-z_]\w*|\d+|"[^"\n]*"|`[^`\n]*`|[{}()\[\],;.*=:<>&|+\-/!]')


def token_deletion(rng, case, layout):
    """delete one token of one Go file of the package (or of the destination package)"""
    gofiles = sorted(k for k, v in layout.items() if isinstance(v, str) and k.endswith(".go") and "shoot" not in k)
    if not gofiles:
        return None
    rel = rng.choice(gofiles)
    text = layout[rel]
    toks = []
    for m in TOKEN_RE.finditer(text):
        ls = text.rfind("\n", 0, m.start()) + 1
        line = text[ls:text.find("\n", ls) if text.find("\n", ls) >= 0 else len(text)]
        if line.lstrip().startswith("//") and not line.lstrip().startswith("//shoot") and "go:generate" not in line:
            continue
        toks.append(m)
    if not toks:
        return None
    m = rng.choice(toks)
    return rel, text[:m.start()] + text[m.end():], "delete token %r at offset %d of %s" % (m.group(0), m.start(), rel)


def compile_error(rng, case, layout):
    gofiles = sorted(k for k, v in layout.items() if isinstance(v, str) and k.startswith("p/") and k.endswith(".go") and "shoot" not in k)
    if not gofiles:
        return None
    rel = rng.choice(gofiles)
    text = layout[rel]
    k = rng.choice(["dup_type", "dup_const", "unused_import", "undefined_use", "missing_import", "bad_assign", "dup_method"])
    if k == "dup_type":
        m = re.search(r"(?m)^type (\w+) ", text)
        if not m:
            return None
        add = "\ntype %s struct{ dup int }\n" % m.group(1)
    elif k == "dup_const":
        m = re.search(r"(?m)^\t(\w+) (\w+) = ", text)
        if not m:
            return None
        add = "\nconst %s %s = 7\n" % (m.group(1), m.group(2))
    elif k == "unused_import":
        return rel, text.replace("package %s\n" % case.pkgname, 'package %s\n\nimport "os"\n' % case.pkgname, 1), "unused import os in " + rel
    elif k == "undefined_use":
        add = "\nfunc broken9() int { return undefinedName9 + 1 }\n"
    elif k == "missing_import":
        add = "\nvar _ = strings9.ToUpper\n"
    elif k == "bad_assign":
        add = '\nvar wrong9 int = "text"\n'
    else:
        m = re.search(r"(?m)^type (\w+) struct", text)
        if not m:
            return None
        add = "\nfunc (x %s) Twice9() {}\nfunc (x %s) Twice9() {}\n" % (m.group(1), m.group(1))
    return rel, text + add, "%s in %s" % (k, rel)


def gen_opaque(rng, k):
    """a rendered valid (or typed-damaged) case plus one textual damage; no model input"""
    for _ in range(20):
        case = failgen.gen_case(rng, ndamage=rng.choice([0, 0, 1]))
        if not case.inmodule or not case.files:
            continue
        layout = case.layout("c18mod/o%04d" % k)
        r = (token_deletion if rng.random() < 0.7 else compile_error)(rng, case, layout)
        if r is None:
            continue
        case.text_patch = (r[0], r[1])
        case.opaque = r[2]
        return case
    raise lib.CheckBroken("cannot build an opaque case")


# ------------------------------------------------------ witnesses of findings

F = failgen


def _case(sub, args, files, dest=None, extra=None):
    c = F.Case(sub)
    c.args = args
    c.files = files
    if dest is not None:
        c.dests["../dest"] = ("pkg", "dest", dest, "dest")
    c.extra = extra or {}
    return c


def _file(name, decls, pkg="p", imports=("dest",)):
    f = F.GoFile(name, pkg)
    f.decls = decls
    f.dest_imports = list(imports)
    return f


def _raw_file(name, text, pkg="p"):
    f = F.GoFile(name, pkg)
    f.raw = text
    return f


def _struct(name, fields):
    return ("type", [F.TSpec(name, ("struct", fields))])


def _fn(name, recv, params, results=None, body={"text": ""}):
    return ("func", F.FDecl(name, recv, params, results, body))


T_ID = [F.Field(["ID"], F.tid("int"))]
RECV_PT = [F.Param(["t"], F.tstar(F.tid("T")))]
DEST_T = [_file("d.go", [_struct("T", [F.Field(["ID"], F.tid("int"))])], pkg="dest", imports=())]
MAP_ARGS = ["map", "-path=../dest", "-type=T"]
SN = [_struct("T", [F.Field(["ID"], F.tid("int")), F.Field(["name"], F.tid("string"))]),
      _fn("ShootNew", [F.Param(["t"], F.tid("T"))], [])]


def witnesses():
    """finding id -> [Case]; every case has a model input, so that the defect-reproducing
    model's prediction can be compared with what the binary does"""
    w = {}
    w["K_ctor_self_embed"] = [
        _case("new", ["new", "-type=Node"], [_file("a.go", [_struct("Node", [F.Field([], F.tstar(F.tid("Node"))), F.Field(["v"], F.tid("int"))])])]),
        _case("new", ["new", "-type=A"], [_file("a.go", [_struct("A", [F.Field([], F.tstar(F.tid("B"))), F.Field(["x"], F.tid("int"))]),
                                                         _struct("B", [F.Field([], F.tstar(F.tid("A"))), F.Field(["y"], F.tid("int"))])])]),
    ]
    # the same class through an instantiated generic type and through an imported package
    w["K_ctor_self_embed"].append(
        _case("new", ["new", "-type=Node"],
              [_file("a.go", [("type", [F.TSpec("Node", ("struct", [F.Field([], F.tstar(("gen", "Node", F.tid("T")))), F.Field(["v"], F.tid("T"))]),
                                                tparams="[T any]")])])]))
    loop = [F.TSpec("Loop", ("struct", [F.Field([], F.tstar(F.tid("Loop"))), F.Field(["V"], F.tid("int"))]))]
    c = _case("new", ["new", "-type=Holder"], [_file("a.go", [_struct("Holder", [F.Field([], F.tsel("ext", "Loop")), F.Field(["id"], F.tid("int"))])])])
    c.foreign["ext"] = loop
    w["K_ctor_self_embed"].append(c)
    w["K_map_self_embed"] = [
        _case("map", MAP_ARGS, [_file("s.go", [_struct("T", [F.Field([], F.tstar(F.tid("T"))), F.Field(["ID"], F.tid("int"))])])], DEST_T),
    ]
    c = _case("map", ["map", "-path=../dest", "-type=Holder"],
              [_file("s.go", [_struct("Holder", [F.Field([], F.tstar(F.tsel("ext", "Loop"))), F.Field(["ID"], F.tid("int"))])])],
              [_file("d.go", [_struct("Holder", [F.Field(["ID"], F.tid("int"))])], pkg="dest", imports=())])
    c.foreign["ext"] = [F.TSpec("Loop", ("struct", [F.Field([], F.tstar(F.tid("Loop"))), F.Field(["V"], F.tid("int"))]))]
    w["K_map_self_embed"].append(c)
    w["K_map_unnamed_names"] = [
        _case("map", MAP_ARGS, [_file("s.go", [_struct("T", T_ID), _fn("toDest", RECV_PT, [F.Param([], F.tstar(F.tsel("dest", "T")))])])], DEST_T),
        _case("map", MAP_ARGS, [_file("s.go", [_struct("T", T_ID), _fn("fromDest", [F.Param([], F.tstar(F.tid("T")))],
                                                                     [F.Param(["d"], F.tsel("dest", "T"))])])], DEST_T),
        _case("map", MAP_ARGS, [_file("s.go", SN + [_fn("NewT", None, [F.Param([], F.tid("int")), F.Param([], F.tid("string"))],
                                                       [F.Param([], F.tstar(F.tid("T")))], {"text": "\treturn &T{}\n"})])], DEST_T),
    ]
    w["K_map_accessor_arity"] = [
        _case("map", MAP_ARGS, [_file("s.go", SN + [_fn("SetName", RECV_PT, [])])], DEST_T),
        _case("map", MAP_ARGS, [_file("s.go", SN + [_fn("Name", RECV_PT, [], [])])], DEST_T),
    ]
    w["K_map_nil_body"] = [
        _case("map", MAP_ARGS, [_file("s.go", [_struct("T", T_ID), _fn("toDest", RECV_PT, [F.Param(["d"], F.tstar(F.tsel("dest", "T")))], None, None)])], DEST_T),
        _case("map", MAP_ARGS, [_file("s.go", SN + [_fn("NewT", None, [F.Param(["id"], F.tid("int")), F.Param(["name"], F.tid("string"))],
                                                       [F.Param([], F.tstar(F.tid("T")))], None)])], DEST_T),
    ]
    two = [("comment", "//go:generate shoot new -type=*"), _struct("A", [F.Field(["x"], F.tid("int"))]), _struct("B", [F.Field(["y"], F.tid("int"))])]
    w["K_clean_unreadable_after_write"] = [
        _case("new", ["new", "-type=*"], [_file("a.go", two)], extra={"zz.shootnew.d.go": ("dir",)}),
        _case("new", ["new", "-type=*"], [_file("a.go", two)], extra={"zz.shootnewx.go": ("dangling",)}),
    ]
    w["K_rename_fail_after_write"] = [
        _case("new", ["new", "-type=A,B"], [_file("a.go", two)], extra={"a.shootnew.b.go": ("dir",)}),
    ]
    w["K_testfile_no_package_clause"] = [
        _case("new", ["new", "-file=a.go"], [_file("a.go", [_struct("A", [F.Field(["x"], F.tid("int"))])]), _raw_file("empty.go", "", pkg="")]),
        _case("enum", ["enum", "-file=e.go"], _enum_pkg([]) + [_raw_file("zz_todo.go", "// TODO\n", pkg="")]),
    ]
    # ---- repaired defects: the model describes the repaired code
    w["K_clean_error_after_write"] = [
        _case("new", ["new", "-type=*"], [_file("gen.go", two), _raw_file("x.shootnew.y.go", "package p")],
              extra={"x.shootnew.y.go": ("file_nonl", "package p")}),
    ]
    err = F.Field(["Err"], F.tid("error"))
    w["K_map_universe_panic"] = [
        _case("map", MAP_ARGS, [_file("s.go", [_struct("T", T_ID + [err])])],
              [_file("d.go", [_struct("T", [F.Field(["ID"], F.tid("int")), F.Field(["Err"], F.tid("error"))])], pkg="dest", imports=())]),
    ]
    w["K_rest_iface_universe_panic"] = [
        _case("rest", ["rest", "-file=r.go"], [_file("r.go", [("type", [F.TSpec("Failer", ("iface", [F.Embed("universe", "error")]))]),
                                                              ("type", [F.rest_iface(__import__("random").Random(1), "Client", [], 1)])])]),
    ]
    w["K_manual_value_receiver"] = [
        _case("map", MAP_ARGS, [_file("s.go", [_struct("T", T_ID), _struct("Other", [F.Field(["A"], F.tid("int"))]),
                                               _fn("toDest", [F.Param(["o"], F.tid("Other"))], [F.Param(["x"], F.tid("int"))])])], DEST_T),
        _case("map", MAP_ARGS, [_file("s.go", [_struct("T", T_ID), _fn("toDest", [F.Param(["t"], F.tid("T"))],
                                                                     [F.Param(["d"], F.tstar(F.tsel("dest", "T")))])])], DEST_T),
    ]
    # generic types are outside the model's syntax: an opaque witness (only Pb is evaluated)
    g = _case("new", ["new", "-getset", "-type=Y"], [_file("q.go", [])])
    g.opaque = "K_getset_nil_named witness (generic embedded type)"
    g.text_patch = ("p/q.go", "package p\n\ntype X[T any] struct {\n\tv T\n}\n\ntype XSetter interface {\n\tSetV(int)\n}\n\n"
                              "type Y struct {\n\tX[int]\n\tw int\n}\n")
    w["K_getset_nil_named"] = [g]
    return w


def replay_witnesses(run, world):
    """run every witness; returns {finding id: [(case, obs, pb, matches_model)]}"""
    ws = witnesses()
    flat = [(k, c) for k, cs in ws.items() for c in cs]
    def one(n):
        k, c = flat[n]
        return world.execute(c, "w%03d" % n, timeout=5 if "self_embed" in k else SHOOT_TIMEOUT)[0]
    with cf.ThreadPoolExecutor(max_workers=PAR) as ex:
        obs = list(ex.map(one, range(len(flat))))
    rend = [coq_case(c, o) for (k, c), o in zip(flat, obs)]
    body = (HEADER + "Definition cases : list case := [\n%s\n].\n"
            "Definition M := Eval vm_compute in map (fun c => ((if Pb (c_obs c) then 1 else 0)%%N, matches_model c)) cases.\nPrint M.\n"
            % ";\n".join(rend))
    out = run.coq_eval("c18witness", body)
    pairs = lib.parse_coq_list_pairs(out, "M")
    if len(pairs) != len(flat):
        raise lib.CheckBroken("witness evaluation: %d results for %d witnesses" % (len(pairs), len(flat)))
    res = {}
    for (k, c), o, (pb, mm) in zip(flat, obs, pairs):
        res.setdefault(k, []).append((c, o, pb == 1, mm == 0))
    return res


def finding_handlers(wres):
    """open finding: 'buggy' iff every witness violates the property exactly as the defect-reproducing model
    predicts; 'correct' iff the property holds on every witness.  fixed finding: 'buggy' iff the property fails on
    some witness; 'correct' iff it holds on all of them and they agree with the model of the repaired code."""
    def handler(fid):
        def h(entry):
            rs = wres.get(fid, [])
            if not rs:
                return "other: no witness"
            desc = "; ".join("rc=%s diag=%s panic=%s timeout=%s changed=%s" % (o["rc"], o["diag"], o["panic"], o["timeout"], o["changed"])
                             for _, o, _, _ in rs)
            if entry.get("status") == "fixed":
                if any(not pb for _, _, pb, _ in rs):
                    return "buggy"
                if all(mm or c.opaque is not None for c, _, _, mm in rs):
                    return "correct"
                return "other: property holds but the repaired model disagrees: " + desc
            if all((not pb) and mm for _, _, pb, mm in rs):
                return "buggy"
            if all(pb for _, _, pb, _ in rs):
                return "correct"
            return "other: " + desc
        return h
    return {fid: handler(fid) for fid in wres}


# --------------------------------------------------------------------- main

# every logx.Fatal* / log.Fatal* / os.Exit / panic site of /repo's generator code and what covers it
SITES = {
    "cmd/shoot/main.go:50": "DUsageNoArgs", "cmd/shoot/main.go:59": "DVersion", "cmd/shoot/main.go:70": "DUsageUnknownSub",
    "cmd/shoot/main.go:94": "DCleanError (witness K_clean_unreadable_after_write)",
    "cmd/shoot/main.go:107": "DCreateTemp (fault case: immutable package directory)",
    "cmd/shoot/main.go:113": "DWriteTemp (fault case: full file system)",
    "cmd/shoot/main.go:120": "DRename (witness K_rename_fail_after_write)",
    "internal/shoot/generatorbase.go:51": "unreachable: the four embedded templates parse",
    "internal/shoot/generatorbase.go:118": "DUsageNoSubArgs", "internal/shoot/generatorbase.go:125": "DUsageNoTypeNoFile",
    "internal/shoot/generatorbase.go:140": "DWorkDir", "internal/shoot/generatorbase.go:146": "DFileNotGo",
    "internal/shoot/generatorbase.go:151": "DFileNotExists", "internal/shoot/generatorbase.go:219": "DLoadError",
    "internal/shoot/generatorbase.go:224": "DNoPackage", "internal/shoot/generatorbase.go:272": "DMultiPkg",
    "internal/shoot/generatorbase.go:286": "DMultiPkg", "internal/shoot/generatorbase.go:324": "DNotInFile",
    "internal/shoot/generatorbase.go:338": "unreachable: LoadPackage sets the package or is fatal",
    "internal/shoot/generatorbase.go:378": "DMergeSources: oracle i_merge_ok; only the opaque stream can reach it",
    "internal/shoot/generatorbase.go:397": "DExecTemplate: oracle i_render; only the uncertain/opaque streams can reach it",
    "internal/shoot/generatorbase.go:410": "DFormatSource",
    "internal/shoot/source.go:113": "unreachable: all sources of one run carry the same package name",
    "internal/constructor/generator.go:91": "DNewNotExists", "internal/constructor/generator.go:132": "DNewNotStruct",
    "internal/constructor/fields.go:194": "DNewExportedGetSet",
    "internal/enumer/generator.go:46": "DGormNeedsSql", "internal/enumer/generator.go:94": "DEnumNotExists",
    "internal/shoot/generatorbase.go:368": "DDupOutput", "internal/restclient/cook.go:341": "DRestArrayReturn", "internal/enumer/str.go:35": "DEnumAlias",
    "internal/enumer/str.go:85": "redeclared constant (compile error): opaque stream only (dup_const)",
    "internal/enumer/str.go:89": "DEnumNonInt", "internal/enumer/str.go:93": "DEnumNotIntValue",
    "internal/enumer/str.go:98": "unreachable: an integer constant fits int64 or uint64 once type-checked",
    "internal/restclient/paramhandler.go:29": "DRestParamType",
    "internal/restclient/paramhandler.go:67": "not covered: build.Import of the parameter's package fails",
    "internal/restclient/paramhandler.go:71": "DRestExtract", "internal/restclient/paramhandler.go:117": "DRestAmbiguousBody",
    "internal/restclient/paramhandler.go:123": "DRestAmbiguousQuery", "internal/restclient/cook.go:138": "DRestNeedsBody",
    "internal/restclient/cook.go:121": "DRestUnnamedParam", "internal/restclient/cook.go:125": "DRestUnnamedParam",
    "internal/restclient/cook.go:137": "DRestPtrPathParam",
    "internal/restclient/cook.go:141": "DRestFewResults", "internal/restclient/cook.go:144": "DRestManyResults",
    "internal/restclient/cook.go:149": "DRestSecondToLast", "internal/restclient/cook.go:153": "DRestLast",
    "internal/restclient/cook.go:159": "DRestNamedResults", "internal/restclient/cook.go:180": "DRestNotExists",
    "internal/restclient/cook.go:188": "unreachable: printer.Fprint of a parsed expression",
    "internal/restclient/cook.go:264": "DRestBadPath", "internal/restclient/cook.go:319": "DRestReturnType",
    "internal/mapper/methods.go:189": "not covered: template helper assertArgs (empty operand)",
    "internal/mapper/generator.go:103": "DToNeedsType", "internal/mapper/generator.go:108": "DToAlign",
    "internal/mapper/generator.go:124": "DDestDir", "internal/mapper/generator.go:174": "DMapSrcNotExists",
    "internal/mapper/generator.go:179": "DMapDestNotExists",
    "internal/mapper/ctor.go:152": "constructor parameter of type-parameter type (ctor:generic cases; not modelled: Pb only)",
    "internal/mapper/manual.go:44": "DMapPtrRecv", "internal/mapper/manual.go:97": "DMapWriteParam",
    "internal/mapper/manual.go:103": "DMapDupWrite", "internal/mapper/manual.go:111": "DMapReadParam",
    "internal/mapper/manual.go:118": "DMapDupRead",
    "flag (ExitOnError)": "DTopFlag, DFlagError, DHelp",
}
EXPECTED_DIAGS = sorted({v.split()[0].rstrip(":,") for v in SITES.values() if v.startswith("D")} |
                        {"DTopFlag", "DFlagError", "DHelp", "DSuccess", "DNothing"})
NOT_IN_STREAM = {"DCleanError", "DCreateTemp", "DWriteTemp", "DRename", "DMergeSources", "DExecTemplate"}


def site_census():
    """count the exit sites of the current tree, so that a new one does not go unnoticed"""
    n = 0
    for sub in ("cmd/shoot", "internal"):
        for p in (lib.REPO / sub).rglob("*.go"):
            if p.name.endswith("_test.go") or "verif" in p.name or "verifprobe" in str(p):
                continue
            n += len(re.findall(r"logx\.Fatalf?\(|log\.Fatalf?\(|os\.Exit\(|\bpanic\(", p.read_text()))
    return n


CENSUS_EXPECTED = len(SITES) - 1 + 2      # the table above without the flag row, plus logx.go's own two log.Fatal calls


def describe(case, o, layout):
    return {"subcommand": case.sub, "args": case.args, "cwd": "p (the package directory)" if case.cwd_is_pkg else "parent of p",
            "in_module": case.inmodule, "damage": case.labels, "opaque_damage": case.opaque, "uncertain_render": case.uncertain,
            "observed": {k: o[k] for k in ("rc", "diag", "panic", "timeout", "changed", "files", "stderr_tail")},
            "layout": {k: (v if isinstance(v, str) else list(v)) for k, v in layout.items()},
            "coq_input": None if case.opaque is not None else case.coq_input(),
            "how": "write the layout below a directory of a Go module (replace shoot => /repo), cd into %s, run: shoot %s"
                   % ("p" if case.cwd_is_pkg else ".", " ".join(case.args))}


def main(run):
    proof_ok = run.prove("Properties/C18.v", ["Corr/FailCorr.v"])
    return body(run, proof_ok)


def body(run, proof_ok):
    world = World(run)
    wres = replay_witnesses(run, world)
    outcome = run.replay_findings(finding_handlers(wres))
    run.log("findings:", outcome)

    n_typed = 5000 if run.thorough() else 330
    n_opaque = 2000 if run.thorough() else 110
    fcases, fobs, fault_note = run_fault_cases(run, world)
    fmm = coq_mismatches(run, "c18fault", [coq_case(c, o) for c, o in zip(fcases, fobs)]) if fcases else []
    for idx, v in fmm:
        rep = describe(fcases[idx], fobs[idx], fcases[idx].layout("c18mod/f%03d" % idx))
        rep["kind"] = "property-fails-on-implementation" if v == 2 else "correspondence-broken"
        rep["fault"] = fcases[idx].labels
        rep["correspondence"] = "L2:C18:write phase under an injected I/O fault vs run id_order (fail_at k)"
        run.violation(rep, no_input=(v != 2))
    suite = coverage_suite()
    cases = [c for _, c in suite]
    family = result_list_cases(run.rng, None if run.thorough() else 44)
    cases += family
    classes = odd_field_cases() + raw_cases() + ctor_cases() + flag_sweep(run.rng, run.thorough())
    cases += classes
    cases += [failgen.gen_case(run.rng) for _ in range(n_typed)]
    cases += [gen_opaque(run.rng, k) for k in range(n_opaque)]
    run.log("cases: %d suite, %d result lists, %d odd-field/raw/ctor/flag-sweep, %d typed, %d opaque"
            % (len(suite), len(family), len(classes), n_typed, n_opaque))
    obs, layouts = [], []
    chunk = 600
    mism = []
    for lo in range(0, len(cases), chunk):
        o, l = run_cases(world, cases[lo:lo + chunk], "c%d_" % (lo // chunk))
        rend = [coq_case(c, x) for c, x in zip(cases[lo:lo + chunk], o)]
        mism += [(lo + i, v) for i, v in coq_mismatches(run, "c18cases%d" % (lo // chunk), rend, count=True)]
        obs += o
        layouts += l
        run.log("compared %d cases, mismatches so far: %d" % (len(obs), len(mism)))

    # a mismatch must persist when the case is run again alone (a loaded machine can hit the timeout)
    confirmed = []
    unreproduced = []
    # one representative per (subcommand, observed class) first, so that a flood of one class cannot hide another
    seen_cls, ordered_mism = set(), []
    for idx, v in mism:
        k = (cases[idx].sub, obs[idx]["diag"], v)
        if k not in seen_cls:
            seen_cls.add(k)
            ordered_mism.append((idx, v))
    ordered_mism += [m for m in mism if m not in ordered_mism]
    ordered_mism.sort(key=lambda m: -m[1])
    for idx, v in ordered_mism[:16]:
        o2, l2_ = world.execute(cases[idx], "re%04d" % idx, timeout=3 * SHOOT_TIMEOUT)
        m2 = coq_mismatches(run, "c18re%d" % idx, [coq_case(cases[idx], o2)])
        if m2:
            confirmed.append((idx, m2[0][1], o2))
        else:
            unreproduced.append({"args": cases[idx].args, "first": {k: obs[idx][k] for k in ("rc", "diag", "timeout", "wall")},
                                 "again": {k: o2[k] for k in ("rc", "diag", "timeout", "wall")}})
    confirmed.sort(key=lambda x: -x[1])          # concrete failing inputs (verdict 2) are reported first
    for idx, v, o in confirmed[:8]:
        c = cases[idx]
        rep = describe(c, o, layouts[idx])
        rep["kind"] = "property-fails-on-implementation" if v == 2 else "correspondence-broken"
        rep["theorem"] = "C18_always_a_deliberate_exit / C18_nonzero_exit_changes_nothing / C18_stop_before_write_changes_nothing"
        rep["correspondence"] = "L2:C18:shoot binary vs Model/Fail.v (run id_order no_fault)"
        rep["predicted"] = None if c.opaque is not None else coq_predicted(run, "c18pred%d" % idx, c)
        rep["case_index"] = idx
        run.violation(rep, no_input=(v != 2))
    if not proof_ok and not confirmed:
        run.proof_failure_violation()

    typed = [(c, o) for c, o in zip(cases, obs) if c.opaque is None]
    opaque = [(c, o) for c, o in zip(cases, obs) if c.opaque is not None]
    diag_count = {}
    for c, o in typed:
        diag_count[o["diag"]] = diag_count.get(o["diag"], 0) + 1
    for k, rs in wres.items():
        for c, o, _, _ in rs:
            diag_count[o["diag"]] = diag_count.get(o["diag"], 0) + 1
    label_count = {}
    for c in cases:
        for l in c.labels:
            label_count[l] = label_count.get(l, 0) + 1
    nontrivial = {(tuple(c.args), c.cwd_is_pkg, json.dumps(l, sort_keys=True, default=list))
                  for c, o, l in zip(cases, obs, layouts) if (c.labels or c.opaque) and o["rc"] != 0}
    exit_dist = {}
    for o in obs:
        exit_dist[str(o["rc"])] = exit_dist.get(str(o["rc"]), 0) + 1
    census = site_census()
    nwit = sum(len(v) for v in wres.values())
    cov = {
        "evaluations": len(cases) + nwit,
        "distinct_nontrivial": len(nontrivial),
        "rule": ("typed stream: a valid base package of one of the four subcommands (1-3 files, 1-4 types, fields with well- and "
                 "ill-formed directives and tags, embedding, manual/constructor/accessor methods, rest methods over 8 parameter kinds) "
                 "x a valid selection (-type list / -file / -type=* with or without //go:generate line, -sep, [dir] from the parent) "
                 "x 0-2 typed damages out of %d package damages, %d command-line damages, 4 directory-state damages; "
                 "opaque stream: the same plus one token deletion or compile error (only the property itself is evaluated there). "
                 "non-trivial = distinct (command line, rendered files) with at least one damage on which the binary exited non-zero"
                 % (sum(len(set(v)) for v in failgen.PKG_DAMAGES.values()),
                    len(set(failgen.ARG_DAMAGES["common"])) + sum(len(set(v)) for k, v in failgen.ARG_DAMAGES.items() if k != "common"))),
        "exhaustive": False,
        "traces_validated_against_impl": len(typed) + nwit,
        "programs": len(cases) + nwit,
        "typed_cases": len(typed), "typed_cases_with_uncertain_render": sum(1 for c, _ in typed if c.uncertain),
        "opaque_cases": len(opaque),
        "cases_inside_theorem_guards": {"with_model_input": GUARDS[0], "input_ok (C18_always_a_deliberate_exit_decidable)": GUARDS[1],
                                        "state_ok (C18_nonzero_exit_changes_nothing)": GUARDS[2]},
        "io_fault_cases": {"run": len(fcases), "mismatches": len(fmm), "not_exercised_because": fault_note,
                           "what": "os.CreateTemp in an immutable package directory (chattr +i), tmpFile.Write on a full 64k tmpfs",
                           "observed": [{"fault": c.labels, "rc": o["rc"], "diag": o["diag"], "changed": o["changed"]} for c, o in zip(fcases, fobs)]},
        "mismatch_classes": len(seen_cls),
        "exit_status_distribution": exit_dist,
        "observed_diagnostic_classes": dict(sorted(diag_count.items())),
        "diagnostic_classes_never_observed_in_this_run": [d for d in EXPECTED_DIAGS if d not in diag_count and d not in NOT_IN_STREAM
                                                          and {"DUsageUnknownSub": "DUsageNoArgs", "DUsageNoTypeNoFile": "DUsageNoSubArgs"}.get(d) not in diag_count],
        "damage_kinds_applied": dict(sorted(label_count.items())),
        "exit_sites": SITES,
        "exit_site_census": {"counted_in_tree": census, "expected": CENSUS_EXPECTED,
                             "note": "a different count means an exit site was added or removed since the model was written"},
        "mismatches_not_reproduced": unreproduced,
        "findings_measured": outcome,
        "result_list_family": {"cases": len(family), "of": len(result_list_family()),
                               "what": "rest result lists of 1..4 values over three types, unnamed / named / grouped"},
        "deterministic_classes": {"odd_field_names": len(odd_field_cases()), "raw_with_several_outputs": len(raw_cases()),
                                  "map_shootnew_damaged_constructors": len(ctor_cases()),
                                  "flag_value_sweep": len(classes) - len(odd_field_cases()) - len(raw_cases()) - len(ctor_cases()),
                                  "flag_value_sweep_full": sum(len(HOSTILE) for fl in sum(STRING_FLAGS.values(), [])),
                                  "hostile_values": HOSTILE},
        "coverage_suite": {"cases": len(suite),
                           "aimed_class_not_observed": [d for (d, _), o in zip(suite, obs) if o["diag"] != d
                                                        and not (d, o["diag"]) in (("DUsageUnknownSub", "DUsageNoArgs"),
                                                                                   ("DUsageNoTypeNoFile", "DUsageNoSubArgs"))]},
        "samples": [{"args": cases[i].args, "damage": cases[i].labels or cases[i].opaque, "cwd_is_pkg": cases[i].cwd_is_pkg,
                     "files": sorted(layouts[i]), "observed": {k: obs[i][k] for k in ("rc", "diag", "changed", "files")}}
                    for i in (len(suite) + len(family) + len(classes) + 3, len(typed) // 2, len(cases) - 2)],
        "trusted_base": lib.TRUSTED_BASE_COMMON + [
            "the package is modelled by a small abstract syntax (type specs, struct fields, interface methods, function "
            "declarations, const specs, // comment lines); go/types facts are recomputed from it (underlying integer/struct type "
            "through named types and aliases, identity of receiver/parameter types by name)",
            "text/template + goimports + gofmt are the oracle i_render (per type: ok / exec error / format error / empty); the "
            "harness claims `ok` for its base grammar and lets Coq range over the oracle for ill-typed or keyword-like fields and -raw",
            "the //shoot: directive regexps are not modelled: the harness renders doc comments from the booleans get/set and from "
            "(verb, path) and vouches for a fixed list of forms the regexps must reject",
            "packages.Load: in a module / outside a module, one package name per directory, files in name order; syntactically "
            "broken input is NOT modelled (opaque stream: only exit status, panic, timeout, directory hash are checked)",
            "file system: entries are regular files (first line), directories or dangling links; os.CreateTemp returns a fresh "
            "name; rename over a directory fails; I/O faults enter through the oracle io; two of them are exercised against the "
            "binary (CreateTemp in an immutable directory, Write on a full tmpfs), the others (a fault in the k-th file of "
            "several, os.Remove in Clean) are not",
            "Go's map iteration order is the parameter sigma of run (theorems: for all sigma; comparison: insertion order, the "
            "set of written files being compared only on exit 0)",
            "the stale-overlay reload of `new -getset` (LoadPackage between types) is assumed to succeed",
        ],
    }
    return run.finish(cov, assumptions=[
        "C18_nonzero_exit_changes_nothing assumes no failing system call and state_ok: no directory at the name of an output and, "
        "when the all-in-one cleanup runs, only regular files among the entries matching *.shoot<cmd>*.go; the two ways to violate "
        "it on a directory state (open findings K_clean_unreadable_after_write, K_rename_fail_after_write) are proved as "
        "refutations and replayed on every run",
        "C18_structural_stop_before_write_changes_nothing is structural (analyse takes no world): that LoadPackage and Generate "
        "write nothing is an assumption of the model, tied to the binary only by the recursive directory hash",
        "absence of panics is PROVED only for the 11 guarded index/dereference sites of the transcribed functions; for library "
        "code (go/types, packages.Load, text/template, gofmt) and untranscribed generator code it is sampled (Pb on every run)",
        "C18_always_a_deliberate_exit assumes a well-founded embedding relation (open findings K_ctor_self_embed, "
        "K_map_self_embed); the comparison stream stays inside this guard.  The former panic classes (unnamed "
        "parameters/receivers, bodiless declarations, accessor arities in the mapper; a Go file without package clause "
        "with -file) were repaired in /repo and are inside the stream",
        "partial: packages.Load on syntactically broken input and the text produced by the templates are not modelled",
    ])


class Stored:
    """a case read back from a replay file"""
    def __init__(self, r):
        self.sub, self.args = r["subcommand"], r["args"]
        self.cwd_is_pkg = r["cwd"].startswith("p")
        self.inmodule = r["in_module"]
        self.labels, self.opaque, self.uncertain = r.get("damage", []), r.get("opaque_damage"), r.get("uncertain_render", [])
        self._layout = {k: (v if isinstance(v, str) else tuple(v)) for k, v in r["layout"].items()}
        self._coq = r.get("coq_input")
        if self._coq is None and self.opaque is None:
            self.opaque = "no model input stored"

    def layout(self, base):
        return self._layout

    def coq_input(self):
        return self._coq


def replay(run, path):
    r = json.load(open(path))
    if "layout" not in r:
        print("nothing to replay (no concrete input in %s)" % path)
        return 0
    run.prove("Properties/C18.v", ["Corr/FailCorr.v"])
    world = World(run)
    c = Stored(r)
    cid = "c%04d" % r.get("case_index", 0)
    # the import path of the destination package is part of the rendered sources: keep the directory name
    m = re.search(r'"c18mod/(\w+)/', json.dumps(r["layout"]))
    if m:
        cid = m.group(1)
    o, _ = world.execute(c, cid, timeout=3 * SHOOT_TIMEOUT)
    mm = coq_mismatches(run, "c18replay", [coq_case(c, o)])
    print("observed:", json.dumps({k: o[k] for k in ("rc", "diag", "panic", "timeout", "changed", "files")}), "verdict:", mm)
    if mm:
        print("VIOLATION property=C18 replay=%s" % path)
        return 1
    return 0


# ------------------------------------------------- I/O faults of the write phase

def fault_cases():
    """(Case, fault kind): os.CreateTemp fails in an immutable directory (the first fallible call of the write phase),
    tmpFile.Write fails on a full file system (the second)"""
    out = []
    for sub, args, files in (("new", ["new", "-type=Order"], _new_pkg()), ("enum", ["enum", "-type=Color"], _enum_pkg([]))):
        c = _case(sub, list(args), files)
        c.fault_at, c.labels = 0, ["fault:immutable_directory"]
        out.append((c, "immutable"))
        c = _case(sub, list(args), files)
        c.fault_at, c.labels = 1, ["fault:full_file_system"]
        out.append((c, "full"))
    return out


def run_fault_cases(run, world):
    """returns (cases, observations, reason why they could not be exercised or None)"""
    cs, obs = [], []
    for n, (c, kind) in enumerate(fault_cases()):
        try:
            o, _ = world.execute(c, "f%03d" % n, fault=kind)
        except Exception as e:                      # no CAP_SYS_ADMIN / CAP_LINUX_IMMUTABLE here
            return [], [], "fault injection unavailable: %s" % str(e)[:200]
        cs.append(c)
        obs.append(o)
    return cs, obs, None


# ------------------------------------------------- result lists of every small arity

def result_list_family():
    """every result list of 1..4 values over {*string, *http.Response, error}, unnamed, named one by one, and named with
    adjacent values of one type grouped into one field (`a, b T`): the number of fields and of values differ"""
    import itertools
    S, HR, E = F.tstar(F.tid("string")), F.tstar(F.tsel("http", "Response")), F.tid("error")
    out = []
    for L in range(1, 5):
        for seq in itertools.product([S, HR, E], repeat=L):
            out.append([F.Param([], t) for t in seq])
            out.append([F.Param(["r%d" % i], t) for i, t in enumerate(seq)])
            groups, i = [], 0
            while i < L:
                j = i
                while j + 1 < L and seq[j + 1] == seq[i]:
                    j += 1
                groups.append(F.Param(["r%d" % k for k in range(i, j + 1)], seq[i]))
                i = j + 1
            if len(groups) < L:
                out.append(groups)
    return out


def result_list_cases(rng, n=None):
    fam = result_list_family()
    if n is not None:
        # the quick tier favours the lists whose number of fields differs from their number of values
        grouped = [rs for rs in fam if sum(len(p.names) or 1 for p in rs) != len(rs)]
        plain = [rs for rs in fam if rs not in grouped]
        fam = rng.sample(grouped, min(len(grouped), (3 * n) // 4)) + rng.sample(plain, n - min(len(grouped), (3 * n) // 4))
    cases = []
    for rs in fam:
        fs, _ = _rest_pkg(results=rs)
        c = _case("rest", ["rest", "-type=Client"], fs)
        c.labels = ["result_list_family"]
        cases.append(c)
    return cases


# ------------------------------------------------- blank / odd field names, directly and promoted

def odd_field_cases():
    """fields named `_`, `__`, `_x`, `X_`, `x_y`, non-ASCII, declared directly and promoted from an embedded struct of the
    package and of the standard library (sync/atomic.Int64: `_ noCopy; _ align64; v int64`).  The analyses skip `_`
    fields only at the top level, so the promoted ones reach the name transformations.  Whether the generated text formats
    is the oracle's business (uncertain); exit status, absence of panics and of changes are judged as always."""
    T = F.tid
    inner = _struct("Inner", [F.Field(["_"], ("arrn", ("func",))), F.Field(["x"], T("int"))])
    user = _struct("User", [F.Field([], T("Inner")), F.Field(["name"], T("string"))])
    puser = _struct("PUser", [F.Field([], F.tstar(T("Inner"))), F.Field(["name"], T("string"))])
    cnt = _struct("Cnt", [F.Field([], F.tsel("atomic", "Int64")), F.Field(["id"], T("int"))])
    odd = _struct("Odd", [F.Field(["_"], T("int")), F.Field(["__"], T("int")), F.Field(["_x"], T("int")), F.Field(["X_"], T("int")),
                          F.Field(["x_y"], T("int")), F.Field(["\u00fcn\u00ef"], T("string")), F.Field(["\u00dcn\u00ef"], T("string")),
                          F.Field(["a1b2", "_"], T("int"))])
    holds = _struct("HoldsOdd", [F.Field([], T("Odd")), F.Field(["z"], T("int"))])
    atomic = [F.TSpec("Int64", ("struct", [F.Field(["_"], T("noCopy")), F.Field(["_"], T("align64")), F.Field(["v"], T("int64"))]))]
    out = []

    def mk(sub, args, decls, dest=None, unc=()):
        c = _case(sub, args, [_file("a.go", decls)], dest)
        if any(d is cnt for d in decls):
            c.foreign["atomic"] = atomic
            c.foreign_path["atomic"] = "sync/atomic"
        c.uncertain = list(unc)
        c.labels = ["odd_fields"]
        out.append(c)
    for flags in ([], ["-json"], ["-getset", "-opt"], ["-json", "-tagcase=pascal", "-exp"]):
        for t, decls in (("User", [inner, user]), ("PUser", [inner, puser]), ("Cnt", [cnt]), ("Odd", [odd]), ("HoldsOdd", [odd, holds])):
            mk("new", ["new", "-type=" + t] + flags, decls, unc=[t])
    mk("new", ["new", "-file=a.go", "-sep"], [inner, user, odd, holds], unc=["Inner", "User", "Odd", "HoldsOdd"])
    dodd = [_file("d.go", [_struct("Odd", [F.Field(["_"], T("int")), F.Field(["X_"], T("int")), F.Field(["\u00dcn\u00ef"], T("string"))]),
                           _struct("HoldsOdd", [F.Field(["Z"], T("int")), F.Field(["_"], T("int"))]),
                           _struct("User", [F.Field(["Name"], T("string")), F.Field(["_"], ("arrn", ("func",)))]),
                           _struct("Cnt", [F.Field(["ID"], T("int"))])], pkg="dest", imports=())]
    for flags in ([], ["-i"], ["-way=toonly"]):
        mk("map", ["map", "-path=../dest", "-type=Odd"] + flags, [odd], dodd, unc=["Odd"])
        mk("map", ["map", "-path=../dest", "-type=HoldsOdd"] + flags, [odd, holds], dodd, unc=["HoldsOdd"])
        mk("map", ["map", "-path=../dest", "-type=User"] + flags, [inner, user], dodd, unc=["User"])
        mk("map", ["map", "-path=../dest", "-type=Cnt"] + flags, [cnt], dodd, unc=["Cnt"])
    return out


# ------------------------------------------------- map over shoot-new types with damaged constructors

def ctor_cases():
    """`map` where the source and/or the destination type carries the ShootNew() marker (only then parseCtors looks at the
    functions of the package) and the package holds a func named New<Type> of every damaged shape: no result, `()`, two
    results, a value result, a foreign result, no parameter, unnamed / grouped / variadic / blank parameters, a method
    instead of a func, a generic func, without body, declared twice"""
    T = F.tid
    PT = [F.Param([], F.tstar(T("T")))]
    ok_body = {"text": "\treturn &T{}\n"}
    shapes = {
        "noresult": dict(params=[F.Param(["id"], T("int"))], results=None, body={"text": ""}),
        "emptyresult": dict(params=[F.Param(["id"], T("int"))], results=[], body={"text": ""}),
        "noresult_noparams": dict(params=[], results=None, body={"text": ""}),
        "noresult_nobody": dict(params=[F.Param(["id"], T("int"))], results=None, body=None),
        "tworesults": dict(params=[F.Param(["id"], T("int"))], results=[F.Param([], F.tstar(T("T"))), F.Param([], T("error"))],
                           body={"text": "\treturn &T{}, nil\n"}),
        "grouped_results": dict(params=[F.Param(["id"], T("int"))], results=[F.Param(["a", "b"], F.tstar(T("T")))],
                                body={"text": "\treturn nil, nil\n"}),
        "valueresult": dict(params=[F.Param(["id"], T("int"))], results=[F.Param([], T("T"))], body={"text": "\treturn T{}\n"}),
        "otherresult": dict(params=[F.Param(["id"], T("int"))], results=[F.Param([], F.tstar(T("int")))], body={"text": "\treturn nil\n"}),
        "noparams": dict(params=[], results=PT, body=ok_body),
        "unnamed": dict(params=[F.Param([], T("int")), F.Param([], T("string"))], results=PT, body=ok_body),
        "blank": dict(params=[F.Param(["_"], T("int"))], results=PT, body=ok_body),
        "grouped": dict(params=[F.Param(["a", "b"], T("int"))], results=PT, body=ok_body),
        "variadic": dict(params=[F.Param(["ids"], ("ell", T("int")))], results=PT, body=ok_body),
        "nobody": dict(params=[F.Param(["id"], T("int")), F.Param(["name"], T("string"))], results=PT, body=None),
        "method": dict(params=[F.Param(["id"], T("int"))], results=None, body={"text": ""}, recv=[F.Param(["t"], F.tstar(T("T")))]),
        "generic": dict(params=[F.Param(["id"], T("X"))], results=PT, body=ok_body, tparams="[X any]"),
        "good": dict(params=[F.Param(["id"], T("int")), F.Param(["name"], T("string"))], results=PT,
                     body={"text": "\treturn &T{ID: id, name: name}\n"}),
    }
    marker = _fn("ShootNew", [F.Param(["t"], T("T"))], [])
    struct = _struct("T", [F.Field(["ID"], T("int")), F.Field(["name"], T("string"))])
    plain_dest = [_file("d.go", [_struct("T", [F.Field(["ID"], T("int")), F.Field(["Name"], T("string"))])], pkg="dest", imports=())]
    out = []
    for name, sh in shapes.items():
        fd = F.FDecl("NewT", sh.get("recv"), sh["params"], sh["results"], sh["body"])
        if "tparams" in sh:
            fd.tparams = sh["tparams"]
        for side in ("src", "dest", "both"):
            src = [struct] + ([marker, ("func", fd)] if side in ("src", "both") else [])
            if side == "src":
                dest = plain_dest
            else:
                dest = [_file("d.go", [struct, marker, ("func", fd)], pkg="dest", imports=())]
            for args in (MAP_ARGS, ["map", "-path=../dest", "-file=s.go", "-way=toonly"]):
                if args is not MAP_ARGS and side != "both":
                    continue
                c = _case("map", list(args), [_file("s.go", list(src))], dest)
                c.labels = ["ctor:%s:%s" % (name, side)]
                # a constructor that is found but odd (generic, variadic, grouped) goes into the generated call: the text is the oracle's
                if name in ("generic", "variadic", "grouped", "blank", "unnamed", "noparams", "good"):
                    c.uncertain = ["T"]
                if name == "generic":
                    # makeCtorMatch: no zero-value text for a parameter of type-parameter type -> `not supported`, exit 1
                    # (mapper/ctor.go:152); field matching is not transcribed: only the property itself is evaluated
                    c.opaque = "generic constructor NewT[X any](id X): makeCtorMatch is not modelled"
                out.append(c)
    # the name declared twice: a func without result next to a proper one
    c = _case("map", list(MAP_ARGS), [_file("s.go", [struct, marker, ("func", F.FDecl("NewT", None, [], None, {"text": ""})),
                                                   ("func", F.FDecl("NewT", None, shapes["good"]["params"], PT, shapes["good"]["body"]))])], plain_dest)
    c.labels, c.uncertain = ["ctor:twice"], ["T"]
    out.append(c)
    return out


# ------------------------------------------------- -raw x several outputs x a directive that only breaks the raw text

def raw_cases():
    """-raw skips gofmt, so text that does not parse is written as it is: with several outputs every file must still be
    written (exit 0) or none (a diagnostic before the first write)"""
    T = F.tid
    out = []
    for where in ("first", "last", "both"):
        bad = [F.Field(["id"], T("int"), doc="//shoot: def=)("), F.Field(["Type"], T("string"))]
        good = [F.Field(["id"], T("int")), F.Field(["name"], T("string"))]
        alpha = _struct("Alpha", bad if where in ("first", "both") else good)
        zulu = _struct("Zulu", bad if where in ("last", "both") else list(good))
        mid = _struct("Mike", [F.Field(["n"], T("int"))])
        for raw in ("-raw", "-r"):
            for sel in (["-type=Alpha,Zulu"], ["-type=Zulu,Mike,Alpha"], ["-file=b.go", "-sep"], ["-type=*", "-separate"]):
                for extra in ([], ["-opt"], ["-json", "-getset"]):
                    if (raw == "-r") != (extra == ["-opt"]):          # halve the product
                        continue
                    c = _case("new", ["new", raw] + extra + sel, [_file("b.go", [alpha, mid, zulu])])
                    c.labels = ["raw:" + where]
                    out.append(c)
        # all-in-one: MergeSources parses the raw text (oracle i_merge_ok)
        c = _case("new", ["new", "-raw", "-opt", "-file=b.go"], [_file("b.go", [alpha, mid, zulu])])
        c.uncertain, c.labels = ["Alpha", "Zulu"], ["raw:merge:" + where]
        out.append(c)
    fs, _ = _rest_pkg()
    fs[0].decls.append(("type", [F.TSpec("Other", ("iface", [F.Embed("rest", "shoot.RestClient[Other]"),
                                                              F.Method("Ping", ("req", "Get", '"/p"'), [F.Param(["ctx"], F.tsel("context", "Context"))],
                                                                       [F.Param([], F.tstar(F.tsel("http", "Response"))), F.Param([], T("error"))])]))]))
    c = _case("rest", ["rest", "-raw", "-type=Client,Other"], fs)
    c.labels = ["raw:rest"]
    out.append(c)
    c = _case("enum", ["enum", "-r", "-type=Color,Shade", "-json"],
              _enum_pkg([("type", [F.TSpec("Shade", ("other", T("uint8")))]), ("const", [F.VSpec(["ShadeA"], T("Shade"), "1")])]))
    c.labels = ["raw:enum"]
    out.append(c)
    return out


# ------------------------------------------------- hostile values of every string flag

GO_KEYWORDS = {"break", "case", "chan", "const", "continue", "default", "defer", "else", "fallthrough", "for", "func", "go", "goto",
               "if", "import", "interface", "map", "package", "range", "return", "select", "struct", "switch", "type", "var"}
HOSTILE = ["m(", "*", "[x", "a)", "+", "", " ", "a b", "a/b", "../x", "\u00fc", "\\", '"', "$(x)", "%s", "{", "?", ".", "-", "--",
           "-x", "1x", "type", "a,b", ",", "^$", "(?i)", "\\d+", "a|b", "x{2,1}", "'", "`", "\t"]
FILE_EXTRA = [".go", "nope.go", "a b.go", "sub/a.go", "A.GO", "*.go", "[a].go"]
STRING_FLAGS = {"new": ["type", "file", "ver", "version", "tagcase"], "enum": ["type", "file", "ver", "version"],
                "rest": ["type", "file", "ver", "version"], "map": ["type", "file", "ver", "version", "path", "alias", "to", "way"]}


def sweep_base(sub):
    if sub == "new":
        return ["new", "-type=Order"], _new_pkg(), None, "Order"
    if sub == "enum":
        return ["enum", "-type=Color"], _enum_pkg([]), None, "Color"
    if sub == "rest":
        return ["rest", "-type=Client"], _rest_pkg()[0], None, "Client"
    return list(MAP_ARGS), _map_src(), DEST_T, "T"


def flag_sweep(rng, full):
    """every string flag of every subcommand x hostile values (regexp metacharacters, empty, blank, spaces, slashes, quotes,
    non-ASCII, option-like).  full: the whole product; otherwise all of it for the flags whose value reaches the
    analyses (-alias, -path, -to, -type, -file) on the cheapest subcommand that has them, and a sample of the rest."""
    cases = []
    for sub, flags in STRING_FLAGS.items():
        for fl in flags:
            vals = HOSTILE + (FILE_EXTRA if fl == "file" else []) + (["a\nb"] if fl in ("ver", "version") else [])
            for k, v in enumerate(vals):
                args, files, dest, tname = sweep_base(sub)
                if fl in ("type", "file"):
                    args = [a for a in args if not a.startswith("-type=")]
                tok = ["-%s=%s" % (fl, v)] if (k % 3) else ["-" + fl, v]
                args = args[:1] + tok + args[1:] if (k % 2) else args + tok
                c = _case(sub, args, files, dest)
                c.labels = ["sweep:%s:-%s" % (sub, fl)]
                ident = re.match(r"^[A-Za-z_]\w*$", v) is not None and v not in GO_KEYWORDS
                if fl == "alias" and v != "" and not ident:
                    c.uncertain = [tname]
                if fl in ("ver", "version") and "\n" in v:
                    c.uncertain = [tname]
                if fl == "type" and "" in v.split(",") and v != "":
                    c.uncertain = [""]
                c.sweep_key = (sub, fl)
                cases.append(c)
    if full:
        return cases
    core = {("map", "alias"), ("map", "path"), ("map", "to"), ("map", "way"), ("new", "tagcase"), ("new", "type"), ("new", "file"),
            ("new", "ver")}
    keep = [c for c in cases if c.sweep_key in core]
    rest = [c for c in cases if c.sweep_key not in core]
    return keep + rng.sample(rest, 48)


# ------------------------------------------------- deterministic coverage suite

def _new_pkg(extra_fields=(), extra_decls=()):
    fs = [F.Field(["id"], F.tid("int")), F.Field(["Name"], F.tid("string"))] + list(extra_fields)
    return [_file("a.go", [_struct("Order", fs),
                           ("type", [F.TSpec("Pinger", ("iface", [F.Method("Ping", None, [], [F.Param([], F.tid("error"))])]))])]
                  + list(extra_decls))]


def _enum_pkg(decls):
    base = [("type", [F.TSpec("Color", ("other", F.tid("int")))]),
            ("const", [F.VSpec(["ColorRed"], F.tid("Color"), "iota"), F.VSpec(["ColorBlue"], None, None)])]
    return [_file("e.go", base + list(decls))]


def _rest_pkg(params=None, results=None, path='"/items/{id}"', embeds=None, extra=None):
    ctx = F.Param(["ctx"], F.tsel("context", "Context"))
    resp, err = F.Param([], F.tstar(F.tsel("http", "Response"))), F.Param([], F.tid("error"))
    m = F.Method("Get", ("req", "Get", path), [ctx] + list(params or [F.Param(["id"], F.tid("int"))]),
                 list(results) if results is not None else [resp, err])
    items = (embeds if embeds is not None else [F.Embed("rest", "shoot.RestClient[Client]")]) + [m]
    req = _struct("Req", [F.Field(["A"], F.tid("int")), F.Field(["B"], F.tid("string"))])
    return [_file("r.go", [req, ("type", [F.TSpec("Client", ("iface", items))])])], (extra or {})


def _map_src(decls=()):
    return [_file("s.go", [_struct("T", [F.Field(["ID"], F.tid("int"))])] + list(decls))]


def coverage_suite():
    """one minimal case per diagnostic class of the model; returns [(class the case aims at, Case)]"""
    S = F.tstar(F.tid("string"))
    resp, err = F.Param([], F.tstar(F.tsel("http", "Response"))), F.Param([], F.tid("error"))
    dT = F.tsel("dest", "T")
    out = []

    def add(d, c, **kw):
        for k, v in kw.items():
            setattr(c, k, v)
        c.labels = ["suite:" + d]
        out.append((d, c))

    add("DVersion", _case("new", ["version"], _new_pkg()))
    add("DHelp", _case("new", ["new", "-h"], _new_pkg()))
    add("DSuccess", _case("new", ["new", "-type=Order", "-getset", "-json"], _new_pkg()))
    add("DNothing", _case("rest", ["rest", "-file=a.go"], _new_pkg()))
    add("DEnumNotExists", _case("enum", ["enum", "-type=Color,Nope"], _enum_pkg([])))
    add("DDupOutput", _case("new", ["new", "-type=Order,Order"], _new_pkg()))
    add("DUsageNoArgs", _case("new", [], _new_pkg()))
    add("DUsageUnknownSub", _case("new", ["bogus", "-type=Order"], _new_pkg()))
    add("DTopFlag", _case("new", ["-x", "new", "-type=Order"], _new_pkg()))
    add("DUsageNoSubArgs", _case("new", ["new"], _new_pkg()))
    add("DFlagError", _case("new", ["new", "-type=Order", "-tagcase=weird"], _new_pkg()))
    add("DUsageNoTypeNoFile", _case("new", ["new", "-json"], _new_pkg()))
    add("DWorkDir", _case("new", ["new", "-type=Order", "./nope"], _new_pkg()))
    add("DFileNotGo", _case("new", ["new", "-file=a.txt"], _new_pkg()))
    add("DFileNotExists", _case("new", ["new", "-file=zz9.go"], _new_pkg()))
    add("DGormNeedsSql", _case("enum", ["enum", "-type=Color", "-gorm"], _enum_pkg([])))
    add("DToNeedsType", _case("map", ["map", "-path=../dest", "-file=s.go", "-to=T"], _map_src(), DEST_T))
    add("DToAlign", _case("map", ["map", "-path=../dest", "-type=T", "-to=A,B"], _map_src(), DEST_T))
    add("DDestDir", _case("map", ["map", "-path=../nodest", "-type=T"], _map_src(), DEST_T))
    c = _case("map", ["map", "-path=../dest.go", "-type=T"], _map_src(), DEST_T)
    c.dests["../dest.go"] = ("file", "dest.go")
    add("DLoadError", c)
    add("DNoPackage", _case("new", ["new", "-type=Order"], _new_pkg()), inmodule=False)
    add("DMultiPkg", _case("new", ["new", "-type=Order"], _new_pkg() + [_file("b.go", [_struct("Stranger", [])], pkg="otherpkg")]))
    add("DMultiPkg", _case("map", ["map", "-type=T"], _map_src(), DEST_T))
    add("DNotInFile", _case("new", ["new", "-file=a.go", "-type=Nope"], _new_pkg()))
    add("DNewNotExists", _case("new", ["new", "-type=Order,Nope"], _new_pkg()))
    add("DNewNotStruct", _case("new", ["new", "-type=Pinger"], _new_pkg()))
    add("DNewExportedGetSet", _case("new", ["new", "-type=Order", "-getset"],
                                    _new_pkg([F.Field(["Visible"], F.tid("int"), True, False, False, "//shoot: get")])))
    add("DEnumAlias", _case("enum", ["enum", "-type=Al"], _enum_pkg([("type", [F.TSpec("Al", ("other", F.tid("int")), alias=True)]),
                                                                      ("const", [F.VSpec(["AlA"], F.tid("Al"), "1")])])))
    add("DEnumNonInt", _case("enum", ["enum", "-type=St"], _enum_pkg([("type", [F.TSpec("St", ("other", F.tid("string")))]),
                                                                      ("const", [F.VSpec(["StA"], F.tid("St"), '"a"', intval=False)])])))
    add("DEnumNotIntValue", _case("enum", ["enum", "-type=Color"], _enum_pkg([("const", [F.VSpec(["ColorBad"], F.tid("Color"), '"x"', intval=False)])])))
    fs, ex = _rest_pkg()
    add("DRestNotExists", _case("rest", ["rest", "-type=Nope"], fs))
    fs, ex = _rest_pkg(params=[F.Param(["ids"], ("arr", F.tid("int")))])
    add("DRestParamType", _case("rest", ["rest", "-type=Client"], fs))
    fs, ex = _rest_pkg(params=[F.Param(["a"], F.tid("Req")), F.Param(["b"], F.tstar(F.tid("Req")))])
    add("DRestAmbiguousBody", _case("rest", ["rest", "-type=Client"], fs))
    fs, ex = _rest_pkg(params=[F.Param(["q1", "q2"], ("map", F.tid("string"), F.tid("string")))])
    add("DRestAmbiguousQuery", _case("rest", ["rest", "-type=Client"], fs))
    fs, ex = _rest_pkg()
    fs[0].decls[1][1][0].body[1][1].doc = ("req", "Post", '"/items"')
    add("DRestNeedsBody", _case("rest", ["rest", "-type=Client"], fs))
    fs, ex = _rest_pkg(params=[F.Param(["id"], F.tid("int")), F.Param(["_"], F.tid("string"))])
    add("DRestUnnamedParam", _case("rest", ["rest", "-type=Client"], fs))
    fs, ex = _rest_pkg(params=[F.Param(["id"], F.tstar(F.tid("int")))])
    add("DRestPtrPathParam", _case("rest", ["rest", "-type=Client"], fs))
    fs, ex = _rest_pkg(path='"/a"b"')
    add("DRestBadPath", _case("rest", ["rest", "-type=Client"], fs))
    fs, ex = _rest_pkg(results=[err])
    add("DRestFewResults", _case("rest", ["rest", "-type=Client"], fs))
    fs, ex = _rest_pkg(results=[F.Param([], F.tid("int")), F.Param([], S), resp, err])
    add("DRestManyResults", _case("rest", ["rest", "-type=Client"], fs))
    fs, ex = _rest_pkg(results=[F.Param([], S), err])
    add("DRestSecondToLast", _case("rest", ["rest", "-type=Client"], fs))
    fs, ex = _rest_pkg(results=[resp, F.Param([], S)])
    add("DRestLast", _case("rest", ["rest", "-type=Client"], fs))
    fs, ex = _rest_pkg(results=[F.Param(["r"], S), F.Param(["h"], F.tstar(F.tsel("http", "Response"))), F.Param(["e"], F.tid("error"))])
    add("DRestNamedResults", _case("rest", ["rest", "-type=Client"], fs))
    fs, ex = _rest_pkg(results=[F.Param([], F.tid("Req")), resp, err])
    add("DRestReturnType", _case("rest", ["rest", "-type=Client"], fs))
    fs, ex = _rest_pkg(results=[F.Param([], ("arrn", F.tid("string"))), resp, err])
    add("DRestArrayReturn", _case("rest", ["rest", "-type=Client"], fs))
    fs, ex = _rest_pkg(results=[F.Param(["first", "second"], F.tstar(F.tsel("http", "Response")))])
    add("DRestLast", _case("rest", ["rest", "-type=Client"], fs))
    fs, ex = _rest_pkg(params=[F.Param(["q"], F.tid("Req"))])
    add("DRestExtract", _case("rest", ["rest", "-type=Client"], fs, extra={"q7.broken.go": ("dangling",)}))
    add("DMapSrcNotExists", _case("map", ["map", "-path=../dest", "-type=Nope"], _map_src(), DEST_T))
    add("DMapDestNotExists", _case("map", ["map", "-path=../dest", "-type=T", "-to=Gone"], _map_src(), DEST_T))
    # several types of which one has no destination: nothing may be written for the others either
    two = _map_src([_struct("U", [F.Field(["ID"], F.tid("int"))])])
    add("DMapDestNotExists", _case("map", ["map", "-path=../dest", "-type=T,U"], two, DEST_T))
    add("DMapDestNotExists", _case("map", ["map", "-path=../dest", "-type=U,T", "-sep"], _map_src([_struct("U", [F.Field(["ID"], F.tid("int"))])]), DEST_T))
    add("DMapDestNotExists", _case("map", ["map", "-path=../dest", "-type=T,U", "-to=T,Gone"], _map_src([_struct("U", [F.Field(["ID"], F.tid("int"))])]),
                                   [_file("d.go", [_struct("T", [F.Field(["ID"], F.tid("int"))]), _struct("U", [F.Field(["ID"], F.tid("int"))])], pkg="dest", imports=())]))
    add("DMapPtrRecv", _case("map", MAP_ARGS, _map_src([_fn("toDest", [F.Param(["t"], F.tid("T"))], [F.Param(["d"], F.tstar(dT))])]), DEST_T))
    add("DMapWriteParam", _case("map", MAP_ARGS, _map_src([_fn("toDest", RECV_PT, [F.Param(["d"], dT)])]), DEST_T))
    add("DMapDupWrite", _case("map", MAP_ARGS, _map_src([_fn("toDest", RECV_PT, [F.Param(["d"], F.tstar(dT))]),
                                                         _fn("writeDest", RECV_PT, [F.Param(["d"], F.tstar(dT))])]), DEST_T))
    add("DMapReadParam", _case("map", MAP_ARGS, _map_src([_fn("fromDest", RECV_PT, [F.Param(["d"], F.tid("int"))])]), DEST_T))
    add("DMapDupRead", _case("map", MAP_ARGS, _map_src([_fn("fromDest", RECV_PT, [F.Param(["d"], dT)]),
                                                        _fn("readDest", RECV_PT, [F.Param(["d"], F.tstar(dT))])]), DEST_T))
    c = _case("new", ["new", "-type=Order"], _new_pkg([F.Field(["Type"], F.tid("int"))]))
    c.uncertain = ["Order"]
    add("DFormatSource", c)
    return out
