"""C04 enum tables: theorems in coq/Properties/C04.v; correspondence of
coq/Model/Enum.v with the real `shoot enum` (internal/enumer/str.go, enumer.tmpl)
through generated packages, the compiled output and an in-package oracle
(harness/enumrun.py, harness/enumgen.py, harness/enum_go/zz.go.txt)."""
import json

import lib
import enumgen as eg
import enumrun as er

THEOREMS = ("C04_constant_to_name_and_back / C04_maps_hold_only_declared / C04_values_strings_aligned / "
            "C04_values_ascending / C04_is_valid_iff_declared / C04_string_of_undeclared_is_decimal / C04_stale_guard")


def nontrivial_key(spec, t):
    decl = spec.declared(t.tname)
    if len(decl) < 2:
        return None
    vals = [v for _, v in decl]
    names = {n for n, _ in decl}
    carried = blocks = 0
    for b in spec.all_blocks():
        hit = False
        for s in b.specs:
            mine = [n for n in s.names if n in names]
            if mine:
                hit = True
                if not s.vals or len(s.names) > 1:
                    carried += 1
        blocks += hit
    if vals != sorted(vals) or carried or blocks > 1 or min(vals) < 0 or max(vals) >= (1 << 63):
        return (t.kind, tuple(decl), tuple(sorted(k for k, v in t.flags.items() if v)))
    return None


def handlers(batch, wdup, wforeign, wdtrim, wresv):
    def neg(entry):
        errs = []
        for w in ("wneg", "wbig"):
            g = batch.gen[w]
            if any(rc != 0 for rc in g["rc"]):
                errs.append(g["err"])
        if errs:
            return "buggy" if any("format source" in e or "expected" in e for e in errs) else "other: shoot failed: " + errs[0][-300:]
        if "wneg" in batch.failed or "wbig" in batch.failed:
            return "other: output of the witness does not compile: %s" % (batch.failed.get("wneg") or batch.failed.get("wbig"))
        return "correct"

    def sort_unsigned(entry):
        o1 = batch.obs.get(("wneg", "Level"), {}).get("values")
        o2 = batch.obs.get(("wbig", "Big"), {}).get("values")
        if o1 == ["-2", "0", "3"] and o2 == ["1", "2", str(1 << 63), str((1 << 64) - 1)]:
            return "correct"
        if o1 == ["0", "3", "-2"] or (o2 is not None and sorted(o2, key=int) != o2):
            return "buggy"
        return "other: Values() of the witnesses = %s / %s" % (o1, o2)

    def dup(entry):
        if wdup.gen["rc"] != 0:
            return "other: shoot exit %s: %s" % (wdup.gen["rc"], wdup.gen["err"][-300:])
        e = wdup.errors()
        if any("duplicate key" in l for l in e):
            return "buggy"
        if e:
            return "other: " + "; ".join(e)[:400]
        o = batch.obs.get(("walias", "Color"), {})
        if o.get("values") == ["1", "2"] and o.get("strings") == ["Red", "Blue"] and len(o.get("vmap", [])) == 4:
            return "correct"
        return "other: the alias witness gives Values %s Strings %s ValueMap %s" % (o.get("values"), o.get("strings"), o.get("vmap"))

    def implicit(entry):
        o = batch.obs.get(("wimpl", "Perm"), {})
        if o.get("values") == ["1", "2"]:
            return "buggy"
        if o.get("values") == ["1", "2", "3"]:
            return "correct"
        return "other: Values() = %s, build errors %s" % (o.get("values"), batch.failed.get("wimpl"))

    def foreign(entry):
        if wforeign.gen["rc"] != 0:
            return "correct" if "Tock" not in wforeign.gen["err"] else "other: shoot: " + wforeign.gen["err"][-300:]
        e = wforeign.errors()
        if any("Tock" in l for l in e):
            return "buggy"
        return "correct" if not e else "other: " + "; ".join(e)[:400]
    def dup_trimmed(entry):
        if wdtrim.gen["rc"] != 0:
            return "correct" if "High" in wdtrim.gen["err"] else "other: shoot: " + wdtrim.gen["err"][-300:]
        e = wdtrim.errors()
        if any('duplicate key "High"' in l for l in e):
            return "buggy"
        return "correct" if not e else "other: " + "; ".join(e)[:400]

    def reserved(entry):
        if wresv.gen["rc"] != 0:
            return "correct" if "x" in wresv.gen["err"] else "other: shoot: " + wresv.gen["err"][-300:]
        e = wresv.errors()
        if any(".shootenum" in l for l in e):
            return "buggy"
        return "correct" if not e else "other: " + "; ".join(e)[:400]
    return {"K_enum_neg": neg, "K_enum_sort_unsigned": sort_unsigned, "K_enum_dup": dup,
            "K_enum_implicit_type": implicit, "K_enum_foreign_carry": foreign,
            "K_enum_dup_trimmed": dup_trimmed, "K_enum_reserved_names": reserved}


def main(run):
    proof_ok = run.prove("Properties/C04.v", ["Corr/EnumCorr.v"])
    shoot = run.build_shoot()
    thorough = run.thorough()
    total = 1400 if thorough else 70
    chunk = 140
    all_rows, all_mism, stale_rows, stale_mism = [], [], [], []
    feats, keys, evaluations, programs, builds = {}, set(), 0, 0, 0
    outcome = {}
    in_guard = stale_guard_failures = 0
    done = 0
    bi = 0
    while done < total:
        n = min(chunk, total - done)
        batch = er.Batch(run, "c04mod%d" % bi)
        specs = []
        if bi == 0:
            specs += [er.witness_neg(), er.witness_big(), er.witness_alias()] + er.coincidence_specs()
        specs += [eg.gen_enum_pkg(run.rng, "p%04d" % (done + i), profile="c04") for i in range(n)]
        by_name = {}
        for spec in specs:
            inputs = er.make_inputs(run.rng, spec, "C04", thorough)
            batch.add(er.job_of_spec(spec, inputs))
            by_name[spec.name] = spec
            evaluations += er.count_evaluations(inputs)
            for f in spec.features:
                feats[f] = feats.get(f, 0) + 1
            for t in spec.targets:
                k = nontrivial_key(spec, t)
                if k:
                    keys.add(k)
        if bi == 0:
            wi = er.witness_implicit()
            batch.add(er.job_of_spec(wi, er.make_inputs(run.rng, wi, "C04"), compare=False))
        batch.generate(shoot)
        if bi == 0:
            wdup = er.BuildOnly(batch, shoot, "wdup", er.WITNESS_DUP, ["enum", "-type=Color"])
            wforeign = er.BuildOnly(batch, shoot, "wforeign", er.WITNESS_FOREIGN, ["enum", "-type=Lvl"])
            wdtrim = er.BuildOnly(batch, shoot, "wdtrim", er.WITNESS_DUP_TRIMMED, ["enum", "-type=Level"])
            wresv = er.BuildOnly(batch, shoot, "wresv", er.WITNESS_RESERVED, ["enum", "-type=Axis"])
        run.log("batch %d: %d packages generated" % (bi, len(batch.jobs)))
        batch.build_and_run()
        run.log("batch %d: built and executed (%d go builds)" % (bi, batch.builds))
        # ---- stale-guard pass: edit the source, keep the old output, go build
        stale = []
        for spec in specs:
            if spec.name in batch.failed or run.rng.random() > (0.75 if not thorough else 0.6):
                continue
            sv = er.stale_variant(run.rng, spec)
            if sv is None:
                continue
            variants = [sv]
            if len(spec.targets) > 1:
                # one more variant per further target type: a constant of exactly that type changes
                # (in an all-in-one output every type must keep its own guard)
                for t in spec.targets[1:]:
                    sv2 = er.stale_variant(run.rng, spec, of_type=t.tname)
                    if sv2 is not None:
                        variants.append(sv2)
            for vi, (s2, desc) in enumerate(variants):
                d = spec.name + "s" + (str(vi) if vi else "")
                er.l2.write_files(batch.mod / d, eg.render_go(s2))
                batch.copy_generated(spec.name, d)
                batch.extra_dirs[d] = {}
                stale.append((spec, s2, desc, d))
        batch.build_extra()
        run.log("batch %d: %d stale variants built" % (bi, len(stale)))
        rows = batch.coq_cases()
        mism = er.coq_mismatches(run, "mismatches04", [r[2] for r in rows], "c04_%d" % bi)
        in_guard += er.coq_mismatches.in_guard
        srows = [(spec, s2, desc, d, d not in batch.extra_errs) for spec, s2, desc, d in stale]
        for spec, s2, desc, d, built in srows:
            # a stale variant whose declared values changed must fail BECAUSE OF the guard (or a table key)
            if not built and er.declared_changed(spec, s2):
                stale_guard_failures += 1
                if not er.stale_failure_is_guard(batch.extra_errs[d]):
                    run.violation({"kind": "stale-variant-fails-for-another-reason",
                                   "correspondence": "L2:C04:stale guard: the build of the edited package fails, but no "
                                                     "error of the guard function / map keys is among the errors",
                                   "edit": desc, "build_errors": batch.extra_errs[d],
                                   "sources_at_generation": eg.render_go(spec), "sources_edited": eg.render_go(s2)},
                                  no_input=True)
        smism = er.coq_mismatches(run, "stale_mismatches", [er.coq_stale_case(sp, s2, b) for sp, s2, _, _, b in srows],
                                  "c04s_%d" % bi, shard=40, ctype="stale_case")
        run.log("batch %d: coq done, mismatches %d + %d" % (bi, len(mism), len(smism)))
        if bi == 0:
            outcome = run.replay_findings(handlers(batch, wdup, wforeign, wdtrim, wresv))
        er.report(run, batch, "C04", THEOREMS, mism, rows)
        for idx, v in smism[:3]:
            spec, s2, desc, d, built = srows[idx]
            run.violation({"kind": "property-fails-on-implementation" if v == 2 else "correspondence-broken",
                           "theorem": "C04_stale_guard / C04_guard_exact",
                           "correspondence": "L2:C04:stale guard (go build of an edited source with the old output) vs compiles",
                           "edit": desc, "go_build_succeeded": built, "build_errors": batch.extra_errs.get(d),
                           "commands": [" ".join(["shoot"] + a) for a, _ in spec.runs],
                           "sources_at_generation": eg.render_go(spec), "sources_edited": eg.render_go(s2),
                           "job": [j for j in batch.jobs if j["name"] == spec.name][0],
                           "coq_stale_case": [er.coq_stale_case(spec, s2, True), er.coq_stale_case(spec, s2, False)],
                           "how": "generate with the commands on sources_at_generation, replace the sources by "
                                  "sources_edited without regenerating, go build"},
                          no_input=(v != 2))
        all_rows += rows
        all_mism += mism
        stale_rows += srows
        stale_mism += smism
        programs += len(batch.jobs) + len(batch.extra_dirs)
        builds += batch.builds
        done += n
        bi += 1
    if not proof_ok and not all_mism and not stale_mism:
        run.proof_failure_violation()
    if in_guard != len(all_rows):
        run.violation({"kind": "comparison-stream-left-the-guard",
                       "correspondence": "L2:C04: %d of %d compared targets are inside enum_guard (EnumCorr.guard_count); "
                                         "the generator is expected to keep all of them inside" % (in_guard, len(all_rows))},
                      no_input=True)
    kinds = {}
    for job, t, term, o in all_rows:
        kinds[t["kind"]] = kinds.get(t["kind"], 0) + 1
    sample_rows = [all_rows[i] for i in (1, len(all_rows) // 2, len(all_rows) - 1)]
    cov = {
        "evaluations": evaluations + len(stale_rows),
        "distinct_nontrivial": len(keys),
        "rule": ("%d random packages of the enum grammar (harness/enumgen.py, profile c04: 1..3 integer types of the ten "
                 "kinds, 1..3 files, const blocks in the styles iota-expression / explicit literals incl. negative and "
                 "extreme values / multi-name / single, with carried-down specs, `_`, untyped and other-type "
                 "interlopers, qualified-type specs (time.Duration, os.FileMode, time.Month) with constants carried down from them, "
                 "prefixed / unprefixed / near-miss / suffixed names; shoot run per "
                 "type, jointly, with -type=* or -file) plus the hand-made witnesses; per target the oracle evaluates "
                 "Values/Strings/ValueMap/StringMap and String/IsValid on a window of up to %d values around and "
                 "between the declared ones (kind min/max included) and prints every constant; evaluations = table "
                 "and window observations + stale-guard builds; non-trivial = distinct (kind, declared constants, "
                 "flags) with >= 2 constants and at least one of: declaration order differs from ascending order, a "
                 "constant declared by a carried-down or multi-name spec, constants in several blocks, a negative "
                 "value, a value above MaxInt64" % (total, 112 if thorough else 56)),
        "exhaustive": False,
        "traces_validated_against_impl": len(all_rows) + len(stale_rows),
        "programs": programs,
        "go_builds": builds,
        "targets": len(all_rows),
        "targets_in_guard": in_guard,
        "stale_cases": len(stale_rows),
        "stale_failures_checked_to_be_guard_errors": stale_guard_failures,
        "stale_edit_kinds": count_by(d.split(":")[0] for _, _, d, _, _ in stale_rows),
        "stale_build_failed": sum(1 for r in stale_rows if not r[4]),
        "kinds": kinds,
        "features": dict(sorted(feats.items())),
        "findings_measured": outcome,
        "samples": [{"sources": job["sources"], "commands": job["runs"], "type": t["type"], "declared": t["declared"],
                     "observed": {k: (o or {}).get(k) for k in ("values", "strings", "points")}}
                    for job, t, term, o in sample_rows] +
                   [{"stale_edit": d, "go_build_succeeded": b} for _, _, d, _, b in stale_rows[:3]],
        "trusted_base": lib.TRUSTED_BASE_COMMON + TRUSTED,
    }
    return run.finish(cov, assumptions=ASSUMPTIONS)


def count_by(it):
    res = {}
    for x in it:
        res[x] = res.get(x, 0) + 1
    return res


TRUSTED = [
    "go/types is modelled by Model/Enum.v const_env (exact integer constant arithmetic, Go's implicit repetition "
    "of type and expression, representability in the constant's type); cross-checked on every run by the "
    "int64/uint64 values the Go compiler prints for every constant (component consts)",
    "int and uint are 64 bits wide (the check runs on a 64-bit platform)",
    "text/template + gofmt + goimports: the meaning of enumer.tmpl is given by hand (Model/Enum.v section "
    "Generated); Go map literals/lookup, slices, fmt %d as assoc lists, lists, decimal printing",
    "sort.SliceStable is modelled by a stable insertion sort with the same comparator (the stable sorted "
    "arrangement is unique); compile errors of the generated file are modelled only for the stale guard index and duplicate "
    "map keys (Enum.compiles)",
    "packages.Load presents the files in file-name order (decides which of two aliases declared in different files "
    "is the first declared name; exercised by the run)",
]

ASSUMPTIONS = [
    "guards of the theorems (decidable, Properties/C04.v enum_guard): the package compiles; no spec's type is only "
    "inferred from its expression such as `AB = A | B` (open finding K_enum_implicit_type, with a refutation theorem "
    "and a witness replayed on every run); no two constants of the type with one trimmed name.  Aliases (several "
    "constants with one value; K_enum_dup, repaired) and qualified-type specs (K_enum_foreign_carry, repaired) are "
    "inside the guard and inside the comparison stream",
    "the comparison stream stays inside the guard (checked per case inside Coq: EnumCorr.in_guard; a case in the "
    "guard on which the MODEL's observation fails the boolean property is reported, verdict code 3); type names "
    "that collide after camelCase (Level/level) are kept out (C01)",
    "stale guard: the edited package itself compiles; edits change an expression, insert a blank spec, swap two "
    "specs, rename a constant, add constants, or nothing",
]


def replay(run, path):
    r = json.load(open(path))
    job = r.get("job")
    if not job:
        print("nothing to replay (no concrete input in %s)" % path)
        return 0
    run.prove("Properties/C04.v", ["Corr/EnumCorr.v"])
    shoot = run.build_shoot()
    batch = er.Batch(run, "c04replay")
    batch.add(job)
    batch.generate(shoot)
    batch.build_and_run()
    if r.get("sources_edited"):
        d = job["name"] + "s"
        er.l2.write_files(batch.mod / d, r["sources_edited"])
        batch.copy_generated(job["name"], d)
        batch.extra_dirs[d] = {}
        batch.build_extra()
        built = d not in batch.extra_errs
        m = er.coq_mismatches(run, "stale_mismatches", [r["coq_stale_case"][0 if built else 1]], "c04sreplay",
                              ctype="stale_case")
        print("edit:", r.get("edit"), "go build succeeded:", built, "errors:", batch.extra_errs.get(d), "verdict:", m)
        if m:
            print("VIOLATION property=C04 replay=%s" % path)
            return 1
        return 0
    rows = batch.coq_cases(only_compare=False)
    rows = [x for x in rows if x[1]["type"] == r.get("type")] or rows
    m = er.coq_mismatches(run, "mismatches04", [x[2] for x in rows], "c04replay")
    print("shoot:", batch.gen, "build errors:", batch.failed, "verdicts:", m)
    if m:
        print("VIOLATION property=C04 replay=%s" % path)
        return 1
    return 0
