module verifharness

go 1.24.0

toolchain go1.24.6

require github.com/lopolopen/shoot v0.0.0

replace github.com/lopolopen/shoot => /repo
