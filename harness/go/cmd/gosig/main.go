// gosig: for every Go file named on stdin (one path per line) print, in source
// order, the types a shoot run generated into it, recognised by the marker
// methods of the four templates:
//
//	<path>\t<marker>\t<type>
//
// ShootNew / ShootEnum / ShootMap: the receiver's base type name.
// ShootRest: the interface name, read from the result type of the nearest
// preceding ConfigHTTPClient method with the same receiver (the receiver itself
// is the camel-cased implementation struct).
// A file that does not parse yields  <path>\tPARSE_ERROR\t<message>.
// Every file ends with a line  <path>\tEND\t<package name>.
// Only go/parser is used (no type checking): the files need not compile.
package main

import (
	"bufio"
	"fmt"
	"go/ast"
	"go/parser"
	"go/token"
	"os"
	"strings"
)

func baseName(e ast.Expr) string {
	switch t := e.(type) {
	case *ast.StarExpr:
		return baseName(t.X)
	case *ast.IndexExpr:
		return baseName(t.X)
	case *ast.IndexListExpr:
		return baseName(t.X)
	case *ast.ParenExpr:
		return baseName(t.X)
	case *ast.Ident:
		return t.Name
	}
	return "?"
}

var markers = map[string]bool{"ShootNew": true, "ShootEnum": true, "ShootRest": true, "ShootMap": true}

func main() {
	out := bufio.NewWriter(os.Stdout)
	defer out.Flush()
	sc := bufio.NewScanner(os.Stdin)
	for sc.Scan() {
		path := strings.TrimSpace(sc.Text())
		if path == "" {
			continue
		}
		fset := token.NewFileSet()
		f, err := parser.ParseFile(fset, path, nil, parser.ParseComments)
		if err != nil {
			fmt.Fprintf(out, "%s\tPARSE_ERROR\t%s\n", path, strings.ReplaceAll(err.Error(), "\n", " "))
			if f == nil {
				fmt.Fprintf(out, "%s\tEND\t?\n", path)
				continue
			}
		}
		// receiver -> result type of the latest ConfigHTTPClient seen so far (source order): the
		// template emits ConfigHTTPClient right before ShootRest, and two interfaces (X, _x) can
		// share one camel-cased implementation struct name
		conf := map[string]string{}
		for _, d := range f.Decls {
			fn, ok := d.(*ast.FuncDecl)
			if !ok || fn.Recv == nil || len(fn.Recv.List) == 0 {
				continue
			}
			recv := baseName(fn.Recv.List[0].Type)
			if fn.Name.Name == "ConfigHTTPClient" {
				if fn.Type.Results != nil && len(fn.Type.Results.List) == 1 {
					conf[recv] = baseName(fn.Type.Results.List[0].Type)
				}
				continue
			}
			if !markers[fn.Name.Name] {
				continue
			}
			if fn.Name.Name == "ShootRest" {
				if r, ok := conf[recv]; ok {
					recv = r
				} else {
					recv = "?" + recv
				}
			}
			fmt.Fprintf(out, "%s\t%s\t%s\n", path, fn.Name.Name, recv)
		}
		fmt.Fprintf(out, "%s\tEND\t%s\n", path, f.Name.Name)
	}
}
