// gosig: for every Go file named on stdin (one path per line) print, in source
// order, the types a shoot run generated into it, recognised by the marker
// methods of the four templates:
//
//	<path>\t<marker>\t<type>
//
// ShootNew / ShootEnum / ShootMap: the receiver's base type name.
// ShootRest: the interface name, read from the result type of the nearest
// preceding ConfigHTTPClient method with the same receiver (the receiver itself
// is the camel-cased implementation struct).
// A file that does not parse yields  <path>\tPARSE_ERROR\t<message>.
// Every file ends with a line  <path>\tEND\t<package name>.
// Only go/parser is used (no type checking): the files need not compile.
package main

import (
	"bufio"
	"fmt"
	"go/ast"
	"go/parser"
	"go/token"
	"os"
	"strings"
)

func baseName(e ast.Expr) string {
	switch t := e.(type) {
	case *ast.StarExpr:
		return baseName(t.X)
	case *ast.IndexExpr:
		return baseName(t.X)
	case *ast.IndexListExpr:
		return baseName(t.X)
	case *ast.ParenExpr:
		return baseName(t.X)
	case *ast.Ident:
		return t.Name
	}
	return "?"
}

var markers = map[string]bool{"ShootNew": true, "ShootEnum": true, "ShootRest": true, "ShootMap": true}

// rhsKind: the syntactic shape testNode looks at
func rhsKind(e ast.Expr) string {
	switch e.(type) {
	case *ast.StructType:
		return "struct"
	case *ast.InterfaceType:
		return "iface"
	}
	return "other"
}

func specLine(out *bufio.Writer, path, tag string, ts *ast.TypeSpec) {
	var tps []string
	if ts.TypeParams != nil {
		for _, f := range ts.TypeParams.List {
			for _, n := range f.Names {
				tps = append(tps, n.Name)
			}
		}
	}
	alias := "0"
	if ts.Assign.IsValid() {
		alias = "1"
	}
	fmt.Fprintf(out, "%s\t%s\t%s\t%s\t%s\t%s\n", path, tag, ts.Name.Name, rhsKind(ts.Type), alias, strings.Join(tps, ","))
}

// dumpDecls (-decls): the type specs of a file as the skeleton of harness/cligen.py sees them:
//
//	<path>\tTYPE\t<name>\t<struct|iface|other>\t<alias 0|1>\t<type params>     package level, source order
//	<path>\tLOCAL\t...                                                        declared inside a function body
//	<path>\tCONST\t<type identifier or ->\t<name>                            package-level constants
func dumpDecls(out *bufio.Writer, path string) {
	fset := token.NewFileSet()
	f, err := parser.ParseFile(fset, path, nil, parser.ParseComments)
	if err != nil || f == nil {
		fmt.Fprintf(out, "%s\tPARSE_ERROR\t%v\n", path, err)
		return
	}
	for _, d := range f.Decls {
		switch d := d.(type) {
		case *ast.GenDecl:
			for _, sp := range d.Specs {
				switch sp := sp.(type) {
				case *ast.TypeSpec:
					specLine(out, path, "TYPE", sp)
				case *ast.ValueSpec:
					if d.Tok == token.CONST {
						ty := "-"
						if id, ok := sp.Type.(*ast.Ident); ok {
							ty = id.Name
						}
						for _, n := range sp.Names {
							fmt.Fprintf(out, "%s\tCONST\t%s\t%s\n", path, ty, n.Name)
						}
					}
				}
			}
		case *ast.FuncDecl:
			ast.Inspect(d, func(n ast.Node) bool {
				if ts, ok := n.(*ast.TypeSpec); ok {
					specLine(out, path, "LOCAL", ts)
				}
				return true
			})
		}
	}
	fmt.Fprintf(out, "%s\tEND\t%s\n", path, f.Name.Name)
}

func main() {
	out := bufio.NewWriter(os.Stdout)
	defer out.Flush()
	if len(os.Args) > 1 && os.Args[1] == "-decls" {
		sc := bufio.NewScanner(os.Stdin)
		for sc.Scan() {
			if p := strings.TrimSpace(sc.Text()); p != "" {
				dumpDecls(out, p)
			}
		}
		return
	}
	sc := bufio.NewScanner(os.Stdin)
	for sc.Scan() {
		path := strings.TrimSpace(sc.Text())
		if path == "" {
			continue
		}
		fset := token.NewFileSet()
		f, err := parser.ParseFile(fset, path, nil, parser.ParseComments)
		if err != nil {
			fmt.Fprintf(out, "%s\tPARSE_ERROR\t%s\n", path, strings.ReplaceAll(err.Error(), "\n", " "))
			if f == nil {
				fmt.Fprintf(out, "%s\tEND\t?\n", path)
				continue
			}
		}
		// receiver -> result type of the latest ConfigHTTPClient seen so far (source order): the
		// template emits ConfigHTTPClient right before ShootRest, and two interfaces (X, _x) can
		// share one camel-cased implementation struct name
		conf := map[string]string{}
		for _, d := range f.Decls {
			fn, ok := d.(*ast.FuncDecl)
			if !ok || fn.Recv == nil || len(fn.Recv.List) == 0 {
				continue
			}
			recv := baseName(fn.Recv.List[0].Type)
			if fn.Name.Name == "ConfigHTTPClient" {
				if fn.Type.Results != nil && len(fn.Type.Results.List) == 1 {
					conf[recv] = baseName(fn.Type.Results.List[0].Type)
				}
				continue
			}
			if !markers[fn.Name.Name] {
				continue
			}
			if fn.Name.Name == "ShootRest" {
				if r, ok := conf[recv]; ok {
					recv = r
				} else {
					recv = "?" + recv
				}
			}
			fmt.Fprintf(out, "%s\t%s\t%s\n", path, fn.Name.Name, recv)
		}
		fmt.Fprintf(out, "%s\tEND\t%s\n", path, f.Name.Name)
	}
}
