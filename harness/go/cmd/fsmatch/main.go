// fsmatch: reads lines  <quoted pattern> TAB <quoted name>  and prints, per line,
// 1 or 0: the verdict of path/filepath.Match (what filepath.Glob applies to every
// directory entry).  Used by the C17 check to validate Model/Fs.v [glob].
package main

import (
	"bufio"
	"fmt"
	"os"
	"path/filepath"
	"strconv"
	"strings"
)

func main() {
	in := bufio.NewScanner(os.Stdin)
	in.Buffer(make([]byte, 1<<20), 1<<20)
	out := bufio.NewWriter(os.Stdout)
	defer out.Flush()
	for in.Scan() {
		parts := strings.Split(in.Text(), "\t")
		if len(parts) != 2 {
			fmt.Fprintln(out, "E")
			continue
		}
		pat, err1 := strconv.Unquote(parts[0])
		name, err2 := strconv.Unquote(parts[1])
		if err1 != nil || err2 != nil {
			fmt.Fprintln(out, "E")
			continue
		}
		ok, err := filepath.Match(pat, name)
		if err != nil {
			fmt.Fprintln(out, "E")
		} else if ok {
			fmt.Fprintln(out, "1")
		} else {
			fmt.Fprintln(out, "0")
		}
	}
}
