// ctoracc: type-check every package of a scratch module (go/packages, offline) and dump
// what the accessor / JSON properties of `shoot new` (C03, C11) speak about, as one JSON
// object per package on stdout (one line each):
//
//	{"pkg": import path, "name": package name, "errors": [...],
//	 "structs": {T: {"tparams": [[name, constraint]...],
//	                 "fields":  [[name, type, tag, embedded "1"/"0"]...]      (declaration order)
//	                 "own":     [[name, kind, type, receiver "ptr"/"val"]...]  methods DECLARED on T (sorted)
//	                 "mset":    [[name, kind, type, path...]...]               method set of *T (sorted); path = the
//	                                                                          embedded fields the method is promoted through
//	                }},
//	 "ifaces":  {I: {"tparams": [...], "embeds": [type strings, source order], "explicit": [[name, kind, type]...],
//	                 "methods": [[name, kind, type]...] (complete method set, sorted),
//	                 "impl": "yes"|"no"|"n/a"}},
//	 "funcs":   {F: {"tparams": [...], "params": [[name, type]...], "results": [type...]}}}
//
// kind/type of a method: no parameter and one result -> ("get", result type); one parameter and no result ->
// ("set", parameter type); anything else -> ("other", the signature).
// "impl" of an interface named <T>Getter / <T>Setter where T is a struct of the package with the same number of
// type parameters: whether *T (instantiated with the interface's own... T's type parameters) implements it
// (types.Implements), i.e. whether `var _ TGetter[P...] = (*T[P...])(nil)` would compile inside a function
// generic over T's parameters.
// Type strings are types.TypeString with the package NAME for foreign packages and nothing for the package itself.
package main

import (
	"encoding/json"
	"fmt"
	"go/ast"
	"go/types"
	"os"
	"sort"
	"strings"

	"golang.org/x/tools/go/packages"
)

type structInfo struct {
	TParams [][2]string `json:"tparams"`
	Fields  [][4]string `json:"fields"`
	Own     [][4]string `json:"own"`
	MSet    [][]string  `json:"mset"`
}

type ifaceInfo struct {
	TParams  [][2]string `json:"tparams"`
	Embeds   []string    `json:"embeds"`
	Explicit [][3]string `json:"explicit"`
	Methods  [][3]string `json:"methods"`
	Impl     string      `json:"impl"`
}

type funcInfo struct {
	TParams [][2]string `json:"tparams"`
	Params  [][2]string `json:"params"`
	Results []string    `json:"results"`
}

type pkgInfo struct {
	Pkg     string                `json:"pkg"`
	Name    string                `json:"name"`
	Errors  []string              `json:"errors"`
	Structs map[string]structInfo `json:"structs"`
	Ifaces  map[string]ifaceInfo  `json:"ifaces"`
	Funcs   map[string]funcInfo   `json:"funcs"`
}

func tparams(l *types.TypeParamList, qf types.Qualifier) [][2]string {
	res := [][2]string{}
	if l == nil {
		return res
	}
	for i := 0; i < l.Len(); i++ {
		tp := l.At(i)
		res = append(res, [2]string{tp.Obj().Name(), types.TypeString(tp.Constraint(), qf)})
	}
	return res
}

func kindOf(sig *types.Signature, qf types.Qualifier) (string, string) {
	np, nr := sig.Params().Len(), sig.Results().Len()
	if np == 0 && nr == 1 {
		return "get", types.TypeString(sig.Results().At(0).Type(), qf)
	}
	if np == 1 && nr == 0 && !sig.Variadic() {
		return "set", types.TypeString(sig.Params().At(0).Type(), qf)
	}
	return "other", types.TypeString(sig, qf)
}

func structUnder(t types.Type) *types.Struct {
	if p, ok := t.(*types.Pointer); ok {
		t = p.Elem()
	}
	t = types.Unalias(t)
	if n, ok := t.(*types.Named); ok {
		if s, ok := n.Underlying().(*types.Struct); ok {
			return s
		}
		return nil
	}
	if s, ok := t.(*types.Struct); ok {
		return s
	}
	return nil
}

func pathNames(t types.Type, index []int) []string {
	res := []string{}
	for _, i := range index {
		s := structUnder(t)
		if s == nil {
			return append(res, "?")
		}
		f := s.Field(i)
		res = append(res, f.Name())
		t = f.Type()
	}
	return res
}

func main() {
	dir := os.Args[1]
	pats := []string{"./..."}
	if len(os.Args) > 2 {
		pats = os.Args[2:]
	}
	cfg := &packages.Config{Mode: packages.NeedName | packages.NeedTypes | packages.NeedSyntax | packages.NeedTypesInfo |
		packages.NeedFiles | packages.NeedImports | packages.NeedDeps, Dir: dir}
	pkgs, err := packages.Load(cfg, pats...)
	if err != nil {
		fmt.Fprintln(os.Stderr, "load:", err)
		os.Exit(2)
	}
	enc := json.NewEncoder(os.Stdout)
	for _, p := range pkgs {
		info := pkgInfo{Pkg: p.PkgPath, Name: p.Name, Errors: []string{}, Structs: map[string]structInfo{},
			Ifaces: map[string]ifaceInfo{}, Funcs: map[string]funcInfo{}}
		for _, e := range p.Errors {
			info.Errors = append(info.Errors, strings.ReplaceAll(e.Error(), dir, "."))
		}
		if p.Types == nil {
			enc.Encode(info)
			continue
		}
		qf := func(q *types.Package) string {
			if q == p.Types {
				return ""
			}
			return q.Name()
		}
		// embedded interface types in source order, from the syntax
		embedsOf := map[string][]string{}
		for _, f := range p.Syntax {
			for _, d := range f.Decls {
				gd, ok := d.(*ast.GenDecl)
				if !ok {
					continue
				}
				for _, s := range gd.Specs {
					ts, ok := s.(*ast.TypeSpec)
					if !ok {
						continue
					}
					it, ok := ts.Type.(*ast.InterfaceType)
					if !ok || it.Methods == nil {
						continue
					}
					l := []string{}
					for _, m := range it.Methods.List {
						if len(m.Names) == 0 {
							if tv, ok := p.TypesInfo.Types[m.Type]; ok && tv.Type != nil {
								l = append(l, types.TypeString(tv.Type, qf))
							} else {
								l = append(l, "?")
							}
						}
					}
					embedsOf[ts.Name.Name] = l
				}
			}
		}
		scope := p.Types.Scope()
		for _, name := range scope.Names() {
			obj := scope.Lookup(name)
			switch o := obj.(type) {
			case *types.TypeName:
				if o.IsAlias() {
					continue
				}
				named, ok := o.Type().(*types.Named)
				if !ok {
					continue
				}
				switch u := named.Underlying().(type) {
				case *types.Struct:
					si := structInfo{TParams: tparams(named.TypeParams(), qf), Fields: [][4]string{}, Own: [][4]string{}, MSet: [][]string{}}
					for i := 0; i < u.NumFields(); i++ {
						f := u.Field(i)
						emb := "0"
						if f.Embedded() {
							emb = "1"
						}
						si.Fields = append(si.Fields, [4]string{f.Name(), types.TypeString(f.Type(), qf), u.Tag(i), emb})
					}
					for i := 0; i < named.NumMethods(); i++ {
						m := named.Method(i)
						sig := m.Type().(*types.Signature)
						k, t := kindOf(sig, qf)
						recv := "val"
						if sig.Recv() != nil {
							if _, isPtr := sig.Recv().Type().(*types.Pointer); isPtr {
								recv = "ptr"
							}
						}
						si.Own = append(si.Own, [4]string{m.Name(), k, t, recv})
					}
					sort.Slice(si.Own, func(i, j int) bool { return si.Own[i][0] < si.Own[j][0] })
					ms := types.NewMethodSet(types.NewPointer(named))
					for i := 0; i < ms.Len(); i++ {
						sel := ms.At(i)
						sig := sel.Type().(*types.Signature)
						k, t := kindOf(sig, qf)
						idx := sel.Index()
						row := []string{sel.Obj().Name(), k, t}
						row = append(row, pathNames(named, idx[:len(idx)-1])...)
						si.MSet = append(si.MSet, row)
					}
					sort.Slice(si.MSet, func(i, j int) bool { return si.MSet[i][0] < si.MSet[j][0] })
					info.Structs[name] = si
				case *types.Interface:
					ii := ifaceInfo{TParams: tparams(named.TypeParams(), qf), Embeds: embedsOf[name], Explicit: [][3]string{},
						Methods: [][3]string{}, Impl: "n/a"}
					if ii.Embeds == nil {
						ii.Embeds = []string{}
					}
					for i := 0; i < u.NumExplicitMethods(); i++ {
						m := u.ExplicitMethod(i)
						k, t := kindOf(m.Type().(*types.Signature), qf)
						ii.Explicit = append(ii.Explicit, [3]string{m.Name(), k, t})
					}
					for i := 0; i < u.NumMethods(); i++ {
						m := u.Method(i)
						k, t := kindOf(m.Type().(*types.Signature), qf)
						ii.Methods = append(ii.Methods, [3]string{m.Name(), k, t})
					}
					sort.Slice(ii.Explicit, func(i, j int) bool { return ii.Explicit[i][0] < ii.Explicit[j][0] })
					sort.Slice(ii.Methods, func(i, j int) bool { return ii.Methods[i][0] < ii.Methods[j][0] })
					// does *T implement TGetter / TSetter ?
					for _, suf := range []string{"Getter", "Setter"} {
						if !strings.HasSuffix(name, suf) {
							continue
						}
						tn, ok := scope.Lookup(strings.TrimSuffix(name, suf)).(*types.TypeName)
						if !ok {
							continue
						}
						st, ok := tn.Type().(*types.Named)
						if !ok {
							continue
						}
						if _, ok := st.Underlying().(*types.Struct); !ok {
							continue
						}
						np, ni := 0, 0
						if st.TypeParams() != nil {
							np = st.TypeParams().Len()
						}
						if named.TypeParams() != nil {
							ni = named.TypeParams().Len()
						}
						if np != ni {
							ii.Impl = "no"
							continue
						}
						var it types.Type = named
						var recv types.Type = st
						if ni > 0 {
							// instantiate the struct and the interface with the same concrete arguments
							done := false
							for _, cand := range []types.Type{types.Typ[types.Int], types.Typ[types.String]} {
								args := make([]types.Type, np)
								for k := 0; k < np; k++ {
									args[k] = cand
								}
								si, err1 := types.Instantiate(nil, st, args, true)
								ii2, err2 := types.Instantiate(nil, named, args, true)
								if err1 == nil && err2 == nil {
									it, recv, done = ii2, si, true
									break
								}
							}
							if !done {
								ii.Impl = "no"
								continue
							}
						}
						iu, ok := it.Underlying().(*types.Interface)
						if !ok {
							continue
						}
						if types.Implements(types.NewPointer(recv), iu) {
							ii.Impl = "yes"
						} else {
							ii.Impl = "no"
						}
					}
					info.Ifaces[name] = ii
				}
			case *types.Func:
				sig := o.Type().(*types.Signature)
				fi := funcInfo{TParams: tparams(sig.TypeParams(), qf), Params: [][2]string{}, Results: []string{}}
				for i := 0; i < sig.Params().Len(); i++ {
					v := sig.Params().At(i)
					ts := types.TypeString(v.Type(), qf)
					if sig.Variadic() && i == sig.Params().Len()-1 {
						ts = "..." + strings.TrimPrefix(ts, "[]")
					}
					fi.Params = append(fi.Params, [2]string{v.Name(), ts})
				}
				for i := 0; i < sig.Results().Len(); i++ {
					fi.Results = append(fi.Results, types.TypeString(sig.Results().At(i).Type(), qf))
				}
				info.Funcs[name] = fi
			}
		}
		enc.Encode(info)
	}
}
