// c10drv: driver of the C10 correspondence (harness/c10.py).
//
// harness/c10.py copies this file into a scratch module next to clients that
// the real `shoot rest` generated, together with a generated zz_registry.go
// whose init() fills [ifaces] with one constructor per generated interface
// (func(opts ...Opt) any { return shoot.NewRest[pkg.I](opts...) }).  The
// methods are called through reflection, so this file is independent of the
// generated packages (inside harness/go it compiles with an empty registry).
//
// stdin : one JSON case per line (type Case)
// stdout: one JSON observation per line (type Obs), in any order (field "i")
//
// Modes of a case
//
//	fab    the innermost middleware fabricates the *http.Response (any status
//	       in int64, any body, optionally a read fault after the body data)
//	srv    a real net/http round trip to an httptest server that answers with
//	       the scripted status/body; the middleware buffers the delivered body
//	       (so that the delivered bytes are measured, not assumed) and hands
//	       the same *http.Response on
//	fault  no usable response: see [Case.Fault]
//
// What is observed for every call: number of return values, the result
// (nil-ness + canonical JSON), whether the returned *http.Response is the very
// pointer the transport produced, the error (text, dynamic type, whether it is
// the error http.Client.Do / encoding/json returned), how the response body
// was used (reads, Close calls), and the number of round trips.
// Independently of the generated code the driver measures what encoding/json
// does with the delivered body for the declared result type (the Section
// variable [decode] of coq/Model/RestHandle.v is instantiated with it).
package main

import (
	"bufio"
	"bytes"
	"compress/gzip"
	"context"
	"encoding/json"
	"errors"
	"fmt"
	"io"
	"log"
	"math"
	"net"
	"net/http"
	"net/http/httptest"
	"net/url"
	"os"
	"reflect"
	"strconv"
	"strings"
	"sync"
	"sync/atomic"
	"time"

	"github.com/lopolopen/shoot"
	"github.com/lopolopen/shoot/middleware"
)

type Opt = shoot.Option[shoot.RestConf, *shoot.RestConf]

// filled by the generated zz_registry.go
var ifaces = map[string]func(opts ...Opt) any{}

type Case struct {
	I      int    `json:"i"`
	Iface  string `json:"iface"`
	Method string `json:"method"`
	Mode   string `json:"mode"`
	Status int64  `json:"status"`
	Body   string `json:"body"`
	// fab: the body reader fails with a read error after delivering Body
	BodyFault bool `json:"body_fault"`
	// fault:
	//   sentinel   the transport returns (nil, sentinel error)
	//   both       the transport returns (response, sentinel error)
	//   nilnil     the transport returns (nil, nil)
	//   refused    the base URL points at a closed port
	//   cancelled  the context is cancelled before the call
	//   inflight   the context is cancelled while the server holds the request
	//   deadline   the context deadline expires while the server holds the request
	//   timeout    http.Client.Timeout expires while the server holds the request
	//   bodyhang   the server sends status+headers+Body and then stalls; the context is cancelled as soon as the
	//              headers have arrived, so reading the body fails
	//   bodytimeout  same, but http.Client.Timeout expires while the body is read
	//   badbase    the base URL does not parse (url.JoinPath fails)
	//   nilctx     a nil context is passed (http.NewRequestWithContext fails)
	//   marshal    the struct argument cannot be marshalled (NaN)
	//   redirect_loop  the server answers every request with Status (a 3xx) and a Location pointing
	//              at itself: http.Client gives up after 10 redirects and returns the last response
	//              TOGETHER with an error
	Fault string `json:"fault"`
	// srv: the first request is answered with this 3xx status and a Location header, the
	// redirected request with Status/Body (http.Client follows the redirect)
	Via int `json:"via"`
	// client variants: shoot.EnableLogging(true) (LoggingMiddleware outermost) and/or a pass-through
	// middleware registered with shoot.Use before the driver's own one (so it wraps it)
	Logging bool `json:"logging"`
	Wrap    bool `json:"wrap"`
	// further client options: a non-empty shoot.DefaultHeaders; shoot.Use(middleware.RetryMiddleware(*Retry, 1ms))
	// around the driver's middleware (null: none); shoot.Timeout(time.Duration(OptTimeout)) instead of setting
	// http.Client.Timeout through ConfigHTTPClient (the generated constructor multiplies it by 10^9, open
	// finding K_rest_timeout: 1 gives one second)
	Headers    bool  `json:"headers"`
	Retry      *int  `json:"retry"`
	OptTimeout int64 `json:"opt_timeout"`
	// a document parameter of pointer type (in *In) is passed as nil (json.Marshal sends null) instead of &In{}
	NilBody bool `json:"nil_body"`
	// srv: the server compresses the body (Content-Encoding: gzip) when the request allows it with
	// Accept-Encoding: gzip, as a conforming server may; net/http asks for it and decompresses transparently,
	// so the body the mapping has to work on is Body itself (not measured from the wire in these cases)
	Gzip bool `json:"gzip"`
}

type ValObs struct {
	Nil  bool   `json:"nil"`
	JSON string `json:"json"`
}

type ErrObs struct {
	Text string `json:"text"`
	Type string `json:"type"`
	// "do": the error is the one http.Client.Do returned (identity of the
	// transport's sentinel inside the *url.Error, or equal in type and text to
	// the error of a reference Do under the same conditions);
	// "decode": equal in type and text to what encoding/json returns for the body;
	// "pre": equal in type and text to the reference error of url.JoinPath /
	// json.Marshal / http.NewRequestWithContext;  "": none of these
	Same string `json:"same"`
}

type DecObs struct {
	Class string `json:"class"` // ok | eof | err
	Nil   bool   `json:"nil"`   // the decoded variable is a nil slice/map/pointer
	JSON  string `json:"json"`  // canonical JSON of the decoded variable
	Err   string `json:"err"`
	Type  string `json:"type"`
}

type Obs struct {
	I         int     `json:"i"`
	NOut      int     `json:"nout"`
	Res       *ValObs `json:"res"` // null: the method has no result slot
	Resp      string  `json:"resp"`
	Err       *ErrObs `json:"err"`
	Dec       *DecObs `json:"dec"`  // null: no result type or no response body delivered
	Zero      string  `json:"zero"` // canonical JSON of the zero value of the decoded variable
	ZeroNil   bool    `json:"zero_nil"`
	Delivered *string `json:"delivered"` // body bytes the transport delivered (null: not measured)
	Reads     int     `json:"reads"`
	Closed    int     `json:"closed"`
	Requests  int     `json:"requests"`
	Verb      string  `json:"verb"`
	Panic     string  `json:"panic"`
	DeclRes   string  `json:"decl_res"` // reflect type of the declared result
	GotResp   bool    `json:"got_resp"` // the innermost transport produced a response
	Wrapped   int     `json:"wrapped"`  // round trips seen by the pass-through middleware
}

// ------------------------------------------------------------ response body
type recBody struct {
	data   []byte
	off    int
	fault  error
	reads  int32
	closed int32
	inner  io.Closer
}

func (b *recBody) Read(p []byte) (int, error) {
	if atomic.LoadInt32(&b.closed) > 0 {
		return 0, errors.New("c10drv: read on closed body")
	}
	atomic.AddInt32(&b.reads, 1)
	if b.off >= len(b.data) {
		if b.fault != nil {
			return 0, b.fault
		}
		return 0, io.EOF
	}
	n := copy(p, b.data[b.off:])
	b.off += n
	return n, nil
}

func (b *recBody) Close() error {
	atomic.AddInt32(&b.closed, 1)
	if b.inner != nil {
		return b.inner.Close()
	}
	return nil
}

// countBody wraps a streaming body (fault "bodyhang") without buffering
type countBody struct {
	inner  io.ReadCloser
	reads  int32
	closed int32
	mu     sync.Mutex
	buf    bytes.Buffer // the bytes the caller actually received
}

func (b *countBody) Read(p []byte) (int, error) {
	atomic.AddInt32(&b.reads, 1)
	n, err := b.inner.Read(p)
	b.mu.Lock()
	b.buf.Write(p[:n])
	b.mu.Unlock()
	return n, err
}
func (b *countBody) Close() error {
	atomic.AddInt32(&b.closed, 1)
	return b.inner.Close()
}

type readFault struct{ id int }

func (e *readFault) Error() string { return "c10drv: body read fault #" + strconv.Itoa(e.id) }

type sentinel struct{ id int }

func (e *sentinel) Error() string { return "c10drv: transport sentinel #" + strconv.Itoa(e.id) }

// ------------------------------------------------------------------ server
type script struct {
	status  int
	body    string
	via     int  // answer the first request with this status and a Location to the final answer
	loop    bool // answer every request with status and a Location to itself
	hang    bool // do not answer until released
	gz      bool // compress the body when the request says Accept-Encoding: gzip
	stall   bool // send status, headers and body, flush, then wait until released
	release chan struct{}
}

var (
	scripts sync.Map // case id (string) -> *script
	srv     *httptest.Server
)

func handler(w http.ResponseWriter, r *http.Request) {
	v, ok := scripts.Load(r.Header.Get("X-C10-Case"))
	if !ok {
		w.WriteHeader(418)
		return
	}
	s := v.(*script)
	if s.loop {
		w.Header().Set("Location", r.URL.Path)
		w.WriteHeader(s.status)
		return
	}
	if s.via != 0 && r.URL.Query().Get("c10final") == "" {
		w.Header().Set("Location", r.URL.Path+"?c10final=1")
		w.WriteHeader(s.via)
		return
	}
	if s.hang {
		select {
		case <-s.release:
		case <-r.Context().Done():
		case <-time.After(hangCap):
		}
		return
	}
	if s.stall {
		w.Header().Set("Content-Length", strconv.Itoa(len(s.body)+64))
	}
	if s.gz && s.body != "" && strings.Contains(r.Header.Get("Accept-Encoding"), "gzip") {
		var buf bytes.Buffer
		zw := gzip.NewWriter(&buf)
		io.WriteString(zw, s.body)
		zw.Close()
		w.Header().Set("Content-Encoding", "gzip")
		w.Header().Set("Content-Length", strconv.Itoa(buf.Len()))
		w.WriteHeader(s.status)
		w.Write(buf.Bytes())
		return
	}
	w.WriteHeader(s.status)
	io.WriteString(w, s.body)
	if s.stall {
		if f, ok := w.(http.Flusher); ok {
			f.Flush()
		}
		select {
		case <-s.release:
		case <-time.After(hangCap):
		}
	}
}

// a held request is answered after this long at the latest (a cancellation or timeout that works ends it
// after 30 ms; one that does not reach the transport must not cost more than this per case)
const hangCap = 2 * time.Second

// --------------------------------------------------------------- one case
type state struct {
	c        Case
	resp     *http.Response // what the innermost transport handed to http.Client
	rb       *recBody
	cb       *countBody
	sent     *sentinel
	requests int32
	wrapped  int32
	verb     string
	lastURL  string
	deliv    *string
	hc       *http.Client
	cancel   context.CancelFunc
}

func (st *state) mw() middleware.Middleware {
	return func(next http.RoundTripper) http.RoundTripper {
		return middleware.RoundTripper(func(req *http.Request) (*http.Response, error) {
			atomic.AddInt32(&st.requests, 1)
			if st.verb == "" {
				// what the generated method asked for (a followed redirect may change both)
				st.verb = req.Method
				st.lastURL = req.URL.String()
			}
			c := st.c
			mk := func() *http.Response {
				var f error
				if c.BodyFault {
					f = &readFault{c.I}
				}
				st.rb = &recBody{data: []byte(c.Body), fault: f}
				s := c.Body
				st.deliv = &s
				return &http.Response{
					Status:     strconv.FormatInt(c.Status, 10) + " C10",
					StatusCode: int(c.Status),
					Proto:      "HTTP/1.1", ProtoMajor: 1, ProtoMinor: 1,
					Header:        http.Header{"Content-Type": []string{"application/json"}},
					Body:          st.rb,
					ContentLength: -1,
					Request:       req,
				}
			}
			switch c.Mode {
			case "fab":
				st.resp = mk()
				return st.resp, nil
			case "srv":
				r2 := req.Clone(req.Context())
				r2.Header.Set("X-C10-Case", strconv.Itoa(c.I))
				resp, err := next.RoundTrip(r2)
				if err != nil {
					return resp, err
				}
				data, rerr := io.ReadAll(resp.Body)
				st.rb = &recBody{data: data, fault: rerr, inner: resp.Body}
				s := string(data)
				if c.Gzip {
					s = c.Body // what the server sent under the content coding
				}
				st.deliv = &s
				resp.Body = st.rb
				st.resp = resp
				return resp, nil
			}
			switch c.Fault {
			case "sentinel":
				return nil, st.sent
			case "both":
				st.resp = mk()
				return st.resp, st.sent
			case "nilnil":
				return nil, nil
			}
			r2 := req.Clone(req.Context())
			r2.Header.Set("X-C10-Case", strconv.Itoa(c.I))
			resp, err := next.RoundTrip(r2)
			if err == nil {
				st.cb = &countBody{inner: resp.Body}
				resp.Body = st.cb
				st.resp = resp
				if c.Fault == "bodyhang" {
					st.cancel()
				}
			}
			return resp, err
		})
	}
}

func (st *state) verbOr(d string) string {
	if st.verb != "" {
		return st.verb
	}
	return d
}

var closedPortURL string

// http.Client decorates a timeout error with this suffix only when its own
// timer (and not the context deadline it also installs) fired first: a race
// inside net/http, so the suffix is ignored when comparing with the reference
const clientTimeoutSuffix = " (Client.Timeout exceeded while awaiting headers)"

func errSame(a, b error) bool {
	if a == nil || b == nil {
		return false
	}
	return reflect.TypeOf(a) == reflect.TypeOf(b) &&
		strings.TrimSuffix(a.Error(), clientTimeoutSuffix) == strings.TrimSuffix(b.Error(), clientTimeoutSuffix)
}

// equality of two errors returned by http.Client.Do: same dynamic type, and
// for *url.Error the same Op and URL and either the same text or both
// timeouts (net/http words a Client.Timeout expiry in three different ways
// depending on which of its timers fires first)
func errSameDo(a, b error) bool {
	if errSame(a, b) {
		return true
	}
	ua, ok1 := a.(*url.Error)
	ub, ok2 := b.(*url.Error)
	return ok1 && ok2 && ua.Op == ub.Op && ua.URL == ub.URL && ua.Timeout() && ub.Timeout()
}

func isCancelOrTimeout(err error) bool {
	if errors.Is(err, context.Canceled) || errors.Is(err, context.DeadlineExceeded) {
		return true
	}
	var ne net.Error
	return errors.As(err, &ne) && ne.Timeout()
}

func canon(v reflect.Value) (string, bool) {
	isNil := false
	switch v.Kind() {
	case reflect.Ptr, reflect.Slice, reflect.Map, reflect.Interface:
		isNil = v.IsNil()
	}
	b, err := json.Marshal(v.Interface())
	if err != nil {
		return "!marshal: " + err.Error(), isNil
	}
	return string(b), isNil
}

// what encoding/json does with [body] for a variable of type t
func directDecode(t reflect.Type, body []byte, fault error) (*DecObs, error) {
	pv := reflect.New(t)
	rb := &recBody{data: body, fault: fault}
	err := json.NewDecoder(rb).Decode(pv.Interface())
	d := &DecObs{}
	d.JSON, d.Nil = canon(pv.Elem())
	switch {
	case err == nil:
		d.Class = "ok"
	case err == io.EOF:
		d.Class = "eof"
	default:
		d.Class = "err"
		d.Err = err.Error()
		d.Type = fmt.Sprintf("%T", err)
	}
	return d, err
}

func runCase(c Case) (o Obs) {
	o.I = c.I
	defer func() {
		if r := recover(); r != nil {
			o.Panic = fmt.Sprint(r)
		}
	}()
	mk, ok := ifaces[c.Iface]
	if !ok {
		o.Panic = "unknown interface " + c.Iface
		return
	}
	st := &state{c: c, sent: &sentinel{c.I}}
	base := srv.URL + "/base"
	ctx, cancel := context.WithCancel(context.Background())
	defer cancel()
	st.cancel = cancel
	var sc *script
	if c.Mode == "srv" {
		sc = &script{status: int(c.Status), body: c.Body, via: c.Via, gz: c.Gzip}
	}
	clientTimeout := time.Duration(0)
	nilCtx := false
	if c.Mode == "fault" {
		switch c.Fault {
		case "refused":
			base = closedPortURL
		case "cancelled":
			cancel()
		case "inflight":
			sc = &script{hang: true}
			go func() { time.Sleep(30 * time.Millisecond); cancel() }()
		case "deadline":
			sc = &script{hang: true}
			var c2 context.CancelFunc
			ctx, c2 = context.WithTimeout(ctx, 30*time.Millisecond)
			defer c2()
		case "timeout":
			sc = &script{hang: true}
			clientTimeout = 30 * time.Millisecond
		case "bodyhang":
			sc = &script{status: int(c.Status), body: c.Body, stall: true}
		case "bodytimeout":
			sc = &script{status: int(c.Status), body: c.Body, stall: true}
			clientTimeout = 400 * time.Millisecond
		case "redirect_loop":
			sc = &script{status: int(c.Status), loop: true}
		case "badbase":
			base = "http://[::1"
		case "nilctx":
			nilCtx = true
		}
	}
	if sc != nil {
		sc.release = make(chan struct{})
		scripts.Store(strconv.Itoa(c.I), sc)
		defer scripts.Delete(strconv.Itoa(c.I))
		defer close(sc.release)
	}
	opts := []Opt{shoot.BaseURL(base)}
	if c.Logging {
		opts = append(opts, shoot.EnableLogging(true))
	}
	if c.Wrap {
		opts = append(opts, shoot.Use(func(next http.RoundTripper) http.RoundTripper {
			return middleware.RoundTripper(func(req *http.Request) (*http.Response, error) {
				atomic.AddInt32(&st.wrapped, 1)
				return next.RoundTrip(req)
			})
		}))
	}
	if c.Headers {
		opts = append(opts, shoot.DefaultHeaders(map[string]string{"X-C10-Default": "on", "Accept": "application/json"}))
	}
	if c.Retry != nil {
		opts = append(opts, shoot.Use(middleware.RetryMiddleware(*c.Retry, time.Millisecond)))
	}
	if c.OptTimeout != 0 {
		opts = append(opts, shoot.Timeout(time.Duration(c.OptTimeout)))
	}
	opts = append(opts, shoot.Use(st.mw()))
	cl := mk(opts...)
	cv := reflect.ValueOf(cl)
	cfg := cv.MethodByName("ConfigHTTPClient")
	cfg.Call([]reflect.Value{reflect.ValueOf(func(hc *http.Client) {
		st.hc = hc
		if c.OptTimeout == 0 {
			hc.Timeout = clientTimeout
		}
	})})
	m := cv.MethodByName(c.Method)
	if !m.IsValid() {
		o.Panic = "unknown method " + c.Method
		return
	}
	mt := m.Type()
	o.NOut = mt.NumOut()
	ctxT := reflect.TypeOf((*context.Context)(nil)).Elem()
	args := make([]reflect.Value, mt.NumIn())
	hasCtx := false
	for i := range args {
		pt := mt.In(i)
		switch {
		case pt == ctxT:
			hasCtx = true
			if nilCtx {
				args[i] = reflect.Zero(pt)
			} else {
				args[i] = reflect.ValueOf(ctx)
			}
		default:
			args[i] = reflect.Zero(pt)
			st_ := pt
			isPtr := pt.Kind() == reflect.Ptr && pt.Elem().Kind() == reflect.Struct
			if isPtr {
				st_ = pt.Elem()
			}
			if st_.Kind() == reflect.Struct && (c.Fault == "marshal" || (isPtr && !c.NilBody)) {
				pv := reflect.New(st_)
				if f := pv.Elem().FieldByName("F"); c.Fault == "marshal" && f.IsValid() && f.Kind() == reflect.Float64 {
					f.SetFloat(math.NaN())
				}
				if isPtr {
					args[i] = pv
				} else {
					args[i] = pv.Elem()
				}
			}
		}
	}
	_ = hasCtx
	outs := m.Call(args)
	// ---- observe
	n := len(outs)
	errV := outs[n-1]
	respV := outs[n-2]
	var gotErr error
	if !errV.IsNil() {
		gotErr = errV.Interface().(error)
	}
	gotResp, _ := respV.Interface().(*http.Response)
	switch {
	case gotResp == nil:
		o.Resp = "nil"
	case gotResp == st.resp:
		o.Resp = "same"
	default:
		o.Resp = "other"
	}
	var decT reflect.Type
	if n == 3 {
		rt := mt.Out(0)
		o.DeclRes = rt.String()
		j, isNil := canon(outs[0])
		o.Res = &ValObs{Nil: isNil, JSON: j}
		// the variable the generated code decodes into: T for a declared *T,
		// the declared type itself for slices and maps
		decT = rt
		if rt.Kind() == reflect.Ptr {
			decT = rt.Elem()
		}
		o.Zero, o.ZeroNil = canon(reflect.Zero(decT))
	}
	var decErr error
	var marker error
	if st.cb != nil && st.resp != nil {
		// a streamed body that failed: what the caller received is what passed through Read
		st.cb.mu.Lock()
		d := st.cb.buf.String()
		st.cb.mu.Unlock()
		st.deliv = &d
		marker = &readFault{-c.I - 1}
	}
	if decT != nil && st.deliv != nil && st.resp != nil {
		var f error
		if st.rb != nil {
			f = st.rb.fault
		}
		if marker != nil {
			f = marker
		}
		o.Dec, decErr = directDecode(decT, []byte(*st.deliv), f)
	}
	if st.resp != nil {
		o.Delivered = st.deliv
	}
	o.GotResp = st.resp != nil
	o.Wrapped = int(atomic.LoadInt32(&st.wrapped))
	if st.rb != nil {
		o.Reads, o.Closed = int(atomic.LoadInt32(&st.rb.reads)), int(atomic.LoadInt32(&st.rb.closed))
	}
	if st.cb != nil {
		o.Reads, o.Closed = int(atomic.LoadInt32(&st.cb.reads)), int(atomic.LoadInt32(&st.cb.closed))
	}
	o.Requests = int(atomic.LoadInt32(&st.requests))
	o.Verb = st.verb
	if gotErr != nil {
		e := &ErrObs{Text: gotErr.Error(), Type: fmt.Sprintf("%T", gotErr)}
		var ue *url.Error
		switch {
		case errors.As(gotErr, &ue) && ue == gotErr && ue.Err == error(st.sent):
			e.Same = "do"
		case decErr != nil && errSame(gotErr, decErr):
			e.Same = "decode"
		case marker != nil && decErr == marker && isCancelOrTimeout(gotErr):
			// the decoder handed on the error of the failing body reader
			e.Same = "decode"
		case c.Mode == "fault" && (c.Fault == "sentinel" || c.Fault == "both"):
			// the transport's own error value must arrive: anything else is not "unchanged"
		case c.Mode == "fault":
			ref := reference(st, c, base, ctx, nilCtx, mt)
			if c.Fault == "badbase" || c.Fault == "nilctx" || c.Fault == "marshal" {
				if errSame(gotErr, ref) {
					e.Same = "pre"
				}
			} else if errSameDo(gotErr, ref) {
				e.Same = "do"
			}
		}
		o.Err = e
	}
	return
}

// the error a hand-written call sequence yields under the same conditions
func reference(st *state, c Case, base string, ctx context.Context, nilCtx bool, mt reflect.Type) error {
	switch c.Fault {
	case "badbase":
		_, err := url.JoinPath(base, "/x")
		return err
	case "marshal":
		_, err := json.Marshal(struct{ F float64 }{math.NaN()})
		return err
	case "nilctx":
		_, err := http.NewRequestWithContext(nil, st.verbOr("GET"), base, nil) //nolint:staticcheck
		return err
	case "bodyhang", "bodytimeout":
		if st.resp != nil {
			return nil
		}
	}
	// a fresh, equivalent request through a hand-written http.Client with the same timeout and the
	// default transport (NOT through the client's middleware chain: a middleware that rewrites errors
	// must show up as a difference); only the nil/nil fault lives in the chain itself
	var rctx context.Context = ctx
	var c2 context.CancelFunc
	switch c.Fault {
	case "inflight":
		rctx, c2 = context.WithCancel(context.Background())
		go func() { time.Sleep(30 * time.Millisecond); c2() }()
		defer c2()
	case "deadline":
		rctx, c2 = context.WithTimeout(context.Background(), 30*time.Millisecond)
		defer c2()
	}
	sc := &script{hang: true, release: make(chan struct{})}
	id := strconv.Itoa(c.I)
	if c.Fault == "inflight" || c.Fault == "deadline" || c.Fault == "timeout" || c.Fault == "bodytimeout" {
		scripts.Store(id, sc)
		defer close(sc.release)
	}
	u := st.lastURL
	if u == "" {
		return nil
	}
	req, err := http.NewRequestWithContext(rctx, st.verbOr("GET"), u, nil)
	if err != nil {
		return err
	}
	req.Header.Set("X-C10-Case", id)
	ref := &http.Client{Timeout: st.hc.Timeout}
	if c.Fault == "nilnil" {
		ref = st.hc
	}
	resp, err := ref.Do(req)
	if err == nil {
		resp.Body.Close()
	}
	return err
}

func main() {
	srv = httptest.NewServer(http.HandlerFunc(handler))
	defer srv.Close()
	// a port nobody listens on: an ephemeral port that was just closed could be taken by
	// another process while the cases run (several checks share the machine), port 1 cannot
	closedPortURL = "http://127.0.0.1:1/base"

	log.SetOutput(io.Discard) // LoggingMiddleware and net/http write to the standard logger
	par := 6
	if len(os.Args) > 1 {
		par, _ = strconv.Atoi(os.Args[1])
	}
	in := bufio.NewScanner(os.Stdin)
	in.Buffer(make([]byte, 1<<20), 1<<26)
	jobs := make(chan Case, 64)
	var wg sync.WaitGroup
	var omu sync.Mutex
	w := bufio.NewWriterSize(os.Stdout, 1<<20)
	for k := 0; k < par; k++ {
		wg.Add(1)
		go func() {
			defer wg.Done()
			for c := range jobs {
				o := runCase(c)
				b, err := json.Marshal(o)
				if err != nil {
					b, _ = json.Marshal(Obs{I: c.I, Panic: "marshal obs: " + err.Error()})
				}
				omu.Lock()
				w.Write(b)
				w.WriteByte('\n')
				omu.Unlock()
			}
		}()
	}
	for in.Scan() {
		line := bytes.TrimSpace(in.Bytes())
		if len(line) == 0 {
			continue
		}
		var c Case
		if err := json.Unmarshal(line, &c); err != nil {
			panic(fmt.Sprintf("bad case line %q: %v", line, err))
		}
		jobs <- c
	}
	close(jobs)
	wg.Wait()
	w.Flush()
}
