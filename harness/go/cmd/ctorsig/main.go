// ctorsig: type-check every package of a scratch module (go/packages, offline) and
// dump, as one JSON object per package on stdout (one line each):
//
//	{"pkg": import path, "name": package name, "errors": [...],
//	 "structs": {T: {"tparams": [[name, constraint]...],
//	                 "sel": {field name: {"path": [names...]} | {"none": true} | {"ambiguous": true}},
//	                 "methods": [[name, signature]...]   (method set of *T, sorted)
//	                }},
//	 "ifaces":  {I: {"tparams": [...], "methods": [[name, signature]...]}},
//	 "funcs":   {F: {"tparams": [[name, constraint]...], "params": [[name, type]...], "results": [type...]}}}
//
// "sel" is go/types' own selector resolution (types.LookupFieldOrMethod on T) for
// every field name that occurs anywhere in the embedded-struct closure of T.
// Type strings are types.TypeString with the package NAME for foreign packages
// and nothing for the package itself (shoot's qualifier).
package main

import (
	"encoding/json"
	"fmt"
	"go/types"
	"os"
	"sort"
	"strings"

	"golang.org/x/tools/go/packages"
)

type selInfo struct {
	Path      []string `json:"path,omitempty"`
	None      bool     `json:"none,omitempty"`
	Ambiguous bool     `json:"ambiguous,omitempty"`
	Indirect  bool     `json:"indirect,omitempty"`
	Method    bool     `json:"method,omitempty"`
}

type structInfo struct {
	TParams [][2]string        `json:"tparams"`
	Sel     map[string]selInfo `json:"sel"`
	Methods [][2]string        `json:"methods"`
}

type ifaceInfo struct {
	TParams [][2]string `json:"tparams"`
	Methods [][2]string `json:"methods"`
}

type funcInfo struct {
	TParams [][2]string `json:"tparams"`
	Params  [][2]string `json:"params"`
	Results []string    `json:"results"`
}

type pkgInfo struct {
	Pkg     string                `json:"pkg"`
	Name    string                `json:"name"`
	Errors  []string              `json:"errors"`
	Structs map[string]structInfo `json:"structs"`
	Ifaces  map[string]ifaceInfo  `json:"ifaces"`
	Funcs   map[string]funcInfo   `json:"funcs"`
}

func tparams(l *types.TypeParamList, qf types.Qualifier) [][2]string {
	res := [][2]string{}
	if l == nil {
		return res
	}
	for i := 0; i < l.Len(); i++ {
		tp := l.At(i)
		res = append(res, [2]string{tp.Obj().Name(), types.TypeString(tp.Constraint(), qf)})
	}
	return res
}

func structUnder(t types.Type) *types.Struct {
	if p, ok := t.(*types.Pointer); ok {
		t = p.Elem()
	}
	t = types.Unalias(t)
	if n, ok := t.(*types.Named); ok {
		if s, ok := n.Underlying().(*types.Struct); ok {
			return s
		}
		return nil
	}
	if s, ok := t.(*types.Struct); ok {
		return s
	}
	return nil
}

func collectNames(s *types.Struct, depth int, names map[string]bool) {
	if depth > 12 {
		return
	}
	for i := 0; i < s.NumFields(); i++ {
		f := s.Field(i)
		names[f.Name()] = true
		if f.Embedded() {
			if sub := structUnder(f.Type()); sub != nil {
				collectNames(sub, depth+1, names)
			}
		}
	}
}

// pathNames converts an index path into field names
func pathNames(t types.Type, index []int) []string {
	var res []string
	for _, i := range index {
		s := structUnder(t)
		if s == nil {
			return append(res, "?")
		}
		f := s.Field(i)
		res = append(res, f.Name())
		t = f.Type()
	}
	return res
}

func methodSet(t types.Type, qf types.Qualifier) [][2]string {
	ms := types.NewMethodSet(t)
	res := [][2]string{}
	for i := 0; i < ms.Len(); i++ {
		m := ms.At(i)
		sig := m.Type().(*types.Signature)
		res = append(res, [2]string{m.Obj().Name(), types.TypeString(sig, qf)})
	}
	sort.Slice(res, func(i, j int) bool { return res[i][0] < res[j][0] })
	return res
}

func main() {
	dir := os.Args[1]
	pats := []string{"./..."}
	if len(os.Args) > 2 {
		pats = os.Args[2:]
	}
	cfg := &packages.Config{Mode: packages.NeedName | packages.NeedTypes | packages.NeedSyntax | packages.NeedTypesInfo |
		packages.NeedFiles | packages.NeedImports | packages.NeedDeps, Dir: dir}
	pkgs, err := packages.Load(cfg, pats...)
	if err != nil {
		fmt.Fprintln(os.Stderr, "load:", err)
		os.Exit(2)
	}
	enc := json.NewEncoder(os.Stdout)
	for _, p := range pkgs {
		info := pkgInfo{Pkg: p.PkgPath, Name: p.Name, Errors: []string{}, Structs: map[string]structInfo{},
			Ifaces: map[string]ifaceInfo{}, Funcs: map[string]funcInfo{}}
		for _, e := range p.Errors {
			info.Errors = append(info.Errors, strings.ReplaceAll(e.Error(), dir, "."))
		}
		if p.Types == nil {
			enc.Encode(info)
			continue
		}
		qf := func(q *types.Package) string {
			if q == p.Types {
				return ""
			}
			return q.Name()
		}
		scope := p.Types.Scope()
		for _, name := range scope.Names() {
			obj := scope.Lookup(name)
			switch o := obj.(type) {
			case *types.TypeName:
				if o.IsAlias() {
					continue
				}
				named, ok := o.Type().(*types.Named)
				if !ok {
					continue
				}
				switch u := named.Underlying().(type) {
				case *types.Struct:
					si := structInfo{TParams: tparams(named.TypeParams(), qf), Sel: map[string]selInfo{}}
					names := map[string]bool{}
					collectNames(u, 0, names)
					for n := range names {
						fobj, index, indirect := types.LookupFieldOrMethod(named, true, p.Types, n)
						switch {
						case fobj == nil && index != nil:
							si.Sel[n] = selInfo{Ambiguous: true}
						case fobj == nil:
							si.Sel[n] = selInfo{None: true}
						default:
							if _, isVar := fobj.(*types.Var); isVar {
								si.Sel[n] = selInfo{Path: pathNames(named, index), Indirect: indirect}
							} else {
								si.Sel[n] = selInfo{Method: true}
							}
						}
					}
					si.Methods = methodSet(types.NewPointer(named), qf)
					info.Structs[name] = si
				case *types.Interface:
					ii := ifaceInfo{TParams: tparams(named.TypeParams(), qf), Methods: methodSet(named, qf)}
					info.Ifaces[name] = ii
				}
			case *types.Func:
				sig := o.Type().(*types.Signature)
				fi := funcInfo{TParams: tparams(sig.TypeParams(), qf), Params: [][2]string{}, Results: []string{}}
				for i := 0; i < sig.Params().Len(); i++ {
					v := sig.Params().At(i)
					ts := types.TypeString(v.Type(), qf)
					if sig.Variadic() && i == sig.Params().Len()-1 {
						ts = "..." + strings.TrimPrefix(ts, "[]")
					}
					fi.Params = append(fi.Params, [2]string{v.Name(), ts})
				}
				for i := 0; i < sig.Results().Len(); i++ {
					fi.Results = append(fi.Results, types.TypeString(sig.Results().At(i).Type(), qf))
				}
				info.Funcs[name] = fi
			}
		}
		enc.Encode(info)
	}
}
