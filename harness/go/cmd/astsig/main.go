// astsig: AST-level signature of Go files, for the comparisons of C08/C07.
//
// Reads file paths from stdin (one per line) and prints one JSON object per
// file:
//
//	{"path":..., "pkg":..., "header":<first comment group if it precedes the package clause>,
//	 "imports":[<path, prefixed by "name " when renamed>...]   (sorted),
//	 "decls":[{"name":..., "kind":"func|method|type|iface|value",
//	           "text":<sha1 of the printed declaration with its doc and inner comments>,
//	           "doc":<doc comment text, "" if none>,
//	           "embeds":[...], "methods":[...]  (interfaces only)}...]   (source order, imports excluded),
//	 "floating":[{"text":..., "before":<name of the next declaration>}...],
//	 "error":<parse error, if any>}
//
// Only go/parser and go/printer are used: the files need not compile.
package main

import (
	"bufio"
	"bytes"
	"crypto/sha1"
	"encoding/hex"
	"encoding/json"
	"go/ast"
	"go/parser"
	"go/printer"
	"go/token"
	"os"
	"sort"
	"strings"
)

type Decl struct {
	Name    string   `json:"name"`
	Kind    string   `json:"kind"`
	Text    string   `json:"text"`
	Doc     string   `json:"doc"`
	Embeds  []string `json:"embeds,omitempty"`
	Methods []string `json:"methods,omitempty"`
}

type Floating struct {
	Text   string `json:"text"`
	Before string `json:"before"`
}

type File struct {
	Path     string     `json:"path"`
	Pkg      string     `json:"pkg"`
	Header   string     `json:"header"`
	Imports  []string   `json:"imports"`
	Decls    []Decl     `json:"decls"`
	Floating []Floating `json:"floating"`
	Error    string     `json:"error,omitempty"`
}

func baseName(e ast.Expr) string {
	switch t := e.(type) {
	case *ast.StarExpr:
		return baseName(t.X)
	case *ast.IndexExpr:
		return baseName(t.X)
	case *ast.IndexListExpr:
		return baseName(t.X)
	case *ast.ParenExpr:
		return baseName(t.X)
	case *ast.Ident:
		return t.Name
	case *ast.SelectorExpr:
		return baseName(t.X) + "." + t.Sel.Name
	}
	return "?"
}

func hash(b []byte) string {
	h := sha1.Sum(b)
	return hex.EncodeToString(h[:])
}

func declStart(d ast.Decl) token.Pos {
	switch t := d.(type) {
	case *ast.FuncDecl:
		if t.Doc != nil {
			return t.Doc.Pos()
		}
	case *ast.GenDecl:
		if t.Doc != nil {
			return t.Doc.Pos()
		}
	}
	return d.Pos()
}

func sig(path string) File {
	res := File{Path: path, Imports: []string{}, Decls: []Decl{}, Floating: []Floating{}}
	fset := token.NewFileSet()
	f, err := parser.ParseFile(fset, path, nil, parser.ParseComments)
	if err != nil {
		res.Error = strings.ReplaceAll(err.Error(), "\n", " ")
		if f == nil {
			return res
		}
	}
	res.Pkg = f.Name.Name
	if len(f.Comments) > 0 && f.Comments[0].End() < f.Package {
		res.Header = strings.TrimSpace(f.Comments[0].Text())
	}
	for _, imp := range f.Imports {
		s := imp.Path.Value
		if imp.Name != nil {
			s = imp.Name.Name + " " + s
		}
		res.Imports = append(res.Imports, s)
	}
	sort.Strings(res.Imports)
	var decls []ast.Decl
	for _, d := range f.Decls {
		if g, ok := d.(*ast.GenDecl); ok && g.Tok == token.IMPORT {
			continue
		}
		decls = append(decls, d)
	}
	names := make([]string, len(decls))
	for i, d := range decls {
		var dd Decl
		switch t := d.(type) {
		case *ast.FuncDecl:
			dd.Kind = "func"
			dd.Name = t.Name.Name
			if t.Recv != nil && len(t.Recv.List) > 0 {
				dd.Kind = "method"
				dd.Name = baseName(t.Recv.List[0].Type) + "." + t.Name.Name
			}
			if t.Doc != nil {
				dd.Doc = strings.TrimSpace(t.Doc.Text())
			}
		case *ast.GenDecl:
			dd.Kind = "value"
			var ns []string
			for _, s := range t.Specs {
				switch sp := s.(type) {
				case *ast.TypeSpec:
					dd.Kind = "type"
					ns = append(ns, sp.Name.Name)
					if it, ok := sp.Type.(*ast.InterfaceType); ok {
						dd.Kind = "iface"
						for _, m := range it.Methods.List {
							if len(m.Names) == 0 {
								dd.Embeds = append(dd.Embeds, baseName(m.Type))
							}
							for _, n := range m.Names {
								dd.Methods = append(dd.Methods, n.Name)
							}
						}
					}
				case *ast.ValueSpec:
					for _, n := range sp.Names {
						ns = append(ns, n.Name)
					}
				}
			}
			dd.Name = strings.Join(ns, ",")
			if t.Doc != nil {
				dd.Doc = strings.TrimSpace(t.Doc.Text())
			}
		}
		var buf bytes.Buffer
		// the declaration with its doc comment and every comment inside it
		var own []*ast.CommentGroup
		for _, cg := range f.Comments {
			if cg.Pos() >= declStart(d) && cg.End() <= d.End() {
				own = append(own, cg)
			}
		}
		_ = printer.Fprint(&buf, fset, &printer.CommentedNode{Node: d, Comments: own})
		dd.Text = hash(buf.Bytes())
		names[i] = dd.Name
		res.Decls = append(res.Decls, dd)
	}
	for k, cg := range f.Comments {
		if k == 0 && res.Header != "" {
			continue
		}
		inside := false
		for _, d := range decls {
			if cg.Pos() >= declStart(d) && cg.End() <= d.End() {
				inside = true
				break
			}
		}
		if inside {
			continue
		}
		before := ""
		for i, d := range decls {
			if declStart(d) >= cg.End() {
				before = names[i]
				break
			}
		}
		res.Floating = append(res.Floating, Floating{Text: strings.TrimSpace(cg.Text()), Before: before})
	}
	return res
}

func main() {
	out := bufio.NewWriter(os.Stdout)
	defer out.Flush()
	enc := json.NewEncoder(out)
	sc := bufio.NewScanner(os.Stdin)
	for sc.Scan() {
		p := strings.TrimSpace(sc.Text())
		if p == "" {
			continue
		}
		_ = enc.Encode(sig(p))
	}
}
