// restprobe evaluates the standard-library functions that enter the C06 model as
// parameters, so that the concrete instances used by the correspondence
// (coq/Corr/RestCorr.v: join_decoded, canon, dec) are compared with the real ones on every run.
//
// stdin : one call per line:  <function> TAB <arg> TAB <arg> ...   (args are Go-quoted strings)
// stdout: one JSON string per call (or {"error": ...}).
//
//	join base p    the path a server decodes for url.JoinPath("http://example.com"+base, p)
//	canon k        textproto.CanonicalMIMEHeaderKey(k)
//	fmtint z       fmt.Sprintf("%v", int64(z))
package main

import (
	"bufio"
	"encoding/json"
	"fmt"
	"net/http"
	"net/textproto"
	"net/url"
	"os"
	"strconv"
	"strings"
)

func call(fn string, a []string) any {
	switch fn {
	case "join":
		u, err := url.JoinPath("http://example.com"+a[0], a[1])
		if err != nil {
			return map[string]string{"error": err.Error()}
		}
		r, err := http.NewRequest("GET", u, nil)
		if err != nil {
			return map[string]string{"error": err.Error()}
		}
		pu, err := url.ParseRequestURI(r.URL.RequestURI())
		if err != nil {
			return map[string]string{"error": err.Error()}
		}
		return pu.Path
	case "canon":
		return textproto.CanonicalMIMEHeaderKey(a[0])
	case "fmtint":
		z, err := strconv.ParseInt(a[0], 10, 64)
		if err != nil {
			return map[string]string{"error": err.Error()}
		}
		return fmt.Sprintf("%v", z)
	}
	return map[string]string{"error": "unknown function " + fn}
}

func main() {
	in := bufio.NewScanner(os.Stdin)
	in.Buffer(make([]byte, 1<<22), 1<<22)
	out := bufio.NewWriter(os.Stdout)
	defer out.Flush()
	for in.Scan() {
		parts := strings.Split(in.Text(), "\t")
		var args []string
		var res any
		for _, p := range parts[1:] {
			s, err := strconv.Unquote(p)
			if err != nil {
				res = map[string]string{"error": "bad quoting"}
				break
			}
			args = append(args, s)
		}
		if res == nil {
			res = call(parts[0], args)
		}
		b, _ := json.Marshal(res)
		out.Write(b)
		out.WriteByte('\n')
	}
}
