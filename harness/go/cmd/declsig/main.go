// declsig: for every Go file named on stdin (one path per line) print one JSON
// line describing it at the level of coq/Model/GoWf.v:
//
//	{"path":…, "first_line":…, "package":…, "tops":[names of package-level funcs/types/vars/consts],
//	 "meths":[[receiver base type, name]…], "fields":[[struct type, field name]…], "parse_error":…}
//
// `init` functions and the blank identifier are not names.  Embedded fields are
// listed under the name they are promoted as.  Only go/parser is used.
package main

import (
	"bufio"
	"encoding/json"
	"fmt"
	"go/ast"
	"go/parser"
	"go/token"
	"os"
	"strings"
)

type fileSig struct {
	Path       string      `json:"path"`
	FirstLine  string      `json:"first_line"`
	Package    string      `json:"package"`
	Tops       []string    `json:"tops"`
	Meths      [][2]string `json:"meths"`
	Fields     [][2]string `json:"fields"`
	ParseError string      `json:"parse_error,omitempty"`
}

func baseName(e ast.Expr) string {
	switch t := e.(type) {
	case *ast.StarExpr:
		return baseName(t.X)
	case *ast.IndexExpr:
		return baseName(t.X)
	case *ast.IndexListExpr:
		return baseName(t.X)
	case *ast.ParenExpr:
		return baseName(t.X)
	case *ast.SelectorExpr:
		return t.Sel.Name
	case *ast.Ident:
		return t.Name
	}
	return "?"
}

func main() {
	out := bufio.NewWriter(os.Stdout)
	defer out.Flush()
	enc := json.NewEncoder(out)
	sc := bufio.NewScanner(os.Stdin)
	for sc.Scan() {
		path := strings.TrimSpace(sc.Text())
		if path == "" {
			continue
		}
		sig := fileSig{Path: path, Tops: []string{}, Meths: [][2]string{}, Fields: [][2]string{}}
		if b, err := os.ReadFile(path); err == nil {
			s := string(b)
			if i := strings.IndexByte(s, '\n'); i >= 0 {
				s = s[:i]
			}
			sig.FirstLine = s
		}
		fset := token.NewFileSet()
		f, err := parser.ParseFile(fset, path, nil, parser.ParseComments)
		if err != nil {
			sig.ParseError = strings.ReplaceAll(err.Error(), "\n", " ")
		}
		if f != nil {
			sig.Package = f.Name.Name
			for _, d := range f.Decls {
				switch x := d.(type) {
				case *ast.FuncDecl:
					if x.Recv != nil && len(x.Recv.List) > 0 {
						if x.Name.Name != "_" {
							sig.Meths = append(sig.Meths, [2]string{baseName(x.Recv.List[0].Type), x.Name.Name})
						}
					} else if x.Name.Name != "init" && x.Name.Name != "_" {
						sig.Tops = append(sig.Tops, x.Name.Name)
					}
				case *ast.GenDecl:
					for _, sp := range x.Specs {
						switch s := sp.(type) {
						case *ast.TypeSpec:
							if s.Name.Name != "_" {
								sig.Tops = append(sig.Tops, s.Name.Name)
							}
							if st, ok := s.Type.(*ast.StructType); ok && st.Fields != nil {
								for _, fl := range st.Fields.List {
									if len(fl.Names) == 0 {
										sig.Fields = append(sig.Fields, [2]string{s.Name.Name, baseName(fl.Type)})
									}
									for _, n := range fl.Names {
										if n.Name != "_" {
											sig.Fields = append(sig.Fields, [2]string{s.Name.Name, n.Name})
										}
									}
								}
							}
						case *ast.ValueSpec:
							for _, n := range s.Names {
								if n.Name != "_" {
									sig.Tops = append(sig.Tops, n.Name)
								}
							}
						}
					}
				}
			}
		}
		if err := enc.Encode(sig); err != nil {
			fmt.Fprintln(os.Stderr, err)
			os.Exit(1)
		}
	}
}
