package main

// Stage 8 of the translation tie: robustness against behaviour-preserving refactorings.
// (a) the call graph is followed from the area's roots: an unexported (or exported) function or method of the
//     same package that a translated function calls, and that no table mentions, is translated first;
// (b) `return f(x)` forwarding a multi-value call;  (c) zero values of interface types;
// (d) condition-only loops / loops whose bound mentions a variable the body assigns;
// see docs/translator.md "Robustness".

import (
	"go/ast"
	"go/token"
	"path/filepath"
)

var builtins = map[string]bool{"len": true, "cap": true, "append": true, "make": true, "new": true, "panic": true, "string": true,
	"int": true, "byte": true, "copy": true, "delete": true, "any": true, "print": true, "println": true, "min": true, "max": true,
	"int32": true, "int64": true, "uint8": true, "rune": true, "float64": true, "bool": true, "error": true, "recover": true}

// the helpers fd calls: functions / methods of fd's package that are neither roots, nor primitives, nor already translated
func (t *translator) helperCallees(fd *ast.FuncDecl, fs fnSpec) []fnSpec {
	if fs.from != "" {
		return nil // only a tail is translated: the calls of the skipped part are not ours
	}
	decls := map[string]string{} // funcName -> base name of the declaring file
	declOf := map[string]*ast.FuncDecl{}
	for _, pf := range t.pkgFiles() {
		base := filepath.Base(fset.Position(pf.Pos()).Filename)
		for _, d := range pf.Decls {
			if x, isF := d.(*ast.FuncDecl); isF && x.Body != nil {
				decls[funcName(x)] = base
				declOf[funcName(x)] = x
			}
		}
	}
	roots := map[string]bool{}
	for _, r := range t.a.funcs {
		roots[r.name] = true
	}
	locals := map[string]bool{}
	note := func(fl *ast.FieldList) {
		if fl != nil {
			for _, f := range fl.List {
				for _, n := range f.Names {
					locals[n.Name] = true
				}
			}
		}
	}
	recvName, recvBase := "", ""
	if fd.Recv != nil && len(fd.Recv.List) == 1 {
		note(fd.Recv)
		if len(fd.Recv.List[0].Names) == 1 {
			recvName = fd.Recv.List[0].Names[0].Name
		}
		rt := fd.Recv.List[0].Type
		if s, ok := rt.(*ast.StarExpr); ok {
			rt = s.X
		}
		if id, ok := rt.(*ast.Ident); ok {
			recvBase = id.Name
		}
	}
	note(fd.Type.Params)
	note(fd.Type.Results)
	ast.Inspect(fd.Body, func(n ast.Node) bool {
		switch x := n.(type) {
		case *ast.AssignStmt:
			if x.Tok == token.DEFINE {
				for _, l := range x.Lhs {
					if id, ok := l.(*ast.Ident); ok {
						locals[id.Name] = true
					}
				}
			}
		case *ast.ValueSpec:
			for _, id := range x.Names {
				locals[id.Name] = true
			}
		case *ast.RangeStmt:
			for _, e := range []ast.Expr{x.Key, x.Value} {
				if id, ok := e.(*ast.Ident); ok {
					locals[id.Name] = true
				}
			}
		case *ast.FuncLit:
			note(x.Type.Params)
		}
		return true
	})
	var out []fnSpec
	seen := map[string]bool{}
	add := func(name string, c *ast.CallExpr, explicit []ast.Expr) {
		if seen[name] || roots[name] {
			return
		}
		base, declared := decls[name]
		if !declared {
			return
		}
		seen[name] = true
		h := fnSpec{file: filepath.Join(filepath.Dir(fs.file), base), name: name}
		// a generic helper is instantiated as its caller is
		if d := declOf[name]; d.Type.TypeParams != nil {
			h.inst = map[string]string{}
			i := 0
			for _, f := range d.Type.TypeParams.List {
				for _, n := range f.Names {
					if i < len(explicit) {
						if at, ok := explicit[i].(*ast.Ident); ok {
							if v, known := fs.inst[at.Name]; known {
								h.inst[n.Name] = v
							} else {
								h.inst[n.Name] = at.Name
							}
							for _, id := range fs.ids {
								if id == at.Name {
									h.ids = append(h.ids, n.Name)
								}
							}
						}
					} else if v, known := fs.inst[n.Name]; known {
						h.inst[n.Name] = v
						for _, id := range fs.ids {
							if id == n.Name {
								h.ids = append(h.ids, n.Name)
							}
						}
					}
					i++
				}
			}
		}
		out = append(out, h)
	}
	ast.Inspect(fd.Body, func(n ast.Node) bool {
		c, ok := n.(*ast.CallExpr)
		if !ok {
			return true
		}
		fun := c.Fun
		var explicit []ast.Expr
		switch ix := fun.(type) {
		case *ast.IndexExpr:
			fun, explicit = ix.X, []ast.Expr{ix.Index}
		case *ast.IndexListExpr:
			fun, explicit = ix.X, ix.Indices
		}
		switch f := fun.(type) {
		case *ast.Ident:
			if locals[f.Name] || builtins[f.Name] || t.sigs[f.Name] != nil || t.a.fatals[f.Name] {
				return true
			}
			if _, isPrim := t.a.prims[f.Name]; isPrim {
				return true
			}
			if _, isPrim := t.a.prims[f.Name+"[...]"]; isPrim {
				return true
			}
			if _, isMut := t.a.muts[f.Name]; isMut {
				return true
			}
			if d := declOf[f.Name]; d != nil && d.Recv == nil {
				add(f.Name, c, explicit)
			}
		case *ast.SelectorExpr:
			id, isId := f.X.(*ast.Ident)
			if !isId || recvName == "" || id.Name != recvName {
				return true
			}
			key := recvBase + "." + f.Sel.Name
			for _, pre := range []string{"*" + recvBase + ".", recvBase + "."} {
				if _, isPrim := t.a.prims[pre+f.Sel.Name]; isPrim {
					return true
				}
				if t.a.wlooks[pre+f.Sel.Name+"()"] != "" || t.a.mapvals[pre+f.Sel.Name+"()"] != "" || t.a.fatals[pre+f.Sel.Name] {
					return true
				}
			}
			if t.sigs[f.Sel.Name] != nil {
				return true
			}
			if d := declOf[key]; d != nil {
				add(key, c, nil)
			}
		}
		return true
	})
	return out
}
