package main

// Stage 8 of the translation tie: robustness against behaviour-preserving refactorings.
// (a) the call graph is followed from the area's roots: an unexported (or exported) function or method of the
//     same package that a translated function calls, and that no table mentions, is translated first;
// (b) `return f(x)` forwarding a multi-value call;  (c) zero values of interface types;
// (d) condition-only loops / loops whose bound mentions a variable the body assigns;
// see docs/translator.md "Robustness".

import (
	"go/ast"
	"go/parser"
	"go/token"
	"path/filepath"
	"strconv"
	"strings"
)

var builtins = map[string]bool{"len": true, "cap": true, "append": true, "make": true, "new": true, "panic": true, "string": true,
	"int": true, "byte": true, "copy": true, "delete": true, "any": true, "print": true, "println": true, "min": true, "max": true,
	"int32": true, "int64": true, "uint8": true, "rune": true, "float64": true, "bool": true, "error": true, "recover": true}

// the helpers fd calls: functions / methods of fd's package that are neither roots, nor primitives, nor already translated
func (t *translator) helperCallees(fd *ast.FuncDecl, fs fnSpec) []fnSpec {
	if fs.from != "" {
		return nil // only a tail is translated: the calls of the skipped part are not ours
	}
	decls := map[string]string{} // funcName -> base name of the declaring file
	declOf := map[string]*ast.FuncDecl{}
	for _, pf := range t.pkgFiles() {
		base := filepath.Base(fset.Position(pf.Pos()).Filename)
		for _, d := range pf.Decls {
			if x, isF := d.(*ast.FuncDecl); isF && x.Body != nil {
				decls[funcName(x)] = base
				declOf[funcName(x)] = x
			}
		}
	}
	roots := map[string]bool{}
	for _, r := range t.a.funcs {
		roots[r.name] = true
	}
	locals := map[string]bool{}
	note := func(fl *ast.FieldList) {
		if fl != nil {
			for _, f := range fl.List {
				for _, n := range f.Names {
					locals[n.Name] = true
				}
			}
		}
	}
	recvName, recvBase := "", ""
	if fd.Recv != nil && len(fd.Recv.List) == 1 {
		note(fd.Recv)
		if len(fd.Recv.List[0].Names) == 1 {
			recvName = fd.Recv.List[0].Names[0].Name
		}
		rt := fd.Recv.List[0].Type
		if s, ok := rt.(*ast.StarExpr); ok {
			rt = s.X
		}
		if id, ok := rt.(*ast.Ident); ok {
			recvBase = id.Name
		}
	}
	note(fd.Type.Params)
	note(fd.Type.Results)
	ast.Inspect(fd.Body, func(n ast.Node) bool {
		switch x := n.(type) {
		case *ast.AssignStmt:
			if x.Tok == token.DEFINE {
				for _, l := range x.Lhs {
					if id, ok := l.(*ast.Ident); ok {
						locals[id.Name] = true
					}
				}
			}
		case *ast.ValueSpec:
			for _, id := range x.Names {
				locals[id.Name] = true
			}
		case *ast.RangeStmt:
			for _, e := range []ast.Expr{x.Key, x.Value} {
				if id, ok := e.(*ast.Ident); ok {
					locals[id.Name] = true
				}
			}
		case *ast.FuncLit:
			note(x.Type.Params)
		}
		return true
	})
	var out []fnSpec
	seen := map[string]bool{}
	add := func(name string, c *ast.CallExpr, explicit []ast.Expr) {
		if seen[name] || roots[name] {
			return
		}
		base, declared := decls[name]
		if !declared {
			return
		}
		seen[name] = true
		h := fnSpec{file: filepath.Join(filepath.Dir(fs.file), base), name: name}
		// a generic helper is instantiated as its caller is
		if d := declOf[name]; d.Type.TypeParams != nil {
			h.inst = map[string]string{}
			i := 0
			for _, f := range d.Type.TypeParams.List {
				for _, n := range f.Names {
					if i < len(explicit) {
						if at, ok := explicit[i].(*ast.Ident); ok {
							if v, known := fs.inst[at.Name]; known {
								h.inst[n.Name] = v
							} else {
								h.inst[n.Name] = at.Name
							}
							for _, id := range fs.ids {
								if id == at.Name {
									h.ids = append(h.ids, n.Name)
								}
							}
						}
					} else if v, known := fs.inst[n.Name]; known {
						h.inst[n.Name] = v
						for _, id := range fs.ids {
							if id == n.Name {
								h.ids = append(h.ids, n.Name)
							}
						}
					}
					i++
				}
			}
		}
		// a parameter the helper only passes on to a function whose table entry gives that parameter another Go type
		// (a path passed as a string) is translated at that type
		d := declOf[name]
		params := map[string]bool{}
		if d.Type.Params != nil {
			for _, f := range d.Type.Params.List {
				for _, n := range f.Names {
					params[n.Name] = true
				}
			}
		}
		ast.Inspect(d.Body, func(n ast.Node) bool {
			cc, isCall := n.(*ast.CallExpr)
			if !isCall {
				return true
			}
			callee := ""
			switch f := cc.Fun.(type) {
			case *ast.Ident:
				callee = f.Name
			case *ast.SelectorExpr:
				callee = f.Sel.Name
			}
			for _, r := range t.a.funcs {
				rn := r.name
				if i := strings.LastIndex(rn, "."); i >= 0 {
					rn = rn[i+1:]
				}
				if rn != callee || len(r.ptypes) == 0 || declOf[r.name] == nil || declOf[r.name].Type.Params == nil {
					continue
				}
				k := 0
				for _, f := range declOf[r.name].Type.Params.List {
					for _, pn := range f.Names {
						if pt, has := r.ptypes[pn.Name]; has && k < len(cc.Args) {
							if id, isId := cc.Args[k].(*ast.Ident); isId && params[id.Name] {
								if h.ptypes == nil {
									h.ptypes = map[string]string{}
								}
								h.ptypes[id.Name] = pt
							}
						}
						k++
					}
				}
			}
			return true
		})
		out = append(out, h)
	}
	ast.Inspect(fd.Body, func(n ast.Node) bool {
		c, ok := n.(*ast.CallExpr)
		if !ok {
			return true
		}
		fun := c.Fun
		var explicit []ast.Expr
		switch ix := fun.(type) {
		case *ast.IndexExpr:
			fun, explicit = ix.X, []ast.Expr{ix.Index}
		case *ast.IndexListExpr:
			fun, explicit = ix.X, ix.Indices
		}
		switch f := fun.(type) {
		case *ast.Ident:
			if locals[f.Name] || builtins[f.Name] || t.sigs[f.Name] != nil || t.a.fatals[f.Name] {
				return true
			}
			if _, isPrim := t.a.prims[f.Name]; isPrim {
				return true
			}
			if _, isPrim := t.a.prims[f.Name+"[...]"]; isPrim {
				return true
			}
			if _, isMut := t.a.muts[f.Name]; isMut {
				return true
			}
			if d := declOf[f.Name]; d != nil && d.Recv == nil {
				add(f.Name, c, explicit)
			}
		case *ast.SelectorExpr:
			id, isId := f.X.(*ast.Ident)
			if !isId || recvName == "" || id.Name != recvName {
				return true
			}
			key := recvBase + "." + f.Sel.Name
			for _, pre := range []string{"*" + recvBase + ".", recvBase + "."} {
				if _, isPrim := t.a.prims[pre+f.Sel.Name]; isPrim {
					return true
				}
				if t.a.wlooks[pre+f.Sel.Name+"()"] != "" || t.a.mapvals[pre+f.Sel.Name+"()"] != "" || t.a.fatals[pre+f.Sel.Name] {
					return true
				}
			}
			if t.sigs[f.Sel.Name] != nil {
				return true
			}
			if d := declOf[key]; d != nil {
				add(key, c, nil)
			}
		}
		return true
	})
	return out
}

// ---------------------------------------------------------------------------------------------------------
// Inlining of helpers at the level of the Go syntax tree, BEFORE translation: a refactoring that moves a piece of
// a translated function into an unexported helper of the same package gives the same Gallina term again (up to
// the names of locals), so the bridge lemmas - which name the loops of the ROOT - keep their subject.
//   return h(a..)            -> { p := a ..; <body of h> }                       (any body: its returns are ours)
//   x.. := h(a..) / h(a..)   -> var r T..; p := a..; <body, `return e` -> `r = e`>; x.. := r..
//                               (only bodies without loops / defers whose returns are all in tail position)
//   if c(h(a..)) / return e(h(a..)) / x := e(h(a..)): the call is hoisted into a fresh local first, when it is the
//   only call of the expression and is not the right operand of && / || (evaluation order is kept).
// Locals and parameters of the helper get fresh names (x''N); a parameter bound to a variable is that variable.

var inlineCounter int

type inliner struct {
	t      *translator
	fs     fnSpec
	decls  map[string]*ast.FuncDecl // helpers by name (functions without receiver)
	files  map[string]string        // helper -> file (absolute)
	roots  map[string]bool
	budget int
}

func (t *translator) inlineHelpers(fd *ast.FuncDecl, fs fnSpec) {
	if fs.from != "" {
		return
	}
	in := &inliner{t: t, fs: fs, decls: map[string]*ast.FuncDecl{}, files: map[string]string{}, roots: map[string]bool{}, budget: 40}
	for _, pf := range t.pkgFiles() {
		for _, d := range pf.Decls {
			if x, isF := d.(*ast.FuncDecl); isF && x.Body != nil && x.Recv == nil {
				in.decls[x.Name.Name] = x
				in.files[x.Name.Name] = fset.Position(pf.Pos()).Filename
			}
		}
	}
	for _, r := range t.a.funcs {
		in.roots[r.name] = true
	}
	in.roots[fd.Name.Name] = true
	var lits []*ast.FuncLit
	ast.Inspect(fd.Body, func(n ast.Node) bool {
		if l, ok := n.(*ast.FuncLit); ok {
			lits = append(lits, l)
		}
		return true
	})
	nres := func(ft *ast.FuncType) int {
		if ft.Results == nil {
			return 0
		}
		k := 0
		for _, f := range ft.Results.List {
			if len(f.Names) == 0 {
				k++
			} else {
				k += len(f.Names)
			}
		}
		return k
	}
	fd.Body.List = normaliseWhile(in.list(fd.Body.List, nres(fd.Type)))
	for _, l := range lits {
		l.Body.List = normaliseWhile(in.list(l.Body.List, nres(l.Type)))
	}
	normaliseRange(fd.Body.List)
	for _, l := range lits {
		normaliseRange(l.Body.List)
	}
}

// is the call one of an inlinable helper? returns its declaration (a fresh copy) or nil
func (in *inliner) helper(c *ast.CallExpr) *ast.FuncDecl {
	fun := c.Fun
	var explicit []ast.Expr
	switch ix := fun.(type) {
	case *ast.IndexExpr:
		fun, explicit = ix.X, []ast.Expr{ix.Index}
	case *ast.IndexListExpr:
		fun, explicit = ix.X, ix.Indices
	}
	id, ok := fun.(*ast.Ident)
	if !ok || in.roots[id.Name] || builtins[id.Name] || in.t.sigs[id.Name] != nil || in.t.a.fatals[id.Name] {
		return nil
	}
	if _, isPrim := in.t.a.prims[id.Name]; isPrim {
		return nil
	}
	if _, isPrim := in.t.a.prims[id.Name+"[...]"]; isPrim {
		return nil
	}
	d := in.decls[id.Name]
	if d == nil || c.Ellipsis != token.NoPos || in.budget <= 0 {
		return nil
	}
	// a generic helper: only when its type parameters are named like the arguments it is instantiated with
	if d.Type.TypeParams != nil {
		i := 0
		for _, f := range d.Type.TypeParams.List {
			for _, n := range f.Names {
				if i < len(explicit) {
					if at, isId := explicit[i].(*ast.Ident); !isId || at.Name != n.Name {
						return nil
					}
				} else if _, known := in.fs.inst[n.Name]; !known {
					return nil
				}
				i++
			}
		}
	}
	if d.Type.Params != nil {
		k := 0
		for _, f := range d.Type.Params.List {
			if len(f.Names) == 0 {
				return nil
			}
			if _, variadic := f.Type.(*ast.Ellipsis); variadic {
				return nil
			}
			k += len(f.Names)
		}
		if k != len(c.Args) {
			return nil
		}
	} else if len(c.Args) != 0 {
		return nil
	}
	if d.Type.Results != nil {
		for _, f := range d.Type.Results.List {
			if len(f.Names) != 0 {
				return nil // named results
			}
		}
	}
	bad := false
	ast.Inspect(d.Body, func(n ast.Node) bool {
		switch x := n.(type) {
		case *ast.DeferStmt, *ast.GoStmt, *ast.LabeledStmt, *ast.FuncLit:
			bad = true
		case *ast.CallExpr:
			if cid, isId := x.Fun.(*ast.Ident); isId && cid.Name == id.Name {
				bad = true // recursive
			}
		}
		return true
	})
	if bad {
		return nil
	}
	// a fresh copy: parse the file again
	f, err := parser.ParseFile(fset, in.files[id.Name], nil, parser.SkipObjectResolution)
	if err != nil {
		return nil
	}
	for _, dd := range f.Decls {
		if x, isF := dd.(*ast.FuncDecl); isF && x.Recv == nil && x.Name.Name == id.Name {
			return x
		}
	}
	return nil
}

func simpleArg(e ast.Expr) bool {
	switch x := e.(type) {
	case *ast.Ident:
		return true
	case *ast.BasicLit:
		return true
	case *ast.SelectorExpr:
		return simpleArg(x.X)
	}
	return false
}

// the body of h instantiated for the call: fresh names, parameters bound; returns (prefix binding statements, body)
func (in *inliner) instantiate(h *ast.FuncDecl, c *ast.CallExpr) ([]ast.Stmt, []ast.Stmt) {
	in.budget--
	assignedIn := map[string]bool{}
	ast.Inspect(h.Body, func(n ast.Node) bool {
		switch x := n.(type) {
		case *ast.AssignStmt:
			for _, l := range x.Lhs {
				if id, ok := l.(*ast.Ident); ok && x.Tok != token.DEFINE {
					assignedIn[id.Name] = true
				}
				if ix, ok := l.(*ast.IndexExpr); ok {
					if id, isId := ix.X.(*ast.Ident); isId {
						assignedIn[id.Name] = true
					}
				}
			}
		case *ast.IncDecStmt:
			if id, ok := x.X.(*ast.Ident); ok {
				assignedIn[id.Name] = true
			}
		case *ast.UnaryExpr:
			if id, ok := x.X.(*ast.Ident); ok && x.Op == token.AND {
				assignedIn[id.Name] = true
			}
		}
		return true
	})
	rename := map[string]ast.Expr{}
	fresh := func(n string) string {
		inlineCounter++
		return n + "''h" + strconv.Itoa(inlineCounter)
	}
	var binds []ast.Stmt
	i := 0
	if h.Type.Params != nil {
		for _, f := range h.Type.Params.List {
			for _, n := range f.Names {
				a := c.Args[i]
				i++
				if n.Name == "_" {
					continue
				}
				if simpleArg(a) && !assignedIn[n.Name] {
					rename[n.Name] = a
					continue
				}
				nn := fresh(n.Name)
				rename[n.Name] = ast.NewIdent(nn)
				// var p T = a  (the declared type is kept: an untyped constant or a nil argument needs it)
				binds = append(binds, &ast.DeclStmt{Decl: &ast.GenDecl{Tok: token.VAR, Specs: []ast.Spec{
					&ast.ValueSpec{Names: []*ast.Ident{ast.NewIdent(nn)}, Type: f.Type, Values: []ast.Expr{a}}}}})
			}
		}
	}
	// locals
	declare := func(id *ast.Ident) {
		if id.Name != "_" {
			if _, done := rename[id.Name]; !done {
				rename[id.Name] = ast.NewIdent(fresh(id.Name))
			}
		}
	}
	ast.Inspect(h.Body, func(n ast.Node) bool {
		switch x := n.(type) {
		case *ast.AssignStmt:
			if x.Tok == token.DEFINE {
				for _, l := range x.Lhs {
					if id, ok := l.(*ast.Ident); ok {
						declare(id)
					}
				}
			}
		case *ast.ValueSpec:
			for _, id := range x.Names {
				declare(id)
			}
		case *ast.RangeStmt:
			if x.Tok == token.DEFINE {
				for _, e := range []ast.Expr{x.Key, x.Value} {
					if id, ok := e.(*ast.Ident); ok {
						declare(id)
					}
				}
			}
		}
		return true
	})
	body := substStmts(h.Body.List, rename)
	return binds, body
}

// ---- substitution of identifiers (not of field names) in a syntax tree
func substStmts(l []ast.Stmt, m map[string]ast.Expr) []ast.Stmt {
	out := make([]ast.Stmt, len(l))
	for i, s := range l {
		out[i] = substStmt(s, m)
	}
	return out
}

func substIdent(id *ast.Ident, m map[string]ast.Expr) *ast.Ident {
	if id == nil {
		return nil
	}
	if r, ok := m[id.Name]; ok {
		if rid, isId := r.(*ast.Ident); isId {
			return &ast.Ident{NamePos: id.NamePos, Name: rid.Name}
		}
	}
	return id
}

func substExpr(e ast.Expr, m map[string]ast.Expr) ast.Expr {
	switch x := e.(type) {
	case nil:
		return nil
	case *ast.Ident:
		if r, ok := m[x.Name]; ok {
			return r
		}
		return x
	case *ast.BasicLit:
		return x
	case *ast.ParenExpr:
		return &ast.ParenExpr{Lparen: x.Lparen, X: substExpr(x.X, m), Rparen: x.Rparen}
	case *ast.SelectorExpr:
		return &ast.SelectorExpr{X: substExpr(x.X, m), Sel: x.Sel}
	case *ast.StarExpr:
		return &ast.StarExpr{Star: x.Star, X: substExpr(x.X, m)}
	case *ast.UnaryExpr:
		return &ast.UnaryExpr{OpPos: x.OpPos, Op: x.Op, X: substExpr(x.X, m)}
	case *ast.BinaryExpr:
		return &ast.BinaryExpr{X: substExpr(x.X, m), OpPos: x.OpPos, Op: x.Op, Y: substExpr(x.Y, m)}
	case *ast.CallExpr:
		args := make([]ast.Expr, len(x.Args))
		for i, a := range x.Args {
			args[i] = substExpr(a, m)
		}
		fun := x.Fun
		// the called function: a variable of function type may be renamed, a declared function is not in the map
		fun = substExpr(fun, m)
		return &ast.CallExpr{Fun: fun, Lparen: x.Lparen, Args: args, Ellipsis: x.Ellipsis, Rparen: x.Rparen}
	case *ast.IndexExpr:
		return &ast.IndexExpr{X: substExpr(x.X, m), Lbrack: x.Lbrack, Index: substExpr(x.Index, m), Rbrack: x.Rbrack}
	case *ast.IndexListExpr:
		return x
	case *ast.SliceExpr:
		return &ast.SliceExpr{X: substExpr(x.X, m), Lbrack: x.Lbrack, Low: substExpr(x.Low, m), High: substExpr(x.High, m), Max: substExpr(x.Max, m), Slice3: x.Slice3, Rbrack: x.Rbrack}
	case *ast.TypeAssertExpr:
		return &ast.TypeAssertExpr{X: substExpr(x.X, m), Lparen: x.Lparen, Type: x.Type, Rparen: x.Rparen}
	case *ast.CompositeLit:
		elts := make([]ast.Expr, len(x.Elts))
		for i, el := range x.Elts {
			if kv, isKV := el.(*ast.KeyValueExpr); isKV {
				elts[i] = &ast.KeyValueExpr{Key: kv.Key, Colon: kv.Colon, Value: substExpr(kv.Value, m)}
			} else {
				elts[i] = substExpr(el, m)
			}
		}
		return &ast.CompositeLit{Type: x.Type, Lbrace: x.Lbrace, Elts: elts, Rbrace: x.Rbrace}
	case *ast.KeyValueExpr:
		return &ast.KeyValueExpr{Key: x.Key, Colon: x.Colon, Value: substExpr(x.Value, m)}
	case *ast.ArrayType, *ast.MapType, *ast.FuncType, *ast.InterfaceType, *ast.StructType, *ast.ChanType, *ast.Ellipsis:
		return x
	}
	unsup(e, "expression %T in a helper that is inlined", e)
	return nil
}

func substStmt(s ast.Stmt, m map[string]ast.Expr) ast.Stmt {
	exprs := func(l []ast.Expr) []ast.Expr {
		out := make([]ast.Expr, len(l))
		for i, e := range l {
			out[i] = substExpr(e, m)
		}
		return out
	}
	block := func(b *ast.BlockStmt) *ast.BlockStmt {
		if b == nil {
			return nil
		}
		return &ast.BlockStmt{Lbrace: b.Lbrace, List: substStmts(b.List, m), Rbrace: b.Rbrace}
	}
	switch x := s.(type) {
	case nil:
		return nil
	case *ast.EmptyStmt:
		return x
	case *ast.ExprStmt:
		return &ast.ExprStmt{X: substExpr(x.X, m)}
	case *ast.AssignStmt:
		return &ast.AssignStmt{Lhs: exprs(x.Lhs), TokPos: x.TokPos, Tok: x.Tok, Rhs: exprs(x.Rhs)}
	case *ast.IncDecStmt:
		return &ast.IncDecStmt{X: substExpr(x.X, m), TokPos: x.TokPos, Tok: x.Tok}
	case *ast.ReturnStmt:
		return &ast.ReturnStmt{Return: x.Return, Results: exprs(x.Results)}
	case *ast.BranchStmt:
		return x
	case *ast.BlockStmt:
		return block(x)
	case *ast.IfStmt:
		return &ast.IfStmt{If: x.If, Init: substStmt(x.Init, m), Cond: substExpr(x.Cond, m), Body: block(x.Body), Else: substStmt(x.Else, m)}
	case *ast.ForStmt:
		return &ast.ForStmt{For: x.For, Init: substStmt(x.Init, m), Cond: substExpr(x.Cond, m), Post: substStmt(x.Post, m), Body: block(x.Body)}
	case *ast.RangeStmt:
		return &ast.RangeStmt{For: x.For, Key: substExpr(x.Key, m), Value: substExpr(x.Value, m), TokPos: x.TokPos, Tok: x.Tok, X: substExpr(x.X, m), Body: block(x.Body)}
	case *ast.SwitchStmt:
		return &ast.SwitchStmt{Switch: x.Switch, Init: substStmt(x.Init, m), Tag: substExpr(x.Tag, m), Body: block(x.Body)}
	case *ast.CaseClause:
		return &ast.CaseClause{Case: x.Case, List: exprs(x.List), Colon: x.Colon, Body: substStmts(x.Body, m)}
	case *ast.DeclStmt:
		gd, ok := x.Decl.(*ast.GenDecl)
		if !ok || gd.Tok != token.VAR {
			unsup(s, "declaration in a helper that is inlined")
		}
		var specs []ast.Spec
		for _, sp := range gd.Specs {
			vs := sp.(*ast.ValueSpec)
			names := make([]*ast.Ident, len(vs.Names))
			for i, n := range vs.Names {
				names[i] = substIdent(n, m)
			}
			specs = append(specs, &ast.ValueSpec{Names: names, Type: vs.Type, Values: exprs(vs.Values)})
		}
		return &ast.DeclStmt{Decl: &ast.GenDecl{TokPos: gd.TokPos, Tok: gd.Tok, Lparen: gd.Lparen, Specs: specs, Rparen: gd.Rparen}}
	}
	unsup(s, "statement %T in a helper that is inlined", s)
	return nil
}

// ---- returns in tail position -> assignments to the result variables
func hasReturn(n ast.Node) bool {
	found := false
	ast.Inspect(n, func(x ast.Node) bool {
		if _, ok := x.(*ast.ReturnStmt); ok {
			found = true
		}
		return true
	})
	return found
}

func hasLoop(l []ast.Stmt) bool {
	found := false
	for _, s := range l {
		ast.Inspect(s, func(x ast.Node) bool {
			switch x.(type) {
			case *ast.ForStmt, *ast.RangeStmt:
				found = true
			}
			return true
		})
	}
	return found
}

func retToAssign(l []ast.Stmt, res []*ast.Ident) ([]ast.Stmt, bool) {
	var out []ast.Stmt
	for i, s := range l {
		switch x := s.(type) {
		case *ast.ReturnStmt:
			if len(res) > 0 {
				lhs := make([]ast.Expr, len(res))
				for k, r := range res {
					lhs[k] = ast.NewIdent(r.Name)
				}
				if len(x.Results) != len(res) && len(x.Results) != 1 {
					return nil, false
				}
				out = append(out, &ast.AssignStmt{Lhs: lhs, Tok: token.ASSIGN, Rhs: x.Results, TokPos: x.Return})
			}
			return out, true // what follows a return is dead
		case *ast.IfStmt:
			if !hasReturn(x) {
				out = append(out, s)
				continue
			}
			rest := l[i+1:]
			var els []ast.Stmt
			switch e := x.Else.(type) {
			case nil:
			case *ast.BlockStmt:
				els = e.List
			case *ast.IfStmt:
				els = []ast.Stmt{e}
			}
			bodyT, elseT := terminates(x.Body.List), terminates(els)
			if !bodyT && !elseT {
				return nil, false
			}
			b := x.Body.List
			if !bodyT {
				b = append(append([]ast.Stmt{}, b...), rest...)
			}
			if !elseT {
				els = append(append([]ast.Stmt{}, els...), rest...)
			}
			b2, ok1 := retToAssign(b, res)
			e2, ok2 := retToAssign(els, res)
			if !ok1 || !ok2 {
				return nil, false
			}
			n := &ast.IfStmt{If: x.If, Init: x.Init, Cond: x.Cond, Body: &ast.BlockStmt{List: b2}}
			if len(e2) > 0 {
				n.Else = &ast.BlockStmt{List: e2}
			}
			out = append(out, n)
			return out, true
		default:
			if hasReturn(s) {
				return nil, false
			}
			out = append(out, s)
		}
	}
	return out, len(res) == 0 || terminates(out) // a list that ends in panic(..) needs no value
}

// ---- the rewriting of a statement list
func (in *inliner) list(l []ast.Stmt, nres int) []ast.Stmt {
	var out []ast.Stmt
	for _, s := range l {
		out = append(out, in.stmt(s, nres)...)
	}
	return out
}

func (in *inliner) block(b *ast.BlockStmt, nres int) {
	if b != nil {
		b.List = in.list(b.List, nres)
	}
}

func resultCount(h *ast.FuncDecl) int {
	if h.Type.Results == nil {
		return 0
	}
	return len(h.Type.Results.List)
}

// the single inlinable call in e that is evaluated unconditionally and is the only call of e
func (in *inliner) hoistable(e ast.Expr) *ast.CallExpr {
	var calls []*ast.CallExpr
	ast.Inspect(e, func(n ast.Node) bool {
		if c, ok := n.(*ast.CallExpr); ok {
			if id, isId := c.Fun.(*ast.Ident); isId && (builtins[id.Name] && id.Name != "append") {
				return true // len(x), a conversion
			}
			calls = append(calls, c)
		}
		return true
	})
	if len(calls) != 1 {
		return nil
	}
	c := calls[0]
	h := in.helper(c)
	if h == nil || resultCount(h) != 1 {
		return nil
	}
	// not under the right operand of && / ||
	conditional := false
	var walk func(x ast.Expr, cond bool)
	walk = func(x ast.Expr, cond bool) {
		switch y := x.(type) {
		case *ast.BinaryExpr:
			if y.Op == token.LAND || y.Op == token.LOR {
				walk(y.X, cond)
				walk(y.Y, true)
				return
			}
			walk(y.X, cond)
			walk(y.Y, cond)
		case *ast.ParenExpr:
			walk(y.X, cond)
		case *ast.UnaryExpr:
			walk(y.X, cond)
		case *ast.CallExpr:
			if y == c && cond {
				conditional = true
			}
			for _, a := range y.Args {
				walk(a, cond)
			}
		case *ast.SelectorExpr:
			walk(y.X, cond)
		case *ast.IndexExpr:
			walk(y.X, cond)
			walk(y.Index, cond)
		}
	}
	walk(e, false)
	if conditional {
		return nil
	}
	return c
}

func replaceCall(e ast.Expr, c *ast.CallExpr, by ast.Expr) ast.Expr {
	if e == ast.Expr(c) {
		return by
	}
	switch x := e.(type) {
	case *ast.ParenExpr:
		x.X = replaceCall(x.X, c, by)
	case *ast.UnaryExpr:
		x.X = replaceCall(x.X, c, by)
	case *ast.BinaryExpr:
		x.X = replaceCall(x.X, c, by)
		x.Y = replaceCall(x.Y, c, by)
	case *ast.CallExpr:
		for i := range x.Args {
			x.Args[i] = replaceCall(x.Args[i], c, by)
		}
	case *ast.SelectorExpr:
		x.X = replaceCall(x.X, c, by)
	case *ast.IndexExpr:
		x.X = replaceCall(x.X, c, by)
		x.Index = replaceCall(x.Index, c, by)
	case *ast.StarExpr:
		x.X = replaceCall(x.X, c, by)
	}
	return e
}

// v.. := h(a..) where the call is the whole right-hand side (v fresh result variables are declared first)
func (in *inliner) callStmt(h *ast.FuncDecl, c *ast.CallExpr, nres int) ([]ast.Stmt, []*ast.Ident, bool) {
	if hasLoop(h.Body.List) {
		return nil, nil, false
	}
	binds, body := in.instantiate(h, c)
	var res []*ast.Ident
	var decls []ast.Stmt
	if h.Type.Results != nil {
		for _, f := range h.Type.Results.List {
			inlineCounter++
			r := ast.NewIdent("r''h" + strconv.Itoa(inlineCounter))
			res = append(res, r)
			decls = append(decls, &ast.DeclStmt{Decl: &ast.GenDecl{Tok: token.VAR, Specs: []ast.Spec{
				&ast.ValueSpec{Names: []*ast.Ident{ast.NewIdent(r.Name)}, Type: f.Type}}}})
		}
	}
	b2, ok := retToAssign(body, res)
	if !ok && len(res) > 0 {
		return nil, nil, false
	}
	if !ok {
		b2, ok = retToAssign(append(body, &ast.ReturnStmt{}), res)
		if !ok {
			return nil, nil, false
		}
	}
	// a body with ONE return, at its end: the result variables are defined there (no `var r T`, which would ask for a
	// zero value of T: oracle types have none)
	if len(res) > 0 && len(b2) > 0 {
		nested := false
		for _, st := range b2[:len(b2)-1] {
			ast.Inspect(st, func(n ast.Node) bool {
				if as, ok := n.(*ast.AssignStmt); ok {
					for _, l := range as.Lhs {
						if id, isId := l.(*ast.Ident); isId {
							for _, r := range res {
								if r.Name == id.Name {
									nested = true
								}
							}
						}
					}
				}
				return true
			})
		}
		if last, ok := b2[len(b2)-1].(*ast.AssignStmt); ok && !nested && last.Tok == token.ASSIGN && len(last.Lhs) == len(res) {
			isRes := true
			for i, l := range last.Lhs {
				if id, isId := l.(*ast.Ident); !isId || id.Name != res[i].Name {
					isRes = false
				}
			}
			if isRes {
				last.Tok = token.DEFINE
				decls = nil
			}
		}
	}
	out := append(append(decls, binds...), b2...)
	return in.list(out, nres), res, true
}

func (in *inliner) stmt(s ast.Stmt, nres int) []ast.Stmt {
	switch x := s.(type) {
	case *ast.ReturnStmt:
		// return h(a..): the body of h in place
		if len(x.Results) == 1 {
			if c, isCall := x.Results[0].(*ast.CallExpr); isCall {
				if h := in.helper(c); h != nil && resultCount(h) == nres {
					binds, body := in.instantiate(h, c)
					if !terminates(body) {
						body = append(body, &ast.ReturnStmt{})
					}
					// spliced, not wrapped in a block: every name of the helper is fresh, and a loop of the helper stays a
					// top-level loop of the function when the return was one of its top-level statements
					return in.list(append(binds, body...), nres)
				}
			}
		}
		for i, r := range x.Results {
			if c := in.hoistable(r); c != nil && ast.Expr(c) != r || (c != nil && len(x.Results) > 1) {
				pre, tmp := in.hoist(c, nres)
				if pre != nil {
					x.Results[i] = replaceCall(r, c, tmp)
					return append(pre, in.stmt(x, nres)...)
				}
			}
		}
		return []ast.Stmt{s}
	case *ast.ExprStmt:
		if c, isCall := x.X.(*ast.CallExpr); isCall {
			if h := in.helper(c); h != nil {
				if out, _, ok := in.callStmt(h, c, nres); ok {
					return out
				}
			}
		}
		return []ast.Stmt{s}
	case *ast.AssignStmt:
		if len(x.Rhs) == 1 {
			if c, isCall := x.Rhs[0].(*ast.CallExpr); isCall {
				if h := in.helper(c); h != nil && resultCount(h) == len(x.Lhs) {
					if out, res, ok := in.callStmt(h, c, nres); ok {
						rhs := make([]ast.Expr, len(res))
						for i, r := range res {
							rhs[i] = ast.NewIdent(r.Name)
						}
						return append(out, &ast.AssignStmt{Lhs: x.Lhs, TokPos: x.TokPos, Tok: x.Tok, Rhs: rhs})
					}
				}
				return []ast.Stmt{s}
			}
			if c := in.hoistable(x.Rhs[0]); c != nil {
				if pre, tmp := in.hoist(c, nres); pre != nil {
					x.Rhs[0] = replaceCall(x.Rhs[0], c, tmp)
					return append(pre, s)
				}
			}
		}
		return []ast.Stmt{s}
	case *ast.IfStmt:
		if x.Init == nil {
			if c := in.hoistable(x.Cond); c != nil {
				if pre, tmp := in.hoist(c, nres); pre != nil {
					x.Cond = replaceCall(x.Cond, c, tmp)
					return append(pre, in.stmt(x, nres)...)
				}
			}
		}
		in.block(x.Body, nres)
		switch e := x.Else.(type) {
		case *ast.BlockStmt:
			in.block(e, nres)
		case *ast.IfStmt:
			r := in.stmt(e, nres)
			if len(r) == 1 {
				x.Else = r[0]
			} else {
				x.Else = &ast.BlockStmt{List: r}
			}
		}
		return []ast.Stmt{s}
	case *ast.BlockStmt:
		in.block(x, nres)
		return []ast.Stmt{s}
	case *ast.ForStmt:
		in.block(x.Body, nres)
		return []ast.Stmt{s}
	case *ast.RangeStmt:
		in.block(x.Body, nres)
		return []ast.Stmt{s}
	case *ast.SwitchStmt:
		for _, cc := range x.Body.List {
			if cl, ok := cc.(*ast.CaseClause); ok {
				cl.Body = in.list(cl.Body, nres)
			}
		}
		return []ast.Stmt{s}
	}
	return []ast.Stmt{s}
}

// tmp := h(a..) in front of the statement that uses it
func (in *inliner) hoist(c *ast.CallExpr, nres int) ([]ast.Stmt, ast.Expr) {
	h := in.helper(c)
	if h == nil {
		return nil, nil
	}
	out, res, ok := in.callStmt(h, c, nres)
	if !ok || len(res) != 1 {
		return nil, nil
	}
	return out, ast.NewIdent(res[0].Name)
}

// ---- (d) a condition-only loop with its counter declared right before it and not used after it IS the
// three-clause loop:   i := e; for i < B { body; i++ }   ->   for i := e; i < B; i++ { body }
// (body without continue, i assigned nowhere else): both spellings give the same Fixpoint, parameters in the same order.
func normaliseWhile(l []ast.Stmt) []ast.Stmt {
	mentions := func(stmts []ast.Stmt, name string) bool {
		found := false
		for _, s := range stmts {
			ast.Inspect(s, func(n ast.Node) bool {
				if id, ok := n.(*ast.Ident); ok && id.Name == name {
					found = true
				}
				return true
			})
		}
		return found
	}
	var out []ast.Stmt
	for i := 0; i < len(l); i++ {
		s := l[i]
		if as, ok := s.(*ast.AssignStmt); ok && as.Tok == token.DEFINE && len(as.Lhs) == 1 && len(as.Rhs) == 1 && i+1 < len(l) {
			if ci, isId := as.Lhs[0].(*ast.Ident); isId {
				if f, isFor := l[i+1].(*ast.ForStmt); isFor && f.Init == nil && f.Post == nil && f.Cond != nil && len(f.Body.List) > 0 {
					cmp, isCmp := f.Cond.(*ast.BinaryExpr)
					inc, isInc := f.Body.List[len(f.Body.List)-1].(*ast.IncDecStmt)
					okShape := isCmp && isInc && inc.Tok == token.INC
					if okShape {
						x, isX := cmp.X.(*ast.Ident)
						y, isY := inc.X.(*ast.Ident)
						okShape = isX && isY && x.Name == ci.Name && y.Name == ci.Name && (cmp.Op == token.LSS || cmp.Op == token.LEQ)
					}
					if okShape {
						body := f.Body.List[:len(f.Body.List)-1]
						bad := false
						for _, b := range body {
							ast.Inspect(b, func(n ast.Node) bool {
								switch v := n.(type) {
								case *ast.BranchStmt:
									if v.Tok == token.CONTINUE {
										bad = true
									}
								case *ast.AssignStmt:
									for _, lh := range v.Lhs {
										if id, isI := lh.(*ast.Ident); isI && id.Name == ci.Name {
											bad = true
										}
									}
								case *ast.IncDecStmt:
									if id, isI := v.X.(*ast.Ident); isI && id.Name == ci.Name {
										bad = true
									}
								case *ast.UnaryExpr:
									if id, isI := v.X.(*ast.Ident); isI && id.Name == ci.Name && v.Op == token.AND {
										bad = true
									}
								case *ast.FuncLit:
									bad = true
								}
								return true
							})
						}
						if !bad && !mentions(l[i+2:], ci.Name) && !mentions([]ast.Stmt{&ast.ExprStmt{X: cmp.Y}}, ci.Name) {
							nf := &ast.ForStmt{For: f.For, Init: as, Cond: f.Cond, Post: inc, Body: &ast.BlockStmt{Lbrace: f.Body.Lbrace, List: body, Rbrace: f.Body.Rbrace}}
							out = append(out, nf)
							i++
							continue
						}
					}
				}
			}
		}
		out = append(out, s)
	}
	// nested lists
	for _, s := range out {
		switch x := s.(type) {
		case *ast.BlockStmt:
			x.List = normaliseWhile(x.List)
		case *ast.IfStmt:
			x.Body.List = normaliseWhile(x.Body.List)
			if e, ok := x.Else.(*ast.BlockStmt); ok {
				e.List = normaliseWhile(e.List)
			}
		case *ast.ForStmt:
			x.Body.List = normaliseWhile(x.Body.List)
		case *ast.RangeStmt:
			x.Body.List = normaliseWhile(x.Body.List)
		}
	}
	return out
}

// ---- (d) `for i := range xs { .. xs[i] .. }` where i occurs only as the index of reads of xs and the body does not
// assign xs IS the value loop `for _, v := range xs { .. v .. }` (the structural Fixpoint instead of the fuel loop)
func normaliseRange(l []ast.Stmt) {
	for _, s := range l {
		switch x := s.(type) {
		case *ast.BlockStmt:
			normaliseRange(x.List)
		case *ast.IfStmt:
			normaliseRange(x.Body.List)
			if e, ok := x.Else.(*ast.BlockStmt); ok {
				normaliseRange(e.List)
			} else if e, ok := x.Else.(*ast.IfStmt); ok {
				normaliseRange([]ast.Stmt{e})
			}
		case *ast.ForStmt:
			normaliseRange(x.Body.List)
		case *ast.RangeStmt:
			normaliseRange(x.Body.List)
			ki, isK := x.Key.(*ast.Ident)
			xs, isX := x.X.(*ast.Ident)
			if !isK || !isX || x.Value != nil || x.Tok != token.DEFINE || ki.Name == "_" {
				continue
			}
			ok := true
			reads := map[*ast.IndexExpr]bool{}
			inRead := map[*ast.Ident]bool{}
			ast.Inspect(x.Body, func(n ast.Node) bool {
				switch v := n.(type) {
				case *ast.IndexExpr:
					a, isA := v.X.(*ast.Ident)
					b, isB := v.Index.(*ast.Ident)
					if isA && isB && a.Name == xs.Name && b.Name == ki.Name {
						reads[v] = true
						inRead[a], inRead[b] = true, true
					}
				case *ast.AssignStmt:
					for _, lh := range v.Lhs {
						if ix, isIx := lh.(*ast.IndexExpr); isIx {
							if a, isA := ix.X.(*ast.Ident); isA && a.Name == xs.Name {
								ok = false
							}
						}
						if a, isA := lh.(*ast.Ident); isA && (a.Name == xs.Name || a.Name == ki.Name) {
							ok = false
						}
					}
				case *ast.UnaryExpr:
					if v.Op == token.AND {
						ok = false
					}
				case *ast.FuncLit:
					ok = false
				}
				return true
			})
			ast.Inspect(x.Body, func(n ast.Node) bool {
				if id, isId := n.(*ast.Ident); isId && !inRead[id] && (id.Name == ki.Name || id.Name == xs.Name) {
					ok = false // i used otherwise, or xs used otherwise (len(xs), append(xs, ..), passed on)
				}
				return true
			})
			if !ok || len(reads) == 0 {
				continue
			}
			inlineCounter++
			vn := "v''h" + strconv.Itoa(inlineCounter)
			replaceReads(x.Body, reads, vn)
			x.Key, x.Value = ast.NewIdent("_"), ast.NewIdent(vn)
		}
	}
}

func replaceReads(n ast.Node, reads map[*ast.IndexExpr]bool, vn string) {
	fix := func(e ast.Expr) ast.Expr {
		if ix, ok := e.(*ast.IndexExpr); ok && reads[ix] {
			return ast.NewIdent(vn)
		}
		return e
	}
	ast.Inspect(n, func(m ast.Node) bool {
		switch v := m.(type) {
		case *ast.BinaryExpr:
			v.X, v.Y = fix(v.X), fix(v.Y)
		case *ast.UnaryExpr:
			v.X = fix(v.X)
		case *ast.ParenExpr:
			v.X = fix(v.X)
		case *ast.CallExpr:
			v.Fun = fix(v.Fun)
			for i := range v.Args {
				v.Args[i] = fix(v.Args[i])
			}
		case *ast.SelectorExpr:
			v.X = fix(v.X)
		case *ast.IndexExpr:
			v.X, v.Index = fix(v.X), fix(v.Index)
		case *ast.AssignStmt:
			for i := range v.Rhs {
				v.Rhs[i] = fix(v.Rhs[i])
			}
		case *ast.ReturnStmt:
			for i := range v.Results {
				v.Results[i] = fix(v.Results[i])
			}
		case *ast.IfStmt:
			v.Cond = fix(v.Cond)
		case *ast.ExprStmt:
			v.X = fix(v.X)
		case *ast.ValueSpec:
			for i := range v.Values {
				v.Values[i] = fix(v.Values[i])
			}
		case *ast.SliceExpr:
			v.X = fix(v.X)
		case *ast.StarExpr:
			v.X = fix(v.X)
		case *ast.KeyValueExpr:
			v.Value = fix(v.Value)
		case *ast.CompositeLit:
			for i := range v.Elts {
				v.Elts[i] = fix(v.Elts[i])
			}
		}
		return true
	})
}
