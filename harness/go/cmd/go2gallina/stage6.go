// Stage 6 of the translation tie: the file-system side (area writeproto; docs/translator.md).
// New with respect to stage 5: the tail of a function (main from `srcMap := ...`), `defer func() {..}()`,
// primitives whose arguments can panic, maps ranged as lists of pairs, calls through an interface of methods
// translated for the struct behind it, printf-like primitives selected by their literal format.
package main

import (
	"go/ast"
	"os"
	"strings"
)

// the statements of fd's body from the first top-level one whose source text starts with spec.from;
// the variables the skipped part declares are taken from spec.vars
func (t *translator) tailFrom(fd *ast.FuncDecl, spec fnSpec, ev *env) []ast.Stmt {
	pos := fset.Position(fd.Pos())
	src, err := os.ReadFile(pos.Filename)
	if err != nil {
		unsup(fd, "cannot read %s", pos.Filename)
	}
	for i, st := range fd.Body.List {
		a, b := fset.Position(st.Pos()).Offset, fset.Position(st.End()).Offset
		if a < 0 || b > len(src) || a > b {
			continue
		}
		if strings.HasPrefix(string(src[a:b]), spec.from) {
			var names []string
			for n := range spec.vars {
				names = append(names, n)
			}
			// deterministic order
			for i := 0; i < len(names); i++ {
				for j := i + 1; j < len(names); j++ {
					if names[j] < names[i] {
						names[i], names[j] = names[j], names[i]
					}
				}
			}
			for _, n := range names {
				typ := spec.vars[n]
				if t.erased(typ) {
					ev.add(n, typ, 2)
				} else {
					t.coqType(fd, typ)
					t.pars = append(t.pars, ev.add(n, typ, 0))
				}
			}
			return fd.Body.List[i:]
		}
	}
	unsup(fd, "no statement of %s starts with %q", fd.Name.Name, spec.from)
	return nil
}

// defer func() { body }(): registered when it is executed (top level of the function only), run by every
// later return and at the end of the body, last first.  os.Exit (the area's fatal calls) does not run
// deferred calls; a run-time panic (nil dereference, index) would: those branches are NOT given the
// deferred calls, the bridge has to show them unreachable (status of such a function: Returned or exit).
func (t *translator) deferStmt(x *ast.DeferStmt, top bool) {
	if !top {
		unsup(x, "defer that is not at the top level of the function body")
	}
	fl, ok := x.Call.Fun.(*ast.FuncLit)
	if !ok || len(x.Call.Args) != 0 || (fl.Type.Params != nil && len(fl.Type.Params.List) != 0) ||
		(fl.Type.Results != nil && len(fl.Type.Results.List) != 0) {
		unsup(x, "defer of something that is not `func() { ... }()`")
	}
	ast.Inspect(fl.Body, func(n ast.Node) bool {
		if r, isR := n.(*ast.ReturnStmt); isR {
			unsup(r, "return inside a deferred function")
		}
		if d, isD := n.(*ast.DeferStmt); isD {
			unsup(d, "defer inside a deferred function")
		}
		return true
	})
	t.defers = append([]ast.Stmt{fl.Body}, t.defers...)
}

// the deferred bodies registered so far, then the return itself
func (t *translator) withDefers(ev *env, ret func() string) string {
	if len(t.defers) == 0 {
		return ret()
	}
	saved := t.defers
	t.defers = nil // the bodies contain no return
	s := t.block(append([]ast.Stmt{}, saved...), ev.nest(), nil, false, func(*env) string { return ret() })
	t.defers = saved
	return s
}

// a primitive call some of whose arguments can panic: the arguments first, left to right, then the call
func (t *translator) primCallK(c *ast.CallExpr, ev *env, k func(string) string) (string, bool) {
	if _, sg := t.sigOf(c, ev); sg != nil {
		return "", false
	}
	if _, isCallable := t.callableOf(c, ev); isCallable {
		return "", false
	}
	key := exprKey(c.Fun)
	if sel, isSel := c.Fun.(*ast.SelectorExpr); isSel {
		if id, isId := sel.X.(*ast.Ident); isId {
			if v, isVar := ev.index[id.Name]; isVar {
				key = v.typ + "." + sel.Sel.Name
			}
		}
	}
	p, ok := t.a.prims[key]
	if !ok || len(p.results) > 1 {
		return "", false
	}
	recv := ""
	if p.recv {
		sel := c.Fun.(*ast.SelectorExpr)
		if t.mayPanic(sel.X, ev) {
			return "", false
		}
		recv = " " + t.pure(sel.X, ev, "")
	}
	terms := make([]string, len(p.args))
	var build func(j int) string
	build = func(j int) string {
		if j == len(p.args) {
			call := p.coq + recv
			for _, a := range terms {
				call += " " + a
			}
			switch {
			case p.world && len(p.results) == 1:
				v := t.fresh("v")
				return "(let '(" + v + ", w) := " + call + " w in\n" + k(v) + ")"
			case p.world:
				return "(let w := " + call + " w in\n" + k("tt") + ")"
			case p.reads:
				return k("(" + call + " w)")
			}
			return k("(" + call + ")")
		}
		i := p.args[j]
		if i >= len(c.Args) {
			unsup(c, "call with too few arguments")
		}
		return t.exprK(c.Args[i], ev, "", func(a string) string {
			terms[j] = a
			return build(j + 1)
		})
	}
	return build(0), true
}

func init() {
	areas["writeproto"] = &area{
		name:   "writeproto",
		module: "WriteProtoGen",
		header: []string{
			"From Coq Require Import ZArith List Bool String.",
			"From Shoot Require Import Model.Fs Bridge.GoPrims Bridge.FsPrims.",
		},
		section: []string{
			"Section Gen.",
			"Variable re_match : string -> string -> bool.   (* regexp.MustCompile(pat).MatchString(line): opaque *)",
			"",
		},
		footer: []string{"End Gen."},
		world:  "FsPrims.pworld",
		funcs: []fnSpec{
			{file: "cmd/shoot/main.go", name: "notedownSrc"},
			{file: "internal/shoot/generatorbase.go", name: "isAllInOneFile", ptypes: map[string]string{"file": "path"}},
			{file: "internal/shoot/generatorbase.go", name: "isGeneratedBy", ptypes: map[string]string{"file": "path"}},
			{file: "internal/shoot/generatorbase.go", name: "GeneratorBase.Clean"},
			{file: "cmd/shoot/main.go", name: "main", from: "srcMap := g.Generate(g)", vars: map[string]string{"g": "shoot.Generator"}},
		},
		types: map[string]string{
			"bool": "bool", "string": "string", "int": "Z", "[]string": "(list string)",
			"path": "FsPrims.path", "[]path": "(list FsPrims.path)",
			"[]byte": "(list Fs.bytes)", "map[string][]byte": "(list (string * list Fs.bytes))",
			"*os.File": "(option FsPrims.fileobj)", "error": "FsPrims.errv",
			"*regexp.Regexp": "string",
			"*GeneratorBase": "-", "shoot.Generator": "-", "*CommonFlags": "FsPrims.pworld",
		},
		ptrs:     map[string]bool{"*os.File": true, "error": true},
		shadow:   true,
		pairmaps: map[string][2]string{"map[string][]byte": {"string", "[]byte"}},
		ifaces:   map[string]string{"shoot.Generator": "GeneratorBase"},
		wrecv: map[string]map[string]wfield{
			"*GeneratorBase": {
				"commonFlags":  {get: "w", typ: "*CommonFlags"},
				"allInOneFile": {get: "(FsPrims.w_aio w)", typ: "string"},
				"subCmd":       {get: "(FsPrims.w_cmd w)", typ: "string"},
			},
			"shoot.Generator": {},
		},
		records: map[string]map[string]recField{
			"*CommonFlags": {
				"Separate": {"FsPrims.w_sep", "", "bool"},
				"Dir":      {"FsPrims.w_dir", "", "string"},
			},
		},
		prims: map[string]prim{
			"os.CreateTemp":               {coq: "FsPrims.create_temp", args: []int{0, 1}, results: []string{"*os.File", "error"}, world: true},
			"*os.File.Write":              {recv: true, coq: "FsPrims.file_write", args: []int{0}, results: []string{"int", "error"}, world: true},
			"*os.File.Close":              {recv: true, coq: "FsPrims.file_close", results: []string{"error"}, world: true},
			"*os.File.Name":               {recv: true, coq: "FsPrims.file_name_of", results: []string{"path"}, reads: true},
			"os.Remove":                   {coq: "FsPrims.os_remove", args: []int{0}, results: []string{"error"}, world: true},
			"os.Rename":                   {coq: "FsPrims.os_rename", args: []int{0, 1}, results: []string{"error"}, world: true},
			"filepath.Join":               {coq: "FsPrims.path_join", args: []int{0, 1}, results: []string{"path"}},
			"filepath.Base":               {coq: "FsPrims.path_base", args: []int{0}, results: []string{"string"}},
			"filepath.Glob":               {coq: "FsPrims.glob_paths", args: []int{0}, results: []string{"[]path", "error"}, reads: true},
			"firstLine":                   {coq: "FsPrims.first_line_of", args: []int{0}, results: []string{"string", "error"}, world: true},
			"regexp.MustCompile":          {coq: "FsPrims.re_compile", args: []int{0}, results: []string{"*regexp.Regexp"}},
			"regexp.QuoteMeta":            {coq: "FsPrims.quote_meta", args: []int{0}, results: []string{"string"}},
			"*regexp.Regexp.MatchString":  {recv: true, coq: "re_match", args: []int{0}, results: []string{"bool"}},
			"*GeneratorBase.fileName":     {coq: "FsPrims.w_genfile", results: []string{"string"}, reads: true},
			"shoot.Generator.Generate":    {coq: "FsPrims.generated", results: []string{"map[string][]byte"}, reads: true},
			"shoot.Generator.CommonFlags": {coq: "FsPrims.common_flags", results: []string{"*CommonFlags"}, reads: true},
			"logx.Warnf":                  {coq: "FsPrims.log_nothing", results: nil, world: true},
			"log.Printf":                  {coq: "FsPrims.log_nothing", results: nil, world: true},
			`log.Printf#"\t%s\n"`:         {coq: "FsPrims.log_name", args: []int{1}, results: nil, world: true},
		},
		fatals: map[string]bool{"logx.Fatalf": true, "logx.Fatal": true},
		nilPan: "PNilDeref",
	}
}

// names declared (again) by := or var inside the nodes.  With shadowing allowed (area flag), a local of
// the enclosing scope that is redeclared inside a loop is NOT passed to the loop's functions: they are
// passed by name, and the call would capture the inner declaration.  If the outer variable is really
// read by the loop, the generated file does not type-check (status unavailable), never a wrong term.
func (t *translator) redeclared(nodes []ast.Node) map[string]bool {
	set := map[string]bool{}
	if !t.a.shadow {
		return set
	}
	for _, n := range nodes {
		if n == nil {
			continue
		}
		ast.Inspect(n, func(m ast.Node) bool {
			switch d := m.(type) {
			case *ast.AssignStmt:
				if d.Tok.String() == ":=" {
					for _, l := range d.Lhs {
						if id, ok := l.(*ast.Ident); ok {
							set[id.Name] = true
						}
					}
				}
			case *ast.ValueSpec:
				for _, id := range d.Names {
					set[id.Name] = true
				}
			}
			return true
		})
	}
	return set
}
