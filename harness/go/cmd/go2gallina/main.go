// go2gallina: translate the small hand-written runtime functions of
// lopolopen/shoot from Go to Gallina, for a documented restricted subset of Go
// (docs/translator.md).  The output is compiled by Coq together with a bridge
// file (coq/Bridge/*Bridge.v) that proves the translated definitions equal to
// the hand-written models the property theorems are about.
//
//	go2gallina -repo /repo -area retry -o <dir>     writes <dir>/RetryGen.v
//
// exit 0: translated (a JSON summary is printed on stdout)
// exit 2: a construct outside the subset was met ("go2gallina: unsupported: ...")
// exit 1: anything else (file not found, parse error, ...)
//
// Translation scheme (all pure Gallina, no monad):
//   - every Go variable is a Gallina variable of the same name; an assignment is
//     a shadowing `let`;
//   - the state of the primitives (calls made, events, registry ...) is one more
//     variable, `w : world`, threaded through every primitive call;
//   - a function body is a term of type `outcome R * world`
//     (Returned r | Panicked p | OutOfFuel);
//   - `if` with code after it: the code after it becomes a local join point
//     `let jN := fun <variables assigned in the branches> w => ... in`;
//   - a counter loop becomes a top-level `Fixpoint F_loopN ... (fuel : nat)
//     (counter : Z) <loop-carried variables> (w : world)`, structurally
//     recursive on fuel; the caller passes the fuel derived from the bound
//     (e.g. Z.to_nat (hi - lo + 1)); the loop condition is still tested in every
//     iteration, and fuel running out while the condition holds is the distinct
//     outcome OutOfFuel; the code after the loop becomes `F_afterN`;
//   - x.f on a pointer is `match x with None => (Panicked PNilDeref, w) | Some p => ...`,
//     && and || are short-circuit when the right operand can panic.
package main

import (
	"encoding/json"
	"flag"
	"fmt"
	"go/ast"
	"go/parser"
	"go/token"
	"os"
	"path/filepath"
	"sort"
	"strconv"
	"strings"
)

// ------------------------------------------------------------------ areas

type prim struct {
	recv    bool     // a method: the receiver is passed first
	coq     string   // Gallina function
	args    []int    // indices of the Go arguments that are passed on (others are dropped)
	results []string // Go types of the results
	world   bool     // takes and returns the world
	reads   bool     // takes the world (last argument) and returns only its result: usable inside expressions
}

type field struct {
	coq string // accessor
	typ string // Go type
}

type fnSpec struct {
	file   string            // relative to the repository
	name   string            // function (or Recv.Method)
	inst   map[string]string // type parameter -> the Go type it is instantiated with in this translation
	ids    []string          // type parameters that are also passed as abstract type ids (reflect.TypeOf)
	from   string            // translate only the TAIL of the body: from the first top-level statement whose source text starts with this
	vars   map[string]string // ... and the variables the skipped part declares that the tail uses: name -> Go type
	ptypes map[string]string // parameters translated at another Go type than declared (a path passed as a string)
	as     string            // name of the generated definitions (a method and a function of the same name)
}

// a package-level map variable kept in the world
type global struct {
	lookup, insert string // lookup w k : (V' * bool), insert w k v : world
	key, val       string // Go types of the key and of what a lookup yields
	ins            string // Go type of what may be stored
}

// x.(T) with a run-time answer: coq x : (T' * bool)
type assertion struct {
	coq    string
	result string // Go type of the first result
}

type area struct {
	name    string
	module  string   // generated file = <module>.v
	header  []string // Coq Require lines
	funcs   []fnSpec
	types   map[string]string // Go type -> Gallina type; "-" = erased (parameters of that type are dropped)
	ptrs    map[string]bool   // Go types that are nil-able pointers modelled as option
	fields  map[string]map[string]field
	prims   map[string]prim // "pkg.Func" or "<Go type of receiver>.Method"
	nilPan  string          // panic payload of a nil dereference
	section []string        // lines after the header (e.g. Section + Variables the tables refer to)
	footer  []string        // lines at the end (End of that section)
	world   string          // Gallina type of the world ("world" if empty)
	// pointer types modelled as (never nil) records: field -> accessor and setter
	records map[string]map[string]recField
	// values of function type that the code calls: Go type -> how
	callables map[string]callable
	// package-level values: "pkg.Name" -> term and Go type
	values  map[string]field
	globals map[string]global    // package-level maps
	asserts map[string]assertion // "<Go type of x>.(<asserted type>)"
	news    map[string]string    // new(T): Go type T -> term
	panicf  string               // payload constructor of panic(fmt.Errorf(format, typeid, ...))
	maps    map[string]string    // Go map type -> lookup function  (lookup m k : V' * bool, zero value on a miss)
	cells   map[string]string    // pointer types modelled as the value they point to (never nil): "*T" -> "T"
	errorf  string               // fmt.Errorf(format, ...) as an error VALUE: (errorf format)
	ints    map[string]bool      // further integer-like types (compared with =?)
	pkgs    map[string]bool      // import names under which other files call the area's translated functions
	mapget  map[string]string    // Go map type -> total index function (m[k], zero value on a miss): (get m k)
	// stage 5 (analysis code): see stage5.go
	wrecv    map[string]map[string]wfield   // receiver types whose whole state is the world (the receiver itself is erased): field -> access
	stores   map[string]map[string]recField // pointer types that are LOCATIONS in the world: field -> (get p w) / (set p v w)
	loads    map[string]string              // location type -> (load p w): the object as a value (for value-receiver methods)
	nilmaps  map[string]string              // map types: `m == nil` -> (coq m)
	makes    map[string]string              // make(T) -> term
	wmaps    map[string]string              // "<receiver type>.<field>": g.f[k] = v -> (coq k v w)
	optOf    map[string]string              // nil-able variant of a location type: "*Field|nil" -> "*Field" (values are wrapped in Some)
	eqs      map[string]string              // further types compared with == : Go type -> boolean equality
	shadow   bool                           // `:=` in a nested scope may shadow a name that is never assigned with `=`
	wderefs  map[string]wderef              // pointers to a slice kept in the world: *p reads it, *p = append(*p, x) extends it
	zeros    map[string]string              // zero value (nil) of further types
	mapvals  map[string]string              // pseudo map types: Go type of the values (comma-ok lookups)
	refmaps  map[string]string              // types of REFERENCES to world maps (a map passed as an argument): m[k] = v -> (coq m k v w)
	wlooks   map[string]string              // "<receiver type>.<path>" or "<...>.<method>()": v, ok := g.m[k] -> (coq k w) : V * bool
	ltypes   map[string]string              // "<function>.<local>": Go type a `var x T` is translated at
	muts     map[string]string              // f(x) that changes the slice variable x in place (sort.Strings): let x := coq x
	pairmaps map[string][2]string           // map types kept as the list of (key, value) pairs in iteration order: Go types of key and value
	ifaces   map[string]string              // interface type of a variable -> the (world-backed) struct type whose translated methods it is called with
	fatals   map[string]bool                // calls that end the process: the function stops with Panicked (PErrorf <format> 0)
	wsets    map[string]string              // "<receiver type>.<field>.<field>": g.a.b = e -> (coq e w)
	wmaps2   map[string]string              // "<receiver type>.<path>": g.m[k1][k2] = v on a world map of maps -> (coq k1 k2 v w)
	lmaps    map[string]string              // LOCAL map variables kept as pure values: Go map type -> (put k v m) of m[k] = v
	lmuts    map[string]string              // "<Go type>.<Method>": x.M(args) on a LOCAL x changes it in place: let x := (coq x args)
	fresh    map[string]int                 // function -> index of a pointer argument that every caller in the package must
	// pass as a fresh composite literal &T{...} (precondition of the store discipline)
}

type recField struct {
	get, set string
	typ      string
}

type callable struct {
	nilable bool   // the function value may be nil (option): calling nil panics
	coq     string // (coq f arg)
	result  string // Go type of the result ("" : none)
	mutate  bool   // f(x) updates what x points to: `let x := coq f x`
}

var areas = map[string]*area{
	"retry": {
		name:   "retry",
		module: "RetryGen",
		header: []string{
			"From Coq Require Import ZArith List Bool String.",
			"From Shoot Require Import Model.Retry Bridge.RetryPrims.",
		},
		funcs: []fnSpec{{file: "middleware/retry.go", name: "RetryMiddleware"}},
		types: map[string]string{
			"int": "Z", "bool": "bool", "string": "string", "time.Duration": "Z",
			"*http.Response": "option Retry.resp", "error": "option nat",
			"*http.Request": "-", "http.RoundTripper": "-",
		},
		ptrs: map[string]bool{"*http.Response": true, "error": true},
		fields: map[string]map[string]field{
			"*http.Response": {"StatusCode": {"Retry.r_status", "int"}},
		},
		prims: map[string]prim{
			"http.RoundTripper.RoundTrip": {coq: "RetryPrims.prim_round_trip", args: nil, results: []string{"*http.Response", "error"}, world: true},
			"time.Sleep":                  {coq: "RetryPrims.prim_sleep", args: []int{0}, results: nil, world: true},
			"log.Printf":                  {coq: "RetryPrims.prim_log", args: nil, results: nil, world: true},
		},
		nilPan: "PNilDeref",
	},
}

func init() {
	setter := func(f, typ string) recField { return recField{"RestRuntime.c_" + f, "RestPrims.set_" + f + " M", typ} }
	areas["rest"] = &area{
		name:   "rest",
		module: "RestGen",
		header: []string{
			"From Coq Require Import ZArith List Bool String.",
			"From Shoot Require Import Model.RestRuntime Bridge.RestPrims.",
		},
		section: []string{
			"Section Gen.",
			"Variable M : Type.                      (* middleware.Middleware values *)",
			"Variable Client : Type.                 (* what a registered constructor returns *)",
			"Variable interp : M -> RestRuntime.mw.  (* what a middleware value does when called *)",
			"Variable base : RestRuntime.rt.         (* http.DefaultTransport *)",
			"",
		},
		footer: []string{"End Gen."},
		world:  "(RestPrims.world M Client)",
		funcs: []fnSpec{
			{file: "restclient.shootnew.restconf.go", name: "BaseURL"},
			{file: "restclient.shootnew.restconf.go", name: "Timeout"},
			{file: "restclient.shootnew.restconf.go", name: "EnableLogging"},
			{file: "restclient.shootnew.restconf.go", name: "DefaultHeaders"},
			{file: "restclient.go", name: "Use"},
			{file: "restclient.go", name: "RestConf.BuildMiddleware"},
			{file: "constructor.go", name: "NewWith", inst: map[string]string{"T": "RestConf", "PT": "*RestConf"}},
			{file: "restclient.go", name: "Register", inst: map[string]string{"T": "T"}, ids: []string{"T"}},
			{file: "restclient.go", name: "NewRest", inst: map[string]string{"T": "T"}, ids: []string{"T"}},
		},
		types: map[string]string{
			"int": "Z", "bool": "bool", "string": "string", "time.Duration": "Z",
			"*RestConf": "(RestRuntime.conf M)", "map[string]string": "RestRuntime.headers",
			"middleware.Middleware": "M", "[]middleware.Middleware": "(list M)",
			"http.RoundTripper": "RestRuntime.rt",
			"RestConf":          "(RestRuntime.conf M)", "reflect.Type": "nat", "T": "Client",
			"any": "(option (RestRuntime.ctor M Client))", "func(RestConf) T": "(RestRuntime.ctor M Client)",
			"func(RestConf) T|nil":          "(option (RestRuntime.ctor M Client))",
			"Option[RestConf, *RestConf]":   "(RestRuntime.conf M -> RestRuntime.conf M)",
			"[]Option[RestConf, *RestConf]": "(list (RestRuntime.conf M -> RestRuntime.conf M))",
		},
		ptrs: map[string]bool{},
		globals: map[string]global{
			"ctorRegistry": {lookup: "RestPrims.reg_lookup M Client", insert: "RestPrims.reg_insert M Client",
				key: "reflect.Type", val: "any", ins: "func(RestConf) T"},
		},
		asserts: map[string]assertion{
			"any.(func(RestConf) T)": {coq: "RestPrims.assert_ctor M Client", result: "func(RestConf) T|nil"},
		},
		news:   map[string]string{"RestConf": "(@RestRuntime.conf0 M)"},
		panicf: "PErrorf",
		records: map[string]map[string]recField{
			"*RestConf": {
				"baseURL":        setter("base", "string"),
				"timeout":        setter("timeout", "time.Duration"),
				"enableLogging":  setter("logging", "bool"),
				"defaultHeaders": setter("headers", "map[string]string"),
				"_middlewares":   setter("mws", "[]middleware.Middleware"),
			},
		},
		callables: map[string]callable{
			"middleware.Middleware":       {coq: "RestPrims.apply_mw M interp", result: "http.RoundTripper"},
			"Option[RestConf, *RestConf]": {coq: "RestPrims.apply_opt M", mutate: true},
			"func(RestConf) T|nil":        {coq: "RestPrims.apply_ctor M Client", result: "T", nilable: true},
		},
		values: map[string]field{
			"http.DefaultTransport": {"base", "http.RoundTripper"},
		},
		prims: map[string]prim{
			"middleware.LoggingMiddleware": {coq: "RestRuntime.log_mw", args: []int{0}, results: []string{"http.RoundTripper"}},
			"reflect.Type.Elem":            {recv: true, coq: "RestPrims.type_elem", results: []string{"reflect.Type"}},
		},
		nilPan: "PNilDeref",
	}
}

func init() {
	areas["enum"] = &area{
		name:   "enum",
		module: "EnumGen",
		header: []string{
			"From Coq Require Import ZArith List Bool String.",
			"From Shoot Require Import Model.Enum Bridge.EnumPrims.",
		},
		section: []string{
			"Section Gen.",
			"Variable kind : Enum.kind.               (* the integer kind underlying T *)",
			"Variable kind_tv : Enum.kind.            (* the integer kind of TV *)",
			"Variable vmap : list (string * Z).       (* T.ValueMap() *)",
			"Variable vals : list Z.                  (* T.Values() *)",
			"",
		},
		footer: []string{"End Gen."},
		world:  "unit",
		funcs: []fnSpec{
			{file: "enumer.go", name: "ParseEnum", inst: map[string]string{"T": "T"}},
			{file: "enumer.go", name: "TryParseEnum", inst: map[string]string{"T": "T"}},
			{file: "enumer.go", name: "IsEnum", inst: map[string]string{"T": "T", "TV": "TV"}},
		},
		types: map[string]string{
			"int": "Z", "bool": "bool", "string": "string", "T": "Z", "TV": "Z", "*T": "Z", "[]T": "(list Z)",
			"map[string]T": "(list (string * Z))", "error": "(option string)",
		},
		ptrs:  map[string]bool{"error": true},
		ints:  map[string]bool{"T": true, "TV": true},
		cells: map[string]string{"*T": "T"},
		maps:  map[string]string{"map[string]T": "EnumPrims.map_lookup"},
		prims: map[string]prim{
			"T.ValueMap": {coq: "vmap", results: []string{"map[string]T"}},
			"T.Values":   {coq: "vals", results: []string{"[]T"}},
			"T":          {coq: "EnumPrims.conv kind", args: []int{0}, results: []string{"T"}},
			"TV":         {coq: "EnumPrims.conv kind_tv", args: []int{0}, results: []string{"TV"}},
		},
		errorf: "EnumPrims.errorf",
		nilPan: "PNilDeref",
	}
}

func init() {
	areas["transfer"] = &area{
		name:   "transfer",
		module: "TransferGen",
		header: []string{
			"From Coq Require Import ZArith List Bool String Ascii.",
			"From Shoot Require Import Base.Str Bridge.GoPrims.",
		},
		world: "unit",
		funcs: []fnSpec{
			{file: "internal/transfer/transfer.go", name: "IsUpper"},
			{file: "internal/transfer/transfer.go", name: "IsLower"},
			{file: "internal/transfer/transfer.go", name: "ToUpper"},
			{file: "internal/transfer/transfer.go", name: "ToLower"},
			{file: "internal/transfer/transfer.go", name: "FirstLowerLetter"},
			{file: "internal/transfer/transfer.go", name: "ToPascalCase"},
			{file: "internal/transfer/transfer.go", name: "splitCamelTokensASCII"},
			{file: "internal/transfer/transfer.go", name: "ToCamelCase"},
			{file: "internal/transfer/transfer.go", name: "ToCamelCaseGO"},
			{file: "internal/mapper/match.go", name: "smartMatch"},
		},
		pkgs: map[string]bool{"transfer": true},
		types: map[string]string{
			"int": "Z", "bool": "bool", "string": "string", "byte": "ascii", "[]byte": "string", "[]string": "(list string)",
		},
		ptrs: map[string]bool{},
		prims: map[string]prim{
			"strings.ToUpper": {coq: "Str.upper", args: []int{0}, results: []string{"string"}},
			"strings.ToLower": {coq: "Str.lower", args: []int{0}, results: []string{"string"}},
			"strings.Split":   {coq: "go_split", args: []int{0, 1}, results: []string{"[]string"}},
			"strings.Join":    {coq: "Str.join", args: []int{1, 0}, results: []string{"string"}},
		},
		nilPan: "PNilDeref",
	}
}

func init() {
	areas["filename"] = &area{
		name:   "filename",
		module: "FileNameGen",
		header: []string{
			"From Coq Require Import ZArith List Bool String Ascii.",
			"From Shoot Require Import Base.Str Model.Cli Bridge.GoPrims Bridge.CliPrims.",
		},
		world: "unit",
		funcs: []fnSpec{
			{file: "internal/shoot/common.go", name: "FixPath"},
			{file: "internal/shoot/generatorbase.go", name: "GeneratorBase.fileName"},
		},
		types: map[string]string{
			"int": "Z", "bool": "bool", "string": "string",
			"*GeneratorBase": "CliPrims.gbase", "*CommonFlags": "CliPrims.gflags", "map[string]string": "(list (string * string))",
		},
		ptrs: map[string]bool{},
		records: map[string]map[string]recField{
			"*GeneratorBase": {
				"subCmd":       {"CliPrims.g_sub", "", "string"},
				"commonFlags":  {"CliPrims.g_flags", "", "*CommonFlags"},
				"allInOneFile": {"CliPrims.g_aio", "", "string"},
				"fileNameMap":  {"CliPrims.g_fmap", "", "map[string]string"},
			},
			"*CommonFlags": {
				"FileName": {"CliPrims.f_file", "", "string"},
			},
		},
		mapget: map[string]string{"map[string]string": "CliPrims.map_get"},
		prims: map[string]prim{
			"strings.TrimSuffix": {coq: "go_trim_suffix", args: []int{1, 0}, results: []string{"string"}},
			"strings.ToLower":    {coq: "Cli.lower", args: []int{0}, results: []string{"string"}},
			"strings.HasPrefix":  {coq: "Cli.has_prefix", args: []int{1, 0}, results: []string{"bool"}},
			"filepath.IsAbs":     {coq: "CliPrims.is_abs", args: []int{0}, results: []string{"bool"}},
			"ast.IsExported":     {coq: "Cli.is_exported", args: []int{0}, results: []string{"bool"}},
		},
		nilPan: "PNilDeref",
	}
}

// ------------------------------------------------------------- diagnostics

type unsupported struct{ msg string }

var fset = token.NewFileSet()

func unsup(n ast.Node, format string, a ...any) {
	pos := ""
	if n != nil {
		p := fset.Position(n.Pos())
		pos = fmt.Sprintf(" at %s:%d", filepath.Base(p.Filename), p.Line)
	}
	panic(unsupported{fmt.Sprintf(format, a...) + pos})
}

// ------------------------------------------------------------------- types

// the current instantiation of type parameters (set per function)
var typeInst map[string]string

func typeString(e ast.Expr) string {
	switch t := e.(type) {
	case *ast.Ident:
		if r, ok := typeInst[t.Name]; ok {
			return r
		}
		return t.Name
	case *ast.ParenExpr:
		return typeString(t.X)
	case *ast.SelectorExpr:
		return typeString(t.X) + "." + t.Sel.Name
	case *ast.StarExpr:
		return "*" + typeString(t.X)
	case *ast.Ellipsis:
		return "[]" + typeString(t.Elt)
	case *ast.ArrayType:
		if t.Len == nil {
			return "[]" + typeString(t.Elt)
		}
	case *ast.MapType:
		return "map[" + typeString(t.Key) + "]" + typeString(t.Value)
	case *ast.IndexExpr:
		return typeString(t.X) + "[" + typeString(t.Index) + "]"
	case *ast.IndexListExpr:
		var as []string
		for _, i := range t.Indices {
			as = append(as, typeString(i))
		}
		return typeString(t.X) + "[" + strings.Join(as, ", ") + "]"
	case *ast.FuncType:
		var ps, rs []string
		if t.Params != nil {
			for _, f := range t.Params.List {
				n := len(f.Names)
				if n == 0 {
					n = 1
				}
				for i := 0; i < n; i++ {
					ps = append(ps, typeString(f.Type))
				}
			}
		}
		if t.Results != nil {
			for _, f := range t.Results.List {
				rs = append(rs, typeString(f.Type))
			}
		}
		r := ""
		if len(rs) == 1 {
			r = " " + rs[0]
		} else if len(rs) > 1 {
			r = " (" + strings.Join(rs, ", ") + ")"
		}
		return "func(" + strings.Join(ps, ", ") + ")" + r
	case *ast.InterfaceType:
		return "interface{}"
	}
	unsup(e, "type expression %T", e)
	return ""
}

type variable struct {
	name  string // Gallina name
	typ   string // Go type
	kind  int    // 0 parameter, 1 local, 2 erased parameter, 3 inlined immutable local
	def   string // kind 3: the Gallina term it stands for
	depth int    // block nesting of its declaration
}

type env struct {
	vars  []*variable
	index map[string]*variable
	depth int // block nesting
}

func newEnv() *env { return &env{index: map[string]*variable{}} }

// the environment of a nested block
func (e *env) nest() *env {
	n := e.clone()
	n.depth = e.depth + 1
	return n
}

func (e *env) clone() *env {
	n := newEnv()
	n.depth = e.depth
	for _, v := range e.vars {
		n.vars = append(n.vars, v)
		n.index[v.name] = v
	}
	return n
}

func (e *env) add(name, typ string, kind int) *variable {
	v := &variable{name: name, typ: typ, kind: kind, depth: e.depth}
	e.vars = append(e.vars, v)
	e.index[name] = v
	return v
}

var reserved = map[string]bool{
	"w": true, "fuel": true, "fun": true, "match": true, "end": true, "in": true, "let": true, "fix": true,
	"if": true, "then": true, "else": true, "with": true, "as": true, "at": true, "forall": true, "exists": true,
	"Type": true, "Prop": true, "Set": true, "return": true, "using": true, "where": true, "struct": true,
	"O": true, "S": true, "None": true, "Some": true, "true": true, "false": true, "tt": true, "nil": true, "cons": true,
	"Returned": true, "Panicked": true, "OutOfFuel": true, "world": true, "outcome": true,
}

func checkName(n *ast.Ident) string {
	s := n.Name
	if reserved[s] {
		unsup(n, "identifier %q (reserved by the translation)", s)
	}
	return s
}

func isPrintable(s string) bool {
	for _, c := range s {
		if c < 32 || c > 126 {
			return false
		}
	}
	return true
}

func isDigits(s string) bool {
	for _, c := range s {
		if c < '0' || c > '9' {
			return false
		}
	}
	return s != ""
}

// --------------------------------------------------------------- translator

type translator struct {
	consts     map[string]string // package-level constants: integer ones of the file, string ones of the package: name -> term
	strConsts  map[string]bool
	reassigned map[string]bool // variables of the current function assigned after their declaration
	a          *area
	out        []string // top-level definitions, in order
	names      []string // generated definition names
	fn         string   // current function name
	ret        []string // Go result types of the current function
	nJoin      int
	nLoop      int
	nTmp       int
	pars       []*variable     // parameters of the current function (after erasure)
	outs       []*variable     // record parameters the function writes through: returned after the results
	ids        map[string]bool // type parameters of the current function that are passed as type ids
	idList     []string
	sigs       map[string]*signature // functions of the area translated so far
	dir        string                // directory of the file being translated
	inner      int                   // > 0 while the body of a nested loop is translated
	defers     []ast.Stmt            // bodies of the `defer func() {..}()` statements executed so far, last first
	pkg        map[string][]*ast.File
}

func (t *translator) coqType(n ast.Node, goType string) string {
	c, ok := t.a.types[goType]
	if !ok {
		if ps, r, isFn := funcTypeParts(goType); isFn && r != "" {
			// a (non-nil, panic-free) function value: an arrow type
			out := "("
			for _, p := range ps {
				out += t.coqType(n, p) + " -> "
			}
			return out + t.coqType(n, r) + ")"
		}
		unsup(n, "type %s (not in the type table of area %s)", goType, t.a.name)
	}
	return c
}

// "func(A, B) R" -> [A B], R
func funcTypeParts(goType string) ([]string, string, bool) {
	if !strings.HasPrefix(goType, "func(") {
		return nil, "", false
	}
	depth, end := 0, -1
	for i := 4; i < len(goType); i++ {
		switch goType[i] {
		case '(':
			depth++
		case ')':
			depth--
			if depth == 0 {
				end = i
			}
		}
		if end >= 0 {
			break
		}
	}
	if end < 0 {
		return nil, "", false
	}
	var ps []string
	if in := strings.TrimSpace(goType[5:end]); in != "" {
		if strings.ContainsAny(in, "()") {
			return nil, "", false
		}
		for _, p := range strings.Split(in, ",") {
			ps = append(ps, strings.TrimSpace(p))
		}
	}
	r := strings.TrimSpace(goType[end+1:])
	if strings.HasPrefix(r, "(") {
		return nil, "", false
	}
	return ps, r, true
}

func (t *translator) erased(goType string) bool { return t.a.types[goType] == "-" }

func (t *translator) hasZero(goType string) bool {
	if _, ok := t.a.zeros[goType]; ok {
		return true
	}
	if t.a.ptrs[goType] || t.a.ints[goType] || strings.HasPrefix(goType, "[]") {
		return true
	}
	switch goType {
	case "int", "time.Duration", "bool", "string":
		return true
	}
	return false
}

func (t *translator) zero(n ast.Node, goType string) string {
	if z, ok := t.a.zeros[goType]; ok {
		return z
	}
	if t.a.ptrs[goType] {
		return "None"
	}
	if t.a.ints[goType] {
		return "0"
	}
	switch goType {
	case "int", "time.Duration":
		return "0"
	case "bool":
		return "false"
	case "string":
		return "\"\"%string"
	}
	if strings.HasPrefix(goType, "[]") {
		return "nil"
	}
	unsup(n, "zero value of type %s", goType)
	return ""
}

func (t *translator) retType() string {
	var cs []string
	for _, r := range t.ret {
		cs = append(cs, t.coqType(nil, r))
	}
	for _, o := range t.outs {
		cs = append(cs, t.coqType(nil, o.typ))
	}
	if len(cs) == 0 {
		return "unit"
	}
	if len(cs) == 1 {
		return cs[0]
	}
	return "(" + strings.Join(cs, " * ") + ")%type"
}

func (t *translator) worldT() string {
	if t.a.world != "" {
		return t.a.world
	}
	return "world"
}

func (t *translator) resType() string { return "outcome " + t.fn + "_ret * " + t.worldT() }

// a translated function that later ones may call
type signature struct {
	pure    bool     // a plain Gallina function (no world, cannot panic): callable inside expressions
	params  []string // Go types of the (non-erased) parameters, in order
	results []string // Go types of the results (outs excluded)
	nouts   int
	ids     int    // leading type-id parameters
	recv    string // methods: the receiver's base type
	drop    []bool // per declared parameter (receiver excluded): erased, not passed
}

// the translated function a call refers to: F(...) or pkg.F(...) for a package of the area
func (t *translator) sigOf(c *ast.CallExpr, ev *env) (string, *signature) {
	fun := c.Fun
	if ix, isIx := fun.(*ast.IndexExpr); isIx {
		fun = ix.X
	}
	switch f := fun.(type) {
	case *ast.Ident:
		if sg, ok := t.sigs[f.Name]; ok && ev.index[f.Name] == nil {
			return f.Name, sg
		}
	case *ast.SelectorExpr:
		if id, ok := f.X.(*ast.Ident); ok && t.a.pkgs[id.Name] && ev.index[id.Name] == nil {
			if sg, isFn := t.sigs[f.Sel.Name]; isFn {
				return f.Sel.Name, sg
			}
		}
		// g.M(...) on the world-backed receiver: M was translated as a method of that type
		if id, ok := f.X.(*ast.Ident); ok {
			if v, isVar := ev.index[id.Name]; isVar && t.a.wrecv[v.typ] != nil {
				rn := strings.TrimPrefix(v.typ, "*")
				if impl, isIface := t.a.ifaces[v.typ]; isIface {
					rn = impl
				}
				if sg, isFn := t.sigs[f.Sel.Name]; isFn && sg.recv == rn {
					return f.Sel.Name, sg
				}
			}
		}
	}
	return "", nil
}

// reflect.TypeOf((*T)(nil)) for a type parameter T passed as a type id
func (t *translator) typeIdOf(c *ast.CallExpr) (string, bool) {
	if exprKey(c.Fun) != "reflect.TypeOf" || len(c.Args) != 1 {
		return "", false
	}
	conv, ok := c.Args[0].(*ast.CallExpr)
	if !ok || len(conv.Args) != 1 || !isNil(conv.Args[0]) {
		return "", false
	}
	pe, ok := conv.Fun.(*ast.ParenExpr)
	if !ok {
		return "", false
	}
	st, ok := pe.X.(*ast.StarExpr)
	if !ok {
		return "", false
	}
	id, ok := st.X.(*ast.Ident)
	if !ok || !t.ids[id.Name] {
		return "", false
	}
	return id.Name, true
}

// ---- expressions

func isStr(typ string) bool { return typ == "string" || typ == "[]byte" }

// a conversion T(x) written with a type expression: []byte(x), string(x)
func convTarget(c *ast.CallExpr) string {
	if len(c.Args) != 1 {
		return ""
	}
	switch f := c.Fun.(type) {
	case *ast.ArrayType:
		if f.Len == nil {
			if id, ok := f.Elt.(*ast.Ident); ok && id.Name == "byte" {
				return "[]byte"
			}
		}
	case *ast.Ident:
		if f.Name == "string" {
			return "string"
		}
	}
	return ""
}

// fmt.Sprintf(format, args...) where the format is a literal made of text and %s verbs and
// every argument is a string: the concatenation
func (t *translator) sprintf(c *ast.CallExpr, ev *env) string {
	lit, ok := c.Args[0].(*ast.BasicLit)
	if !ok || lit.Kind != token.STRING {
		unsup(c, "fmt.Sprintf whose format is not a string literal")
	}
	f, err := strconv.Unquote(lit.Value)
	if err != nil {
		unsup(lit, "format %s", lit.Value)
	}
	var parts []string
	text := ""
	arg := 1
	flush := func() {
		if text != "" {
			parts = append(parts, t.pure(&ast.BasicLit{Kind: token.STRING, Value: strconv.Quote(text)}, ev, "string"))
			text = ""
		}
	}
	for i := 0; i < len(f); i++ {
		if f[i] != '%' {
			text += string(f[i])
			continue
		}
		if i+1 >= len(f) || f[i+1] != 's' {
			unsup(lit, "format verb other than %%s")
		}
		i++
		if arg >= len(c.Args) {
			unsup(c, "fmt.Sprintf with too few arguments")
		}
		if at := t.typeOf(c.Args[arg], ev); at != "string" {
			unsup(c.Args[arg], "%%s argument of type %s", at)
		}
		flush()
		parts = append(parts, t.pure(c.Args[arg], ev, "string"))
		arg++
	}
	flush()
	if arg != len(c.Args) {
		unsup(c, "fmt.Sprintf with too many arguments")
	}
	if len(parts) == 0 {
		return "\"\"%string"
	}
	// right-nested: a ++ (b ++ (c ++ d))
	r := parts[len(parts)-1]
	for i := len(parts) - 2; i >= 0; i-- {
		r = "(" + parts[i] + " ++ " + r + ")%string"
	}
	return r
}

// the value of a byte expression as an integer term (byte arithmetic is done in Z and reduced mod 256 at the end)
func (t *translator) byteZ(e ast.Expr, ev *env, sub func(ast.Expr, string) string) string {
	switch x := e.(type) {
	case *ast.ParenExpr:
		return t.byteZ(x.X, ev, sub)
	case *ast.BinaryExpr:
		if x.Op == token.ADD || x.Op == token.SUB {
			return "(" + t.byteZ(x.X, ev, sub) + " " + x.Op.String() + " " + t.byteZ(x.Y, ev, sub) + ")"
		}
	case *ast.BasicLit:
		if x.Kind == token.CHAR {
			r, _, _, err := strconv.UnquoteChar(x.Value[1:len(x.Value)-1], '\'')
			if err != nil || r > 127 {
				unsup(x, "character literal %s", x.Value)
			}
			return strconv.Itoa(int(r))
		}
		if x.Kind == token.INT {
			return x.Value
		}
	}
	return "(byte_z " + sub(e, "byte") + ")"
}

func (t *translator) typeOf(e ast.Expr, ev *env) string {
	switch x := e.(type) {
	case *ast.ParenExpr:
		return t.typeOf(x.X, ev)
	case *ast.Ident:
		if x.Name == "true" || x.Name == "false" {
			return "bool"
		}
		if x.Name == "nil" {
			return "nil"
		}
		if v, ok := ev.index[x.Name]; ok {
			return v.typ
		}
		if _, ok := t.consts[x.Name]; ok {
			if t.strConsts[x.Name] {
				return "string"
			}
			return "int"
		}
		if sg, isFn := t.sigs[x.Name]; isFn && sg.pure && len(sg.results) == 1 {
			return "func(" + strings.Join(sg.params, ", ") + ") " + sg.results[0] // a translated pure function as a value
		}
		unsup(x, "identifier %s (not a parameter, local variable or integer constant of the file)", x.Name)
	case *ast.BasicLit:
		switch x.Kind {
		case token.INT:
			return "int"
		case token.STRING:
			return "string"
		case token.CHAR:
			return "byte"
		}
		unsup(x, "literal %s", x.Value)
	case *ast.SliceExpr:
		xt := t.typeOf(x.X, ev)
		if (!isStr(xt) && !strings.HasPrefix(xt, "[]")) || x.Slice3 {
			unsup(x, "slice expression on a %s", xt)
		}
		return xt
	case *ast.UnaryExpr:
		if x.Op == token.NOT {
			return "bool"
		}
		return t.typeOf(x.X, ev)
	case *ast.BinaryExpr:
		switch x.Op {
		case token.EQL, token.NEQ, token.LSS, token.LEQ, token.GTR, token.GEQ, token.LAND, token.LOR:
			return "bool"
		}
		lt := t.typeOf(x.X, ev)
		if lt == "int" {
			// untyped constant op typed operand takes the type of the other side
			if rt := t.typeOf(x.Y, ev); rt != "int" {
				return rt
			}
		}
		return lt
	case *ast.SelectorExpr:
		if v, ok := t.pkgValue(x, ev); ok {
			return v.typ
		}
		xt := t.typeOf(x.X, ev)
		if f, ok := t.a.fields[xt][x.Sel.Name]; ok {
			return f.typ
		}
		if f, ok := t.a.records[xt][x.Sel.Name]; ok {
			return f.typ
		}
		if f, ok := t.a.wrecv[xt][x.Sel.Name]; ok {
			return f.typ
		}
		if f, ok := t.a.stores[xt][x.Sel.Name]; ok {
			return f.typ
		}
		unsup(x, "field %s of type %s (not in the field table)", x.Sel.Name, xt)
	case *ast.IndexExpr:
		xt := t.typeOf(x.X, ev)
		if _, isMap := t.a.mapget[xt]; isMap {
			return xt[strings.Index(xt, "]")+1:]
		}
		if isStr(xt) {
			return "byte"
		}
		if strings.HasPrefix(xt, "[]") {
			return xt[2:]
		}
		unsup(x, "indexing a value of type %s", xt)
	case *ast.StarExpr:
		xt := t.typeOf(x.X, ev)
		if strings.HasPrefix(xt, "*") && t.a.records[xt] != nil {
			return xt[1:]
		}
		if c, ok := t.a.cells[xt]; ok {
			return c
		}
		if d, ok := t.a.wderefs[xt]; ok {
			return d.typ
		}
		unsup(x, "dereference of a %s", xt)
	case *ast.CallExpr:
		if id, ok := x.Fun.(*ast.Ident); ok && id.Name == "len" && len(x.Args) == 1 {
			return "int"
		}
		if id, ok := x.Fun.(*ast.Ident); ok && id.Name == "append" && len(x.Args) == 2 {
			return t.typeOf(x.Args[0], ev)
		}
		if id, ok := x.Fun.(*ast.Ident); ok && id.Name == "new" && len(x.Args) == 1 {
			return "*" + typeString(x.Args[0])
		}
		if id, ok := x.Fun.(*ast.Ident); ok && id.Name == "make" && len(x.Args) == 1 {
			return typeString(x.Args[0])
		}
		if ct := convTarget(x); ct != "" {
			return ct
		}
		if _, sg := t.sigOf(x, ev); sg != nil && len(sg.results) == 1 {
			return sg.results[0]
		}
		if _, sg := t.pureMethodSig(x, ev); sg != nil {
			return sg.results[0]
		}
		if id, ok := x.Fun.(*ast.Ident); ok && id.Name == "any" && len(x.Args) == 1 {
			return t.typeOf(x.Args[0], ev)
		}
		if _, ok := t.typeIdOf(x); ok {
			return "reflect.Type"
		}
		if exprKey(x.Fun) == "fmt.Errorf" && t.a.errorf != "" {
			return "error"
		}
		if exprKey(x.Fun) == "fmt.Sprintf" {
			return "string"
		}
		if c, ok := t.callableOf(x, ev); ok {
			if c.result == "" || c.mutate {
				unsup(x, "call of a function value used as a value")
			}
			return c.result
		}
		p, _ := t.primOf(x, ev)
		if len(p.results) == 1 && !p.world {
			return p.results[0]
		}
		unsup(x, "call used as a value")
	}
	unsup(e, "expression %T", e)
	return ""
}

// pkg.Name that the area's value table knows
func (t *translator) pkgValue(x *ast.SelectorExpr, ev *env) (field, bool) {
	id, ok := x.X.(*ast.Ident)
	if !ok {
		return field{}, false
	}
	if _, isVar := ev.index[id.Name]; isVar {
		return field{}, false
	}
	v, ok := t.a.values[id.Name+"."+x.Sel.Name]
	return v, ok
}

// f(x) where f is an expression whose type is in the table of callable types
func (t *translator) callableOf(c *ast.CallExpr, ev *env) (callable, bool) {
	switch f := c.Fun.(type) {
	case *ast.Ident:
		if _, isVar := ev.index[f.Name]; !isVar {
			return callable{}, false
		}
	case *ast.SelectorExpr:
		if id, ok := f.X.(*ast.Ident); ok {
			if _, isVar := ev.index[id.Name]; !isVar {
				return callable{}, false
			}
		}
		if _, isField := t.a.fields[t.typeOfSafe(f.X, ev)][f.Sel.Name]; !isField {
			if _, isRec := t.a.records[t.typeOfSafe(f.X, ev)][f.Sel.Name]; !isRec {
				return callable{}, false // a method call
			}
		}
	case *ast.IndexExpr, *ast.ParenExpr:
	default:
		return callable{}, false
	}
	ft := t.typeOfSafe(c.Fun, ev)
	cl, ok := t.a.callables[ft]
	if !ok && len(c.Args) == 1 {
		if ps, r, isFn := funcTypeParts(ft); isFn && len(ps) == 1 && r != "" {
			if _, declared := t.a.types[ft]; !declared {
				return callable{coq: "", result: r}, true // a parameter of function type: (f a)
			}
		}
	}
	if !ok || len(c.Args) != 1 {
		return callable{}, false
	}
	return cl, true
}

// typeOf that reports "" instead of stopping the translation
func (t *translator) typeOfSafe(e ast.Expr, ev *env) (typ string) {
	defer func() {
		if r := recover(); r != nil {
			if _, isU := r.(unsupported); isU {
				typ = ""
				return
			}
			panic(r)
		}
	}()
	return t.typeOf(e, ev)
}

// the primitive a call refers to, and its key
func (t *translator) primOf(c *ast.CallExpr, ev *env) (prim, string) {
	key := ""
	switch f := c.Fun.(type) {
	case *ast.SelectorExpr:
		if id, ok := f.X.(*ast.Ident); ok {
			if v, isVar := ev.index[id.Name]; isVar {
				key = v.typ + "." + f.Sel.Name
			} else {
				key = id.Name + "." + f.Sel.Name
			}
		}
	case *ast.Ident:
		key = f.Name
	case *ast.IndexExpr:
		// pkg.F[T](...): an instantiated generic function, keyed "pkg.F[...]"
		if k := exprKey(f.X); k != "" {
			if _, known := t.a.prims[k+"[...]"]; known {
				key = k + "[...]"
			}
		}
	}
	if pk := t.pathKey(c.Fun, ev); pk != "" {
		key = pk
	}
	if key == "" {
		// x.y().M(...): a method of the (Go) type of the receiver expression
		if f, isSel := c.Fun.(*ast.SelectorExpr); isSel {
			if _, isId := f.X.(*ast.Ident); !isId {
				if rt := t.typeOfSafe(f.X, ev); rt != "" {
					key = rt + "." + f.Sel.Name
				}
			}
		}
	}
	if len(c.Args) > 0 {
		if lit, isLit := c.Args[0].(*ast.BasicLit); isLit && lit.Kind == token.STRING {
			if p2, ok2 := t.a.prims[key+"#"+lit.Value]; ok2 {
				return p2, key + "#" + lit.Value
			}
		}
	}
	p, ok := t.a.prims[key]
	if !ok {
		if ix, isIx := c.Fun.(*ast.IndexExpr); isIx && key == "" {
			key = exprKey(ix.X) + "[...]"
		}
		if key == "" {
			key = fmt.Sprintf("%T", c.Fun)
		}
		unsup(c, "call of %s (not in the primitive table of area %s)", key, t.a.name)
	}
	return p, key
}

// can evaluating e panic (nil dereference)?
func (t *translator) mayPanic(e ast.Expr, ev *env) bool {
	found := false
	ast.Inspect(e, func(n ast.Node) bool {
		if ix, ok := n.(*ast.IndexExpr); ok {
			inst := false // pkg.F[T]: the instantiation of a generic function, not an index
			if sel, isSel := ix.X.(*ast.SelectorExpr); isSel {
				if id, isId := sel.X.(*ast.Ident); isId && ev.index[id.Name] == nil {
					_, inst = t.a.prims[exprKey(ix.X)+"[...]"]
				}
			}
			if _, isMap := t.a.mapget[t.typeOfSafe(ix.X, ev)]; !isMap && !inst {
				found = true
			}
		}
		if _, ok := n.(*ast.SliceExpr); ok {
			found = true
		}
		if c, ok := n.(*ast.CallExpr); ok {
			if cl, isCallable := t.callableOf(c, ev); isCallable && cl.nilable {
				found = true
			}
			if _, sg := t.sigOf(c, ev); sg != nil && !sg.pure {
				found = true
			}
		}
		if s, ok := n.(*ast.SelectorExpr); ok {
			if id, isId := s.X.(*ast.Ident); isId {
				if _, isVar := ev.index[id.Name]; !isVar {
					return true // package selector
				}
			}
			if t.a.ptrs[t.typeOfSafe(s.X, ev)] {
				found = true
			}
		}
		return true
	})
	return found
}

func isNil(e ast.Expr) bool {
	id, ok := e.(*ast.Ident)
	return ok && id.Name == "nil"
}

// a panic-free expression as a Gallina term; want = expected Go type ("" if unknown; needed for nil)
func (t *translator) pure(e ast.Expr, ev *env, want string) string {
	switch x := e.(type) {
	case *ast.ParenExpr:
		return t.pure(x.X, ev, want)
	case *ast.Ident:
		switch x.Name {
		case "true", "false":
			return x.Name
		case "nil":
			if want == "" {
				unsup(x, "nil of unknown type")
			}
			return t.zero(x, want)
		}
		v, ok := ev.index[x.Name]
		if !ok {
			if c, isConst := t.consts[x.Name]; isConst {
				return c
			}
			if sg, isFn := t.sigs[x.Name]; isFn && sg.pure {
				return x.Name
			}
			unsup(x, "identifier %s (not a parameter, local variable or integer constant of the file)", x.Name)
		}
		if v.kind == 3 {
			return v.def
		}
		return x.Name
	case *ast.BasicLit:
		switch x.Kind {
		case token.INT:
			if _, err := strconv.ParseInt(x.Value, 0, 64); err != nil {
				unsup(x, "integer literal %s", x.Value)
			}
			v, _ := strconv.ParseInt(x.Value, 0, 64)
			return strconv.FormatInt(v, 10)
		case token.CHAR:
			r, _, _, err := strconv.UnquoteChar(x.Value[1:len(x.Value)-1], '\'')
			if err != nil || r < 32 || r > 126 {
				unsup(x, "character literal %s", x.Value)
			}
			if r == '"' {
				return "\"\"\"\"%char"
			}
			return "\"" + string(r) + "\"%char"
		case token.STRING:
			s, err := strconv.Unquote(x.Value)
			if err != nil {
				unsup(x, "string literal %s", x.Value)
			}
			for _, c := range s {
				if c < 32 || c > 126 {
					unsup(x, "non-printable or non-ASCII character in string literal")
				}
			}
			return "\"" + strings.ReplaceAll(s, "\"", "\"\"") + "\"%string"
		}
		unsup(x, "literal %s", x.Value)
	case *ast.UnaryExpr:
		switch x.Op {
		case token.NOT:
			return "(negb " + t.pure(x.X, ev, "bool") + ")"
		case token.SUB:
			return "(- " + t.pure(x.X, ev, want) + ")"
		}
		unsup(x, "unary operator %s", x.Op)
	case *ast.BinaryExpr:
		return t.binary(x, ev, func(sub ast.Expr, w string) string { return t.pure(sub, ev, w) })
	case *ast.SelectorExpr:
		if v, ok := t.pkgValue(x, ev); ok {
			return v.coq
		}
		xt := t.typeOf(x.X, ev)
		if rf, isRec := t.a.records[xt][x.Sel.Name]; isRec {
			return "(" + rf.get + " " + t.pure(x.X, ev, xt) + ")"
		}
		if wf, isW := t.a.wrecv[xt][x.Sel.Name]; isW {
			return wf.get
		}
		if sf, isS := t.a.stores[xt][x.Sel.Name]; isS {
			return "(" + sf.get + " " + t.pure(x.X, ev, xt) + " w)"
		}
		f, ok := t.a.fields[xt][x.Sel.Name]
		if !ok {
			unsup(x, "field %s of type %s", x.Sel.Name, xt)
		}
		if t.a.ptrs[xt] {
			unsup(x, "internal: dereference in a pure position")
		}
		return "(" + f.coq + " " + t.pure(x.X, ev, xt) + ")"
	case *ast.IndexExpr:
		xt := t.typeOf(x.X, ev)
		get, isMap := t.a.mapget[xt]
		if !isMap {
			unsup(x, "internal: index expression in a pure position")
		}
		return "(" + get + " " + t.pure(x.X, ev, xt) + " " + t.pure(x.Index, ev, "") + ")"
	case *ast.StarExpr:
		if d, ok := t.a.wderefs[t.typeOfSafe(x.X, ev)]; ok {
			return d.get
		}
		t.typeOf(x, ev) // a record pointer or a cell: *p is the value itself
		return t.pure(x.X, ev, "")
	case *ast.CallExpr:
		if id, ok := x.Fun.(*ast.Ident); ok && id.Name == "len" && len(x.Args) == 1 {
			if isStr(t.typeOf(x.Args[0], ev)) {
				return "(str_len " + t.pure(x.Args[0], ev, "") + ")"
			}
			return "(Z.of_nat (List.length " + t.pure(x.Args[0], ev, "") + "))"
		}
		if ct := convTarget(x); ct != "" {
			at := t.typeOf(x.Args[0], ev)
			switch {
			case isStr(at):
				return t.pure(x.Args[0], ev, at) // []byte(s), string(bytes), string(s): the same byte sequence
			case at == "byte" && ct == "string":
				return "(String " + t.pure(x.Args[0], ev, "byte") + " EmptyString)" // ASCII only (see docs)
			}
			unsup(x, "conversion of a %s to %s", at, ct)
		}
		if id, ok := x.Fun.(*ast.Ident); ok {
			if sg, isFn := t.sigs[id.Name]; isFn && sg.pure && ev.index[id.Name] == nil {
				if len(x.Args) != len(sg.params) {
					unsup(x, "call of %s with %d arguments", id.Name, len(x.Args))
				}
				call := "(" + id.Name
				for i, a := range x.Args {
					call += " " + t.pure(a, ev, sg.params[i])
				}
				return call + ")"
			}
		}
		if term, ok := t.pureMethodCall(x, ev); ok {
			return term
		}
		if id, ok := x.Fun.(*ast.Ident); ok && id.Name == "make" && len(x.Args) == 1 {
			term, known := t.a.makes[typeString(x.Args[0])]
			if !known {
				unsup(x, "make(%s)", typeString(x.Args[0]))
			}
			return term
		}
		if id, ok := x.Fun.(*ast.Ident); ok && id.Name == "new" && len(x.Args) == 1 {
			term, known := t.a.news[typeString(x.Args[0])]
			if !known {
				unsup(x, "new(%s)", typeString(x.Args[0]))
			}
			return term
		}
		if id, ok := x.Fun.(*ast.Ident); ok && id.Name == "any" && len(x.Args) == 1 {
			return t.pure(x.Args[0], ev, "")
		}
		if name, ok := t.typeIdOf(x); ok {
			return name
		}
		if exprKey(x.Fun) == "fmt.Sprintf" && len(x.Args) >= 1 {
			return t.sprintf(x, ev)
		}
		if exprKey(x.Fun) == "fmt.Errorf" && t.a.errorf != "" && len(x.Args) >= 1 {
			lit, isLit := x.Args[0].(*ast.BasicLit)
			if !isLit || lit.Kind != token.STRING {
				unsup(x, "fmt.Errorf whose format is not a string literal")
			}
			for _, a := range x.Args[1:] {
				if t.mayPanic(a, ev) {
					unsup(a, "fmt.Errorf argument that can panic")
				}
			}
			// an error value is its format (the arguments are not kept)
			return "(" + t.a.errorf + " " + t.pure(lit, ev, "string") + ")"
		}
		if id, ok := x.Fun.(*ast.Ident); ok && id.Name == "append" && len(x.Args) == 2 && x.Ellipsis == token.NoPos {
			return "(" + t.pure(x.Args[0], ev, "") + " ++ [" + t.pure(x.Args[1], ev, "") + "])%list"
		}
		if c, ok := t.callableOf(x, ev); ok {
			if c.mutate || c.result == "" {
				unsup(x, "call of a function value used as a value")
			}
			if c.nilable {
				unsup(x, "internal: call of a nil-able function value in a pure position")
			}
			return "(" + c.coq + " " + t.pure(x.Fun, ev, "") + " " + t.pure(x.Args[0], ev, "") + ")"
		}
		p, key := t.primOf(x, ev)
		if p.world || len(p.results) != 1 {
			unsup(x, "call of %s inside an expression", key)
		}
		if p.reads {
			return "(" + p.coq + t.primArgs(x, p, ev) + " w)"
		}
		return "(" + p.coq + t.primArgs(x, p, ev) + ")"
	}
	unsup(e, "expression %T", e)
	return ""
}

func (t *translator) primArgs(c *ast.CallExpr, p prim, ev *env) string {
	s := ""
	if p.recv {
		sel, ok := c.Fun.(*ast.SelectorExpr)
		if !ok || t.mayPanic(sel.X, ev) {
			unsup(c, "method primitive on a receiver that is not a plain value")
		}
		s += " " + t.pure(sel.X, ev, "")
	}
	for _, i := range p.args {
		if i >= len(c.Args) {
			unsup(c, "call with too few arguments")
		}
		if t.mayPanic(c.Args[i], ev) {
			unsup(c.Args[i], "argument of a primitive that can panic")
		}
		s += " " + t.pure(c.Args[i], ev, "")
	}
	return s
}

// binary operators; sub translates an operand given its expected type
func (t *translator) binary(x *ast.BinaryExpr, ev *env, sub func(ast.Expr, string) string) string {
	switch x.Op {
	case token.LAND:
		return "(" + sub(x.X, "bool") + " && " + sub(x.Y, "bool") + ")%bool"
	case token.LOR:
		return "(" + sub(x.X, "bool") + " || " + sub(x.Y, "bool") + ")%bool"
	}
	// nil tests
	if x.Op == token.EQL || x.Op == token.NEQ {
		var other ast.Expr
		if isNil(x.Y) {
			other = x.X
		} else if isNil(x.X) {
			other = x.Y
		}
		if other != nil {
			ot := t.typeOf(other, ev)
			if nm, isMap := t.a.nilmaps[ot]; isMap {
				s := "(" + nm + " " + sub(other, ot) + ")"
				if x.Op == token.NEQ {
					s = "(negb " + s + ")"
				}
				return s
			}
			if !t.a.ptrs[ot] {
				unsup(x, "comparison of a %s with nil", ot)
			}
			s := "(is_nil " + sub(other, ot) + ")"
			if x.Op == token.NEQ {
				s = "(negb " + s + ")"
			}
			return s
		}
	}
	lt := t.typeOf(x.X, ev)
	if lt == "int" {
		if rt := t.typeOf(x.Y, ev); rt != "int" {
			lt = rt
		}
	}
	if rt := t.typeOf(x.Y, ev); rt != lt && rt != "int" && lt != "int" && rt != "nil" {
		unsup(x, "operator %s on a %s and a %s", x.Op, lt, rt)
	}
	if lt == "byte" {
		switch x.Op {
		case token.ADD, token.SUB:
			return "(byte_of_z " + t.byteZ(x, ev, sub) + ")"
		case token.EQL, token.NEQ, token.LSS, token.LEQ, token.GTR, token.GEQ:
			op := map[token.Token]string{token.EQL: "=?", token.NEQ: "=?", token.LSS: "<?", token.LEQ: "<=?", token.GTR: ">?", token.GEQ: ">=?"}[x.Op]
			c := "(" + t.byteZ(x.X, ev, sub) + " " + op + " " + t.byteZ(x.Y, ev, sub) + ")"
			if x.Op == token.NEQ {
				c = "(negb " + c + ")"
			}
			return c
		}
		unsup(x, "operator %s on bytes", x.Op)
	}
	if lt == "string" && x.Op == token.ADD {
		return "(" + sub(x.X, lt) + " ++ " + sub(x.Y, lt) + ")%string"
	}
	l, r := sub(x.X, lt), sub(x.Y, lt)
	isInt := lt == "int" || lt == "time.Duration" || t.a.ints[lt]
	switch x.Op {
	case token.ADD, token.SUB, token.MUL:
		if !isInt {
			unsup(x, "operator %s on %s", x.Op, lt)
		}
		return "(" + l + " " + x.Op.String() + " " + r + ")"
	case token.QUO:
		if !isInt {
			unsup(x, "operator / on %s", lt)
		}
		return "(Z.quot " + l + " " + r + ")"
	case token.REM:
		if !isInt {
			unsup(x, "operator %% on %s", lt)
		}
		return "(Z.rem " + l + " " + r + ")"
	case token.EQL, token.NEQ:
		var s string
		switch {
		case isInt:
			s = "(" + l + " =? " + r + ")"
		case lt == "bool":
			s = "(Bool.eqb " + l + " " + r + ")"
		case lt == "string":
			s = "(String.eqb " + l + " " + r + ")"
		case t.a.eqs[lt] != "":
			s = "(" + t.a.eqs[lt] + " " + l + " " + r + ")"
		default:
			unsup(x, "comparison of values of type %s", lt)
		}
		if x.Op == token.NEQ {
			s = "(negb " + s + ")"
		}
		return s
	case token.LSS, token.LEQ, token.GTR, token.GEQ:
		if !isInt {
			unsup(x, "operator %s on %s", x.Op, lt)
		}
		op := map[token.Token]string{token.LSS: "<?", token.LEQ: "<=?", token.GTR: ">?", token.GEQ: ">=?"}[x.Op]
		return "(" + l + " " + op + " " + r + ")"
	}
	unsup(x, "operator %s", x.Op)
	return ""
}

// generated names contain a quote, which no Go identifier does
func (t *translator) fresh(prefix string) string {
	t.nTmp++
	return prefix + "'" + strconv.Itoa(t.nTmp)
}

func (t *translator) join() string {
	t.nJoin++
	return "j'" + strconv.Itoa(t.nJoin)
}

// evaluate e (which may panic) and continue with k(term); k is used several
// times for && and ||, so callers pass a SMALL k (typically a join point call)
func (t *translator) exprK(e ast.Expr, ev *env, want string, k func(string) string) string {
	if !t.mayPanic(e, ev) {
		return k(t.pure(e, ev, want))
	}
	switch x := e.(type) {
	case *ast.ParenExpr:
		return t.exprK(x.X, ev, want, k)
	case *ast.UnaryExpr:
		if x.Op == token.NOT {
			return t.exprK(x.X, ev, "bool", func(s string) string { return k("(negb " + s + ")") })
		}
		if x.Op == token.SUB {
			return t.exprK(x.X, ev, want, func(s string) string { return k("(- " + s + ")") })
		}
	case *ast.BinaryExpr:
		switch x.Op {
		case token.LAND: // a && b: b is evaluated only if a holds
			return t.exprK(x.X, ev, "bool", func(a string) string {
				return "(if " + a + " then " + t.exprK(x.Y, ev, "bool", k) + " else " + k("false") + ")"
			})
		case token.LOR:
			return t.exprK(x.X, ev, "bool", func(a string) string {
				return "(if " + a + " then " + k("true") + " else " + t.exprK(x.Y, ev, "bool", k) + ")"
			})
		}
		// strict operators: left operand first, then the right one
		lt := t.typeOf(x.X, ev)
		var lterm string
		inner := func(r string) string {
			return k(t.binary(x, ev, func(sub ast.Expr, w string) string {
				if sub == x.X {
					return lterm
				}
				return r
			}))
		}
		_ = lt
		return t.exprK(x.X, ev, "", func(l string) string {
			lterm = l
			return t.exprK(x.Y, ev, "", inner)
		})
	case *ast.SelectorExpr:
		xt := t.typeOf(x.X, ev)
		f, ok := t.a.fields[xt][x.Sel.Name]
		if !ok {
			unsup(x, "field %s of type %s", x.Sel.Name, xt)
		}
		return t.exprK(x.X, ev, xt, func(p string) string {
			if !t.a.ptrs[xt] {
				return k("(" + f.coq + " " + p + ")")
			}
			d := t.fresh("p")
			return "(match " + p + " with None => (Panicked " + t.a.nilPan + ", w) | Some " + d + " => " +
				k("("+f.coq+" "+d+")") + " end)"
		})
	}
	if ix, ok := e.(*ast.IndexExpr); ok {
		// xs[i]: xs, then i, then the bounds check
		get := "go_index"
		if isStr(t.typeOf(ix.X, ev)) {
			get = "str_get"
		}
		return t.exprK(ix.X, ev, "", func(xs string) string {
			return t.exprK(ix.Index, ev, "int", func(i string) string {
				d := t.fresh("e")
				return "(match " + get + " " + xs + " " + i + " with None => (Panicked PIndex, w) | Some " + d + " => " + k(d) + " end)"
			})
		})
	}
	if sl, ok := e.(*ast.SliceExpr); ok {
		t.typeOf(sl, ev)
		return t.exprK(sl.X, ev, "", func(xs string) string {
			lo := func(k2 func(string) string) string {
				if sl.Low == nil {
					return k2("0")
				}
				return t.exprK(sl.Low, ev, "int", k2)
			}
			hi := func(k2 func(string) string) string {
				if sl.High == nil {
					if !isStr(t.typeOf(sl.X, ev)) {
						return k2("(Z.of_nat (List.length " + xs + "))")
					}
					return k2("(str_len " + xs + ")")
				}
				return t.exprK(sl.High, ev, "int", k2)
			}
			return lo(func(l string) string {
				return hi(func(h string) string {
					d := t.fresh("s")
					if !isStr(t.typeOf(sl.X, ev)) {
						return "(match list_slice " + xs + " " + l + " " + h + " with None => (Panicked PIndex, w) | Some " + d + " => " + k(d) + " end)"
					}
					return "(match str_slice " + xs + " " + l + " " + h + " with None => (Panicked PIndex, w) | Some " + d + " => " + k(d) + " end)"
				})
			})
		})
	}
	if c, ok := e.(*ast.CallExpr); ok {
		if name, sg := t.sigOf(c, ev); sg != nil && !sg.pure {
			// F(args) as a value: its outcome is propagated (erased arguments are not passed)
			callArgs := c.Args
			if len(sg.drop) == len(c.Args) {
				callArgs = nil
				for i, a := range c.Args {
					if !sg.drop[i] {
						callArgs = append(callArgs, a)
					}
				}
			}
			if sg.nouts > 0 || sg.ids > 0 || len(sg.results) != 1 || len(callArgs) != len(sg.params) {
				unsup(c, "call of %s inside an expression", name)
			}
			terms := make([]string, len(callArgs))
			var build func(i int) string
			build = func(i int) string {
				if i == len(callArgs) {
					v, pv := t.fresh("v"), t.fresh("p")
					return "(match " + name + " " + strings.Join(terms, " ") + " w with\n | (Returned " + v + ", w) => " + k(v) +
						"\n | (Panicked " + pv + ", w) => (Panicked " + pv + ", w)\n | (OutOfFuel, w) => (OutOfFuel, w)\n end)"
				}
				return t.exprK(callArgs[i], ev, sg.params[i], func(a string) string {
					terms[i] = a
					return build(i + 1)
				})
			}
			return build(0)
		}
		// a call whose arguments can panic: the arguments first (left to right), then the call on their values
		if rebuilt, okc := t.callWithValues(c, ev, k); okc {
			return rebuilt
		}
	}
	if c, ok := e.(*ast.CallExpr); ok {
		if cl, isCallable := t.callableOf(c, ev); isCallable && !cl.mutate && cl.result != "" {
			return t.exprK(c.Fun, ev, "", func(f string) string {
				return t.exprK(c.Args[0], ev, "", func(a string) string {
					if !cl.nilable {
						return k("(" + cl.coq + " " + f + " " + a + ")")
					}
					d := t.fresh("f")
					return "(match " + f + " with None => (Panicked " + t.a.nilPan + ", w) | Some " + d + " => " +
						k("("+cl.coq+" "+d+" "+a+")") + " end)"
				})
			})
		}
		// x.M(args) with x of a nil-able pointer type and M a method primitive: nil receiver panics
		if sel, isSel := c.Fun.(*ast.SelectorExpr); isSel {
			if rt := t.typeOfSafe(sel.X, ev); t.a.ptrs[rt] {
				if p, isPrim := t.a.prims[rt+"."+sel.Sel.Name]; isPrim && p.recv && !p.world && len(p.results) == 1 {
					for _, i := range p.args {
						if i >= len(c.Args) || t.mayPanic(c.Args[i], ev) {
							unsup(c, "argument of a method primitive that can panic")
						}
					}
					return t.exprK(sel.X, ev, rt, func(r string) string {
						d := t.fresh("r")
						args := ""
						for _, i := range p.args {
							args += " " + t.pure(c.Args[i], ev, "")
						}
						if p.reads {
							args += " w"
						}
						return "(match " + r + " with None => (Panicked " + t.a.nilPan + ", w) | Some " + d + " => " +
							k("("+p.coq+" "+d+args+")") + " end)"
					})
				}
			}
		}
		if term, done := t.primCallK(c, ev, k); done {
			return term
		}
		t.primOf(c, ev) // names the function if it is not a primitive
	}
	unsup(e, "expression %T that can panic", e)
	return ""
}

// f(a1, ..., an) where some ai can panic and f is total (a primitive without world, append, len, a
// conversion, a pure function of the area): evaluate the ai in order, bind them, call f on the names
func (t *translator) callWithValues(c *ast.CallExpr, ev *env, k func(string) string) (string, bool) {
	total := false
	if id, ok := c.Fun.(*ast.Ident); ok {
		if id.Name == "len" || (id.Name == "append" && c.Ellipsis == token.NoPos) {
			total = true
		}
		if sg, isFn := t.sigs[id.Name]; isFn && sg.pure && ev.index[id.Name] == nil {
			total = true
		}
	}
	if convTarget(c) != "" {
		total = true
	}
	if !total {
		if _, isCallable := t.callableOf(c, ev); !isCallable {
			if key := exprKey(c.Fun); key != "" {
				if p, isPrim := t.a.prims[key]; isPrim && !p.world && !p.recv && len(p.results) == 1 {
					total = true
				}
			}
		}
	}
	if !total {
		return "", false
	}
	e2 := ev.clone()
	args := make([]ast.Expr, len(c.Args))
	var build func(i int) string
	build = func(i int) string {
		if i == len(c.Args) {
			nc := &ast.CallExpr{Fun: c.Fun, Args: args, Lparen: c.Lparen, Rparen: c.Rparen}
			return k(t.pure(nc, e2, ""))
		}
		a := c.Args[i]
		if !t.mayPanic(a, ev) {
			args[i] = a
			return build(i + 1)
		}
		at := t.typeOf(a, ev)
		return t.exprK(a, ev, at, func(term string) string {
			n := t.fresh("a")
			e2.add(n, at, 3).def = term
			args[i] = ast.NewIdent(n)
			return build(i + 1)
		})
	}
	return build(0), true
}

// ---- statements

type loopCtx struct {
	next func(ev *env) string // continue / fall off the end of the body
	exit func(ev *env) string // break
}

// variables of ev assigned by the statements (in order of declaration in ev)
func assigned(stmts []ast.Stmt, ev *env) []*variable {
	set := map[string]bool{}
	var visit func(n ast.Node) bool
	visit = func(n ast.Node) bool {
		switch s := n.(type) {
		case *ast.AssignStmt:
			for _, l := range s.Lhs {
				if id, ok := l.(*ast.Ident); ok && s.Tok != token.DEFINE {
					set[id.Name] = true
				}
				// xs[i] = e, r.f = e, *p = e change the variable they go through
				switch lh := l.(type) {
				case *ast.IndexExpr:
					if id, ok := lh.X.(*ast.Ident); ok {
						// m[k] = v through a REFERENCE to a world map changes the world, not the variable
						if v, isVar := ev.index[id.Name]; !(isVar && curArea != nil && curArea.refmaps[v.typ] != "") {
							set[id.Name] = true
						}
					}
				case *ast.SelectorExpr:
					if id, ok := lh.X.(*ast.Ident); ok {
						// p.f = e on a location / on the world-backed receiver changes the world, not the variable
						if v, isVar := ev.index[id.Name]; !(isVar && curArea != nil && (curArea.stores[v.typ] != nil || curArea.wrecv[v.typ] != nil)) {
							set[id.Name] = true
						}
					}
				case *ast.StarExpr:
					if id, ok := lh.X.(*ast.Ident); ok {
						set[id.Name] = true
					}
				}
			}
		case *ast.IncDecStmt:
			if id, ok := s.X.(*ast.Ident); ok {
				set[id.Name] = true
			}
		case *ast.ExprStmt:
			if c, ok := s.X.(*ast.CallExpr); ok && len(c.Args) == 1 && curArea != nil && curArea.muts[exprKey(c.Fun)] != "" {
				if id, isId := c.Args[0].(*ast.Ident); isId {
					set[id.Name] = true
				}
			}
			if c, ok := s.X.(*ast.CallExpr); ok && curArea != nil {
				if sel, isSel := c.Fun.(*ast.SelectorExpr); isSel {
					if id, isId := sel.X.(*ast.Ident); isId {
						if v, isVar := ev.index[id.Name]; isVar && curArea.lmuts[v.typ+"."+sel.Sel.Name] != "" {
							set[id.Name] = true
						}
					}
				}
			}
			// f(x): a function value may write through x
			if c, ok := s.X.(*ast.CallExpr); ok && len(c.Args) == 1 {
				if f, isVar := c.Fun.(*ast.Ident); isVar && ev.index[f.Name] != nil {
					if id, isId := c.Args[0].(*ast.Ident); isId {
						set[id.Name] = true
					}
				}
			}
		case *ast.FuncLit:
			return false
		}
		return true
	}
	for _, s := range stmts {
		ast.Inspect(s, visit)
	}
	var res []*variable
	for _, v := range ev.vars {
		if set[v.name] {
			res = append(res, v)
		}
	}
	return res
}

// do all paths through the statements end in return / continue / break / panic?
func terminates(stmts []ast.Stmt) bool {
	if len(stmts) == 0 {
		return false
	}
	switch s := stmts[len(stmts)-1].(type) {
	case *ast.ReturnStmt, *ast.BranchStmt:
		return true
	case *ast.ExprStmt:
		if c, ok := s.X.(*ast.CallExpr); ok {
			if id, ok := c.Fun.(*ast.Ident); ok && id.Name == "panic" {
				return true
			}
		}
	case *ast.BlockStmt:
		return terminates(s.List)
	case *ast.IfStmt:
		if s.Else == nil {
			return false
		}
		var els []ast.Stmt
		switch e := s.Else.(type) {
		case *ast.BlockStmt:
			els = e.List
		case *ast.IfStmt:
			els = []ast.Stmt{e}
		}
		return terminates(s.Body.List) && terminates(els)
	}
	return false
}

func (t *translator) params(vs []*variable) string {
	s := ""
	for _, v := range vs {
		s += " (" + v.name + " : " + t.coqType(nil, v.typ) + ")"
	}
	return s
}

func names(vs []*variable) string {
	s := ""
	for _, v := range vs {
		s += " " + v.name
	}
	return s
}

// the statements, then k (the code after them); top = directly in the function body
func (t *translator) block(stmts []ast.Stmt, ev *env, lc *loopCtx, top bool, k func(*env) string) string {
	if len(stmts) == 0 {
		return k(ev)
	}
	s, rest := stmts[0], stmts[1:]
	cont := func(e2 *env) string { return t.block(rest, e2, lc, top, k) }
	switch x := s.(type) {
	case *ast.EmptyStmt:
		return cont(ev)
	case *ast.BlockStmt:
		inner := ev.nest()
		return t.block(x.List, inner, lc, false, func(*env) string { return cont(ev) })
	case *ast.DeclStmt:
		gd, ok := x.Decl.(*ast.GenDecl)
		if !ok || gd.Tok != token.VAR {
			unsup(x, "declaration other than var")
		}
		e2 := ev
		out := ""
		closeP := ""
		for _, sp := range gd.Specs {
			vs := sp.(*ast.ValueSpec)
			if vs.Type == nil {
				unsup(vs, "var without a type")
			}
			declaredT := typeString(vs.Type)
			for i, n := range vs.Names {
				typ := declaredT
				if o, isO := t.a.ltypes[t.fn+"."+n.Name]; isO {
					typ = o
				}
				name := checkName(n)
				if _, dup := e2.index[name]; dup {
					unsup(n, "variable %s shadows another one", name)
				}
				val := ""
				if len(vs.Values) > 0 {
					if t.mayPanic(vs.Values[i], e2) {
						// var x T = e with an e that can panic: the value first (one variable, one declaration)
						if len(gd.Specs) != 1 || len(vs.Names) != 1 {
							unsup(vs.Values[i], "initialiser that can panic")
						}
						return t.exprK(vs.Values[i], e2, typ, func(v string) string {
							e3 := e2.clone()
							e3.add(name, typ, 1)
							return "(let " + name + " : " + t.coqType(n, typ) + " := " + v + " in\n" + cont(e3) + ")"
						})
					}
					val = t.pure(vs.Values[i], e2, typ)
				} else if !t.hasZero(typ) {
					// a type without a zero value in the tables (an oracle type, a function type): the variable is declared
					// without a value; every path must assign it before it is read or reaches a join point - a path that does
					// not leaves an unbound name in the generated file, which then does not type-check (the tie is unavailable)
					t.coqType(n, typ)
					e2 = e2.clone()
					e2.add(name, typ, 1)
					continue
				} else {
					val = t.zero(n, typ)
				}
				out += "(let " + name + " : " + t.coqType(n, typ) + " := " + val + " in\n"
				closeP += ")"
				e2 = e2.clone()
				e2.add(name, typ, 1)
			}
		}
		return out + cont(e2) + closeP
	case *ast.IncDecStmt:
		id, ok := x.X.(*ast.Ident)
		if !ok {
			unsup(x, "++/-- on something that is not a variable")
		}
		op := "+"
		if x.Tok == token.DEC {
			op = "-"
		}
		return "(let " + id.Name + " := (" + t.pure(id, ev, "") + " " + op + " 1) in\n" + cont(ev) + ")"
	case *ast.AssignStmt:
		return t.assign(x, ev, cont)
	case *ast.ExprStmt:
		c, ok := x.X.(*ast.CallExpr)
		if !ok {
			unsup(x, "expression statement")
		}
		if id, isId := c.Fun.(*ast.Ident); isId && id.Name == "panic" {
			return t.panicStmt(c, ev)
		}
		if cl, isCallable := t.callableOf(c, ev); isCallable && cl.mutate {
			arg, isId := c.Args[0].(*ast.Ident)
			if !isId {
				unsup(c, "function value applied to something that is not a variable")
			}
			if _, known := ev.index[arg.Name]; !known {
				unsup(arg, "identifier %s", arg.Name)
			}
			if t.mayPanic(c.Fun, ev) {
				// fs[i](x): the function value first (an index out of range panics), then the call
				return t.exprK(c.Fun, ev, t.typeOfSafe(c.Fun, ev), func(f string) string {
					return "(let " + arg.Name + " := " + cl.coq + " " + f + " " + arg.Name + " in\n" + cont(ev) + ")"
				})
			}
			return "(let " + arg.Name + " := " + cl.coq + " " + t.pure(c.Fun, ev, "") + " " + arg.Name + " in\n" + cont(ev) + ")"
		}
		if sel, isSel := c.Fun.(*ast.SelectorExpr); isSel {
			if id, isId := sel.X.(*ast.Ident); isId {
				if lv, isLocal := ev.index[id.Name]; isLocal && t.a.lmuts[lv.typ+"."+sel.Sel.Name] != "" {
					// x.M(args) on a local x that the method changes in place
					args := ""
					for _, a := range c.Args {
						if t.mayPanic(a, ev) {
							unsup(c, "argument of %s.%s that can panic", lv.typ, sel.Sel.Name)
						}
						args += " " + t.pure(a, ev, "")
					}
					return "(let " + id.Name + " : " + t.coqType(x, lv.typ) + " := " + t.a.lmuts[lv.typ+"."+sel.Sel.Name] + " " + id.Name + args + " in\n" + cont(ev) + ")"
				}
			}
		}
		if mfn, isMut := t.a.muts[exprKey(c.Fun)]; isMut && len(c.Args) == 1 {
			arg, isId := c.Args[0].(*ast.Ident)
			if !isId || ev.index[arg.Name] == nil {
				unsup(c, "%s applied to something that is not a variable", exprKey(c.Fun))
			}
			return "(let " + arg.Name + " := " + mfn + " " + arg.Name + " in\n" + cont(ev) + ")"
		}
		if t.a.fatals[exprKey(c.Fun)] {
			lit, isLit := ast.Expr(nil), false
			if len(c.Args) > 0 {
				lit, isLit = c.Args[0].(*ast.BasicLit)
			}
			if !isLit || lit.(*ast.BasicLit).Kind != token.STRING {
				// logx.Fatal(err): the callee stands for the message
				return "(Panicked (PErrorf \"" + exprKey(c.Fun) + "\"%string 0%nat), w)"
			}
			return "(Panicked (PErrorf " + t.pure(lit, ev, "string") + " 0%nat), w)"
		}
		if name, sg := t.sigOf(c, ev); sg != nil && !sg.pure {
			lhs := make([]string, len(sg.results))
			for i := range lhs {
				lhs[i] = "_"
			}
			return t.callTranslated(&ast.AssignStmt{TokPos: c.Pos()}, c, name, sg, lhs, false, nil, ev, cont)
		}
		p, key := t.primOf(c, ev)
		if !p.world {
			unsup(c, "call of %s as a statement", key)
		}
		for _, i := range p.args {
			if i < len(c.Args) && t.mayPanic(c.Args[i], ev) {
				if term, done := t.primCallK(c, ev, func(string) string { return cont(ev) }); done {
					return term
				}
			}
		}
		call := p.coq + t.primArgs(c, p, ev) + " w"
		if len(p.results) == 0 {
			return "(let w := " + call + " in\n" + cont(ev) + ")"
		}
		return "(let '(_, w) := " + call + " in\n" + cont(ev) + ")"
	case *ast.ReturnStmt:
		return t.returnStmt(x, ev)
	case *ast.BranchStmt:
		if lc == nil || x.Label != nil {
			unsup(x, "%s outside a translated loop (or with a label)", x.Tok)
		}
		switch x.Tok {
		case token.CONTINUE:
			return lc.next(ev)
		case token.BREAK:
			return lc.exit(ev)
		}
		unsup(x, "%s", x.Tok)
	case *ast.IfStmt:
		if x.Init == nil {
			// a condition decided by the declarations (see assign: v.(I)): only the branch taken is translated
			if b, known := t.constBool(x.Cond, ev); known {
				var taken []ast.Stmt
				if b {
					taken = x.Body.List
				} else {
					switch e := x.Else.(type) {
					case *ast.BlockStmt:
						taken = e.List
					case *ast.IfStmt:
						taken = []ast.Stmt{e}
					}
				}
				return t.block(append([]ast.Stmt{&ast.BlockStmt{List: taken}}, rest...), ev, lc, top, k)
			}
		}
		if x.Init != nil {
			// if d, ok := any(v).(I); ok { ... }  with v of a package type and I an interface of the
			// package: whether v's type has I's methods is decided here, from the declarations
			as, isAssign := x.Init.(*ast.AssignStmt)
			if isAssign && as.Tok == token.DEFINE && len(as.Lhs) == 2 && len(as.Rhs) == 1 && x.Else == nil {
				if ta, isTA := as.Rhs[0].(*ast.TypeAssertExpr); isTA && ta.Type != nil {
					okId, isOk := as.Lhs[1].(*ast.Ident)
					cond, isCond := x.Cond.(*ast.Ident)
					it, isIface := ta.Type.(*ast.Ident)
					if isOk && isCond && isIface && cond.Name == okId.Name && !t.mayPanic(ta.X, ev) {
						xt := t.typeOf(ta.X, ev)
						if t.a.records[xt] != nil {
							if !t.implements(x, xt, it.Name) {
								return cont(ev) // the assertion fails: the statement does nothing
							}
							unsup(x, "%s implements %s: the guarded call is not translated", xt, it.Name)
						}
					}
				}
			}
			// if init; cond { A } else { B }  is  { init; if cond { A } else { B } }
			plain := *x
			plain.Init = nil
			return t.block(append([]ast.Stmt{&ast.BlockStmt{List: []ast.Stmt{x.Init, &plain}}}, rest...), ev, lc, top, k)
		}
		var els []ast.Stmt
		switch e := x.Else.(type) {
		case nil:
		case *ast.BlockStmt:
			els = e.List
		case *ast.IfStmt:
			els = []ast.Stmt{e}
		}
		defersHere := t.defers
		mk := func(after func(*env) string) string {
			later := t.defers
			t.defers = defersHere
			thenT := t.block(x.Body.List, ev.nest(), lc, false, func(*env) string { t.defers = later; r := after(ev); t.defers = defersHere; return r })
			elseT := t.block(els, ev.nest(), lc, false, func(*env) string { t.defers = later; r := after(ev); t.defers = defersHere; return r })
			t.defers = later
			if !t.mayPanic(x.Cond, ev) {
				return "(if " + t.pure(x.Cond, ev, "bool") + "\n then " + thenT + "\n else " + elseT + ")"
			}
			jc := t.join()
			return "(let " + jc + " := fun (c' : bool) (w : " + t.worldT() + ") => (if c' then " + thenT + " else " + elseT + ") in\n" +
				t.exprK(x.Cond, ev, "bool", func(c string) string { return jc + " " + c + " w" }) + ")"
		}
		if terminates(x.Body.List) && terminates(els) {
			return mk(func(*env) string { return "(OutOfFuel, w)" /* unreachable */ })
		}
		// the code after the if becomes a join point over the variables the branches assign
		both := append(append([]ast.Stmt{}, x.Body.List...), els...)
		as := assigned(both, ev)
		j := t.join()
		body := cont(ev)
		return "(let " + j + " := fun" + t.params(as) + " (w : " + t.worldT() + ") =>\n" + body + " in\n" +
			mk(func(*env) string { return j + names(as) + " w" }) + ")"
	case *ast.SwitchStmt:
		return t.block(append([]ast.Stmt{t.switchAsIf(x)}, rest...), ev, lc, top, k)
	case *ast.DeferStmt:
		t.deferStmt(x, top && lc == nil)
		return cont(ev)
	case *ast.ForStmt:
		if !top || lc != nil {
			return t.innerFor(x, ev, cont)
		}
		return t.forStmt(x, rest, ev, k)
	case *ast.RangeStmt:
		if !top || lc != nil {
			return t.innerRange(x, ev, cont)
		}
		return t.rangeStmt(x, rest, ev, k)
	}
	unsup(s, "statement %T", s)
	return ""
}

func (t *translator) panicStmt(c *ast.CallExpr, ev *env) string {
	if len(c.Args) == 1 && t.a.panicf != "" {
		if ec, isCall := c.Args[0].(*ast.CallExpr); isCall && exprKey(ec.Fun) == "fmt.Errorf" && len(ec.Args) >= 2 {
			lit, isLit := ec.Args[0].(*ast.BasicLit)
			if !isLit || lit.Kind != token.STRING {
				unsup(ec, "fmt.Errorf whose format is not a string literal")
			}
			if t.mayPanic(ec.Args[1], ev) || t.typeOf(ec.Args[1], ev) != "reflect.Type" {
				unsup(ec.Args[1], "fmt.Errorf whose first argument is not a reflect.Type")
			}
			// only the format and the first argument are kept
			return "(Panicked (" + t.a.panicf + " " + t.pure(lit, ev, "string") + " " + t.pure(ec.Args[1], ev, "") + "), w)"
		}
	}
	p, ok := t.a.prims["panic"]
	if !ok {
		unsup(c, "panic (no panic payload in area %s)", t.a.name)
	}
	return "(Panicked (" + p.coq + t.primArgs(c, p, ev) + "), w)"
}

func (t *translator) returnStmt(x *ast.ReturnStmt, ev *env) string {
	if t.inner > 0 {
		unsup(x, "return inside a nested loop")
	}
	if len(x.Results) == 1 && len(t.ret) > 1 && len(t.defers) == 0 && len(t.outs) == 0 {
		// return f(a..): a translated function with the same result list is called last; its outcome is ours
		if c, isCall := x.Results[0].(*ast.CallExpr); isCall {
			if name, sg := t.sigOf(c, ev); sg != nil && !sg.pure && sg.nouts == 0 && sg.ids == 0 && len(sg.results) == len(t.ret) {
				same := true
				for i := range sg.results {
					if sg.results[i] != t.ret[i] {
						same = false
					}
				}
				callArgs := c.Args
				if len(sg.drop) == len(c.Args) {
					callArgs = nil
					for i, a := range c.Args {
						if !sg.drop[i] {
							callArgs = append(callArgs, a)
						}
					}
				}
				if same && len(callArgs) == len(sg.params) {
					terms := make([]string, len(callArgs))
					var build func(i int) string
					build = func(i int) string {
						if i == len(callArgs) {
							return "(" + name + " " + strings.Join(terms, " ") + " w)"
						}
						return t.exprK(callArgs[i], ev, sg.params[i], func(a string) string {
							terms[i] = a
							return build(i + 1)
						})
					}
					return build(0)
				}
			}
		}
	}
	if len(x.Results) != len(t.ret) {
		unsup(x, "return with %d values in a function with %d results", len(x.Results), len(t.ret))
	}
	if len(t.defers) > 0 {
		for _, r := range x.Results {
			if t.readsWorld(r, ev) {
				unsup(r, "result that reads the world in a function with deferred calls")
			}
		}
	}
	if len(x.Results) == 0 {
		return t.withDefers(ev, func() string { return t.returned(nil) })
	}
	terms := make([]string, len(x.Results))
	var build func(i int) string
	build = func(i int) string {
		if i == len(x.Results) {
			return t.withDefers(ev, func() string { return t.returned(terms) })
		}
		return t.exprK(x.Results[i], ev, t.ret[i], func(s string) string {
			terms[i] = s
			return build(i + 1)
		})
	}
	for _, r := range x.Results {
		if b, ok := r.(*ast.BinaryExpr); ok && (b.Op == token.LAND || b.Op == token.LOR) && t.mayPanic(r, ev) {
			unsup(r, "short-circuit operator that can panic in a return statement")
		}
	}
	return build(0)
}

// (Returned (<results>, <record parameters written through>), w)
func (t *translator) returned(terms []string) string {
	all := append([]string{}, terms...)
	for _, o := range t.outs {
		all = append(all, o.name)
	}
	switch len(all) {
	case 0:
		return "(Returned tt, w)"
	case 1:
		return "(Returned " + all[0] + ", w)"
	}
	return "(Returned (" + strings.Join(all, ", ") + "), w)"
}

func (t *translator) assign(x *ast.AssignStmt, ev *env, cont func(*env) string) string {
	define := x.Tok == token.DEFINE
	// d, ok := v.(I) with v of a package type and I an interface of the package (a helper taking `any` was inlined):
	// whether v's type has I's methods is decided from the declarations; ok is that constant, d stays undeclared
	if define && len(x.Lhs) == 2 && len(x.Rhs) == 1 {
		if ta, isTA := x.Rhs[0].(*ast.TypeAssertExpr); isTA && ta.Type != nil {
			okId, isOk := x.Lhs[1].(*ast.Ident)
			it, isIface := ta.Type.(*ast.Ident)
			if isOk && isIface && !t.mayPanic(ta.X, ev) {
				if xt := t.typeOfSafe(ta.X, ev); t.a.records[xt] != nil && t.isInterface(it.Name) {
					if t.implements(x, xt, it.Name) {
						unsup(x, "%s implements %s: the guarded call is not translated", xt, it.Name)
					}
					e2 := ev.clone()
					v := e2.add(checkName(okId), "bool", 3)
					v.def = "false"
					return cont(e2)
				}
			}
		}
	}
	// r.f = e  on a record parameter
	if x.Tok == token.ASSIGN && len(x.Lhs) == 1 && len(x.Rhs) == 1 {
		if sel, ok := x.Lhs[0].(*ast.SelectorExpr); ok {
			if pk := t.pathKey(sel, ev); pk != "" && t.a.wsets[pk] != "" {
				return t.worldAssign(x, t.a.wsets[pk], t.typeOfSafe(sel, ev), ev, cont)
			}
			id, isId := sel.X.(*ast.Ident)
			if !isId {
				unsup(x, "assignment to a field of something that is not a variable")
			}
			v, isVar := ev.index[id.Name]
			if !isVar {
				unsup(x, "assignment to %s.%s", id.Name, sel.Sel.Name)
			}
			if sf, isS := t.a.stores[v.typ][sel.Sel.Name]; isS {
				return t.worldAssign(x, sf.set+" "+id.Name, sf.typ, ev, cont)
			}
			if wf, isW := t.a.wrecv[v.typ][sel.Sel.Name]; isW {
				if wf.set == "" {
					unsup(x, "assignment to %s.%s (read-only in the tables of area %s)", id.Name, sel.Sel.Name, t.a.name)
				}
				return t.worldAssign(x, wf.set, wf.typ, ev, cont)
			}
			rf, isRec := t.a.records[v.typ][sel.Sel.Name]
			if !isRec {
				unsup(x, "assignment to field %s of type %s (not in the record table)", sel.Sel.Name, v.typ)
			}
			j := t.join()
			return "(let " + j + " := fun (" + id.Name + " : " + t.coqType(x, v.typ) + ") (w : " + t.worldT() + ") =>\n" + cont(ev) + " in\n" +
				t.exprK(x.Rhs[0], ev, rf.typ, func(val string) string {
					return j + " (" + rf.set + " " + val + " " + id.Name + ") w"
				}) + ")"
		}
	}
	if x.Tok != token.ASSIGN && !define {
		// x op= e
		if len(x.Lhs) != 1 || len(x.Rhs) != 1 {
			unsup(x, "assignment")
		}
		op, ok := map[token.Token]token.Token{token.ADD_ASSIGN: token.ADD, token.SUB_ASSIGN: token.SUB, token.MUL_ASSIGN: token.MUL}[x.Tok]
		if !ok {
			unsup(x, "assignment operator %s", x.Tok)
		}
		id, isId := x.Lhs[0].(*ast.Ident)
		if !isId {
			unsup(x, "assignment to something that is not a variable")
		}
		be := &ast.BinaryExpr{X: id, Op: op, Y: x.Rhs[0], OpPos: x.TokPos}
		if t.mayPanic(be, ev) {
			return t.assign(&ast.AssignStmt{Lhs: []ast.Expr{id}, Tok: token.ASSIGN, TokPos: x.TokPos, Rhs: []ast.Expr{be}}, ev, cont)
		}
		return "(let " + id.Name + " := " + t.pure(be, ev, "") + " in\n" + cont(ev) + ")"
	}
	// *v = e  on a cell parameter
	if x.Tok == token.ASSIGN && len(x.Lhs) == 1 && len(x.Rhs) == 1 {
		if st, ok := x.Lhs[0].(*ast.StarExpr); ok {
			id, isId := st.X.(*ast.Ident)
			if !isId {
				unsup(x, "assignment through something that is not a variable")
			}
			v, isVar := ev.index[id.Name]
			if d, isW := t.a.wderefs[v.typ]; isVar && isW {
				return t.worldAppend(x, id.Name, d, ev, cont)
			}
			if !isVar || t.a.cells[v.typ] == "" {
				unsup(x, "assignment through %s", id.Name)
			}
			if t.mayPanic(x.Rhs[0], ev) {
				unsup(x, "assignment through a pointer of an expression that can panic")
			}
			return "(let " + id.Name + " : " + t.coqType(x, v.typ) + " := " + t.pure(x.Rhs[0], ev, t.a.cells[v.typ]) + " in\n" + cont(ev) + ")"
		}
	}
	// G[k] = v  on a package-level map
	if x.Tok == token.ASSIGN && len(x.Lhs) == 1 && len(x.Rhs) == 1 {
		if ix, ok := x.Lhs[0].(*ast.IndexExpr); ok {
			if pk := t.pathKey(ix.X, ev); pk != "" {
				ins, known := t.a.wmaps[pk]
				if !known {
					unsup(ix, "assignment to an element of %s (not in the map table of area %s)", pk, t.a.name)
				}
				if t.mayPanic(ix.Index, ev) || t.mayPanic(x.Rhs[0], ev) {
					unsup(x, "map assignment whose key or value can panic")
				}
				return "(let w := " + ins + " " + t.pure(ix.Index, ev, "") + " " + t.pure(x.Rhs[0], ev, "") + " w in\n" + cont(ev) + ")"
			}
			if ix2, isIx2 := ix.X.(*ast.IndexExpr); isIx2 {
				if pk := t.pathKey(ix2.X, ev); pk != "" && t.a.wmaps2[pk] != "" {
					// g.m[k1][k2] = v: the inner map exists (the code makes it before; a nil inner map would panic)
					if t.mayPanic(ix2.Index, ev) || t.mayPanic(ix.Index, ev) || t.mayPanic(x.Rhs[0], ev) {
						unsup(x, "map assignment whose key or value can panic")
					}
					return "(let w := " + t.a.wmaps2[pk] + " " + t.pure(ix2.Index, ev, "") + " " + t.pure(ix.Index, ev, "") + " " +
						t.pure(x.Rhs[0], ev, "") + " w in\n" + cont(ev) + ")"
				}
			}
			gid, isId := ix.X.(*ast.Ident)
			if !isId {
				unsup(ix, "assignment to an element of something that is not a variable")
			}
			if lv, isLocal := ev.index[gid.Name]; isLocal && t.a.refmaps[lv.typ] != "" {
				if t.mayPanic(ix.Index, ev) || t.mayPanic(x.Rhs[0], ev) {
					unsup(x, "map assignment whose key or value can panic")
				}
				return "(let w := " + t.a.refmaps[lv.typ] + " " + gid.Name + " " + t.pure(ix.Index, ev, "") + " " + t.pure(x.Rhs[0], ev, "") + " w in\n" + cont(ev) + ")"
			}
			if lv, isLocal := ev.index[gid.Name]; isLocal && t.a.lmaps[lv.typ] != "" {
				// m[k] = v on a local map (a pure value): never panics on a made map
				if t.mayPanic(ix.Index, ev) || t.mayPanic(x.Rhs[0], ev) {
					unsup(x, "map assignment whose key or value can panic")
				}
				return "(let " + gid.Name + " : " + t.coqType(x, lv.typ) + " := " + t.a.lmaps[lv.typ] + " " + t.pure(ix.Index, ev, "") + " " +
					t.pure(x.Rhs[0], ev, "") + " " + gid.Name + " in\n" + cont(ev) + ")"
			}
			if lv, isLocal := ev.index[gid.Name]; isLocal {
				// xs[i] = e on a local slice: index, then value, then the bounds check
				set, et := "list_set", ""
				switch {
				case lv.typ == "[]byte":
					set, et = "str_set", "byte"
				case strings.HasPrefix(lv.typ, "[]"):
					et = lv.typ[2:]
				default:
					unsup(ix, "assignment to an element of a %s", lv.typ)
				}
				return t.exprK(ix.Index, ev, "int", func(i string) string {
					return t.exprK(x.Rhs[0], ev, et, func(v string) string {
						d := t.fresh("u")
						return "(match " + set + " " + gid.Name + " " + i + " " + v + " with None => (Panicked PIndex, w) | Some " + d + " =>\n" +
							"(let " + gid.Name + " : " + t.coqType(x, lv.typ) + " := " + d + " in\n" + cont(ev) + ") end)"
					})
				})
			}
			g, isGlobal := t.a.globals[gid.Name]
			if _, local := ev.index[gid.Name]; !isGlobal || local {
				unsup(ix, "assignment to an element of %s", gid.Name)
			}
			if t.mayPanic(ix.Index, ev) || t.mayPanic(x.Rhs[0], ev) {
				unsup(x, "map assignment whose key or value can panic")
			}
			if vt := t.typeOf(x.Rhs[0], ev); vt != g.ins {
				unsup(x, "storing a %s in %s", vt, gid.Name)
			}
			return "(let w := " + g.insert + " w " + t.pure(ix.Index, ev, g.key) + " " + t.pure(x.Rhs[0], ev, g.ins) + " in\n" + cont(ev) + ")"
		}
	}
	reuse := map[string]bool{}
	lhs := make([]string, len(x.Lhs))
	for i, l := range x.Lhs {
		id, ok := l.(*ast.Ident)
		if !ok {
			unsup(l, "assignment to something that is not a variable")
		}
		if id.Name == "_" {
			lhs[i] = "_"
			continue
		}
		lhs[i] = checkName(id)
		old, exists := ev.index[id.Name]
		if define && exists {
			// a, b := ... in the scope where b was declared assigns b; in a nested scope it shadows it, which
			// the lexical scoping of the generated lets renders exactly as long as the name is never the target
			// of a plain assignment (the join points are computed from names)
			if old.depth != ev.depth && old.kind != 2 && !t.reassigned[id.Name] && t.a.shadow {
				if old.kind == 0 {
					// parameters are passed on BY NAME to the loop functions: an inner declaration would be captured
					unsup(id, "parameter %s shadowed by :=", id.Name)
				}
				continue
			}
			if old.depth != ev.depth || (old.kind != 1 && old.kind != 0) || len(x.Lhs) < 2 {
				unsup(id, "variable %s shadowed by :=", id.Name)
			}
			reuse[id.Name] = true
		}
		if !define && !exists {
			unsup(id, "assignment to unknown variable %s", id.Name)
		}
	}
	declare := func(e2 *env, name, typ string) {
		if name == "_" {
			return
		}
		if reuse[name] {
			if e2.index[name].typ != typ {
				unsup(x, "variable %s reused by := with another type", name)
			}
			return
		}
		e2.add(name, typ, 1)
	}
	// G[k] = v  on a package-level map
	if !define && len(x.Lhs) == 1 && len(x.Rhs) == 1 {
		if ix, ok := x.Lhs[0].(*ast.IndexExpr); ok {
			_ = ix
		}
	}
	// v, ok := G[k]
	if len(x.Lhs) == 2 && len(x.Rhs) == 1 {
		if ix, ok := x.Rhs[0].(*ast.IndexExpr); ok {
			if gid, isId := ix.X.(*ast.Ident); isId {
				if g, isGlobal := t.a.globals[gid.Name]; isGlobal {
					if _, local := ev.index[gid.Name]; !local {
						if t.mayPanic(ix.Index, ev) {
							unsup(ix, "map key that can panic")
						}
						e2 := ev
						if define {
							e2 = ev.clone()
							declare(e2, lhs[0], g.val)
							declare(e2, lhs[1], "bool")
						}
						return "(let '(" + lhs[0] + ", " + lhs[1] + ") := " + g.lookup + " w " + t.pure(ix.Index, ev, g.key) + " in\n" + cont(e2) + ")"
					}
				}
			}
		}
		// v, ok := g.m[k] / g.f()[k]  on a map of the world
		if ix, ok := x.Rhs[0].(*ast.IndexExpr); ok {
			if wk := t.worldMapKey(ix.X, ev); wk != "" {
				look, known := t.a.wlooks[wk]
				if !known {
					unsup(ix, "comma-ok index on %s (not in the lookup table of area %s)", wk, t.a.name)
				}
				if t.mayPanic(ix.Index, ev) {
					unsup(ix, "map key that can panic")
				}
				vt := t.a.mapvals[wk]
				e2 := ev
				if define {
					e2 = ev.clone()
					declare(e2, lhs[0], vt)
					declare(e2, lhs[1], "bool")
				}
				return "(let '(" + lhs[0] + ", " + lhs[1] + ") := " + look + " " + t.pure(ix.Index, ev, "") + " w in\n" + cont(e2) + ")"
			}
		}
		// v, ok := m[k]  on a local map
		if ix, ok := x.Rhs[0].(*ast.IndexExpr); ok {
			if mid, isId := ix.X.(*ast.Ident); isId {
				if mv, isVar := ev.index[mid.Name]; isVar {
					look, isMap := t.a.maps[mv.typ]
					if !isMap {
						unsup(ix, "comma-ok index on a %s", mv.typ)
					}
					if t.mayPanic(ix.Index, ev) {
						unsup(ix, "map key that can panic")
					}
					vt := mv.typ[strings.Index(mv.typ, "]")+1:]
					if pv, isPseudo := t.a.mapvals[mv.typ]; isPseudo {
						vt = pv
					}
					e2 := ev
					if define {
						e2 = ev.clone()
						declare(e2, lhs[0], vt)
						declare(e2, lhs[1], "bool")
					}
					return "(let '(" + lhs[0] + ", " + lhs[1] + ") := " + look + " " + t.pure(ix.X, ev, "") + " " + t.pure(ix.Index, ev, "") + " in\n" + cont(e2) + ")"
				}
			}
		}
		// v, ok := e[k]  where e is a panic-free expression of a map type of the table (zero.ValueMap()[str])
		if ix, ok := x.Rhs[0].(*ast.IndexExpr); ok {
			if _, isId := ix.X.(*ast.Ident); !isId && t.pathKey(ix.X, ev) == "" {
				if mt := t.typeOfSafe(ix.X, ev); mt != "" && t.a.maps[mt] != "" && !t.mayPanic(ix.X, ev) && !t.mayPanic(ix.Index, ev) {
					vt := mt[strings.Index(mt, "]")+1:]
					if pv, isPseudo := t.a.mapvals[mt]; isPseudo {
						vt = pv
					}
					e2 := ev
					if define {
						e2 = ev.clone()
						declare(e2, lhs[0], vt)
						declare(e2, lhs[1], "bool")
					}
					return "(let '(" + lhs[0] + ", " + lhs[1] + ") := " + t.a.maps[mt] + " " + t.pure(ix.X, ev, "") + " " + t.pure(ix.Index, ev, "") + " in\n" + cont(e2) + ")"
				}
			}
		}
		// a, ok := x.(T)
		if ta, ok := x.Rhs[0].(*ast.TypeAssertExpr); ok && ta.Type != nil {
			key := t.typeOf(ta.X, ev) + ".(" + typeString(ta.Type) + ")"
			as, known := t.a.asserts[key]
			if !known {
				unsup(ta, "type assertion %s (not in the assertion table)", key)
			}
			if t.mayPanic(ta.X, ev) {
				unsup(ta, "type assertion on an expression that can panic")
			}
			e2 := ev
			if define {
				e2 = ev.clone()
				declare(e2, lhs[0], as.result)
				declare(e2, lhs[1], "bool")
			}
			return "(let '(" + lhs[0] + ", " + lhs[1] + ") := " + as.coq + " " + t.pure(ta.X, ev, "") + " in\n" + cont(e2) + ")"
		}
	}
	// x := F(args) for a function of the area translated before
	if len(x.Rhs) == 1 {
		if c, ok := x.Rhs[0].(*ast.CallExpr); ok {
			if name, sg := t.sigOf(c, ev); sg != nil && !sg.pure {
				return t.callTranslated(x, c, name, sg, lhs, define, declare, ev, cont)
			}
		}
	}
	// primitive call on the right
	if len(x.Rhs) == 1 {
		if c, ok := x.Rhs[0].(*ast.CallExpr); ok {
			_, isCallable := t.callableOf(c, ev)
			_, isTypeId := t.typeIdOf(c)
			isPureFn := false
			if id, isId := c.Fun.(*ast.Ident); isId {
				if sg, isFn := t.sigs[id.Name]; isFn && sg.pure && ev.index[id.Name] == nil {
					isPureFn = true
				}
			}
			if _, msg := t.pureMethodSig(c, ev); msg != nil {
				isPureFn = true
			}
			if id, isId := c.Fun.(*ast.Ident); isId && id.Name == "make" {
				isPureFn = true
			}
			if k := exprKey(c.Fun); k == "fmt.Sprintf" || (k == "fmt.Errorf" && t.a.errorf != "") {
				isPureFn = true
			}
			argsPanic := false
			for _, a := range c.Args {
				if t.mayPanic(a, ev) {
					argsPanic = true
				}
			}
			if id, isId := c.Fun.(*ast.Ident); !(isId && (id.Name == "len" || id.Name == "append" || id.Name == "new" || id.Name == "any")) &&
				!isCallable && !isTypeId && convTarget(c) == "" && !isPureFn && !argsPanic {
				p, key := t.primOf(c, ev)
				if len(p.results) != len(lhs) {
					unsup(x, "%s returns %d values, %d expected", key, len(p.results), len(lhs))
				}
				e2 := ev
				if define {
					e2 = ev.clone()
					for i, n := range lhs {
						declare(e2, n, p.results[i])
					}
				}
				pat := lhs[0]
				if len(lhs) > 1 {
					pat = "(" + strings.Join(lhs, ", ") + ")"
				}
				call := p.coq + t.primArgs(c, p, ev)
				if p.world {
					return "(let '(" + pat + ", w) := " + call + " w in\n" + cont(e2) + ")"
				}
				if p.reads {
					return "(let '" + pat + " := " + call + " w in\n" + cont(e2) + ")"
				}
				if define && len(lhs) == 1 && lhs[0] != "_" && !reuse[lhs[0]] && t.immutable(lhs[0], c, ev) {
					// a pure primitive of values that never change: the local stands for the call
					v := e2.index[lhs[0]]
					v.kind, v.def = 3, "("+call+")"
					return cont(e2)
				}
				return "(let '" + pat + " := " + call + " in\n" + cont(e2) + ")"
			}
		}
	}
	if len(x.Lhs) == len(x.Rhs) && len(x.Lhs) > 1 {
		// a, b := e1, e2 where no right-hand side mentions a variable of the left: one after the other
		lv := map[string]bool{}
		allIds := true
		for _, l := range x.Lhs {
			if id, isId := l.(*ast.Ident); isId {
				lv[id.Name] = true
			} else {
				allIds = false
			}
		}
		indep := allIds
		for _, r := range x.Rhs {
			for n := range used([]ast.Node{r}) {
				if lv[n] {
					indep = false
				}
			}
		}
		if indep {
			var seq []ast.Stmt
			for i := range x.Lhs {
				if id := x.Lhs[i].(*ast.Ident); id.Name == "_" && x.Tok == token.DEFINE {
					seq = append(seq, &ast.AssignStmt{Lhs: []ast.Expr{id}, TokPos: x.TokPos, Tok: token.ASSIGN, Rhs: []ast.Expr{x.Rhs[i]}})
					continue
				}
				tok := x.Tok
				if id := x.Lhs[i].(*ast.Ident); define && reuse[id.Name] {
					tok = token.ASSIGN // a variable of the same scope that := redeclares is assigned
				}
				seq = append(seq, &ast.AssignStmt{Lhs: []ast.Expr{x.Lhs[i]}, TokPos: x.TokPos, Tok: tok, Rhs: []ast.Expr{x.Rhs[i]}})
			}
			return t.block(seq, ev, nil, false, func(e *env) string { return cont(e) })
		}
	}
	if len(x.Lhs) != 1 || len(x.Rhs) != 1 {
		unsup(x, "parallel assignment")
	}
	name := lhs[0]
	if name == "_" {
		// _ = e : e is evaluated (it may not panic here), nothing is stored
		if t.mayPanic(x.Rhs[0], ev) {
			unsup(x, "assignment to _ of an expression that can panic")
		}
		t.pure(x.Rhs[0], ev, "")
		return cont(ev)
	}
	var typ string
	if define {
		typ = t.typeOf(x.Rhs[0], ev)
		if typ == "nil" {
			unsup(x, ":= nil")
		}
	} else if name != "_" {
		typ = ev.index[name].typ
	}
	e2 := ev
	if define && name != "_" {
		e2 = ev.clone()
		e2.add(name, typ, 1)
	}
	if !t.mayPanic(x.Rhs[0], ev) {
		term := t.pure(x.Rhs[0], ev, typ)
		if define && name != "_" && t.immutable(name, x.Rhs[0], ev) {
			// a local that is a pure function of values that never change: it stands for its definition
			v := e2.index[name]
			v.kind, v.def = 3, term
			return cont(e2)
		}
		return "(let " + name + " : " + t.coqType(x, typ) + " := " + term + " in\n" + cont(e2) + ")"
	}
	j := t.join()
	return "(let " + j + " := fun (" + name + " : " + t.coqType(x, typ) + ") (w : " + t.worldT() + ") =>\n" + cont(e2) + " in\n" +
		t.exprK(x.Rhs[0], ev, typ, func(s string) string { return j + " " + s + " w" }) + ")"
}

// x := e where neither x nor anything e reads is ever assigned again
func (t *translator) immutable(name string, e ast.Expr, ev *env) bool {
	if t.reassigned[name] {
		return false
	}
	if t.readsWorld(e, ev) {
		return false // its value is the one at this point of the execution: keep the let
	}
	ok := true
	ast.Inspect(e, func(n ast.Node) bool {
		if id, isId := n.(*ast.Ident); isId {
			if t.reassigned[id.Name] {
				ok = false
			}
			if v, isVar := ev.index[id.Name]; isVar && v.kind == 1 {
				ok = false // reads an ordinary local (its value at this point is what counts): keep the let
			}
		}
		return true
	})
	return ok
}

// lhs := F(args): F was translated earlier in this area; its outcome is propagated
func (t *translator) callTranslated(x *ast.AssignStmt, c *ast.CallExpr, name string, sg *signature, lhs []string, define bool,
	declare func(*env, string, string), ev *env, cont func(*env) string) string {
	if sg.nouts > 0 || sg.ids > 0 {
		unsup(c, "call of %s (writes through a parameter or takes a type id)", name)
	}
	callArgs := c.Args
	if len(sg.drop) == len(c.Args) {
		callArgs = nil
		for i, a := range c.Args {
			if !sg.drop[i] {
				callArgs = append(callArgs, a)
			}
		}
	}
	if len(callArgs) != len(sg.params) {
		unsup(c, "call of %s with %d arguments", name, len(c.Args))
	}
	if len(lhs) != len(sg.results) {
		unsup(x, "%s returns %d values", name, len(sg.results))
	}
	args := ""
	for i, a := range callArgs {
		if t.mayPanic(a, ev) {
			unsup(a, "argument that can panic")
		}
		at := t.typeOf(a, ev)
		if at != sg.params[i] && at != "nil" {
			unsup(a, "argument of type %s where %s takes %s", at, name, sg.params[i])
		}
		args += " " + t.pure(a, ev, sg.params[i])
	}
	e2 := ev
	if define {
		e2 = ev.clone()
		for i, n := range lhs {
			declare(e2, n, sg.results[i])
		}
	}
	pat := "tt"
	if len(lhs) == 1 {
		pat = lhs[0]
	} else if len(lhs) > 1 {
		pat = "(" + strings.Join(lhs, ", ") + ")"
	}
	pv := t.fresh("p")
	return "(match " + name + args + " w with\n | (Returned " + pat + ", w) =>\n" + cont(e2) +
		"\n | (Panicked " + pv + ", w) => (Panicked " + pv + ", w)\n | (OutOfFuel, w) => (OutOfFuel, w)\n end)"
}

// does the named type of the package (or its pointer) have all methods of the named interface?
// (syntactic: methods declared in the package directory; a struct with embedded fields is refused)
// a boolean expression whose value the translator knows
func (t *translator) constBool(e ast.Expr, ev *env) (bool, bool) {
	switch x := e.(type) {
	case *ast.ParenExpr:
		return t.constBool(x.X, ev)
	case *ast.Ident:
		if v, ok := ev.index[x.Name]; ok && v.kind == 3 && v.typ == "bool" {
			if v.def == "false" {
				return false, true
			}
			if v.def == "true" {
				return true, true
			}
		}
	case *ast.UnaryExpr:
		if x.Op == token.NOT {
			b, known := t.constBool(x.X, ev)
			return !b, known
		}
	}
	return false, false
}

func (t *translator) isInterface(name string) bool {
	for _, f := range t.pkgFiles() {
		for _, d := range f.Decls {
			if gd, ok := d.(*ast.GenDecl); ok {
				for _, sp := range gd.Specs {
					if ts, isT := sp.(*ast.TypeSpec); isT && ts.Name.Name == name {
						_, isI := ts.Type.(*ast.InterfaceType)
						return isI
					}
				}
			}
		}
	}
	return false
}

func (t *translator) implements(n ast.Node, typ, iface string) bool {
	base := strings.TrimPrefix(typ, "*")
	var want []string
	foundI, foundT := false, false
	have := map[string]bool{}
	for _, f := range t.pkgFiles() {
		for _, d := range f.Decls {
			switch x := d.(type) {
			case *ast.GenDecl:
				for _, sp := range x.Specs {
					ts, ok := sp.(*ast.TypeSpec)
					if !ok {
						continue
					}
					if ts.Name.Name == iface {
						it, isI := ts.Type.(*ast.InterfaceType)
						if !isI {
							unsup(n, "%s is not an interface", iface)
						}
						foundI = true
						for _, m := range it.Methods.List {
							if len(m.Names) == 0 {
								unsup(n, "interface %s embeds another one", iface)
							}
							for _, mn := range m.Names {
								want = append(want, mn.Name)
							}
						}
					}
					if ts.Name.Name == base {
						foundT = true
						if st, isS := ts.Type.(*ast.StructType); isS {
							for _, fl := range st.Fields.List {
								if len(fl.Names) == 0 {
									unsup(n, "type %s has embedded fields (method set not computed)", base)
								}
							}
						}
					}
				}
			case *ast.FuncDecl:
				if x.Recv != nil && len(x.Recv.List) == 1 {
					rt := x.Recv.List[0].Type
					ptr := false
					if st, isStar := rt.(*ast.StarExpr); isStar {
						rt, ptr = st.X, true
					}
					if id, isId := rt.(*ast.Ident); isId && id.Name == base {
						if !ptr || strings.HasPrefix(typ, "*") {
							have[x.Name.Name] = true
						}
					}
				}
			}
		}
	}
	if !foundI || !foundT {
		unsup(n, "type assertion %s.(%s): declaration not found in the package", typ, iface)
	}
	for _, m := range want {
		if !have[m] {
			return false
		}
	}
	return true
}

func (t *translator) pkgFiles() []*ast.File {
	if fs, ok := t.pkg[t.dir]; ok {
		return fs
	}
	ents, err := os.ReadDir(t.dir)
	if err != nil {
		unsup(nil, "cannot read %s", t.dir)
	}
	var fs []*ast.File
	for _, e := range ents {
		if e.IsDir() || !strings.HasSuffix(e.Name(), ".go") || strings.HasSuffix(e.Name(), "_test.go") {
			continue
		}
		f, err := parser.ParseFile(fset, filepath.Join(t.dir, e.Name()), nil, parser.SkipObjectResolution)
		if err != nil {
			unsup(nil, "cannot parse %s", e.Name())
		}
		fs = append(fs, f)
	}
	if t.pkg == nil {
		t.pkg = map[string][]*ast.File{}
	}
	t.pkg[t.dir] = fs
	return fs
}

// for _, x := range xs { body }  followed by rest: structural recursion on the slice
func (t *translator) rangeStmt(x *ast.RangeStmt, rest []ast.Stmt, ev *env, k func(*env) string) string {
	if x.Tok != token.DEFINE {
		unsup(x, "range loop that assigns to existing variables")
	}
	// for k, v := range m over a map kept as the list of its (key, value) pairs in iteration order
	pm, isPairs := t.a.pairmaps[t.typeOfSafe(x.X, ev)]
	if kid, ok := x.Key.(*ast.Ident); ok && kid.Name != "_" && !isPairs {
		return t.rangeIndexStmt(x, rest, ev, k)
	}
	if x.Value == nil {
		unsup(x, "range loop without variables")
	}
	vid, ok := x.Value.(*ast.Ident)
	if !ok {
		unsup(x, "range loop")
	}
	vname := checkName(vid)
	if _, dup := ev.index[vname]; dup {
		unsup(vid, "loop variable %s shadows another variable", vname)
	}
	if t.mayPanic(x.X, ev) {
		unsup(x.X, "ranged expression that can panic")
	}
	xt := t.typeOf(x.X, ev)
	elemT := ""
	kname := ""
	if isPairs {
		kid, isId := x.Key.(*ast.Ident)
		if !isId || kid.Name == "_" {
			unsup(x, "range over a map without its key")
		}
		kname = checkName(kid)
		if _, dup := ev.index[kname]; dup {
			unsup(kid, "loop variable %s shadows another variable", kname)
		}
		elemT = pm[1]
	} else {
		if !strings.HasPrefix(xt, "[]") {
			unsup(x.X, "range over a %s", xt)
		}
		elemT = xt[2:]
	}
	evVar := ev.nest()
	evVar.add(vname, elemT, 1)
	if isPairs {
		evVar.add(kname, pm[0], 1)
	}
	var carried []*variable
	for _, v := range assigned(x.Body.List, evVar) {
		if v.name != vname && v.name != kname {
			carried = append(carried, v)
		}
	}
	for _, v := range carried {
		if used([]ast.Node{x.X})[v.name] {
			unsup(x, "ranged slice depends on %s, which the body assigns", v.name)
		}
	}
	t.nLoop++
	n := strconv.Itoa(t.nLoop)
	loopName, afterName := t.fn+"_loop"+n, t.fn+"_after"+n
	var nodes []ast.Node
	nodes = append(nodes, x.Body)
	for _, r := range rest {
		nodes = append(nodes, r)
	}
	use := used(nodes)
	redecl := t.redeclared(nodes)
	isCarried := map[string]bool{}
	for _, v := range carried {
		isCarried[v.name] = true
	}
	var locals []*variable
	for _, v := range ev.vars {
		if v.kind == 1 && !isCarried[v.name] && use[v.name] && ev.index[v.name] == v && !redecl[v.name] {
			locals = append(locals, v)
		}
	}
	var fixed []*variable
	for _, v := range t.pars {
		if !isCarried[v.name] {
			fixed = append(fixed, v)
		}
	}
	fixed = append(fixed, locals...)
	saveJ := t.nJoin
	defersHere := t.defers // a return in the loop body runs the deferred calls registered before the loop only
	afterBody := t.block(rest, ev, nil, true, k)
	defersLater := t.defers
	t.defers = defersHere
	defer func() { t.defers = defersLater }()
	t.emit(afterName, "Definition "+afterName+t.idParams()+t.params(fixed)+t.params(carried)+" (w : "+t.worldT()+")\n  : "+t.resType()+" :=\n"+afterBody+".")
	t.nJoin = saveJ
	callAfter := func(*env) string { return afterName + t.idNames() + names(fixed) + names(carried) + " w" }
	evBody := ev.nest()
	evBody.add(vname, elemT, 1)
	pat := vname
	if isPairs {
		evBody.add(kname, pm[0], 1)
		pat = "(" + kname + ", " + vname + ")"
	}
	lc := &loopCtx{
		next: func(*env) string { return loopName + t.idNames() + names(fixed) + " rest'" + names(carried) + " w" },
		exit: callAfter,
	}
	bodyT := t.block(x.Body.List, evBody.clone(), lc, false, func(*env) string { return lc.next(nil) })
	t.emit(loopName, "Fixpoint "+loopName+t.idParams()+t.params(fixed)+" (xs' : "+t.coqType(x, xt)+")"+t.params(carried)+" (w : "+t.worldT()+") {struct xs'}\n  : "+t.resType()+" :=\n"+
		"  match xs' with\n  | nil => "+callAfter(nil)+"\n  | cons "+pat+" rest' =>\n"+bodyT+"\n  end.")
	return loopName + t.idNames() + names(fixed) + " " + t.pure(x.X, ev, xt) + names(carried) + " w"
}

// the type-id parameters of the current function
func (t *translator) idParams() string {
	s := ""
	for _, n := range t.idList {
		s += " (" + n + " : nat)"
	}
	return s
}

func (t *translator) idNames() string {
	s := ""
	for _, n := range t.idList {
		s += " " + n
	}
	return s
}

// identifiers used in the nodes
func used(nodes []ast.Node) map[string]bool {
	set := map[string]bool{}
	for _, n := range nodes {
		if n == nil {
			continue
		}
		ast.Inspect(n, func(m ast.Node) bool {
			if id, ok := m.(*ast.Ident); ok {
				set[id.Name] = true
			}
			return true
		})
	}
	return set
}

// for i := lo; i <op> hi; i++ / i-- { body }  followed by rest
func (t *translator) forStmt(x *ast.ForStmt, rest []ast.Stmt, ev *env, k func(*env) string) string {
	if x.Init == nil && x.Post == nil && x.Cond != nil {
		return t.whileStmt(x, rest, ev, k)
	}
	l, carried := t.counterLoop(x, ev)
	return t.fuelLoop(l, carried, rest, ev, k)
}

// the counter loop `for i := lo; i <op> hi; i++ / i--`: its description and the variables its body assigns
func (t *translator) counterLoop(x *ast.ForStmt, ev *env) (*fuelLoop, []*variable) {
	init, ok := x.Init.(*ast.AssignStmt)
	if !ok || init.Tok != token.DEFINE || len(init.Lhs) != 1 || len(init.Rhs) != 1 {
		unsup(x, "loop without a counter initialised by `i := e`")
	}
	ci := init.Lhs[0].(*ast.Ident)
	cname := checkName(ci)
	if _, dup := ev.index[cname]; dup {
		unsup(ci, "loop counter %s shadows another variable", cname)
	}
	cond, ok := x.Cond.(*ast.BinaryExpr)
	if !ok {
		unsup(x, "loop condition that is not a comparison of the counter with a bound")
	}
	var bound ast.Expr
	op := cond.Op
	if id, isId := cond.X.(*ast.Ident); isId && id.Name == cname {
		bound = cond.Y
	} else if id, isId := cond.Y.(*ast.Ident); isId && id.Name == cname {
		bound = cond.X
		op = map[token.Token]token.Token{token.LSS: token.GTR, token.LEQ: token.GEQ, token.GTR: token.LSS, token.GEQ: token.LEQ}[op]
	} else {
		unsup(x, "loop condition that does not compare the counter")
	}
	step := 0
	switch p := x.Post.(type) {
	case *ast.IncDecStmt:
		if id, isId := p.X.(*ast.Ident); isId && id.Name == cname {
			step = 1
			if p.Tok == token.DEC {
				step = -1
			}
		}
	case *ast.AssignStmt:
		if len(p.Lhs) == 1 && len(p.Rhs) == 1 {
			if id, isId := p.Lhs[0].(*ast.Ident); isId && id.Name == cname {
				if l, isLit := p.Rhs[0].(*ast.BasicLit); isLit && l.Value == "1" {
					if p.Tok == token.ADD_ASSIGN {
						step = 1
					} else if p.Tok == token.SUB_ASSIGN {
						step = -1
					}
				}
			}
		}
	}
	if step == 0 {
		unsup(x, "loop whose post statement is not counter++ / counter--")
	}
	lo := t.pure(init.Rhs[0], ev, "int")
	if t.mayPanic(init.Rhs[0], ev) || t.mayPanic(bound, ev) {
		unsup(x, "loop bounds that can panic")
	}
	hi := t.pure(bound, ev, "int")
	var fuel string
	switch {
	case step == 1 && op == token.LEQ:
		fuel = "(Z.to_nat (" + hi + " - " + lo + " + 1))"
	case step == 1 && op == token.LSS:
		fuel = "(Z.to_nat (" + hi + " - " + lo + "))"
	case step == -1 && op == token.GEQ:
		fuel = "(Z.to_nat (" + lo + " - " + hi + " + 1))"
	case step == -1 && op == token.GTR:
		fuel = "(Z.to_nat (" + lo + " - " + hi + "))"
	default:
		unsup(x, "loop whose condition (%s) does not bound a counter stepping by %+d", cond.Op, step)
	}
	// stage 8: the bound may mention a variable the body assigns (tokens[i] = ... under i < len(tokens)): the condition
	// is evaluated on the current values in every iteration, only the FUEL is taken from the bound at loop entry; if
	// the bound grows while the loop runs the translation ends in OutOfFuel, which no bridge can prove away
	carried := assigned(x.Body.List, ev)
	bodyAssign := map[string]bool{}
	ast.Inspect(x.Body, func(n ast.Node) bool {
		switch s := n.(type) {
		case *ast.AssignStmt:
			for _, l := range s.Lhs {
				if id, isId := l.(*ast.Ident); isId {
					bodyAssign[id.Name] = true
				}
			}
		case *ast.IncDecStmt:
			if id, isId := s.X.(*ast.Ident); isId {
				bodyAssign[id.Name] = true
			}
		}
		return true
	})
	if bodyAssign[cname] {
		unsup(x, "loop body assigns the counter %s", cname)
	}
	return &fuelLoop{node: x, counter: cname, lo: lo, step: step, fuel: fuel, condE: x.Cond, body: x.Body.List}, carried
}

// a loop translated to recursion on fuel
type fuelLoop struct {
	node    ast.Node
	counter string   // "" : a while loop (its counter is one of the carried variables)
	lo      string   // initial value of the counter
	step    int      // +1 / -1
	fuel    string   // term of type nat
	condE   ast.Expr // the condition (evaluated in every iteration; it may panic)
	body    []ast.Stmt
	extra   []*variable // further loop-invariant variables bound by the caller (range snapshots)
	value   *ast.Ident  // range loops: the element variable, bound to seq[counter] at the start of an iteration
	seq     ast.Expr    // ... of this slice
}

func (t *translator) fuelLoop(l *fuelLoop, carried []*variable, rest []ast.Stmt, ev *env, k func(*env) string) string {
	t.nLoop++
	n := strconv.Itoa(t.nLoop)
	loopName, afterName := t.fn+"_loop"+n, t.fn+"_after"+n
	// variables (not carried) that the loop or the code after it reads
	nodes := []ast.Node{l.condE}
	for _, st := range l.body {
		nodes = append(nodes, st)
	}
	if l.seq != nil {
		nodes = append(nodes, l.seq)
	}
	for _, r := range rest {
		nodes = append(nodes, r)
	}
	use := used(nodes)
	redecl := t.redeclared(nodes)
	isCarried := map[string]bool{}
	for _, v := range carried {
		isCarried[v.name] = true
	}
	var fixed []*variable
	for _, v := range t.pars {
		if !isCarried[v.name] {
			fixed = append(fixed, v)
		}
	}
	for _, v := range ev.vars {
		if v.kind == 1 && !isCarried[v.name] && use[v.name] && ev.index[v.name] == v && !redecl[v.name] {
			fixed = append(fixed, v)
		}
	}
	// after the loop
	saveJ := t.nJoin
	defersHere := t.defers // a return in the loop body runs the deferred calls registered before the loop only
	afterBody := t.block(rest, ev, nil, true, k)
	defersLater := t.defers
	t.defers = defersHere
	defer func() { t.defers = defersLater }()
	t.emit(afterName, "Definition "+afterName+t.idParams()+t.params(fixed)+t.params(carried)+" (w : "+t.worldT()+")\n  : "+t.resType()+" :=\n"+afterBody+".")
	t.nJoin = saveJ
	callAfter := func(*env) string { return afterName + t.idNames() + names(fixed) + names(carried) + " w" }
	// the loop itself
	evBody := ev.nest()
	cpar, cnext := "", ""
	if l.counter != "" {
		evBody.add(l.counter, "int", 1)
		op := "+"
		if l.step < 0 {
			op = "-"
		}
		cpar = " (" + l.counter + " : Z)"
		cnext = " (" + l.counter + " " + op + " 1)"
	}
	lc := &loopCtx{
		next: func(*env) string {
			return loopName + t.idNames() + names(fixed) + " fuel'" + cnext + names(carried) + " w"
		},
		exit: callAfter,
	}
	bodyEnv := evBody.clone()
	inner := func(e2 *env) string {
		return t.block(l.body, e2, lc, false, func(*env) string { return lc.next(nil) })
	}
	var bodyT string
	if l.value != nil {
		// v := seq[counter]
		vname := checkName(l.value)
		if _, dup := bodyEnv.index[vname]; dup {
			unsup(l.value, "loop variable %s shadows another variable", vname)
		}
		st := t.typeOf(l.seq, bodyEnv)
		if !strings.HasPrefix(st, "[]") {
			unsup(l.seq, "range over a %s", st)
		}
		ix := &ast.IndexExpr{X: l.seq, Index: ast.NewIdent(l.counter)}
		bodyT = t.exprK(ix, bodyEnv, st[2:], func(e string) string {
			e2 := bodyEnv.clone()
			e2.add(vname, st[2:], 1)
			return "(let " + vname + " : " + t.coqType(l.value, st[2:]) + " := " + e + " in\n" + inner(e2) + ")"
		})
	} else {
		bodyT = inner(bodyEnv)
	}
	cond := func(thenT string) string {
		if !t.mayPanic(l.condE, evBody) {
			return "(if " + t.pure(l.condE, evBody, "bool") + "\n    then " + thenT + "\n    else " + callAfter(nil) + ")"
		}
		jc := t.join()
		return "(let " + jc + " := fun (c' : bool) (w : " + t.worldT() + ") => (if c' then " + thenT + " else " + callAfter(nil) + ") in\n" +
			t.exprK(l.condE, evBody, "bool", func(c string) string { return jc + " " + c + " w" }) + ")"
	}
	t.emit(loopName, "Fixpoint "+loopName+t.idParams()+t.params(fixed)+" (fuel : nat)"+cpar+t.params(carried)+" (w : "+t.worldT()+") {struct fuel}\n  : "+t.resType()+" :=\n"+
		"  match fuel with\n"+
		"  | O => "+cond("(OutOfFuel, w)")+"\n"+
		"  | S fuel' => "+cond(bodyT)+"\n  end.")
	start := ""
	if l.counter != "" {
		start = " " + l.lo
	}
	return loopName + t.idNames() + names(fixed) + " " + l.fuel + start + names(carried) + " w"
}

// for i < B && rest { ...; i++ }  (no init, no post): i is a variable declared before the loop
func (t *translator) whileStmt(x *ast.ForStmt, rest []ast.Stmt, ev *env, k func(*env) string) string {
	first := x.Cond
	for {
		b, ok := first.(*ast.BinaryExpr)
		if ok && b.Op == token.LAND {
			first = b.X
			continue
		}
		if p, isP := first.(*ast.ParenExpr); isP {
			first = p.X
			continue
		}
		break
	}
	cmp, ok := first.(*ast.BinaryExpr)
	if !ok || (cmp.Op != token.LSS && cmp.Op != token.LEQ) {
		unsup(x, "loop without init/post whose condition does not start with `i < bound`")
	}
	ci, ok := cmp.X.(*ast.Ident)
	if !ok || ev.index[ci.Name] == nil || ev.index[ci.Name].typ != "int" {
		unsup(x, "loop without init/post whose condition does not start with `i < bound`")
	}
	if t.mayPanic(cmp.Y, ev) {
		unsup(x, "loop bound that can panic")
	}
	// the body must end in i++ and assign i nowhere else; no continue (it would skip the increment)
	nb := len(x.Body.List)
	if nb == 0 {
		unsup(x, "loop without init/post and without body")
	}
	inc, ok := x.Body.List[nb-1].(*ast.IncDecStmt)
	if id, isId := inc.X.(*ast.Ident); !ok || inc == nil || !isId || id.Name != ci.Name || inc.Tok != token.INC {
		unsup(x, "loop without init/post whose body does not end in %s++", ci.Name)
	}
	count := 0
	ast.Inspect(x.Body, func(n ast.Node) bool {
		switch s := n.(type) {
		case *ast.AssignStmt:
			for _, lh := range s.Lhs {
				if id, isId := lh.(*ast.Ident); isId && id.Name == ci.Name {
					count += 2
				}
			}
		case *ast.IncDecStmt:
			if id, isId := s.X.(*ast.Ident); isId && id.Name == ci.Name {
				count++
			}
		case *ast.BranchStmt:
			if s.Tok == token.CONTINUE {
				count += 2
			}
		}
		return true
	})
	if count != 1 {
		unsup(x, "loop without init/post that assigns %s more than once or uses continue", ci.Name)
	}
	carried := assigned(x.Body.List, ev)
	fuel := "(Z.to_nat (" + t.pure(cmp.Y, ev, "int") + " - " + t.pure(ci, ev, "int") + "))"
	if cmp.Op == token.LEQ {
		fuel = "(Z.to_nat (" + t.pure(cmp.Y, ev, "int") + " - " + t.pure(ci, ev, "int") + " + 1))"
	}
	return t.fuelLoop(&fuelLoop{node: x, fuel: fuel, condE: x.Cond, body: x.Body.List}, carried, rest, ev, k)
}

// for i := range xs / for i, v := range xs: the length is taken once, before the loop
func (t *translator) rangeIndexStmt(x *ast.RangeStmt, rest []ast.Stmt, ev *env, k func(*env) string) string {
	ki := x.Key.(*ast.Ident)
	cname := checkName(ki)
	if _, dup := ev.index[cname]; dup {
		unsup(ki, "loop variable %s shadows another variable", cname)
	}
	if t.mayPanic(x.X, ev) {
		unsup(x.X, "ranged expression that can panic")
	}
	xt := t.typeOf(x.X, ev)
	if !strings.HasPrefix(xt, "[]") {
		unsup(x.X, "range over a %s", xt)
	}
	if _, isId := x.X.(*ast.Ident); !isId {
		// the ranged expression is evaluated once: name it
		xn := t.fresh("xs")
		e1 := ev.clone()
		e1.add(xn, xt, 1)
		x2 := *x
		x2.X = ast.NewIdent(xn)
		return "(let " + xn + " : " + t.coqType(x, xt) + " := " + t.pure(x.X, ev, xt) + " in\n" + t.rangeIndexStmt(&x2, rest, e1, k) + ")"
	}
	var val *ast.Ident
	if x.Value != nil {
		v, ok := x.Value.(*ast.Ident)
		if !ok {
			unsup(x, "range loop")
		}
		if v.Name != "_" {
			val = v
		}
	}
	// the length before the loop: a fresh invariant variable
	nn := t.fresh("n")
	e2 := ev.clone()
	nv := e2.add(nn, "int", 1)
	lenT := t.pure(&ast.CallExpr{Fun: ast.NewIdent("len"), Args: []ast.Expr{x.X}}, ev, "int")
	evL := e2
	carried := assigned(x.Body.List, evL)
	var cs []*variable
	for _, v := range carried {
		if v.name != cname && (val == nil || v.name != val.Name) {
			cs = append(cs, v)
		}
	}
	cond := &ast.BinaryExpr{X: ast.NewIdent(cname), Op: token.LSS, Y: ast.NewIdent(nn)}
	call := t.fuelLoop(&fuelLoop{node: x, counter: cname, lo: "0", step: 1, fuel: "(Z.to_nat (" + nn + " - 0))", condE: cond,
		body: x.Body.List, extra: []*variable{nv}, value: val, seq: x.X}, cs, rest, evL, k)
	return "(let " + nn + " : Z := " + lenT + " in\n" + call + ")"
}

func (t *translator) emit(name, def string) {
	t.out = append(t.out, def)
	t.names = append(t.names, name)
}

// ---- functions

// peel `return func(...) ... { ... }` / `return Conv(func(...) ... { ... })` layers
func (t *translator) function(fd *ast.FuncDecl, spec fnSpec) {
	t.fn = fd.Name.Name
	if spec.as != "" {
		t.fn = spec.as
	}
	typeInst = spec.inst
	t.ids = map[string]bool{}
	t.idList = spec.ids
	for _, n := range spec.ids {
		t.ids[n] = true
	}
	t.nJoin, t.nLoop, t.nTmp = 0, 0, 0
	ev := newEnv()
	t.pars = nil
	addParams := func(fl *ast.FieldList) {
		if fl == nil {
			return
		}
		for _, f := range fl.List {
			declared := typeString(f.Type)
			if len(f.Names) == 0 {
				unsup(f, "unnamed parameter")
			}
			for _, n := range f.Names {
				if n.Name == "_" {
					continue
				}
				typ := declared
				if o, isO := spec.ptypes[n.Name]; isO {
					typ = o
				}
				name := checkName(n)
				if t.erased(typ) {
					// kept in the environment (so that calls through it resolve), not in the signature
					ev.add(name, typ, 2)
					continue
				}
				t.coqType(n, typ)
				t.pars = append(t.pars, ev.add(name, typ, 0))
			}
		}
	}
	if fd.Recv != nil {
		addParams(fd.Recv)
	}
	if fd.Type.TypeParams != nil {
		for _, f := range fd.Type.TypeParams.List {
			for _, n := range f.Names {
				if _, ok := spec.inst[n.Name]; !ok && !t.ids[n.Name] {
					unsup(fd, "generic function (type parameter %s has no instantiation in the area table)", n.Name)
				}
			}
		}
	}
	addParams(fd.Type.Params)
	var dropped []bool
	if fd.Type.Params != nil {
		for _, f := range fd.Type.Params.List {
			typ := typeString(f.Type)
			for _, n := range f.Names {
				if o, isO := spec.ptypes[n.Name]; isO {
					dropped = append(dropped, t.erased(o))
				} else {
					dropped = append(dropped, t.erased(typ) || n.Name == "_")
				}
			}
		}
	}
	body := fd.Body.List
	if spec.from != "" {
		body = t.tailFrom(fd, spec, ev)
	}
	t.defers = nil
	results := fd.Type.Results
	var prefix []ast.Stmt
	for {
		if len(body) == 0 {
			break
		}
		r, ok := body[len(body)-1].(*ast.ReturnStmt)
		if !ok || len(r.Results) != 1 {
			break
		}
		var fl *ast.FuncLit
		switch e := r.Results[0].(type) {
		case *ast.FuncLit:
			fl = e
		case *ast.CallExpr:
			if len(e.Args) == 1 {
				if f, isF := e.Args[0].(*ast.FuncLit); isF {
					if _, isPrim := t.a.prims[exprKey(e.Fun)]; !isPrim {
						fl = f // a conversion to a named function type
					}
				}
			}
		}
		if fl == nil {
			break
		}
		// statements before `return func...` run when the closure is built; they are
		// kept as a prefix of the body (they may not use primitives)
		for _, s := range body[:len(body)-1] {
			ast.Inspect(s, func(n ast.Node) bool {
				if c, isCall := n.(*ast.CallExpr); isCall {
					if id, isId := c.Fun.(*ast.Ident); !(isId && id.Name == "len") {
						unsup(c, "call in code that runs when the closure is built")
					}
				}
				return true
			})
			prefix = append(prefix, s)
		}
		addParams(fl.Type.Params)
		body = fl.Body.List
		results = fl.Type.Results
	}
	t.ret = nil
	if results != nil {
		for _, f := range results.List {
			if len(f.Names) > 0 {
				unsup(f, "named results")
			}
			t.ret = append(t.ret, typeString(f.Type))
		}
	}
	for _, r := range t.ret {
		t.coqType(results, r)
	}
	// record parameters assigned through (r.f = e): their final value is returned too
	t.outs = nil
	written := map[string]bool{}
	for _, st := range append(append([]ast.Stmt{}, prefix...), body...) {
		ast.Inspect(st, func(n ast.Node) bool {
			if a, isA := n.(*ast.AssignStmt); isA {
				for _, l := range a.Lhs {
					if sel, isSel := l.(*ast.SelectorExpr); isSel {
						if id, isId := sel.X.(*ast.Ident); isId {
							written[id.Name] = true
						}
					}
					if st, isStar := l.(*ast.StarExpr); isStar {
						if id, isId := st.X.(*ast.Ident); isId {
							written[id.Name] = true
						}
					}
				}
			}
			return true
		})
	}
	for _, p := range t.pars {
		if written[p.name] && (t.a.records[p.typ] != nil || t.a.cells[p.typ] != "") {
			t.outs = append(t.outs, p)
		}
	}
	// a function that only tests and returns panic-free expressions is a plain Gallina function
	if len(t.ret) == 1 && len(t.outs) == 0 && len(t.idList) == 0 && len(prefix) == 0 {
		if term, ok := t.pureBody(body, ev); ok {
			sg := &signature{pure: true, results: t.ret, recv: recvBase(fd), drop: dropped}
			for _, p := range t.pars {
				sg.params = append(sg.params, p.typ)
			}
			if t.sigs == nil {
				t.sigs = map[string]*signature{}
			}
			t.sigs[t.fn] = sg
			t.emit(t.fn, "Definition "+t.fn+t.params(t.pars)+" : "+t.coqType(fd, t.ret[0])+" :=\n"+term+".")
			return
		}
	}
	t.emit(t.fn+"_ret", "Definition "+t.fn+"_ret : Type := "+t.retType()+".")
	all := append(append([]ast.Stmt{}, prefix...), body...)
	t.reassigned = map[string]bool{}
	for _, st := range all {
		ast.Inspect(st, func(n ast.Node) bool {
			switch a := n.(type) {
			case *ast.AssignStmt:
				if a.Tok != token.DEFINE {
					for _, l := range a.Lhs {
						if id, isId := l.(*ast.Ident); isId {
							t.reassigned[id.Name] = true
						}
						if ix, isIx := l.(*ast.IndexExpr); isIx {
							if id, isId := ix.X.(*ast.Ident); isId {
								t.reassigned[id.Name] = true
							}
						}
					}
				}
			case *ast.IncDecStmt:
				if id, isId := a.X.(*ast.Ident); isId {
					t.reassigned[id.Name] = true
				}
			case *ast.ExprStmt:
				if c, isCall := a.X.(*ast.CallExpr); isCall && len(c.Args) == 1 && t.a.muts[exprKey(c.Fun)] != "" {
					if id, isId := c.Args[0].(*ast.Ident); isId {
						t.reassigned[id.Name] = true
					}
				}
				if c, isCall := a.X.(*ast.CallExpr); isCall {
					if sel, isSel := c.Fun.(*ast.SelectorExpr); isSel {
						if id, isId := sel.X.(*ast.Ident); isId {
							for k := range t.a.lmuts {
								if strings.HasSuffix(k, "."+sel.Sel.Name) {
									t.reassigned[id.Name] = true
								}
							}
						}
					}
				}
				if c, isCall := a.X.(*ast.CallExpr); isCall && len(c.Args) == 1 {
					if _, isVar := c.Fun.(*ast.Ident); isVar {
						if id, isId := c.Args[0].(*ast.Ident); isId {
							t.reassigned[id.Name] = true
						}
					}
				}
			}
			return true
		})
	}
	end := func(e2 *env) string {
		if len(t.ret) == 0 {
			return t.withDefers(e2, func() string { return t.returned(nil) })
		}
		return "(OutOfFuel, w)" // unreachable: Go rejects a missing return
	}
	term := t.block(all, ev, nil, true, end)
	sg := &signature{results: t.ret, nouts: len(t.outs), ids: len(t.idList), recv: recvBase(fd), drop: dropped}
	for _, p := range t.pars {
		sg.params = append(sg.params, p.typ)
	}
	if t.sigs == nil {
		t.sigs = map[string]*signature{}
	}
	t.sigs[t.fn] = sg
	t.emit(t.fn, "Definition "+t.fn+t.idParams()+t.params(t.pars)+" (w : "+t.worldT()+")\n  : "+t.resType()+" :=\n"+term+".")
}

// `if c { return e }` ... `return e` with panic-free expressions and no primitive that touches the world
func (t *translator) pureBody(stmts []ast.Stmt, ev *env) (term string, ok bool) {
	defer func() {
		if r := recover(); r != nil {
			if _, isU := r.(unsupported); isU {
				term, ok = "", false
				return
			}
			panic(r)
		}
	}()
	var go1 func(ss []ast.Stmt) string
	go1 = func(ss []ast.Stmt) string {
		if len(ss) == 0 {
			unsup(nil, "not a pure body")
		}
		switch x := ss[0].(type) {
		case *ast.ReturnStmt:
			if len(x.Results) != 1 || t.mayPanic(x.Results[0], ev) {
				unsup(x, "not a pure body")
			}
			return t.pure(x.Results[0], ev, t.ret[0])
		case *ast.IfStmt:
			if x.Init != nil || x.Else != nil || t.mayPanic(x.Cond, ev) || !terminates(x.Body.List) {
				unsup(x, "not a pure body")
			}
			return "(if " + t.pure(x.Cond, ev, "bool") + " then " + go1(x.Body.List) + " else " + go1(ss[1:]) + ")"
		}
		unsup(ss[0], "not a pure body")
		return ""
	}
	return go1(stmts), true
}

func exprKey(e ast.Expr) string {
	switch f := e.(type) {
	case *ast.Ident:
		return f.Name
	case *ast.SelectorExpr:
		if id, ok := f.X.(*ast.Ident); ok {
			return id.Name + "." + f.Sel.Name
		}
	}
	return ""
}

func main() {
	repo := flag.String("repo", "/repo", "checkout to translate from")
	areaName := flag.String("area", "retry", "which functions (retry | ...)")
	outDir := flag.String("o", ".", "output directory")
	flag.Parse()
	a, ok := areas[*areaName]
	if !ok {
		fmt.Fprintf(os.Stderr, "go2gallina: unknown area %s\n", *areaName)
		os.Exit(1)
	}
	code := 0
	func() {
		defer func() {
			if r := recover(); r != nil {
				if u, isU := r.(unsupported); isU {
					fmt.Fprintf(os.Stderr, "go2gallina: unsupported: %s\n", u.msg)
					code = 2
					return
				}
				if _, isExit := r.(exitNow); isExit {
					code = 1
					return
				}
				panic(r)
			}
		}()
		t := &translator{a: a}
		curArea = a
		var done []string
		files := map[string]*ast.File{}
		started, finished := map[string]bool{}, map[string]bool{}
		for _, fs := range a.funcs {
			started[fs.name] = true // a root is never translated as somebody's helper
		}
		var process func(fs fnSpec)
		process = func(fs fnSpec) {
			started[fs.name] = true
			f, seen := files[fs.file]
			if !seen {
				var err error
				mode := parser.SkipObjectResolution
				if a.shadow {
					mode = 0 // identifiers resolved to their declarations: renameShadows needs them
				}
				f, err = parser.ParseFile(fset, filepath.Join(*repo, fs.file), nil, mode)
				if err != nil {
					fmt.Fprintf(os.Stderr, "go2gallina: %v\n", err)
					panic(exitNow{})
				}
				files[fs.file] = f
			}
			t.consts = map[string]string{}
			t.strConsts = map[string]bool{}
			t.dir = filepath.Dir(filepath.Join(*repo, fs.file))
			var declFiles []*ast.File
			declFiles = append(declFiles, t.pkgFiles()...)
			for _, pf := range declFiles {
				for _, d := range pf.Decls {
					if gd, isG := d.(*ast.GenDecl); isG && gd.Tok == token.CONST {
						for _, sp := range gd.Specs {
							vs := sp.(*ast.ValueSpec)
							for i, n := range vs.Names {
								if i < len(vs.Values) {
									if l, isLit := vs.Values[i].(*ast.BasicLit); isLit && l.Kind == token.STRING {
										if v, err := strconv.Unquote(l.Value); err == nil && isPrintable(v) {
											t.consts[n.Name] = "\"" + strings.ReplaceAll(v, "\"", "\"\"") + "\"%string"
											t.strConsts[n.Name] = true
										}
									}
								}
							}
						}
					}
				}
			}
			for _, d := range f.Decls {
				if gd, isG := d.(*ast.GenDecl); isG && gd.Tok == token.CONST {
					for _, sp := range gd.Specs {
						vs := sp.(*ast.ValueSpec)
						for i, n := range vs.Names {
							if i < len(vs.Values) {
								if l, isLit := vs.Values[i].(*ast.BasicLit); isLit && l.Kind == token.INT {
									if v, err := strconv.ParseInt(l.Value, 0, 64); err == nil {
										t.consts[n.Name] = strconv.FormatInt(v, 10)
									}
								}
							}
						}
					}
				}
			}
			var fd *ast.FuncDecl
			for _, d := range f.Decls {
				if x, isF := d.(*ast.FuncDecl); isF && funcName(x) == fs.name {
					fd = x
				}
			}
			if fd == nil || fd.Body == nil {
				unsup(nil, "function %s not found in %s", fs.name, fs.file)
			}
			t.dir = filepath.Dir(filepath.Join(*repo, fs.file))
			if a.shadow {
				renameShadows(fd)
			}
			saveConsts, saveStr, saveDir := t.consts, t.strConsts, t.dir
			// stage 8: helpers of the same package are inlined where the syntax allows it ...
			t.inlineHelpers(fd, fs)
			// ... and the others are translated first
			// (the call graph is followed from the area's roots; a recursive helper is outside the subset)
			for _, h := range t.helperCallees(fd, fs) {
				if started[h.name] {
					if !finished[h.name] {
						unsup(fd, "recursive helper %s", h.name)
					}
					continue
				}
				process(h)
			}
			// the callee's translation has reset the per-file state
			t.consts, t.strConsts, t.dir = saveConsts, saveStr, saveDir
			t.function(fd, fs)
			t.auditFresh(fd.Name.Name)
			done = append(done, fs.name)
			finished[fs.name] = true
		}
		for _, fs := range a.funcs {
			process(fs)
		}
		var b strings.Builder
		var srcs []string
		for f := range files {
			srcs = append(srcs, f)
		}
		sort.Strings(srcs)
		b.WriteString("(* generated by harness/go/cmd/go2gallina (area " + a.name + ") from " + strings.Join(srcs, ", ") + " -- never committed, never edited *)\n")
		for _, h := range a.header {
			b.WriteString(h + "\n")
		}
		b.WriteString("Import ListNotations.\nLocal Open Scope Z_scope.\n\n")
		for _, l := range a.section {
			b.WriteString(l + "\n")
		}
		for _, d := range t.out {
			b.WriteString(d + "\n\n")
		}
		for _, l := range a.footer {
			b.WriteString(l + "\n")
		}
		path := filepath.Join(*outDir, a.module+".v")
		if err := os.WriteFile(path, []byte(b.String()), 0o644); err != nil {
			fmt.Fprintf(os.Stderr, "go2gallina: %v\n", err)
			code = 1
			return
		}
		js, _ := json.Marshal(map[string]any{"area": a.name, "file": path, "functions": done, "definitions": t.names})
		fmt.Println(string(js))
	}()
	os.Exit(code)
}

type exitNow struct{}

func funcName(fd *ast.FuncDecl) string {
	if fd.Recv != nil && len(fd.Recv.List) == 1 {
		rt := fd.Recv.List[0].Type
		if s, ok := rt.(*ast.StarExpr); ok {
			rt = s.X
		}
		if id, ok := rt.(*ast.Ident); ok {
			return id.Name + "." + fd.Name.Name
		}
	}
	return fd.Name.Name
}
