// Stage 5 of the translation tie: ANALYSIS code of the generators (docs/translator.md,
// "Store discipline").  What is new with respect to the runtime areas:
//
//   - a receiver whose whole state IS the world (area.wrecv): `g` is erased, `g.f` is a
//     term over w, `g.f = e` / `g.m[k] = v` / `g.set.Adds(x)` are world updates;
//   - pointers that are LOCATIONS in the world (area.stores): `p.f` is `(get_f p w)`,
//     `p.f = e` is `let w := set_f p e w`; a variable of such a type is never "assigned"
//     by a write through it;
//   - primitives that read the world inside expressions (prim.reads);
//   - nested `for _, x := range xs` loops: the inner loop is its own Fixpoint that returns
//     its loop-carried variables; `return` inside it is refused;
//   - methods: value-receiver methods that are pure bodies (`Field.MatchingName`) and
//     methods of the world-backed receiver (`g.makeFuncMap(f1, f2)`), also as statements.
package main

import (
	"go/ast"
	"go/token"
	"strconv"
	"strings"
)

// a field of a world-backed receiver
type wfield struct {
	get string // term over w
	typ string // Go type
	set string // (set v w): "" = read-only
}

// a pointer to a slice that lives in the world
type wderef struct {
	get string // *p: term over w
	typ string // Go type of *p
	app string // *p = append(*p, x): (app x w)
}

// *p = append(*p, x)
func (t *translator) worldAppend(x *ast.AssignStmt, name string, d wderef, ev *env, cont func(*env) string) string {
	c, ok := x.Rhs[0].(*ast.CallExpr)
	if !ok || exprKey(c.Fun) != "append" || len(c.Args) != 2 || c.Ellipsis != token.NoPos {
		unsup(x, "assignment through %s that is not *%s = append(*%s, x)", name, name, name)
	}
	st, isStar := c.Args[0].(*ast.StarExpr)
	if !isStar {
		unsup(x, "assignment through %s that is not *%s = append(*%s, x)", name, name, name)
	}
	if id, isId := st.X.(*ast.Ident); !isId || id.Name != name {
		unsup(x, "assignment through %s that is not *%s = append(*%s, x)", name, name, name)
	}
	if t.mayPanic(c.Args[1], ev) {
		unsup(c.Args[1], "appended value that can panic")
	}
	if at := t.typeOf(c.Args[1], ev); "[]"+at != d.typ {
		unsup(c.Args[1], "append of a %s to a %s", at, d.typ)
	}
	return "(let w := " + d.app + " " + t.pure(c.Args[1], ev, "") + " w in\n" + cont(ev) + ")"
}

// the store discipline of an area may rest on "this pointer argument is a fresh object": audited over every
// call of the function in its package (syntactically: the argument must be &T{...})
func (t *translator) auditFresh(fn string) {
	ix, ok := t.a.fresh[fn]
	if !ok {
		return
	}
	for _, f := range t.pkgFiles() {
		ast.Inspect(f, func(n ast.Node) bool {
			c, isCall := n.(*ast.CallExpr)
			if !isCall {
				return true
			}
			if id, isId := c.Fun.(*ast.Ident); !isId || id.Name != fn {
				return true
			}
			if ix >= len(c.Args) {
				unsup(c, "call of %s with too few arguments", fn)
			}
			u, isU := c.Args[ix].(*ast.UnaryExpr)
			if isU && u.Op == token.AND {
				if _, isLit := u.X.(*ast.CompositeLit); isLit {
					return true
				}
			}
			unsup(c, "call of %s whose argument %d is not a fresh &T{...} (the store discipline of area %s assumes the object is new)", fn, ix+1, t.a.name)
			return true
		})
	}
}

// the area being translated (for helpers that have no translator at hand)
var curArea *area

func recvBase(fd *ast.FuncDecl) string {
	if fd.Recv == nil || len(fd.Recv.List) != 1 {
		return ""
	}
	rt := fd.Recv.List[0].Type
	if s, ok := rt.(*ast.StarExpr); ok {
		rt = s.X
	}
	if id, ok := rt.(*ast.Ident); ok {
		return id.Name
	}
	return ""
}

// g.a.b for a variable g of a world-backed receiver type: "<type of g>.a.b" ("" otherwise, and for g.a)
func (t *translator) pathKey(e ast.Expr, ev *env) string {
	var names []string
	for {
		sel, ok := e.(*ast.SelectorExpr)
		if !ok {
			break
		}
		names = append([]string{sel.Sel.Name}, names...)
		e = sel.X
	}
	id, ok := e.(*ast.Ident)
	if !ok || len(names) == 0 {
		return ""
	}
	v, isVar := ev.index[id.Name]
	if !isVar || t.a.wrecv[v.typ] == nil {
		return ""
	}
	if len(names) == 1 {
		if _, isField := t.a.wrecv[v.typ][names[0]]; !isField {
			return "" // a method of the receiver
		}
	}
	return v.typ + "." + strings.Join(names, ".")
}

// does the value of e depend on the current world?
func (t *translator) readsWorld(e ast.Expr, ev *env) bool {
	if len(t.a.stores) == 0 && len(t.a.wrecv) == 0 {
		return false
	}
	found := false
	ast.Inspect(e, func(n ast.Node) bool {
		switch x := n.(type) {
		case *ast.SelectorExpr:
			xt := t.typeOfSafe(x.X, ev)
			if t.a.stores[xt] != nil || t.a.wrecv[xt] != nil {
				found = true
			}
		case *ast.CallExpr:
			if t.pathKey(x.Fun, ev) != "" {
				found = true
			}
			if p, ok := t.a.prims[exprKey(x.Fun)]; ok && (p.reads || p.world) {
				found = true
			}
			if _, sg := t.sigOf(x, ev); sg != nil && !sg.pure {
				found = true
			}
		}
		return true
	})
	return found
}

// x.M(args) where M is a translated pure function declared as a method of x's (base) type
func (t *translator) pureMethodSig(c *ast.CallExpr, ev *env) (string, *signature) {
	sel, ok := c.Fun.(*ast.SelectorExpr)
	if !ok {
		return "", nil
	}
	sg, isFn := t.sigs[sel.Sel.Name]
	if !isFn || !sg.pure || sg.recv == "" {
		return "", nil
	}
	if id, isId := sel.X.(*ast.Ident); isId {
		if _, isVar := ev.index[id.Name]; !isVar {
			return "", nil // package selector
		}
	}
	xt := t.typeOfSafe(sel.X, ev)
	if strings.TrimPrefix(xt, "*") != sg.recv {
		return "", nil
	}
	return sel.Sel.Name, sg
}

func (t *translator) pureMethodCall(c *ast.CallExpr, ev *env) (string, bool) {
	name, sg := t.pureMethodSig(c, ev)
	if sg == nil {
		return "", false
	}
	sel := c.Fun.(*ast.SelectorExpr)
	xt := t.typeOf(sel.X, ev)
	if len(c.Args)+1 != len(sg.params) {
		unsup(c, "call of method %s with %d arguments", name, len(c.Args))
	}
	var recv string
	switch {
	case xt == sg.params[0]:
		recv = t.pure(sel.X, ev, xt)
	case t.a.loads[xt] != "" && xt == "*"+sg.params[0]:
		recv = "(" + t.a.loads[xt] + " " + t.pure(sel.X, ev, xt) + " w)" // the object the location holds now
	default:
		unsup(c, "method %s called on a %s", name, xt)
	}
	call := "(" + name + " " + recv
	for i, a := range c.Args {
		if t.mayPanic(a, ev) {
			unsup(a, "argument that can panic")
		}
		call += " " + t.pure(a, ev, sg.params[i+1])
	}
	return call + ")", true
}

// p.f = e on a location, g.f = e on the world-backed receiver: `let w := <set> e w`
func (t *translator) worldAssign(x *ast.AssignStmt, set, typ string, ev *env, cont func(*env) string) string {
	rhs := x.Rhs[0]
	if t.mayPanic(rhs, ev) {
		// the value first (its outcome is propagated, the world it leaves is the one written to)
		if _, isOpt := t.a.optOf[typ]; isOpt {
			unsup(x, "assignment into the world of an expression that can panic")
		}
		return t.exprK(rhs, ev, typ, func(v string) string {
			return "(let w := " + set + " " + v + " w in\n" + cont(ev) + ")"
		})
	}
	val := t.pure(rhs, ev, typ)
	if base, isOpt := t.a.optOf[typ]; isOpt && !isNil(rhs) {
		if vt := t.typeOf(rhs, ev); vt == base {
			val = "(Some " + val + ")"
		} else if vt != typ {
			unsup(x, "assignment of a %s where a %s is stored", vt, typ)
		}
	}
	return "(let w := " + set + " " + val + " w in\n" + cont(ev) + ")"
}

// for _, v := range xs { body } inside another loop (or inside a block): its own Fixpoint, which
// returns the variables the body assigns; break leaves it, continue goes on; return is refused
func (t *translator) innerRange(x *ast.RangeStmt, ev *env, cont func(*env) string) string {
	if x.Tok != token.DEFINE {
		unsup(x, "range loop that assigns to existing variables")
	}
	pm, isPairs := t.a.pairmaps[t.typeOfSafe(x.X, ev)]
	kname := ""
	if kid, ok := x.Key.(*ast.Ident); !ok || kid.Name != "_" {
		if !isPairs || !ok {
			unsup(x, "nested range loop that uses the index")
		}
		kname = checkName(kid)
		if _, dup := ev.index[kname]; dup {
			unsup(kid, "loop variable %s shadows another variable", kname)
		}
	}
	vid, ok := x.Value.(*ast.Ident)
	if !ok || x.Value == nil {
		unsup(x, "nested range loop without a value variable")
	}
	if len(t.idList) > 0 {
		unsup(x, "nested loop in a function with type-id parameters")
	}
	vname := checkName(vid)
	if _, dup := ev.index[vname]; dup {
		unsup(vid, "loop variable %s shadows another variable", vname)
	}
	if t.mayPanic(x.X, ev) {
		unsup(x.X, "ranged expression that can panic")
	}
	xt := t.typeOf(x.X, ev)
	elemT := ""
	if isPairs {
		elemT = pm[1]
	} else {
		if !strings.HasPrefix(xt, "[]") {
			unsup(x.X, "range over a %s", xt)
		}
		elemT = xt[2:]
	}
	evVar := ev.nest()
	evVar.add(vname, elemT, 1)
	if kname != "" {
		evVar.add(kname, pm[0], 1)
	}
	var carried []*variable
	for _, v := range assigned(x.Body.List, evVar) {
		if v.name != vname && v.name != kname {
			carried = append(carried, v)
		}
	}
	for _, v := range carried {
		if used([]ast.Node{x.X})[v.name] {
			unsup(x, "ranged slice depends on %s, which the body assigns", v.name)
		}
	}
	t.nLoop++
	loopName := t.fn + "_loop" + strconv.Itoa(t.nLoop)
	use := used([]ast.Node{x.Body})
	redecl := t.redeclared([]ast.Node{x.Body})
	isCarried := map[string]bool{}
	for _, v := range carried {
		isCarried[v.name] = true
	}
	var fixed []*variable
	for _, v := range t.pars {
		if !isCarried[v.name] {
			fixed = append(fixed, v)
		}
	}
	isPar := map[*variable]bool{}
	for _, v := range t.pars {
		isPar[v] = true
	}
	for _, v := range ev.vars {
		if v.kind == 1 && !isPar[v] && !isCarried[v.name] && use[v.name] && ev.index[v.name] == v && !redecl[v.name] {
			fixed = append(fixed, v)
		}
	}
	stT, pat := "unit", "tt"
	if len(carried) == 1 {
		stT, pat = t.coqType(x, carried[0].typ), carried[0].name
	} else if len(carried) > 1 {
		var ts, ns []string
		for _, v := range carried {
			ts = append(ts, t.coqType(x, v.typ))
			ns = append(ns, v.name)
		}
		stT, pat = "("+strings.Join(ts, " * ")+")%type", "("+strings.Join(ns, ", ")+")"
	}
	done := "(Returned " + pat + ", w)"
	lc := &loopCtx{
		next: func(*env) string { return loopName + names(fixed) + " rest'" + names(carried) + " w" },
		exit: func(*env) string { return done },
	}
	evBody := ev.nest()
	evBody.add(vname, elemT, 1)
	vpat := vname
	if isPairs {
		kp := "_"
		if kname != "" {
			evBody.add(kname, pm[0], 1)
			kp = kname
		}
		vpat = "(" + kp + ", " + vname + ")"
	}
	t.inner++
	bodyT := t.block(x.Body.List, evBody.clone(), lc, false, func(*env) string { return lc.next(nil) })
	t.inner--
	t.emit(loopName, "Fixpoint "+loopName+t.params(fixed)+" (xs' : "+t.coqType(x, xt)+")"+t.params(carried)+" (w : "+t.worldT()+") {struct xs'}\n  : outcome "+stT+" * "+t.worldT()+" :=\n"+
		"  match xs' with\n  | nil => "+done+"\n  | cons "+vpat+" rest' =>\n"+bodyT+"\n  end.")
	pv := t.fresh("p")
	return "(match " + loopName + names(fixed) + " " + t.pure(x.X, ev, xt) + names(carried) + " w with\n | (Returned " + pat + ", w) =>\n" + cont(ev) +
		"\n | (Panicked " + pv + ", w) => (Panicked " + pv + ", w)\n | (OutOfFuel, w) => (OutOfFuel, w)\n end)"
}

func selectorChain(e ast.Expr) bool {
	switch v := e.(type) {
	case *ast.Ident:
		return true
	case *ast.SelectorExpr:
		return selectorChain(v.X)
	}
	return false
}

// switch { case c1: A  case c2: B  default: C }  is  if c1 { A } else if c2 { B } else { C }
// (no tag, no init, no fallthrough, no break inside: Go's break would leave the switch)
func (t *translator) switchAsIf(x *ast.SwitchStmt) ast.Stmt {
	if x.Init != nil {
		unsup(x, "switch with an init statement")
	}
	if x.Tag != nil && !selectorChain(x.Tag) {
		// switch tag { case v: } is  if tag == v { }: the tag is repeated, so it must be a variable or a field path
		unsup(x, "switch on a tag that is not a variable or a field path")
	}
	var clauses []*ast.CaseClause
	var deflt *ast.CaseClause
	for _, st := range x.Body.List {
		cc := st.(*ast.CaseClause)
		ast.Inspect(cc, func(n ast.Node) bool {
			switch b := n.(type) {
			case *ast.BranchStmt:
				if b.Tok == token.BREAK || b.Tok == token.FALLTHROUGH {
					unsup(b, "%s inside a switch", b.Tok)
				}
			case *ast.ForStmt, *ast.RangeStmt, *ast.FuncLit:
				return false
			}
			return true
		})
		if cc.List == nil {
			deflt = cc
			continue
		}
		clauses = append(clauses, cc)
	}
	if deflt != nil && len(x.Body.List) > 0 && x.Body.List[len(x.Body.List)-1] != ast.Stmt(deflt) {
		unsup(deflt, "default clause that is not the last one")
	}
	var els ast.Stmt
	if deflt != nil {
		els = &ast.BlockStmt{List: deflt.Body}
	}
	for i := len(clauses) - 1; i >= 0; i-- {
		cc := clauses[i]
		test := func(c ast.Expr) ast.Expr {
			if x.Tag == nil {
				return c
			}
			return &ast.BinaryExpr{X: x.Tag, Op: token.EQL, Y: c, OpPos: c.Pos()}
		}
		cond := test(cc.List[0])
		for _, c := range cc.List[1:] {
			cond = &ast.BinaryExpr{X: cond, Op: token.LOR, Y: test(c), OpPos: c.Pos()}
		}
		els = &ast.IfStmt{If: cc.Pos(), Cond: cond, Body: &ast.BlockStmt{List: cc.Body}, Else: els}
	}
	if els == nil {
		return &ast.EmptyStmt{}
	}
	return els
}

func init() {
	areas["cliselect"] = &area{
		name:   "cliselect",
		module: "CliSelectGen",
		header: []string{
			"From Coq Require Import ZArith List Bool String.",
			"From Shoot Require Import Base.Str Model.Cli Bridge.GoPrims Bridge.CliSelPrims.",
		},
		section: []string{
			"Section Gen.",
			"Variable getGoFile_o : string -> string.   (* getGoFile(g.pkg, T) *)",
			"Variable ListTypes_o : list string.         (* typeLister.ListTypes() *)",
			"",
		},
		footer: []string{"End Gen."},
		world:  "CliSelPrims.sworld",
		funcs: []fnSpec{
			{file: "internal/shoot/common.go", name: "Contains", inst: map[string]string{"T": "string"}},
			{file: "internal/shoot/generatorbase.go", name: "GeneratorBase.confirmTypes"},
			{file: "internal/shoot/generatorbase.go", name: "GeneratorBase.TestFile"},
		},
		types: map[string]string{
			"bool": "bool", "string": "string", "int": "Z", "[]string": "(list string)",
			"*GeneratorBase": "-", "TypeLister": "-", "*packages.Package": "-",
			"*CommonFlags": "CliSelPrims.sworld", "map[string]string": "(list (string * string))",
			"*ast.File": "(option string)", "token.Pos": "(option string)", "*token.File": "(option string)",
		},
		ptrs: map[string]bool{"*token.File": true},
		wrecv: map[string]map[string]wfield{
			"*GeneratorBase": {
				"isTypeSpecified": {get: "(CliSelPrims.sw_specified w)", typ: "bool"},
				"commonFlags":     {get: "w", typ: "*CommonFlags"},
				"pkg":             {get: "tt", typ: "*packages.Package"},
				"fileNameMap":     {get: "(CliSelPrims.sw_fmap w)", typ: "map[string]string"},
			},
		},
		records: map[string]map[string]recField{
			"*CommonFlags": {
				"TypeNames": {"CliSelPrims.sw_types", "", "[]string"},
				"FileName":  {"CliSelPrims.sw_file", "", "string"},
			},
		},
		wsets: map[string]string{"*GeneratorBase.commonFlags.TypeNames": "CliSelPrims.set_types"},
		wmaps: map[string]string{"*GeneratorBase.fileNameMap": "CliSelPrims.fmap_set"},
		prims: map[string]prim{
			"getGoFile":                    {coq: "getGoFile_o", args: []int{1}, results: []string{"string"}},
			"TypeLister.ListTypes":         {coq: "ListTypes_o", args: nil, results: []string{"[]string"}},
			"*ast.File.Pos":                {recv: true, coq: "CliSelPrims.file_pos", results: []string{"token.Pos"}},
			"*GeneratorBase.pkg.Fset.File": {coq: "CliSelPrims.fset_file", args: []int{0}, results: []string{"*token.File"}},
			"*token.File.Name":             {recv: true, coq: "CliSelPrims.tok_name", results: []string{"string"}},
			"filepath.Base":                {coq: "CliSelPrims.path_base", args: []int{0}, results: []string{"string"}},
		},
		fatals: map[string]bool{"logx.Fatalf": true},
		nilPan: "PNilDeref",
	}
}

func init() {
	cl := func(get, set, typ string) recField { return recField{"CtorPrims." + get, "CtorPrims." + set, typ} }
	areas["ctorshadow"] = &area{
		name:   "ctorshadow",
		module: "CtorShadowGen",
		header: []string{
			"From Coq Require Import ZArith List Bool String.",
			"From Shoot Require Import Base.Str Model.Ctor Bridge.GoPrims Bridge.CtorPrims.",
		},
		world: "CtorPrims.cworld",
		funcs: []fnSpec{
			{file: "internal/constructor/fields.go", name: "checkShadowAndAppend"},
		},
		types: map[string]string{
			"bool": "bool", "string": "string", "int": "Z", "int32": "Z",
			"*Field": "CtorPrims.cloc", "[]*Field": "(list CtorPrims.cloc)", "*[]*Field": "-",
		},
		ptrs: map[string]bool{},
		ints: map[string]bool{"int32": true},
		stores: map[string]map[string]recField{
			"*Field": {
				"name":       cl("get_name", "", "string"),
				"depth":      cl("get_depth", "", "int32"),
				"isShadowed": cl("get_isShadowed", "set_isShadowed", "bool"),
			},
		},
		wderefs: map[string]wderef{
			"*[]*Field": {get: "(CtorPrims.old_locs w)", typ: "[]*Field", app: "CtorPrims.append_cell"},
		},
		fresh:  map[string]int{"checkShadowAndAppend": 1},
		nilPan: "PNilDeref",
	}
}

func init() {
	loc := func(get, set, typ string) recField { return recField{"MapPrims." + get, "MapPrims." + set, typ} }
	areas["mapmatch"] = &area{
		name:   "mapmatch",
		module: "MapMatchGen",
		header: []string{
			"From Coq Require Import ZArith List Bool String.",
			"From Shoot Require Import Base.Str Model.Transfer Model.MapVal Model.Mapper Bridge.GoPrims Bridge.MapPrims.",
		},
		section: []string{
			"Section Gen.",
			"(* go/types oracles, as in Model/MapVal.v *)",
			"Variable TypeEquals : ty -> ty -> bool.        (* shoot.TypeEquals *)",
			"Variable ConvertibleTo : ty -> ty -> bool.     (* types.ConvertibleTo *)",
			"Variable isString : ty -> bool.                (* match.go isString: Underlying() is the basic type string *)",
			"Variable isFixedWidthInt : ty -> bool.         (* match.go isFixedWidthInt: a switch over the basic kind *)",
			"",
		},
		footer: []string{"End Gen."},
		world:  "MapPrims.world",
		funcs: []fnSpec{
			{file: "internal/mapper/types.go", name: "Field.MatchingName"},
			{file: "internal/mapper/match.go", name: "mayMisConv"},
			{file: "internal/mapper/match.go", name: "matchType"},
			{file: "internal/mapper/match.go", name: "canNameMatch"},
			{file: "internal/mapper/match.go", name: "Generator.makeTypeMatch"},
			{file: "internal/mapper/mismatch.go", name: "Generator.makeFuncMap"},
			{file: "internal/mapper/mismatch.go", name: "Generator.makeSubMap"},
			{file: "internal/mapper/mismatch.go", name: "Generator.makeSubListMap"},
			{file: "internal/mapper/mismatch.go", name: "Generator.makeTypeMismatch"},
		},
		types: map[string]string{
			"bool": "bool", "string": "string", "int": "Z",
			"Field": "Mapper.field", "*Field": "MapPrims.loc", "[]*Field": "(list MapPrims.loc)",
			"*Field|nil": "(option MapPrims.loc)", "tyname": "(option ty)",
			"types.Type": "ty", "map[string]string": "Mapper.tagmap",
			"*Generator": "-", "*Flags": "MapPrims.flags",
			"shoot.Func": "Mapper.mfunc", "[]shoot.Func": "(list Mapper.mfunc)",
			// go/types values of makeSubMap, as far as the model's palette distinguishes them
			"*types.Pointer": "ty", "*types.Slice": "ty", "*types.Named": "(pkg * string)%type", "*types.TypeName": "(pkg * string)%type",
			"*types.Package": "(option pkg)", "pkgpath": "pkg", "*packages.Package": "pkg",
		},
		shadow: true,
		eqs:    map[string]string{"pkgpath": "MapVal.pkg_eqb"},
		asserts: map[string]assertion{
			"types.Type.(*types.Pointer)": {coq: "MapPrims.as_pointer", result: "*types.Pointer"},
			"types.Type.(*types.Slice)":   {coq: "MapPrims.as_slice", result: "*types.Slice"},
			"types.Type.(*types.Named)":   {coq: "MapPrims.as_named", result: "*types.Named"},
		},
		ptrs:  map[string]bool{"*Field|nil": true},
		optOf: map[string]string{"*Field|nil": "*Field"},
		fields: map[string]map[string]field{
			"Field":             {"Name": {"Mapper.f_name", "string"}, "backingName": {"Mapper.f_backing", "string"}},
			"shoot.Func":        {"Name": {"Mapper.mf_name", "string"}, "Param": {"Mapper.mf_param", "types.Type"}, "Result": {"Mapper.mf_result", "types.Type"}},
			"*packages.Package": {"PkgPath": {"MapPrims.pkg_path_of", "pkgpath"}},
		},
		records: map[string]map[string]recField{
			"*Flags": {
				"ignoreCase": {"MapPrims.fl_ic", "", "bool"},
				"alias":      {"MapPrims.fl_alias", "", "string"},
			},
		},
		wrecv: map[string]map[string]wfield{
			"*Generator": {
				"exportedFields":     {get: "(MapPrims.src_locs w)", typ: "[]*Field"},
				"destExportedFields": {get: "(MapPrims.dst_locs w)", typ: "[]*Field"},
				"srcTagMap":          {get: "(MapPrims.w_tags w)", typ: "map[string]string"},
				"flags":              {get: "(MapPrims.w_flags w)", typ: "*Flags"},
				"mappingFuncList":    {get: "(MapPrims.w_funcs w)", typ: "[]shoot.Func"},
				"destPkg":            {get: "MapVal.PDst", typ: "*packages.Package"},
				"readSrcMap":         {get: "(Mapper.s_rmap (MapPrims.w_st w))", typ: "map[string]string", set: "MapPrims.rmap_assign"},
				"writeSrcMap":        {get: "(Mapper.s_wmap (MapPrims.w_st w))", typ: "map[string]string", set: "MapPrims.wmap_assign"},
			},
		},
		stores: map[string]map[string]recField{
			"*Field": {
				"Name":       loc("get_Name", "", "string"),
				"typ":        loc("get_typ", "", "types.Type"),
				"IsGet":      loc("get_IsGet", "", "bool"),
				"IsSet":      loc("get_IsSet", "", "bool"),
				"Target":     loc("get_Target", "set_Target", "*Field|nil"),
				"CanAssign":  loc("get_CanAssign", "set_CanAssign", "bool"),
				"IsConv":     loc("get_IsConv", "set_IsConv", "bool"),
				"CanMap":     loc("get_CanMap", "set_CanMap", "bool"),
				"CanEachMap": loc("get_CanEachMap", "set_CanEachMap", "bool"),
				"Type":       loc("get_Type", "set_Type", "tyname"),
				"Func":       loc("get_Func", "set_Func", "string"),
				"IsPtr":      loc("get_IsPtr", "set_IsPtr", "bool"),
				"warned":     loc("get_warned", "set_warned", "bool"),
			},
		},
		loads:   map[string]string{"*Field": "MapPrims.load"},
		maps:    map[string]string{"map[string]string": "MapPrims.tag_lookup"},
		nilmaps: map[string]string{"map[string]string": "MapPrims.map_is_nil", "*types.Package": "GoPrims.is_nil"},
		makes:   map[string]string{"map[string]string": "MapPrims.map_make"},
		wmaps: map[string]string{
			"*Generator.readSrcMap":  "MapPrims.rmap_set",
			"*Generator.writeSrcMap": "MapPrims.wmap_set",
		},
		prims: map[string]prim{
			"shoot.TypeEquals":             {coq: "TypeEquals", args: []int{0, 1}, results: []string{"bool"}},
			"types.ConvertibleTo":          {coq: "ConvertibleTo", args: []int{0, 1}, results: []string{"bool"}},
			"isString":                     {coq: "isString", args: []int{0}, results: []string{"bool"}},
			"isFixedWidthInt":              {coq: "isFixedWidthInt", args: []int{0}, results: []string{"bool"}},
			"strings.EqualFold":            {coq: "Str.equal_fold", args: []int{0, 1}, results: []string{"bool"}},
			"smartMatch":                   {coq: "Transfer.smart_match", args: []int{0, 1}, results: []string{"bool"}},
			"qualifiedTypeName":            {coq: "MapPrims.qualified_type_name", args: []int{0}, results: []string{"tyname"}},
			"*types.Pointer.Elem":          {recv: true, coq: "MapPrims.type_elem", results: []string{"types.Type"}},
			"*types.Slice.Elem":            {recv: true, coq: "MapPrims.type_elem", results: []string{"types.Type"}},
			"*types.Named.Obj":             {recv: true, coq: "MapPrims.named_obj", results: []string{"*types.TypeName"}},
			"*types.TypeName.Pkg":          {recv: true, coq: "MapPrims.obj_pkg", results: []string{"*types.Package"}},
			"*types.TypeName.Name":         {recv: true, coq: "MapPrims.obj_name", results: []string{"tyname"}},
			"*types.Package.Path":          {recv: true, coq: "MapPrims.pkg_path", results: []string{"pkgpath"}},
			"*Generator.Pkg":               {coq: "MapVal.PSrc", results: []string{"*packages.Package"}},
			"logx.Warnf":                   {coq: "MapPrims.prim_warn", args: nil, results: nil, world: true},
			"*Generator.writeDestSet.Has":  {coq: "MapPrims.wdst_has", args: []int{0}, results: []string{"bool"}, reads: true},
			"*Generator.writeSrcSet.Has":   {coq: "MapPrims.wsrc_has", args: []int{0}, results: []string{"bool"}, reads: true},
			"*Generator.writeDestSet.Adds": {coq: "MapPrims.wdst_add", args: []int{0}, results: nil, world: true},
			"*Generator.writeSrcSet.Adds":  {coq: "MapPrims.wsrc_add", args: []int{0}, results: nil, world: true},
		},
		nilPan: "PNilDeref",
	}
}
