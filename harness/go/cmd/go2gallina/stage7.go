// Stage 7 of the translation tie (docs/translator.md): more analysis code (areas mapcheck, mapctor, ctornew, ctorjson).
package main

import (
	"go/ast"
	"go/token"
	"sort"
	"strconv"
	"strings"
)

// renameShadows makes every local variable of fd carry a name of its own: a declaration that shadows (or merely
// reuses the name of) an earlier local/parameter of the same function is renamed, with all its uses, to name”N.
// The translation passes variables BY NAME (join points, loop functions, the code after a block is generated
// inside the block's lets), so shadowing would be captured; with unique names Go's scoping and the lexical scoping
// of the generated lets coincide.  Uses go/parser's object resolution (areas with the shadow flag parse with it).
func renameShadows(fd *ast.FuncDecl) {
	type decl struct {
		obj *ast.Object
		pos token.Pos
	}
	var objs []decl
	seen := map[*ast.Object]bool{}
	inFunc := func(p token.Pos) bool { return p >= fd.Pos() && p <= fd.End() }
	ast.Inspect(fd, func(n ast.Node) bool {
		id, ok := n.(*ast.Ident)
		if !ok || id.Obj == nil || id.Obj.Kind != ast.Var || seen[id.Obj] {
			return true
		}
		if !inFunc(id.Obj.Pos()) {
			return true // package-level variable
		}
		seen[id.Obj] = true
		objs = append(objs, decl{id.Obj, id.Obj.Pos()})
		return true
	})
	sort.Slice(objs, func(i, j int) bool { return objs[i].pos < objs[j].pos })
	count := map[string]int{}
	newName := map[*ast.Object]string{}
	for _, d := range objs {
		if d.obj.Name == "_" {
			continue
		}
		count[d.obj.Name]++
		if count[d.obj.Name] > 1 {
			newName[d.obj] = d.obj.Name + "''" + strconv.Itoa(count[d.obj.Name]) // two quotes: the translator's own fresh names have one
		}
	}
	if len(newName) == 0 {
		return
	}
	ast.Inspect(fd, func(n ast.Node) bool {
		if id, ok := n.(*ast.Ident); ok && id.Obj != nil {
			if nn, renamed := newName[id.Obj]; renamed {
				id.Name = nn
			}
		}
		return true
	})
	for o, nn := range newName {
		o.Name = nn
	}
}

var _ = strings.HasPrefix

// g.m / g.a.m / g.f() as the map of a comma-ok lookup: "<receiver type>.<path>" resp. "<receiver type>.<method>()"
func (t *translator) worldMapKey(e ast.Expr, ev *env) string {
	if c, ok := e.(*ast.CallExpr); ok && len(c.Args) == 0 {
		if sel, isSel := c.Fun.(*ast.SelectorExpr); isSel {
			if id, isId := sel.X.(*ast.Ident); isId {
				if v, isVar := ev.index[id.Name]; isVar && t.a.wrecv[v.typ] != nil {
					return v.typ + "." + sel.Sel.Name + "()"
				}
			}
		}
		return ""
	}
	if _, isSel := e.(*ast.SelectorExpr); !isSel {
		return ""
	}
	// a chain g.a.b rooted at the world-backed receiver (not necessarily a declared field: the lookup table decides)
	var names []string
	x := e
	for {
		sel, ok := x.(*ast.SelectorExpr)
		if !ok {
			break
		}
		names = append([]string{sel.Sel.Name}, names...)
		x = sel.X
	}
	id, ok := x.(*ast.Ident)
	if !ok {
		return ""
	}
	v, isVar := ev.index[id.Name]
	if !isVar || t.a.wrecv[v.typ] == nil {
		return ""
	}
	return v.typ + "." + strings.Join(names, ".")
}

// a counter loop inside another loop / a branch: its own Fixpoint on fuel that returns the variables the body
// assigns; break leaves it, continue steps the counter; return inside is refused
func (t *translator) innerFor(x *ast.ForStmt, ev *env, cont func(*env) string) string {
	if x.Init == nil || x.Post == nil {
		unsup(x, "nested loop that is not a counter loop")
	}
	if len(t.idList) > 0 {
		unsup(x, "nested loop in a function with type-id parameters")
	}
	l, carried := t.counterLoop(x, ev)
	t.nLoop++
	loopName := t.fn + "_loop" + strconv.Itoa(t.nLoop)
	nodes := []ast.Node{l.condE}
	for _, st := range l.body {
		nodes = append(nodes, st)
	}
	use := used(nodes)
	redecl := t.redeclared(nodes)
	isCarried := map[string]bool{}
	for _, v := range carried {
		isCarried[v.name] = true
	}
	var fixed []*variable
	isPar := map[*variable]bool{}
	for _, v := range t.pars {
		isPar[v] = true
		if !isCarried[v.name] {
			fixed = append(fixed, v)
		}
	}
	for _, v := range ev.vars {
		if v.kind == 1 && !isPar[v] && !isCarried[v.name] && use[v.name] && ev.index[v.name] == v && !redecl[v.name] {
			fixed = append(fixed, v)
		}
	}
	stT, pat := "unit", "tt"
	if len(carried) == 1 {
		stT, pat = t.coqType(x, carried[0].typ), carried[0].name
	} else if len(carried) > 1 {
		var ts, ns []string
		for _, v := range carried {
			ts = append(ts, t.coqType(x, v.typ))
			ns = append(ns, v.name)
		}
		stT, pat = "("+strings.Join(ts, " * ")+")%type", "("+strings.Join(ns, ", ")+")"
	}
	done := "(Returned " + pat + ", w)"
	op := "+"
	if l.step < 0 {
		op = "-"
	}
	lc := &loopCtx{
		next: func(*env) string {
			return loopName + names(fixed) + " fuel' (" + l.counter + " " + op + " 1)" + names(carried) + " w"
		},
		exit: func(*env) string { return done },
	}
	evBody := ev.nest()
	evBody.add(l.counter, "int", 1)
	t.inner++
	bodyT := t.block(l.body, evBody.clone(), lc, false, func(*env) string { return lc.next(nil) })
	t.inner--
	if t.mayPanic(l.condE, evBody) {
		unsup(x, "nested loop whose condition can panic")
	}
	cond := func(thenT string) string {
		return "(if " + t.pure(l.condE, evBody, "bool") + "\n    then " + thenT + "\n    else " + done + ")"
	}
	t.emit(loopName, "Fixpoint "+loopName+t.params(fixed)+" (fuel : nat) ("+l.counter+" : Z)"+t.params(carried)+" (w : "+t.worldT()+") {struct fuel}\n  : outcome "+stT+" * "+t.worldT()+" :=\n"+
		"  match fuel with\n  | O => "+cond("(OutOfFuel, w)")+"\n  | S fuel' => "+cond(bodyT)+"\n  end.")
	pv := t.fresh("p")
	return "(match " + loopName + names(fixed) + " " + l.fuel + " " + l.lo + names(carried) + " w with\n | (Returned " + pat + ", w) =>\n" + cont(ev) +
		"\n | (Panicked " + pv + ", w) => (Panicked " + pv + ", w)\n | (OutOfFuel, w) => (OutOfFuel, w)\n end)"
}

func init() {
	kl := func(get, typ string) recField { return recField{"MapCheckPrims." + get, "", typ} }
	areas["mapcheck"] = &area{
		name:   "mapcheck",
		module: "MapCheckGen",
		header: []string{
			"From Coq Require Import ZArith List Bool String.",
			"From Shoot Require Import Base.Str Model.MapVal Model.Mapper Bridge.GoPrims Bridge.MapPrims Bridge.MapCheckPrims.",
		},
		world: "MapCheckPrims.kworld",
		funcs: []fnSpec{
			{file: "internal/mapper/check.go", name: "prepareReadPaths",
				ptypes: map[string]string{"ptrTypeMap": "ptrmap", "readPathsMap": "pathsref"}},
			{file: "internal/mapper/check.go", name: "Generator.nilCheckRead"},
			{file: "internal/mapper/check.go", name: "Generator.nilCheckWrite"},
		},
		types: map[string]string{
			"bool": "bool", "string": "string", "int": "Z", "[]string": "(list string)",
			"*Field": "MapPrims.loc", "[]*Field": "(list MapPrims.loc)",
			"path": "Mapper.path", "[]path": "(list Mapper.path)", "tyname": "ty",
			"ptrmap": "Mapper.ptrmap", "pathsref": "MapCheckPrims.pathsref", "ptrpairs": "(list (Mapper.path * ty))",
			"map[string]string": "Mapper.smap", "*Generator": "-",
		},
		ptrs:   map[string]bool{},
		shadow: true,
		stores: map[string]map[string]recField{
			"*Field": {"Name": kl("get_Name", "string"), "Path": kl("get_Path", "path")},
		},
		wrecv: map[string]map[string]wfield{
			"*Generator": {
				"exportedFields":     {get: "(MapCheckPrims.src_locs w)", typ: "[]*Field"},
				"destExportedFields": {get: "(MapCheckPrims.dst_locs w)", typ: "[]*Field"},
				"srcPtrTypeMap":      {get: "(MapCheckPrims.range_srcptr w)", typ: "ptrpairs"},
				"destPtrTypeMap":     {get: "(MapCheckPrims.range_dstptr w)", typ: "ptrpairs"},
			},
		},
		pairmaps: map[string][2]string{"ptrpairs": {"path", "tyname"}},
		maps:     map[string]string{"ptrmap": "MapCheckPrims.pm_lookup"},
		mapvals: map[string]string{
			"ptrmap":                         "tyname",
			"*Generator.readSrcMap":          "string",
			"*Generator.writeSrcMap":         "string",
			"*Generator.readDestMap()":       "string",
			"*Generator.writeDestMap()":      "string",
			"*Generator.srcPathsMap":         "[]path",
			"*Generator.destPathsMap":        "[]path",
			"*Generator.data.SrcPtrTypeMap":  "tyname",
			"*Generator.data.DestPtrTypeMap": "tyname",
		},
		wlooks: map[string]string{
			"*Generator.readSrcMap":          "MapCheckPrims.rmap_lookup",
			"*Generator.writeSrcMap":         "MapCheckPrims.wmap_lookup",
			"*Generator.readDestMap()":       "MapCheckPrims.wmap_lookup",
			"*Generator.writeDestMap()":      "MapCheckPrims.rmap_lookup",
			"*Generator.srcPathsMap":         "MapCheckPrims.srcpaths_lookup",
			"*Generator.destPathsMap":        "MapCheckPrims.dstpaths_lookup",
			"*Generator.data.SrcPtrTypeMap":  "MapCheckPrims.srcout_lookup",
			"*Generator.data.DestPtrTypeMap": "MapCheckPrims.dstout_lookup",
		},
		refmaps: map[string]string{"pathsref": "MapCheckPrims.paths_set"},
		ltypes: map[string]string{
			"prepareReadPaths.readPaths":    "[]path",
			"nilCheckWrite.srcPtrPathList":  "[]path",
			"nilCheckWrite.destPtrPathList": "[]path",
		},
		muts:  map[string]string{"sort.Strings": "Mapper.sort_paths"},
		makes: map[string]string{"map[string]string": "nil"},
		wsets: map[string]string{
			"*Generator.data.DestNeedReadCheckMap": "MapCheckPrims.set_dstneed",
			"*Generator.data.SrcNeedReadCheckMap":  "MapCheckPrims.set_srcneed",
			"*Generator.data.SrcPtrTypeMap":        "MapCheckPrims.set_srcout",
			"*Generator.data.DestPtrTypeMap":       "MapCheckPrims.set_dstout",
			"*Generator.data.SrcPtrPathList":       "MapCheckPrims.set_srclist",
			"*Generator.data.DestPtrPathList":      "MapCheckPrims.set_dstlist",
		},
		wmaps: map[string]string{
			"*Generator.data.SrcNeedReadCheckMap":  "MapCheckPrims.srcneed_set",
			"*Generator.data.DestNeedReadCheckMap": "MapCheckPrims.dstneed_set",
			"*Generator.data.SrcPtrTypeMap":        "MapCheckPrims.srcout_set",
			"*Generator.data.DestPtrTypeMap":       "MapCheckPrims.dstout_set",
		},
		prims: map[string]prim{
			"*Field.IsEmbeded":        {recv: true, coq: "MapCheckPrims.is_embedded_at", results: []string{"bool"}, reads: true},
			"*Field.CoveredBy":        {recv: true, coq: "MapCheckPrims.covered_by_at", args: []int{0}, results: []string{"bool"}, reads: true},
			"strings.Split":           {coq: "MapCheckPrims.path_comps", args: []int{0}, results: []string{"[]string"}},
			"strings.Join":            {coq: "MapCheckPrims.comps_path", args: []int{0}, results: []string{"path"}},
			"*Generator.writeDestMap": {coq: "MapCheckPrims.live_values", results: []string{"[]string"}, reads: true},
		},
		nilPan: "PNilDeref",
	}
}

func init() {
	cl := func(get, set, typ string) recField {
		r := recField{"MapCtorPrims." + get, "", typ}
		if set != "" {
			r.set = "MapCtorPrims." + set
		}
		return r
	}
	areas["mapctor"] = &area{
		name:   "mapctor",
		module: "MapCtorGen",
		header: []string{
			"From Coq Require Import ZArith List Bool String.",
			"From Shoot Require Import Base.Str Model.Transfer Model.MapVal Model.Mapper Bridge.GoPrims Bridge.MapCtorPrims.",
		},
		section: []string{
			"Section Gen.",
			"(* go/types oracles, as in Model/MapVal.v *)",
			"Variable TypeEquals : ty -> ty -> bool.        (* shoot.TypeEquals *)",
			"Variable ConvertibleTo : ty -> ty -> bool.     (* types.ConvertibleTo *)",
			"Variable isString : ty -> bool.",
			"Variable isFixedWidthInt : ty -> bool.",
			"Variable zeroValue_o : ty -> string.           (* ctor.go zeroValue: a type switch over go/types; the empty text = unsupported *)",
			"",
		},
		footer: []string{"End Gen."},
		world:  "MapCtorPrims.cworld",
		funcs: []fnSpec{
			{file: "internal/mapper/types.go", name: "Field.MatchingName"},
			{file: "internal/mapper/match.go", name: "mayMisConv"},
			{file: "internal/mapper/match.go", name: "matchType"},
			{file: "internal/mapper/match.go", name: "canNameMatch"},
			{file: "internal/mapper/ctor.go", name: "makeCtorMatch", ptypes: map[string]string{"writeSet": "setref"}},
			{file: "internal/mapper/ctor.go", name: "Generator.makeCtorMatch", as: "makeCtorMatchBoth"},
		},
		types: map[string]string{
			"bool": "bool", "string": "string", "int": "Z",
			"Field": "Mapper.field", "*Field": "MapCtorPrims.cloc", "[]*Field": "(list MapCtorPrims.cloc)",
			"*Field|nil": "(option MapCtorPrims.cloc)", "tyname": "(option ty)",
			"types.Type": "ty", "map[string]string": "Mapper.tagmap",
			"*Generator": "-", "*Flags": "MapCtorPrims.cflags", "setref": "MapCtorPrims.setref",
			"shoot.Func": "Mapper.mfunc", "[]shoot.Func": "(list Mapper.mfunc)",
		},
		ptrs:   map[string]bool{"*Field|nil": true},
		optOf:  map[string]string{"*Field|nil": "*Field"},
		zeros:  map[string]string{"map[string]string": "MapCtorPrims.nil_tags"},
		shadow: true,
		fields: map[string]map[string]field{
			"Field":      {"Name": {"Mapper.f_name", "string"}, "backingName": {"Mapper.f_backing", "string"}},
			"shoot.Func": {"Name": {"Mapper.mf_name", "string"}, "Param": {"Mapper.mf_param", "types.Type"}, "Result": {"Mapper.mf_result", "types.Type"}},
		},
		records: map[string]map[string]recField{
			"*Flags": {
				"ignoreCase": {"MapCtorPrims.cf_ic", "", "bool"},
				"alias":      {"MapCtorPrims.cf_alias", "", "string"},
			},
		},
		wrecv: map[string]map[string]wfield{
			"*Generator": {
				"exportedFields":     {get: "(MapCtorPrims.src_locs w)", typ: "[]*Field"},
				"destExportedFields": {get: "(MapCtorPrims.dst_locs w)", typ: "[]*Field"},
				"destCtorParams":     {get: "(MapCtorPrims.dctor_locs w)", typ: "[]*Field"},
				"srcCtorParams":      {get: "(MapCtorPrims.sctor_locs w)", typ: "[]*Field"},
				"srcTagMap":          {get: "(MapCtorPrims.c_tags w)", typ: "map[string]string"},
				"flags":              {get: "(MapCtorPrims.c_flags w)", typ: "*Flags"},
				"mappingFuncList":    {get: "(MapCtorPrims.c_funcs w)", typ: "[]shoot.Func"},
				"writeDestSet":       {get: "MapCtorPrims.WDst", typ: "setref"},
				"writeSrcSet":        {get: "MapCtorPrims.WSrc", typ: "setref"},
			},
		},
		stores: map[string]map[string]recField{
			"*Field": {
				"Name":      cl("get_Name", "", "string"),
				"typ":       cl("get_typ", "", "types.Type"),
				"IsGet":     cl("get_IsGet", "", "bool"),
				"IsSet":     cl("get_IsSet", "", "bool"),
				"Target":    cl("get_Target", "set_Target", "*Field|nil"),
				"CanAssign": cl("get_CanAssign", "set_CanAssign", "bool"),
				"IsConv":    cl("get_IsConv", "set_IsConv", "bool"),
				"Type":      cl("get_Type", "set_Type", "tyname"),
				"Func":      cl("get_Func", "set_Func", "string"),
				"Zero":      cl("get_Zero", "set_Zero", "string"),
				"warned":    cl("get_warned", "set_warned", "bool"),
			},
		},
		loads:   map[string]string{"*Field": "MapCtorPrims.cload"},
		maps:    map[string]string{"map[string]string": "MapCtorPrims.tag_lookup"},
		nilmaps: map[string]string{"map[string]string": "MapCtorPrims.map_is_nil"},
		makes:   map[string]string{"map[string]string": "MapCtorPrims.map_make"},
		wsets: map[string]string{
			"*Generator.data.DestCtorParams": "MapCtorPrims.set_dctor_used",
			"*Generator.data.SrcCtorParams":  "MapCtorPrims.set_sctor_used",
		},
		prims: map[string]prim{
			"shoot.TypeEquals":    {coq: "TypeEquals", args: []int{0, 1}, results: []string{"bool"}},
			"types.ConvertibleTo": {coq: "ConvertibleTo", args: []int{0, 1}, results: []string{"bool"}},
			"isString":            {coq: "isString", args: []int{0}, results: []string{"bool"}},
			"isFixedWidthInt":     {coq: "isFixedWidthInt", args: []int{0}, results: []string{"bool"}},
			"zeroValue":           {coq: "zeroValue_o", args: []int{0}, results: []string{"string"}},
			"strings.EqualFold":   {coq: "Str.equal_fold", args: []int{0, 1}, results: []string{"bool"}},
			"smartMatch":          {coq: "Transfer.smart_match", args: []int{0, 1}, results: []string{"bool"}},
			"qualifiedTypeName":   {coq: "MapCtorPrims.qualified_type_name", args: []int{0}, results: []string{"tyname"}},
			"logx.Warnf":          {coq: "MapCtorPrims.prim_warn", args: nil, results: nil, world: true},
			"setref.Has":          {recv: true, coq: "MapCtorPrims.set_has", args: []int{0}, results: []string{"bool"}, reads: true},
			"setref.Adds":         {recv: true, coq: "MapCtorPrims.set_adds", args: []int{0}, results: nil, world: true},
		},
		fatals: map[string]bool{"logx.Fatal": true},
		nilPan: "PNilDeref",
	}
}

func init() {
	ws := func(n string) string { return "NewPrims." + n }
	areas["ctornew"] = &area{
		name:   "ctornew",
		module: "CtorNewGen",
		header: []string{
			"From Coq Require Import ZArith List Bool String.",
			"From Shoot Require Import Base.Str Model.Transfer Model.Ctor Bridge.GoPrims Bridge.NewPrims.",
		},
		section: []string{
			"Section Gen.",
			"(* fields.go newBody / newBodyRec: self-recursive, outside the translated subset *)",
			"Variable newBody_o : list Ctor.field -> NewPrims.smap -> string.",
			"",
		},
		footer: []string{"End Gen."},
		world:  "NewPrims.nworld",
		funcs: []fnSpec{
			{file: "internal/constructor/fields.go", name: "newParamsList"},
			{file: "internal/constructor/new.go", name: "Generator.makeNew"},
		},
		types: map[string]string{
			"bool": "bool", "string": "string", "int": "Z", "[]string": "(list string)",
			"*Field": "Ctor.field", "[]*Field": "(list Ctor.field)",
			"map[string]string": "NewPrims.smap", "map[int]string": "(list string)",
			"*Generator": "-", "*Flags": "NewPrims.nflags", "bytes.Buffer": "string",
		},
		ptrs:   map[string]bool{},
		shadow: true,
		records: map[string]map[string]recField{
			"*Field": {
				"name":          {"Ctor.f_name", "", "string"},
				"isShadowed":    {"Ctor.f_shadowed", "", "bool"},
				"isEmbeded":     {"Ctor.f_embedded", "", "bool"},
				"defValue":      {"Ctor.f_def", "", "string"},
				"isPtr":         {"Ctor.f_ptr", "", "bool"},
				"qualifiedType": {"Ctor.f_qtype", "", "string"},
				"isNew":         {"Ctor.f_new", "", "bool"},
			},
			"*Flags": {
				"opt":   {"NewPrims.nf_opt", "", "bool"},
				"short": {"NewPrims.nf_short", "", "bool"},
			},
		},
		wrecv: map[string]map[string]wfield{
			"*Generator": {
				"fields":        {get: "(NewPrims.n_fields w)", typ: "[]*Field"},
				"hasNew":        {get: "(NewPrims.n_has_new w)", typ: "bool"},
				"typeParams":    {get: "(NewPrims.n_tparams w)", typ: "[]string"},
				"typeParamsMap": {get: "(NewPrims.n_tpmap w)", typ: "map[int]string"},
				"flags":         {get: "(NewPrims.n_flags w)", typ: "*Flags"},
			},
		},
		maps:   map[string]string{"map[string]string": ws("smap_lookup")},
		mapget: map[string]string{"map[int]string": ws("tpmap_at")},
		makes:  map[string]string{"map[string]string": ws("smap_make")},
		lmaps:  map[string]string{"map[string]string": "Ctor.map_put"},
		lmuts:  map[string]string{"bytes.Buffer.WriteString": ws("buf_write")},
		zeros:  map[string]string{"bytes.Buffer": "\"\"%string"},
		wsets: map[string]string{
			"*Generator.data.TypeParamList":     ws("set_tplist"),
			"*Generator.data.TypeParamNameList": ws("set_tpnames"),
			"*Generator.data.NewParamsList":     ws("set_params"),
			"*Generator.data.NewBody":           ws("set_body"),
			"*Generator.data.TypeMap":           ws("set_typemap"),
			"*Generator.data.AllList":           ws("set_all"),
			"*Generator.data.NewMap":            ws("set_newmap"),
			"*Generator.data.DefaultList":       ws("set_deflist"),
			"*Generator.data.DefaultValueMap":   ws("set_defmap"),
			"*Generator.data.Option":            ws("set_option"),
			"*Generator.data.Short":             ws("set_short"),
		},
		prims: map[string]prim{
			"transfer.ToCamelCase": {coq: "Transfer.to_camel_case", args: []int{0}, results: []string{"string"}},
			"strings.Join":         {coq: ws("str_join"), args: []int{0, 1}, results: []string{"string"}},
			"newBody":              {coq: "newBody_o", args: []int{0, 1}, results: []string{"string"}},
			"bytes.Buffer.String":  {recv: true, coq: ws("buf_string"), results: []string{"string"}},
		},
		nilPan: "PNilDeref",
	}
}

func init() {
	ws := func(n string) string { return "JsonPrims." + n }
	areas["ctorjson"] = &area{
		name:   "ctorjson",
		module: "CtorJsonGen",
		header: []string{
			"From Coq Require Import ZArith List Bool String.",
			"From Shoot Require Import Base.Str Model.Transfer Model.Ctor Model.CtorGetSet Model.CtorJson Bridge.GoPrims Bridge.JsonPrims.",
		},
		world: "JsonPrims.jworld",
		funcs: []fnSpec{
			{file: "internal/constructor/types.go", name: "Field.HasJSONTag"},
			{file: "internal/constructor/types.go", name: "Field.JSONTag"},
			{file: "internal/constructor/json.go", name: "Generator.makeJson"},
		},
		types: map[string]string{
			"bool": "bool", "string": "string", "int": "Z", "[]string": "(list string)",
			"*Field": "Ctor.field", "[]*Field": "(list Ctor.field)",
			"map[string]string": "JsonPrims.smap", "shoot.Set[string]": "JsonPrims.sset",
			"*Generator": "-", "*Flags": "JsonPrims.jflags", "TagCase": "string",
			"shoot.Func": "CtorGetSet.gs_method", "[]shoot.Func": "(list CtorGetSet.gs_method)",
			"func(string) string": "(string -> string)",
		},
		ptrs:   map[string]bool{},
		shadow: true,
		records: map[string]map[string]recField{
			"*Field": {
				"name":       {"Ctor.f_name", "", "string"},
				"isShadowed": {"Ctor.f_shadowed", "", "bool"},
				"isEmbeded":  {"Ctor.f_embedded", "", "bool"},
				"jsonTag":    {"Ctor.f_jsontag", "", "string"},
				"isGet":      {"Ctor.f_get", "", "bool"},
				"isSet":      {"Ctor.f_set", "", "bool"},
			},
			"*Flags": {
				"json":    {ws("jf_json"), "", "bool"},
				"tagcase": {ws("jf_tagcase"), "", "string"},
			},
		},
		fields: map[string]map[string]field{
			"shoot.Func": {"Name": {"CtorGetSet.gm_name", "string"}},
		},
		wrecv: map[string]map[string]wfield{
			"*Generator": {
				"fields":        {get: "(JsonPrims.j_fields w)", typ: "[]*Field"},
				"flags":         {get: "(JsonPrims.j_flags w)", typ: "*Flags"},
				"getter":        {get: "(JsonPrims.j_getter w)", typ: "bool"},
				"setter":        {get: "(JsonPrims.j_setter w)", typ: "bool"},
				"getsetMethods": {get: "(JsonPrims.j_methods w)", typ: "[]shoot.Func"},
			},
		},
		values: map[string]field{
			"transfer.ID":           {ws("trans_id"), "func(string) string"},
			"transfer.ToPascalCase": {"Transfer.to_pascal_case", "func(string) string"},
			"transfer.ToCamelCase":  {"Transfer.to_camel_case", "func(string) string"},
			"strings.ToLower":       {"Str.lower", "func(string) string"},
			"strings.ToUpper":       {"Str.upper", "func(string) string"},
		},
		callables: map[string]callable{
			"func(string) string": {coq: ws("call_trans"), result: "string"},
		},
		makes: map[string]string{"map[string]string": ws("smap_make")},
		lmaps: map[string]string{"map[string]string": "Ctor.map_put"},
		lmuts: map[string]string{"shoot.Set[string].Adds": ws("set_adds")},
		wsets: map[string]string{
			"*Generator.data.JSONTagMap":     ws("set_tags"),
			"*Generator.data.JSON":           ws("set_json"),
			"*Generator.data.JSONList":       ws("set_list"),
			"*Generator.data.JSONGetterList": ws("set_getters"),
			"*Generator.data.JSONSetterList": ws("set_setters"),
			"*Generator.data.ExportedList":   ws("set_exported"),
		},
		prims: map[string]prim{
			"transfer.ToPascalCase": {coq: "Transfer.to_pascal_case", args: []int{0}, results: []string{"string"}},
			"ast.IsExported":        {coq: "Str.is_exported", args: []int{0}, results: []string{"bool"}},
			"shoot.MakeSet[...]":    {coq: ws("set_make"), args: nil, results: []string{"shoot.Set[string]"}},
			"shoot.Set[string].Has": {recv: true, coq: ws("set_has"), args: []int{0}, results: []string{"bool"}},
			"shoot.Func.IsGetter":   {recv: true, coq: ws("func_is_getter"), results: []string{"bool"}},
			"shoot.Func.IsSetter":   {recv: true, coq: ws("func_is_setter"), results: []string{"bool"}},
		},
		nilPan: "PNilDeref",
	}
}

func init() {
	ws := func(n string) string { return "RestParamPrims." + n }
	areas["restparam"] = &area{
		name:   "restparam",
		module: "RestParamGen",
		header: []string{
			"From Coq Require Import ZArith List Bool String.",
			"From Shoot Require Import Base.Str Model.Transfer Model.Directive Model.Rest Bridge.GoPrims Bridge.RestParamPrims.",
		},
		section: []string{
			"Section Gen.",
			"(* g.handleStruct(paramType, typeName, name, methodName) as handleIdent calls it: go/types lookup, package directory,",
			"   extractStructFields, then the loop translated below as handleStruct (instantiated in the bridge) *)",
			"Variable handleStruct_o : string -> string -> string -> RestParamPrims.pworld -> RestParamPrims.pworld.",
			"",
		},
		footer: []string{"End Gen."},
		world:  "RestParamPrims.pworld",
		funcs: []fnSpec{
			{file: "internal/restclient/paramhandler.go", name: "Generator.setBodyParamName"},
			{file: "internal/restclient/paramhandler.go", name: "Generator.handleMapType"},
			{file: "internal/restclient/paramhandler.go", name: "Generator.handleStruct", from: "for _, f := range fields {",
				vars: map[string]string{"fields": "[]fieldInfo"}, as: "handleStructLoop"},
			{file: "internal/restclient/paramhandler.go", name: "Generator.handleIdent"},
		},
		types: map[string]string{
			"bool": "bool", "string": "string", "int": "Z", "[]string": "(list string)",
			"*ast.Ident": "string", "*ast.File": "-", "ast.Expr": "-", "*Generator": "-",
			"*TmplData": "RestParamPrims.pworld", "map[string][]string": "(list (string * list string))",
			"fieldInfo": "Rest.field_info", "[]fieldInfo": "(list Rest.field_info)",
		},
		ptrs:   map[string]bool{},
		shadow: true,
		fields: map[string]map[string]field{
			"fieldInfo": {
				"Name": {"Rest.fi_name", "string"}, "Alias": {"Rest.fi_alias", "string"},
				"IsExported": {"Rest.fi_exported", "bool"}, "IsPtr": {"Rest.fi_ptr", "bool"},
			},
		},
		records: map[string]map[string]recField{
			"*ast.Ident": {"Name": {ws("ident_name"), "", "string"}},
			"*TmplData": {
				"PathParamsMap":  {ws("p_pathparams"), "", "map[string][]string"},
				"QueryParamsMap": {ws("p_query"), "", "map[string][]string"},
			},
		},
		wrecv: map[string]map[string]wfield{
			"*Generator": {"data": {get: "w", typ: "*TmplData"}},
		},
		values: map[string]field{
			"http.MethodGet":    {"\"GET\"%string", "string"},
			"http.MethodDelete": {"\"DELETE\"%string", "string"},
		},
		mapget: map[string]string{"map[string][]string": ws("sl_get")},
		mapvals: map[string]string{
			"*Generator.data.BodyParamMap": "string",
			"*Generator.data.QueryDictMap": "string",
		},
		wlooks: map[string]string{
			"*Generator.data.BodyParamMap": ws("body_lookup"),
			"*Generator.data.QueryDictMap": ws("dict_lookup"),
		},
		wmaps: map[string]string{
			"*Generator.data.BodyParamMap":   ws("body_set"),
			"*Generator.data.QueryDictMap":   ws("dict_set"),
			"*Generator.data.QueryParamsMap": ws("query_set"),
		},
		wmaps2: map[string]string{
			"*Generator.data.IsParamPtrMap": ws("isptr_set2"),
			"*Generator.data.AliasMap":      ws("alias_set2"),
		},
		prims: map[string]prim{
			"transfer.ToCamelCase":       {coq: "Transfer.to_camel_case", args: []int{0}, results: []string{"string"}},
			"transfer.ToPascalCase":      {coq: "Transfer.to_pascal_case", args: []int{0}, results: []string{"string"}},
			"shoot.Contains":             {coq: ws("contains"), args: []int{0, 1}, results: []string{"bool"}},
			"*Generator.isPkgStructType": {coq: ws("is_pkg_struct"), args: []int{0}, results: []string{"bool"}, reads: true},
			"*Generator.handleStruct":    {coq: "handleStruct_o", args: []int{1, 2, 3}, results: nil, world: true},
		},
		fatals: map[string]bool{"logx.Fatalf": true},
		nilPan: "PNilDeref",
	}
}
