// restast reads Go packages the way `shoot rest` does (go/parser with comments; the doc text through
// ast.CommentGroup.Text) and prints, as JSON, exactly the facts the C06 model takes as input:
// the type declarations of every file (name, declared as a struct type), every interface with its
// items in order (embedded interfaces with their doc text, methods with doc text and parameter
// declarations: names + the shape of the type expression), and the field declarations of every
// struct type as internal/restclient.extractStructFields sees them (names, printed type, star, tag literal).
//
// usage: restast <dir>[,<import name>=<dir>]... ...      one JSON object per line, one per argument
package main

import (
	"bytes"
	"encoding/json"
	"fmt"
	"go/ast"
	"go/parser"
	"go/printer"
	"go/token"
	"os"
	"path/filepath"
	"sort"
	"strings"
)

type texpr struct {
	K   string `json:"k"`
	N   string `json:"n,omitempty"`
	Pkg string `json:"pkg,omitempty"`
	T   *texpr `json:"t,omitempty"`
}

type param struct {
	Names []string `json:"names"`
	Type  texpr    `json:"type"`
}

type item struct {
	Embed  bool    `json:"embed"`
	Doc    *string `json:"doc"`
	Method string  `json:"method,omitempty"`
	Params []param `json:"params,omitempty"`
}

type iface struct {
	Name  string `json:"name"`
	File  string `json:"file"`
	Items []item `json:"items"`
}

type field struct {
	Names []string `json:"names"`
	Type  string   `json:"type"`
	Star  bool     `json:"star"`
	Tag   *string  `json:"tag"`
}

type structDecl struct {
	Pkg    string  `json:"pkg"`
	Name   string  `json:"name"`
	Fields []field `json:"fields"`
}

type typeDecl struct {
	Name     string `json:"name"`
	IsStruct bool   `json:"struct"`
}

type result struct {
	Dir     string                `json:"dir"`
	Files   map[string][]typeDecl `json:"files"`
	Ifaces  []iface               `json:"ifaces"`
	Structs []structDecl          `json:"structs"`
	Named   [][3]string           `json:"named"` // (import name, type name, class) declared as a non-alias type in a qualified package; class = struct | basic | other
	Error   string                `json:"error,omitempty"`
}

func exprString(e ast.Expr) string {
	var buf bytes.Buffer
	printer.Fprint(&buf, token.NewFileSet(), e)
	return buf.String()
}

func shape(e ast.Expr) texpr {
	switch t := e.(type) {
	case *ast.Ident:
		return texpr{K: "ident", N: t.Name}
	case *ast.SelectorExpr:
		if x, ok := t.X.(*ast.Ident); ok {
			return texpr{K: "sel", Pkg: x.Name, N: t.Sel.Name}
		}
		return texpr{K: "other"}
	case *ast.MapType:
		return texpr{K: "map"}
	case *ast.StarExpr:
		s := shape(t.X)
		return texpr{K: "star", T: &s}
	}
	return texpr{K: "other"}
}

func docText(g *ast.CommentGroup) *string {
	if g == nil {
		return nil
	}
	s := g.Text()
	return &s
}

func parseDir(dir string) (map[string]*ast.File, error) {
	fset := token.NewFileSet()
	pkgs, err := parser.ParseDir(fset, dir, nil, parser.ParseComments)
	if err != nil {
		return nil, err
	}
	files := map[string]*ast.File{}
	for _, p := range pkgs {
		for name, f := range p.Files {
			files[filepath.Base(name)] = f
		}
	}
	return files, nil
}

var basicNames = map[string]bool{"string": true, "bool": true, "int": true, "int8": true, "int16": true, "int32": true,
	"int64": true, "uint": true, "uint8": true, "uint16": true, "uint32": true, "uint64": true, "uintptr": true,
	"float32": true, "float64": true, "complex64": true, "complex128": true, "byte": true, "rune": true}

// classOf classifies the right-hand side of a type declaration syntactically
func classOf(e ast.Expr) string {
	switch t := e.(type) {
	case *ast.StructType:
		return "struct"
	case *ast.Ident:
		if basicNames[t.Name] {
			return "basic"
		}
	}
	return "other"
}

func structsOf(pkg string, files map[string]*ast.File, out *[]structDecl, named *[][3]string) {
	names := make([]string, 0, len(files))
	for n := range files {
		names = append(names, n)
	}
	sort.Strings(names)
	byName := map[string]*structDecl{}
	var order []string
	for _, fn := range names {
		for _, decl := range files[fn].Decls {
			gd, ok := decl.(*ast.GenDecl)
			if !ok || gd.Tok != token.TYPE {
				continue
			}
			for _, spec := range gd.Specs {
				ts, ok := spec.(*ast.TypeSpec)
				if !ok {
					continue
				}
				if pkg != "" && !ts.Assign.IsValid() {
					*named = append(*named, [3]string{pkg, ts.Name.Name, classOf(ts.Type)})
				}
				st, ok := ts.Type.(*ast.StructType)
				if !ok {
					continue
				}
				sd := byName[ts.Name.Name]
				if sd == nil {
					sd = &structDecl{Pkg: pkg, Name: ts.Name.Name, Fields: []field{}}
					byName[ts.Name.Name] = sd
					order = append(order, ts.Name.Name)
				}
				for _, f := range st.Fields.List {
					fd := field{Names: []string{}, Type: exprString(f.Type)}
					_, fd.Star = f.Type.(*ast.StarExpr)
					if f.Tag != nil {
						v := f.Tag.Value
						fd.Tag = &v
					}
					for _, n := range f.Names {
						fd.Names = append(fd.Names, n.Name)
					}
					sd.Fields = append(sd.Fields, fd)
				}
			}
		}
	}
	for _, n := range order {
		*out = append(*out, *byName[n])
	}
}

func analyse(arg string) result {
	parts := strings.Split(arg, ",")
	res := result{Dir: parts[0], Files: map[string][]typeDecl{}, Ifaces: []iface{}, Structs: []structDecl{}, Named: [][3]string{}}
	files, err := parseDir(parts[0])
	if err != nil {
		res.Error = err.Error()
		return res
	}
	names := make([]string, 0, len(files))
	for n := range files {
		names = append(names, n)
	}
	sort.Strings(names)
	for _, fn := range names {
		f := files[fn]
		res.Files[fn] = []typeDecl{}
		for _, decl := range f.Decls {
			gd, ok := decl.(*ast.GenDecl)
			if !ok || gd.Tok != token.TYPE {
				continue
			}
			for _, spec := range gd.Specs {
				ts, ok := spec.(*ast.TypeSpec)
				if !ok {
					continue
				}
				_, isStruct := ts.Type.(*ast.StructType)
				res.Files[fn] = append(res.Files[fn], typeDecl{ts.Name.Name, isStruct})
				it, ok := ts.Type.(*ast.InterfaceType)
				if !ok {
					continue
				}
				ifc := iface{Name: ts.Name.Name, File: fn, Items: []item{}}
				for _, fld := range it.Methods.List {
					if len(fld.Names) == 0 {
						ifc.Items = append(ifc.Items, item{Embed: true, Doc: docText(fld.Doc)})
						continue
					}
					ft, ok := fld.Type.(*ast.FuncType)
					if !ok {
						continue
					}
					m := item{Method: fld.Names[0].Name, Doc: docText(fld.Doc), Params: []param{}}
					if ft.Params != nil {
						for _, p := range ft.Params.List {
							pd := param{Names: []string{}, Type: shape(p.Type)}
							for _, n := range p.Names {
								pd.Names = append(pd.Names, n.Name)
							}
							m.Params = append(m.Params, pd)
						}
					}
					ifc.Items = append(ifc.Items, m)
				}
				res.Ifaces = append(res.Ifaces, ifc)
			}
		}
	}
	structsOf("", files, &res.Structs, &res.Named)
	for _, q := range parts[1:] {
		kv := strings.SplitN(q, "=", 2)
		if len(kv) != 2 {
			continue
		}
		qf, err := parseDir(kv[1])
		if err != nil {
			res.Error = err.Error()
			return res
		}
		structsOf(kv[0], qf, &res.Structs, &res.Named)
	}
	return res
}

func main() {
	enc := json.NewEncoder(os.Stdout)
	enc.SetEscapeHTML(false)
	for _, a := range os.Args[1:] {
		if err := enc.Encode(analyse(a)); err != nil {
			fmt.Fprintln(os.Stderr, err)
			os.Exit(1)
		}
	}
}
