// rtprobe drives middleware.RetryMiddleware with scripted RoundTrippers.
//
// stdin: one case per line:  <id> <n> <delay_us> <script>
//
//	script = comma separated outcomes, the i-th being what call i returns:
//	  e        -> (nil, err_i)           ec / ed / et: err_i is a *url.Error wrapping context.Canceled /
//	                                      context.DeadlineExceeded / a net.Error whose Timeout() is true
//	  E<code>  -> (resp_i with StatusCode code, err_i)
//	  <code>   -> (resp_i with StatusCode code, nil)      <code>r<secs>: the response carries Retry-After: <secs>
//	several scripts separated by '|' = several requests, one after the other, through ONE middleware
//	instance (the observation fields of the requests are then separated by " ; ")
//	calls beyond the script return (nil, err) with identity -1 ("e").
//	optional fifth field = request/transport profile, '+'-separated (the property quantifies over none of it, so the
//	expected observation is the same for every profile):
//	  GET|HEAD|POST|PUT|PATCH|DELETE|OPTIONS  request method (default GET)      idem   Idempotency-Key header set
//	  body      the request carries a body with GetBody                        ctxv   context with a value and a cancel func
//	  lat<us>   every call of the transport takes <us> microseconds             outer<k> RetryMiddleware(k, d) stacked outside
//	  inner<k>  RetryMiddleware(k, d) stacked inside (between the instance under test and the transport)
//
// stdout: <id> <calls> <resp identity or -> <err identity or -> <sleeps> <first_gap_ok>
//
//	identity of a response/error = index of the call that produced it.
//	sleeps = number of calls i>0 that started at least delay after call i-1 returned
//	first_gap_ok = 1 if call 0 started less than delay after the start
package main

import (
	"bufio"
	"context"
	"fmt"
	"io"
	"log"
	"net/http"
	"net/url"
	"os"
	"strconv"
	"strings"
	"sync"
	"time"

	"github.com/lopolopen/shoot"
	"github.com/lopolopen/shoot/middleware"
)

type scriptedErr struct{ idx int }

func (e *scriptedErr) Error() string { return fmt.Sprintf("scripted error %d", e.idx) }

type sameErr struct{ _ int }

func (e *sameErr) Error() string { return "dial tcp 127.0.0.1:1: connect: connection refused" }

type outcome struct {
	hasResp    bool
	code       int
	hasErr     bool
	errKind    byte // 0 plain, 'c' canceled, 'd' deadline, 't' timeout net.Error
	retryAfter string
}

type timeoutErr struct{ idx int }

func (e *timeoutErr) Error() string   { return fmt.Sprintf("scripted timeout %d", e.idx) }
func (e *timeoutErr) Timeout() bool   { return true }
func (e *timeoutErr) Temporary() bool { return true }

type scripted struct {
	script []outcome
	calls  int
	resps  map[*http.Response]int
	errs   map[error]int
	starts []time.Time
	ends   []time.Time
	lat    time.Duration
	// overlap: the first call announces itself on entered and returns only when gate is closed
	entered chan struct{}
	gate    chan struct{}
}

func (s *scripted) RoundTrip(req *http.Request) (*http.Response, error) {
	s.starts = append(s.starts, time.Now())
	if s.lat > 0 {
		time.Sleep(s.lat)
	}
	i := s.calls
	s.calls++
	if i == 0 && s.gate != nil {
		close(s.entered)
		<-s.gate
	}
	var o outcome
	idx := i
	if i < len(s.script) {
		o = s.script[i]
	} else {
		o = outcome{hasErr: true}
		idx = -1
	}
	var resp *http.Response
	var err error
	if o.hasResp {
		resp = &http.Response{StatusCode: o.code, Body: http.NoBody, Header: http.Header{}}
		if o.retryAfter != "" {
			resp.Header.Set("Retry-After", o.retryAfter)
		}
		s.resps[resp] = idx
	}
	if o.hasErr {
		switch o.errKind {
		case 'c':
			err = &url.Error{Op: "Get", URL: "http://example.invalid/x", Err: context.Canceled}
		case 'd':
			err = &url.Error{Op: "Get", URL: "http://example.invalid/x", Err: context.DeadlineExceeded}
		case 't':
			err = &url.Error{Op: "Get", URL: "http://example.invalid/x", Err: &timeoutErr{idx}}
		case 's': // every such error has the same text (and type): only its identity tells the attempts apart
			err = &sameErr{}
		default:
			err = &scriptedErr{idx}
		}
		s.errs[err] = idx
	}
	s.ends = append(s.ends, time.Now())
	return resp, err
}

func parseScript(s string) []outcome {
	var out []outcome
	if s == "" || s == "-" {
		return out
	}
	for _, t := range strings.Split(s, ",") {
		switch {
		case t == "e":
			out = append(out, outcome{hasErr: true})
		case t == "ec" || t == "ed" || t == "et" || t == "es":
			out = append(out, outcome{hasErr: true, errKind: t[1]})
		case strings.HasPrefix(t, "E"):
			c, err := strconv.Atoi(t[1:])
			if err != nil {
				panic(err)
			}
			out = append(out, outcome{hasResp: true, code: c, hasErr: true})
		default:
			ra := ""
			if i := strings.IndexByte(t, 'r'); i > 0 {
				t, ra = t[:i], t[i+1:]
			}
			c, err := strconv.Atoi(t)
			if err != nil {
				panic(err)
			}
			out = append(out, outcome{hasResp: true, code: c, retryAfter: ra})
		}
	}
	return out
}

func runCase(line string) string {
	f := strings.Fields(line)
	id := f[0]
	n, _ := strconv.Atoi(f[1])
	us, _ := strconv.Atoi(f[2])
	d := time.Duration(us) * time.Microsecond
	sc := ""
	if len(f) > 3 {
		sc = f[3]
	}
	scripts := strings.Split(sc, "|")
	prof := profile{method: "GET", outer: -1, inner: -1}
	if len(f) > 4 {
		prof = parseProfile(f[4])
	}
	cur := &scripted{}
	// one middleware instance for all requests of the case; the transport behind it serves the current script
	var base http.RoundTripper = middleware.RoundTripper(func(r *http.Request) (*http.Response, error) {
		if s, ok := r.Context().Value(wireKey{}).(*scripted); ok {
			return s.RoundTrip(r)
		}
		return cur.RoundTrip(r)
	})
	if prof.inner >= 0 {
		base = middleware.RetryMiddleware(prof.inner, d)(base)
	}
	if prof.logIn {
		base = middleware.LoggingMiddleware(base)
	}
	rt := middleware.RetryMiddleware(n, d)(base)
	if prof.outer >= 0 {
		rt = middleware.RetryMiddleware(prof.outer, d)(rt)
	}
	if prof.logOut {
		rt = middleware.LoggingMiddleware(rt)
	}
	if prof.viaBuild {
		// the same stack, but assembled by the code under test: Use(...) options applied to a RestConf and
		// RestConf.BuildMiddleware() over http.DefaultTransport (replaced in main by a dispatcher to the scripted wire)
		var opts []shoot.Option[shoot.RestConf, *shoot.RestConf]
		if prof.outer >= 0 {
			opts = append(opts, shoot.Use(middleware.RetryMiddleware(prof.outer, d)))
		}
		opts = append(opts, shoot.Use(middleware.RetryMiddleware(n, d)))
		if prof.inner >= 0 {
			opts = append(opts, shoot.Use(middleware.RetryMiddleware(prof.inner, d)))
		}
		if prof.logOut {
			opts = append(opts, shoot.EnableLogging(true))
		}
		rt = shoot.NewRestConf("", 0, false, nil).With(opts...).BuildMiddleware()
	}
	var parts []string
	if prof.overlap && len(scripts) == 2 {
		// two requests through ONE instance at the same time: A's first attempt is held inside the wire
		// while B runs to completion, then A carries on; each is observed on its own wire
		mk := func(one string) *scripted {
			return &scripted{script: parseScript(one), resps: map[*http.Response]int{}, errs: map[error]int{}, lat: prof.lat}
		}
		sA, sB := mk(scripts[0]), mk(scripts[1])
		sA.entered, sA.gate = make(chan struct{}), make(chan struct{})
		doneA := make(chan string, 1)
		go func() {
			defer func() {
				if r := recover(); r != nil {
					doneA <- fmt.Sprintf("PANIC %v", r)
				}
			}()
			doneA <- observe(rt, sA, d, prof)
		}()
		select {
		case <-sA.entered:
		case p := <-doneA: // no call at all (n < 0)
			close(sA.gate)
			return id + " " + p + " ; " + observe(rt, sB, d, prof)
		}
		pB := observe(rt, sB, d, prof)
		close(sA.gate)
		return id + " " + <-doneA + " ; " + pB
	}
	for _, one := range scripts {
		s := &scripted{script: parseScript(one), resps: map[*http.Response]int{}, errs: map[error]int{}, lat: prof.lat}
		cur = s
		parts = append(parts, observe(rt, s, d, prof))
	}
	return id + " " + strings.Join(parts, " ; ")
}

type profile struct {
	method       string
	idem, body   bool
	ctxv         bool
	lat          time.Duration
	outer, inner int  // RetryMiddleware(k, d) stacked outside / inside the instance under test; -1 = none
	logOut       bool // LoggingMiddleware outside everything (RestConf: EnableLogging)
	overlap      bool // two scripts = two OVERLAPPING requests through one instance (see runCase)
	viaBuild     bool // assemble the stack through shoot.Use / RestConf.BuildMiddleware
	logIn        bool // LoggingMiddleware between the instance under test and what is below it
}

type ctxKey struct{}
type wireKey struct{}

func parseProfile(s string) profile {
	p := profile{method: "GET", outer: -1, inner: -1}
	for _, t := range strings.Split(s, "+") {
		switch {
		case t == "" || t == "-":
		case t == "idem":
			p.idem = true
		case t == "body":
			p.body = true
		case t == "ctxv":
			p.ctxv = true
		case strings.HasPrefix(t, "outer"), strings.HasPrefix(t, "inner"):
			k, err := strconv.Atoi(t[5:])
			if err != nil {
				panic(err)
			}
			if t[0] == 'o' {
				p.outer = k
			} else {
				p.inner = k
			}
		case t == "login":
			p.logIn = true
		case t == "logout":
			p.logOut = true
		case t == "viabuild":
			p.viaBuild = true
		case t == "overlap":
			p.overlap = true
		case strings.HasPrefix(t, "lat"):
			us, err := strconv.Atoi(t[3:])
			if err != nil {
				panic(err)
			}
			p.lat = time.Duration(us) * time.Microsecond
		default:
			p.method = t
		}
	}
	return p
}

func observe(rt http.RoundTripper, s *scripted, d time.Duration, prof profile) string {
	var rd io.Reader
	if prof.body {
		rd = strings.NewReader(`{"k":1}`)
	}
	req, _ := http.NewRequest(prof.method, "http://example.invalid/x", rd)
	if prof.idem {
		req.Header.Set("Idempotency-Key", "k-1")
	}
	if prof.ctxv {
		ctx, cancel := context.WithCancel(context.WithValue(context.Background(), ctxKey{}, "v"))
		defer cancel()
		req = req.WithContext(ctx)
	}
	if prof.viaBuild || prof.overlap {
		req = req.WithContext(context.WithValue(req.Context(), wireKey{}, s))
	}
	start := time.Now()
	resp, err := rt.RoundTrip(req)
	rs, es := "-", "-"
	if resp != nil {
		if i, ok := s.resps[resp]; ok {
			rs = strconv.Itoa(i)
		} else {
			rs = "foreign"
		}
	}
	if err != nil {
		if i, ok := s.errs[err]; ok {
			es = strconv.Itoa(i)
		} else {
			es = "foreign"
		}
	}
	sleeps := 0
	for i := 1; i < len(s.starts); i++ {
		if s.starts[i].Sub(s.ends[i-1]) >= d {
			sleeps++
		}
	}
	first := 1
	if len(s.starts) > 0 && s.starts[0].Sub(start) >= d {
		first = 0
	}
	return fmt.Sprintf("%d %s %s %d %d", s.calls, rs, es, sleeps, first)
}

func main() {
	log.SetOutput(io.Discard)
	http.DefaultTransport = middleware.RoundTripper(func(r *http.Request) (*http.Response, error) {
		s, ok := r.Context().Value(wireKey{}).(*scripted)
		if !ok {
			return nil, fmt.Errorf("rtprobe: request without a scripted wire")
		}
		return s.RoundTrip(r)
	})
	par := 64
	if len(os.Args) > 1 {
		par, _ = strconv.Atoi(os.Args[1])
	}
	in := bufio.NewScanner(os.Stdin)
	in.Buffer(make([]byte, 1<<20), 1<<20)
	var lines []string
	for in.Scan() {
		if strings.TrimSpace(in.Text()) != "" {
			lines = append(lines, in.Text())
		}
	}
	out := make([]string, len(lines))
	sem := make(chan struct{}, par)
	var wg sync.WaitGroup
	for i, l := range lines {
		wg.Add(1)
		sem <- struct{}{}
		go func(i int, l string) {
			defer wg.Done()
			defer func() { <-sem }()
			defer func() {
				if r := recover(); r != nil {
					out[i] = fmt.Sprintf("%s PANIC %v", strings.Fields(l)[0], r)
				}
			}()
			out[i] = runCase(l)
		}(i, l)
	}
	wg.Wait()
	w := bufio.NewWriter(os.Stdout)
	for _, o := range out {
		fmt.Fprintln(w, o)
	}
	w.Flush()
}
