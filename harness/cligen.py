"""Multi-file package skeletons for the CLI properties (C16, C17, C18).

A skeleton mirrors coq/Model/Cli.v's [pkg]: files, each a list of declarations
  ('type',    [TS, ...])            one GenDecl (grouped when more than one spec)
  ('const',   tyname, [names])      a const block typed with identifier tyname
  ('func',    fname, [TS, ...])     a func whose body declares local types
  ('comment', text)                 one // comment line (e.g. //go:generate ...)
plus the type specs of the destination package of `shoot map`.

gen_pkg(rng, ...)      -> Pkg            random skeleton
render_go(pkg)         -> {relpath: text}  (p/<file>.go, dest/d.go)
coq_pkg(pkg)           -> Coq term of type Cli.pkg
"""
import re

INT_KINDS = ["int", "int8", "int16", "int32", "int64", "uint", "uint8", "uint16", "uint32", "uint64",
             "uintptr", "rune", "byte"]
NONINT = ["string", "float64", "bool", "[]int", "map[string]int", "func()", "chan int", "*int", "[4]byte",
          "complex128", "struct{ A int }x"]   # the last one is handled specially (never used as-is)

EXPORTED = ["Alpha", "Order", "HTTPServer", "UserID", "X", "Item", "Gamma", "Node", "Config", "Tree", "Q2",
            "Point", "Ab", "Zeta", "Kind", "Level", "Mode", "Client", "Store", "API", "Repo", "Color", "Wide",
            "Flag", "State", "Unit", "Pair", "Box", "Cell", "Task", "Job", "URL", "ID", "Vec", "Page", "Rule"]
UNEXPORTED = ["beta", "userRepo", "x1", "inner", "cfg", "node", "kv", "impl", "tmp", "aux", "ctl", "rec"]
UNDERSCORED = ["_Hidden", "_x", "_Pad", "_internal", "_T"]
FILES = ["a.go", "b.go", "model.go", "types_x.go", "zz.go", "m1.go", "api.go", "x.y.go", "Src.go", "gen.go",
         "c_d.go", "k9.go", "data.go", "ab.go", "log.go", "go.go"]   # incl. names that are suffixes of others / end in g, o


class TS:
    """one type spec"""
    def __init__(self, name, kind, go, alias=False, rhs="named", is_int=False, tparams=()):
        self.name, self.kind, self.go = name, kind, go          # go: text after the keyword `type`
        self.alias, self.rhs, self.is_int, self.tparams = alias, rhs, is_int, list(tparams)

    def coq(self):
        rhs = {"struct": "RStruct", "iface_rest": "RIface true", "iface": "RIface false", "named": "RNamed"}[self.rhs]
        return ('{| ts_name := %s; ts_alias := %s; ts_rhs := %s; ts_int := %s; ts_tparams := %s |}'
                % (cs(self.name), cb(self.alias), rhs, cb(self.is_int), clist(cs(x) for x in self.tparams)))


class File:
    def __init__(self, name):
        self.name, self.decls = name, []
        self.shoot_alias = "shoot"      # local name of the import "github.com/lopolopen/shoot"
        self.header = []                # comments above the package clause (generated-code header, build tag, licence)


class Pkg:
    def __init__(self):
        self.files = []          # in go-list order (sorted by name)
        self.dest = []           # TS of the dest package
        self.others = []         # (path relative to p/, text): existing .go files that are NOT files of the package
        self.features = set()

    def all_specs(self, local=True, top=True):
        for f in self.files:
            for d in f.decls:
                if d[0] == "type" and top:
                    for t in d[1]:
                        yield f, t
                if d[0] == "func" and local:
                    for t in d[2]:
                        yield f, t

    def consts_of(self, T):
        return sum(len([n for n in d[2] if n != "_"]) for f in self.files for d in f.decls if d[0] == "const" and d[1] == T)


# ---------------------------------------------------------------- Coq syntax
def cs(s):
    return '"' + s.replace('"', '""') + '"'


def cb(b):
    return "true" if b else "false"


def clist(items):
    return "[" + "; ".join(items) + "]"


def coq_decl(d):
    if d[0] == "type":
        return "DType " + clist(t.coq() for t in d[1])
    if d[0] == "const":
        return "DConst %s %s" % (cs(d[1]), clist(cs(n) for n in d[2]))
    if d[0] == "func":
        return "DFunc " + clist(t.coq() for t in d[2])
    if d[0] == "rawconst":       # `const N = T(1)`: no type identifier in the spec, invisible to shoot
        return 'DComment ""'
    return "DComment " + cs(d[1])


def coq_pkg(p):
    # comments above the package clause are comments of the file like any other (f.Comments)
    files = clist("{| f_name := %s; f_decls := %s |}"
                  % (cs(f.name), clist(["DComment " + cs(h) for h in f.header] + [coq_decl(d) for d in f.decls]))
                  for f in p.files)
    return "{| p_files := %s; p_dest := %s; p_others := %s |}" % (files, clist(t.coq() for t in p.dest),
                                                                  clist(cs(n) for n, _ in p.others))


# ------------------------------------------------------------------ Go text
STRUCT_BODIES = [
    "struct {\n\tID   int\n\tName string\n\tnote string\n}",
    "struct {\n\tx int\n\ty string\n}",
    "struct {\n\tID int\n}",
    "struct{}",
    "struct {\n\tA, B int\n\tc    []string\n}",
]

REST_METHODS = [
    '\t//shoot: Get("/items/{id}")\n\tGet%s(ctx context.Context, id int) (*http.Response, error)\n',
    '\t//shoot: Delete("/items/{id}")\n\tDel%s(ctx context.Context, id string) (*http.Response, error)\n',
    '\t//shoot: Get("/items")\n\tList%s(ctx context.Context, page int) (*http.Response, error)\n',
]


def mk_struct(rng, name, kind="struct"):
    return TS(name, kind, "%s %s" % (name, rng.choice(STRUCT_BODIES)), rhs="struct")


def mk_generic(rng, name, tparam="T"):
    return TS(name, "generic", "%s[%s any] struct {\n\tv %s\n}" % (name, tparam, tparam), rhs="struct",
              tparams=[tparam])


def mk_int(rng, name, under=None):
    under = under or rng.choice(INT_KINDS)
    return TS(name, "int", "%s %s" % (name, under), is_int=True)


def mk_nonint(rng, name):
    u = rng.choice(NONINT[:-1])
    return TS(name, "nonint", "%s %s" % (name, u))


def mk_rest(rng, name):
    ms = "".join(m % re.sub(r"\W|_", "", name).capitalize() for m in rng.sample(REST_METHODS, rng.randint(1, 2)))
    return TS(name, "rest", "%s interface {\n\tshoot.RestClient[%s]\n\n%s}" % (name, name, ms), rhs="iface_rest")


def mk_iface(rng, name, embed=None):
    if embed == "error":
        return TS(name, "iface_universe", "%s interface {\n\terror\n}" % name, rhs="iface")
    if embed:
        return TS(name, "iface_embed", "%s interface {\n\t%s\n}" % (name, embed), rhs="iface")
    return TS(name, "iface", "%s interface {\n\tFoo%s() int\n}" % (name, re.sub(r"\W|_", "", name)), rhs="iface")


def render_file(pkgname, f):
    body = []
    uses_rest = False
    for d in f.decls:
        if d[0] == "type":
            if any(t.rhs == "iface_rest" for t in d[1]):
                uses_rest = True
            q = f.shoot_alias + ".RestClient"
            if len(d[1]) == 1 and not d[3]:
                body.append("type " + d[1][0].go.replace("shoot.RestClient", q) + "\n")
            else:
                inner = "\n\n".join("\t" + t.go.replace("shoot.RestClient", q).replace("\n", "\n\t") for t in d[1])
                body.append("type (\n" + inner + "\n)\n")
        elif d[0] == "const":
            ty, names, strconst = d[1], d[2], d[3]
            if strconst == "float":
                lines = "\n".join('\t%s %s = %d.5' % (n, ty, i) for i, n in enumerate(names))
            elif strconst:
                lines = "\n".join('\t%s %s = "%s"' % (n, ty, n.lower()) for n in names)
            else:
                lines = "\n".join(("\t%s %s = iota" % (n, ty)) if i == 0 else "\t" + n for i, n in enumerate(names))
            body.append("const (\n" + lines + "\n)\n")
        elif d[0] == "rawconst":
            body.append(d[1] + "\n")
        elif d[0] == "func":
            inner = ""
            for t in d[2]:
                inner += "\ttype " + t.go.replace("\n", "\n\t") + "\n\tvar _ " + t.name + "\n"
            body.append("func %s() {\n%s}\n" % (d[1], inner))
        else:
            body.append(d[1] + "\n")
    head = "".join(h + "\n\n" for h in f.header) + "package %s\n\n" % pkgname
    if uses_rest:
        imp = '"github.com/lopolopen/shoot"' if f.shoot_alias == "shoot" else f.shoot_alias + ' "github.com/lopolopen/shoot"'
        head += 'import (\n\t"context"\n\t"net/http"\n\n\t' + imp + '\n)\n\n'
    return head + "\n".join(body)


def render_go(p, pkgname="p", destname="dest"):
    """-> {relative path: text}; the package lives in p/, the map destination in dest/"""
    files = {}
    for f in p.files:
        files["p/" + f.name] = render_file(pkgname, f)
    dst = "package %s\n\n" % destname
    for t in p.dest:
        dst += "type " + t.go + "\n\n"
    files["dest/d.go"] = dst
    for rel, txt in p.others:
        if txt is not None:             # None: another spelling of the path of a package file (./f.go), nothing to write
            files["p/" + rel] = txt
    return files


# ------------------------------------------------------------- generation
def gen_pkg(rng, with_rest=False, want_local=None, want_collision=False):
    """a random skeleton mixing eligible and ineligible declarations of every kind"""
    p = Pkg()
    nfiles = rng.choice([1, 2, 2, 3, 3, 4])
    names = rng.sample(FILES, nfiles)
    if nfiles >= 2 and rng.random() < 0.3:            # a file name that is a suffix of another one
        names[0], names[1] = rng.choice([("a.go", "data.go"), ("b.go", "ab.go"), ("go.go", "log.go")])
        names = list(dict.fromkeys(names))
    names = sorted(names)                             # go list order = sorted by file name
    p.files = [File(n) for n in names]
    for f in p.files:
        if rng.random() < 0.3:
            f.shoot_alias = rng.choice(["sh", "shootpkg"])   # renamed import of the shoot package
    pool_e, pool_u, pool__ = list(EXPORTED), list(UNEXPORTED), list(UNDERSCORED)
    rng.shuffle(pool_e), rng.shuffle(pool_u), rng.shuffle(pool__)

    def fresh(which=None):
        which = which or rng.choices(["e", "u", "_"], [6, 2, 1])[0]
        pool = {"e": pool_e, "u": pool_u, "_": pool__}[which]
        if not pool:
            pool = pool_e
        return pool.pop()

    structs, ints, ifaces = [], [], []
    kinds = ["struct", "struct", "struct", "ustruct", "_struct", "generic", "alias", "nonint", "nonint_consts",
             "enum", "enum", "enum_other_file", "int_noconst", "int_of_named", "iface", "iface_embed",
             "named_struct", "alias_int", "alias_structlit"]
    if with_rest:
        kinds += ["rest", "rest", "rest", "urest", "_rest", "iface_universe"]
    if want_local is None:
        want_local = rng.random() < 0.4
    raw_after = []
    pending_consts = []       # (tyname, names, strconst) to be placed in another file
    nfunc = [0]
    used_prefix = set()

    def cprefix(n, tag):
        """a constant-name prefix unique in the package (type names differing only in case or `_` exist)"""
        base = n.strip("_").capitalize() + tag
        k = base
        i = 0
        while k in used_prefix:
            i += 1
            k = "%s%dq" % (base, i)
        used_prefix.add(k)
        return k
    for f in p.files:
        for _ in range(rng.randint(2, 6)):
            k = rng.choice(kinds)
            grouped = rng.random() < 0.12
            if k == "struct":
                t = mk_struct(rng, fresh("e")); structs.append(t); specs = [t]
            elif k == "ustruct":
                t = mk_struct(rng, fresh("u"), "ustruct"); structs.append(t); specs = [t]
            elif k == "_struct":
                t = mk_struct(rng, fresh("_"), "_struct"); structs.append(t); specs = [t]
            elif k == "generic":
                tp = "T"
                if structs and rng.random() < 0.4:
                    tp = rng.choice(structs).name        # type parameter named like a package-level type
                    if not re.match(r"^[A-Za-z]\w*$", tp):
                        tp = "T"
                t = mk_generic(rng, fresh("e"), tp); specs = [t]
            elif k == "alias":
                if not structs:
                    continue
                n = fresh()
                specs = [TS(n, "alias", "%s = %s" % (n, rng.choice(structs).name), alias=True)]
            elif k == "alias_structlit":
                n = fresh()
                specs = [TS(n, "alias_structlit", "%s = %s" % (n, rng.choice(STRUCT_BODIES)), alias=True, rhs="struct")]
            elif k == "alias_int":
                n = fresh()
                tgt = rng.choice(ints).name if ints and rng.random() < 0.5 else rng.choice(INT_KINDS)
                specs = [TS(n, "alias_int", "%s = %s" % (n, tgt), alias=True, is_int=True)]
            elif k == "nonint":
                specs = [mk_nonint(rng, fresh())]
            elif k == "nonint_consts":
                n = fresh()
                under = rng.choice(["string", "string", "float64"])
                specs = [TS(n, "nonint_consts", "%s %s" % (n, under))]
                pre = cprefix(n, "C")
                cn = ["%s%d" % (pre, i) for i in range(rng.randint(1, 3))]
                pending_consts.append((f, n, cn, "float" if under == "float64" else True, rng.random() < 0.3))
            elif k in ("enum", "enum_other_file"):
                t = mk_int(rng, fresh()); ints.append(t); specs = [t]
                pre = cprefix(t.name, "V")
                cn = ["%s%d" % (pre, i) for i in range(rng.randint(1, 4))]
                r_ = rng.random()
                if r_ < 0.15:
                    cn.insert(rng.randint(0, len(cn)), "_")           # a blank constant among real ones
                elif r_ < 0.25:
                    cn = ["_"] * rng.randint(1, 2)                    # only blank constants: no constant for shoot
                    t.kind = "enum_blank_only"
                pending_consts.append((f, t.name, cn, False, k == "enum_other_file"))
            elif k == "int_noconst":
                t = mk_int(rng, fresh()); t.kind = "int_noconst"; ints.append(t); specs = [t]
                if rng.random() < 0.35:       # a constant of the type that is no typed const spec: `const N = T(1)`
                    raw_after.append(("rawconst", "const %s0 = %s(1)" % (cprefix(t.name, "R"), t.name)))
            elif k == "int_of_named":
                if not ints:
                    continue
                t = mk_int(rng, fresh(), rng.choice(ints).name); t.kind = "int_of_named"; specs = [t]
                if rng.random() < 0.5:
                    pre = cprefix(t.name, "N")
                    cn = ["%s%d" % (pre, i) for i in range(rng.randint(1, 2))]
                    pending_consts.append((f, t.name, cn, False, False))
            elif k == "iface":
                t = mk_iface(rng, fresh()); ifaces.append(t); specs = [t]
            elif k == "iface_embed":
                if not ifaces:
                    continue
                specs = [mk_iface(rng, fresh(), rng.choice(ifaces).name)]
            elif k == "iface_universe":
                specs = [mk_iface(rng, fresh(), "error")]
            elif k == "named_struct":
                if not structs:
                    continue
                n = fresh()
                specs = [TS(n, "named_struct", "%s %s" % (n, rng.choice(structs).name))]
            elif k in ("rest", "urest", "_rest"):
                specs = [mk_rest(rng, fresh({"rest": "e", "urest": "u", "_rest": "_"}[k]))]
            else:
                continue
            if grouped:
                extra = rng.choice([mk_struct(rng, fresh("e")), mk_int(rng, fresh()), mk_nonint(rng, fresh())])
                if extra.kind == "struct":
                    structs.append(extra)
                if extra.kind == "int":
                    extra.kind = "int_noconst"
                    ints.append(extra)
                specs = specs + [extra] if rng.random() < 0.5 else [extra] + specs
            f.decls.append(("type", specs, None, grouped))
            f.decls.extend(raw_after)
            del raw_after[:]
        if want_local and rng.random() < 0.6:
            nfunc[0] += 1
            loc = []
            for _ in range(rng.randint(1, 2)):
                lk = rng.choice(["struct", "struct", "int", "iface"])
                n = fresh(rng.choice(["e", "u"]))
                loc.append(mk_struct(rng, n, "local_struct") if lk == "struct" else
                           mk_int(rng, n) if lk == "int" else mk_iface(rng, n))
                if lk == "int":
                    loc[-1].kind = "local_int"
            f.decls.append(("func", "helper%d" % nfunc[0], loc))
            p.features.add("local")
    # local types shadowing package-level ones of ANY file (legal Go; getGoFile must not be misled by
    # a function-local declaration in an alphabetically earlier file)
    tops = [t.name for _, t in p.all_specs(local=False)]
    for f in p.files:
        for d in f.decls:
            if d[0] == "func":
                for t in d[2]:
                    if tops and rng.random() < 0.5:
                        n = rng.choice(tops)
                        if n not in [u.name for u in d[2]]:
                            t.go = n + t.go[len(t.name):]
                            t.name = n
    if want_collision and structs:
        base = rng.choice([s for s in structs if s.kind == "struct"] or structs)
        twin = base.name.upper() if base.name.upper() != base.name else base.name.lower().capitalize()
        if twin != base.name and twin not in [t.name for _, t in p.all_specs()]:
            for f in p.files:
                for d in f.decls:
                    if d[0] == "type" and base in d[1]:
                        f.decls.append(("type", [mk_struct(rng, twin)], None, False))
                        p.features.add("collision")
                        break
    for (f, ty, cn, strconst, elsewhere) in pending_consts:
        tgt = rng.choice(p.files) if elsewhere else f
        tgt.decls.append(("const", ty, cn, strconst))
    # a declaration-free file of the package (doc.go / gen.go), a home for //go:generate lines
    if rng.random() < 0.25:
        n = rng.choice(["doc.go", "gen.go", "aaa.go", "zzz.go"])
        if n not in [f.name for f in p.files]:
            p.files.append(File(n))
            p.files.sort(key=lambda f: f.name)
            p.features.add("declfree")
    # existing .go files that are not files of the package
    if rng.random() < 0.35:
        cands = [("x_test.go", "package p\n\ntype InTest struct {\n\tID int\n}\n"),
                 ("ignored.go", "//go:build ignore\n\npackage p\n\ntype Ignored struct {\n\tID int\n}\n"),
                 ("other_windows.go", "package p\n\ntype OnWindows struct {\n\tID int\n}\n"),
                 ("_under.go", "package p\n\ntype Under struct {\n\tID int\n}\n"),
                 ("sub/a.go", "package sub\n\ntype SubT struct {\n\tID int\n}\n")]
        p.others = rng.sample(cands, rng.randint(1, 3))
        p.features.add("others")
    # the destination package of `shoot map`
    for _, t in p.all_specs(local=False):
        if t.rhs == "struct" and not t.tparams:
            r = rng.random()
            if r < 0.7:
                p.dest.append(TS(t.name, "struct", t.go, rhs="struct"))
            elif r < 0.8:
                p.dest.append(TS(t.name, "nonint", "%s string" % t.name))
        elif t.rhs == "struct":
            pass
        elif rng.random() < 0.15 and not t.alias and t.rhs == "named":
            p.dest.append(TS(t.name, "struct", "%s struct {\n\tID int\n}" % t.name, rhs="struct"))
    if want_local:
        for _, t in p.all_specs(top=False):
            if t.rhs == "struct" and rng.random() < 0.7 and t.name not in [d.name for d in p.dest]:
                p.dest.append(TS(t.name, "struct", t.go, rhs="struct"))
    return p


def add_generate_line(rng, p, cmdline, f=None, variant=None):
    """put a //go:generate line for [cmdline] into a file of the skeleton"""
    free = [x for x in p.files if not x.decls]
    f = f or (rng.choice(free) if free and rng.random() < 0.5 else rng.choice(p.files))
    variant = variant or rng.choices(["plain", "prefixed", "block", "block_tail"], [8, 1, 1.5, 0.5])[0]
    if variant == "plain":
        text = "//go:generate " + cmdline
    elif variant == "prefixed":
        text = "//go:generate go run github.com/x/y " + cmdline
    elif variant == "block":          # inside a block comment: (?m) lets the regexp match a line of it
        text = "/*\nsome notes\n//go:generate " + cmdline + "\n*/"
    else:                             # ... but not when the comment closes on the same line
        text = "/*\n//go:generate " + cmdline + " */"
    pos = rng.randint(0, len(f.decls))
    f.decls.insert(pos, ("comment", text))
    return f


# Python mirror of the declarative notions, used ONLY to bias the generator
# towards interesting command lines (the verdict is computed in Coq)
def eligible(cmd, p, t):
    if cmd == "new":
        return t.rhs == "struct" and not t.name.startswith("_")
    if cmd == "enum":
        return t.is_int and not t.alias and p.consts_of(t.name) > 0
    if cmd == "rest":
        return t.rhs == "iface_rest"
    return t.rhs == "struct" and any(d.name == t.name and d.rhs == "struct" for d in p.dest)


def nameable_names(cmd, p):
    return [t.name for _, t in p.all_specs(local=False) if eligible(cmd, p, t)]


def all_names(p):
    return [t.name for _, t in p.all_specs()]


# ------------------------------------------------------- (de)serialisation
def ts_to_json(t):
    return {"name": t.name, "kind": t.kind, "go": t.go, "alias": t.alias, "rhs": t.rhs, "is_int": t.is_int,
            "tparams": t.tparams}


def ts_from_json(d):
    return TS(d["name"], d["kind"], d["go"], alias=d["alias"], rhs=d["rhs"], is_int=d["is_int"],
              tparams=d["tparams"])


def pkg_to_json(p):
    files = []
    for f in p.files:
        ds = []
        for d in f.decls:
            if d[0] == "type":
                ds.append(["type", [ts_to_json(t) for t in d[1]], None, d[3]])
            elif d[0] == "const":
                ds.append(["const", d[1], list(d[2]), d[3]])
            elif d[0] == "func":
                ds.append(["func", d[1], [ts_to_json(t) for t in d[2]]])
            elif d[0] == "rawconst":
                ds.append(["rawconst", d[1]])
            else:
                ds.append(["comment", d[1]])
        files.append({"name": f.name, "decls": ds, "shoot_alias": f.shoot_alias, "header": list(f.header)})
    return {"files": files, "dest": [ts_to_json(t) for t in p.dest], "features": sorted(p.features),
            "others": [list(x) for x in p.others]}


def pkg_from_json(j):
    p = Pkg()
    for fj in j["files"]:
        f = File(fj["name"])
        f.shoot_alias = fj.get("shoot_alias", "shoot")
        f.header = list(fj.get("header", []))
        for d in fj["decls"]:
            if d[0] == "type":
                f.decls.append(("type", [ts_from_json(t) for t in d[1]], None, d[3]))
            elif d[0] == "const":
                f.decls.append(("const", d[1], list(d[2]), d[3]))
            elif d[0] == "func":
                f.decls.append(("func", d[1], [ts_from_json(t) for t in d[2]]))
            elif d[0] == "rawconst":
                f.decls.append(("rawconst", d[1]))
            else:
                f.decls.append(("comment", d[1]))
        p.files.append(f)
    p.dest = [ts_from_json(t) for t in j["dest"]]
    p.features = set(j.get("features", []))
    p.others = [tuple(x) for x in j.get("others", [])]
    return p


def shadowed_names(p):
    """package-level type names that are also declared inside a function body of ANOTHER file"""
    res = []
    for f, t in p.all_specs(local=False):
        for g, u in p.all_specs(top=False):
            if u.name == t.name and g is not f and t.name not in res:
                res.append(t.name)
    return res


# ------------------------------------------------ related file names (deterministic part of every run)
NAME_PAIRS = [("user.go", "admin_user.go"),        # proper suffix, the longer name sorts first
              ("order.go", "purchase_order.go"),   # proper suffix, the shorter name sorts first
              ("a.go", "aa.go"),                   # suffix and prefix at once
              ("user.go", "user_admin.go"),        # the stem is a proper prefix
              ("x.go", "x.y.go")]                  # the stem is a prefix up to a dot


def gen_pair_pkg(rng, cmd, short, long_):
    """two files whose names are related (suffix / prefix), each declaring types the subcommand can generate for"""
    p = Pkg()
    p.files = sorted([File(short), File(long_)], key=lambda f: f.name)
    pool = list(EXPORTED)
    rng.shuffle(pool)
    for f in p.files:
        for _ in range(rng.choice([1, 2])):
            n = pool.pop()
            if cmd in ("new", "map"):
                t = mk_struct(rng, n)
                f.decls.append(("type", [t], None, False))
                p.dest.append(TS(n, "struct", t.go, rhs="struct"))
            elif cmd == "enum":
                t = mk_int(rng, n)
                f.decls.append(("type", [t], None, False))
                f.decls.append(("const", n, ["%sP%d" % (n, i) for i in range(rng.randint(1, 3))], False))
            else:
                f.decls.append(("type", [mk_rest(rng, n)], None, False))
        f.decls.append(("type", [mk_nonint(rng, pool.pop())], None, False))      # something ineligible as well
    p.features.add("name_pair")
    return p


def gen_group_pkg(rng, cmd):
    """aaa.go: a function-local type shadowing an eligible package-level type of a later file;
    doc.go: declaration-free (home of the //go:generate line);
    model.v2.go (a dot in the base name): one parenthesised type group in which ineligible specs come before,
    between and after eligible ones; the shoot import is renamed."""
    p = Pkg()
    fa, fd, fm = File("aaa.go"), File("doc.go"), File("model.v2.go")
    fm.shoot_alias = "sh"
    pool = list(EXPORTED)
    rng.shuffle(pool)
    g1, g2, b1, b2 = pool.pop(), pool.pop(), pool.pop(), pool.pop()
    u = rng.choice(UNEXPORTED)
    consts = []
    if cmd in ("new", "map"):
        good = [mk_struct(rng, g1), mk_struct(rng, g2)]
        bad = [mk_nonint(rng, b1), mk_int(rng, b2), mk_struct(rng, "_Hid", "_struct") if cmd == "new" else mk_struct(rng, u, "ustruct")]
        for t in good + [bad[2]]:
            p.dest.append(TS(t.name, "struct", t.go, rhs="struct"))      # incl. the same-named unexported struct
    elif cmd == "enum":
        good = [mk_int(rng, g1), mk_int(rng, g2)]
        bad = [mk_nonint(rng, b1), mk_struct(rng, b2), mk_int(rng, u)]
        bad[2].kind = "int_noconst"
        consts = [("const", g1, [g1 + "A", g1 + "B"], False), ("const", g2, ["_", g2 + "A"], False)]
    else:
        good = [mk_rest(rng, g1), mk_rest(rng, g2)]
        bad = [mk_iface(rng, b1), mk_struct(rng, b2), mk_nonint(rng, u)]
    fm.decls.append(("type", [bad[0], good[0], bad[1], good[1], bad[2]], None, True))
    fm.decls.extend(consts)
    loc = TS(g1, "local_int", "%s int" % g1, is_int=True)
    fa.decls.append(("type", [mk_nonint(rng, pool.pop())], None, False))
    fa.decls.append(("func", "helper1", [loc]))
    p.files = [fa, fd, fm]
    p.features.update(["local", "declfree", "group"])
    return p, [g1, g2]


HEADERS = {
    "generated": ["// Code generated by Wire. DO NOT EDIT."],
    "protoc": ["// Code generated by protoc-gen-go. DO NOT EDIT.\n// versions:\n// \tprotoc-gen-go v1.30.0\n// source: api.proto"],
    "licence+tag": ["/*\nCopyright 2026 The Authors.\n\nLicensed under the Apache License, Version 2.0.\n*/",
                    "//go:build !never_set_tag"],
    "tag+generated": ["//go:build !never_set_tag", "// Code generated by mockgen. DO NOT EDIT."],
}


def gen_header_pkg(rng, cmd):
    """source files that start with header comments -- a FOREIGN `Code generated ... DO NOT EDIT.` header (wire, protoc,
    mockgen: hand-written input as far as shoot is concerned), a licence block, a satisfied build tag -- and declare types
    the subcommand can generate for; plain.go carries no header"""
    p = Pkg()
    pool = list(EXPORTED)
    rng.shuffle(pool)
    specs = [("api.pb.go", "protoc"), ("lic.go", "licence+tag"), ("mock_gen.go", "tag+generated"), ("plain.go", None),
             ("wire_gen.go", "generated")]
    for name, h in specs:
        f = File(name)
        f.header = list(HEADERS[h]) if h else []
        n = pool.pop()
        if cmd in ("new", "map"):
            t = mk_struct(rng, n)
            f.decls.append(("type", [t], None, False))
            p.dest.append(TS(n, "struct", t.go, rhs="struct"))
        elif cmd == "enum":
            f.decls.append(("type", [mk_int(rng, n)], None, False))
            f.decls.append(("const", n, [n + "A", n + "B"], False))
        else:
            f.decls.append(("type", [mk_rest(rng, n)], None, False))
        f.decls.append(("type", [mk_nonint(rng, pool.pop())], None, False))
        p.files.append(f)
    p.features.add("headers")
    return p
