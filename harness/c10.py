"""C10 rest: status codes and bodies map to results and errors as documented.

Theorems: coq/Properties/C10.v (model coq/Model/RestHandle.v).
Correspondence (coq/Corr/RestHandleCorr.v): interfaces covering every result
shape the generator accepts are rendered into a scratch module, the freshly
built `shoot rest` generates their clients, harness/go/cmd/c10drv (copied next
to them with a generated registry) calls every method against scripted
responses (a real httptest server for 200..599, fabricated responses for any
int64 status), failing transports and failing call stages, and prints what came
back; Coq recomputes the model on the same inputs and evaluates the property
on the observation.  Signatures the generator must refuse are run one by one
and compared with cook_results."""
import concurrent.futures as cf
import json
import re

import lib
import l2
import rest10gen as g

MODULE = "c10mod"
PAR = 4
HEADER = ("From Coq Require Import List ZArith NArith String.\n"
          "From Shoot Require Import Model.RestHandle Corr.RestHandleCorr.\n"
          "Import ListNotations.\nLocal Open Scope string_scope.\n"
          "Set Printing Width 1000000.\nSet Printing Depth 1000000.\n")

CHEAP_FAULTS = ["sentinel", "both", "nilnil", "refused", "badbase"]
TIMED_FAULTS = ["inflight", "deadline", "timeout"]
PRE_STAGE = {"badbase": "StJoinPath", "marshal": "StMarshal", "nilctx": "StNewRequest"}

FATAL_PATTERNS = [
    (re.compile(r"should at least return response and error"), "FTooFew"),
    (re.compile(r"must not return more than three values"), "FTooMany"),
    (re.compile(r"must be a http response pointer"), "FNotResponse"),
    (re.compile(r"must be an error"), "FNotError"),
    (re.compile(r"with named return list is not supported"), "FNamed"),
    (re.compile(r"unsupported return type: (\S+)"), "FUnsupported"),
    (re.compile(r"unsupported array return type: (.+?) \(use a slice or a pointer\)"), "FArray"),
]


# ------------------------------------------------------------------ set-up
def gen_packages(run):
    rng = run.rng
    if run.thorough():
        npk, nif, nme = 5, 3, 6
    else:
        npk, nif, nme = 4, 3, 5
    pkgs = []
    pool = list(g.MORE_RESULTS)
    rng.shuffle(pool)
    for k in range(npk):
        force = None
        if k == 0:
            force = [None] + list(g.BASE_RESULTS)         # the four shapes of the property text
        take = (len(pool) + npk - 1) // npk
        force = (force or []) + pool[k * take:(k + 1) * take]  # every accepted form occurs somewhere
        pkgs.append(g.gen_iface_pkg(rng, "p%d" % k, nif, nme, force=force[:nif * nme], ctx_plan=g.CTX_PLAN if k == 0 else ()))
    rej = list(g.REJECTED)
    if not run.thorough():
        # the full list takes ~0.3 s per signature: quick keeps one of each fatal kind plus a sample
        keep = {"ident_struct", "selector", "struct_lit", "named3", "none", "only_error", "four",
                "resp_by_value", "resp_alias_import", "last_custom_error", "array_result", "multi_name_3"}
        rest = [r for r in rej if r[0] not in keep]
        rng.shuffle(rest)
        rej = [r for r in rej if r[0] in keep] + rest[:4]
    # plus random result lists over the whole field grammar (accepted or refused: Coq decides)
    for k in range(60 if run.thorough() else 6):
        rej.append(("random%d" % k, g.random_results(rng)))
    rpkgs = [(label, g.rejected_pkg("r%02d" % i, results)) for i, (label, results) in enumerate(rej)]
    return pkgs, rpkgs


WITNESS = {
    "K_rest_array_result": ("wa", [([], ("arr", "2", g.INT)), g.RESP, g.ERR], "cannot use nil as [2]int value"),
    "K_rest_multi_name_result": ("wm", [(["a", "b"], g.RESP[1]), (["err"], g.ERR[1])], "not enough return values"),
    "K_rest_result_names_collide": ("wn", [(["resp_"], g.RESP[1]), (["err"], g.ERR[1])], "no new variables on left side"),
}

# client option sets (the driver's Case fields): EnableLogging, a pass-through Use middleware, a non-empty
# DefaultHeaders, Use(RetryMiddleware(n, 1ms)) and their combinations
OPTSETS = [
    {},
    {"logging": True},
    {"wrap": True},
    {"logging": True, "wrap": True},
    {"headers": True},
    {"retry": 0},
    {"retry": 2},
    {"headers": True, "retry": 1},
    {"headers": True, "logging": True},
    {"headers": True, "logging": True, "wrap": True, "retry": 1},
]
CTX_FAULTS = ["cancelled", "inflight", "deadline", "timeout"]      # failures that travel through the request context
DET_METHODS = 10                                                   # rest10gen.CTX_PLAN: the methods of the deterministic classes

REDIRECT_FINDING = "K_rest_redirect_response_dropped"
REDIRECT_STATUSES = [301, 302, 303, 307, 308]


def fatal_of(r):
    """classify a shoot run: None = generated, else Coq term of type fatal, or 'other: ...'"""
    if r["rc"] == 0:
        return None
    txt = r["err"] + r["out"]
    for pat, name in FATAL_PATTERNS:
        m = pat.search(txt)
        if m:
            return "%s %s" % (name, g.coq_str(m.group(1))) if name in ("FUnsupported", "FArray") else name
    return "other: rc=%s %s" % (r["rc"], txt[-400:])


def setup(run, pkgs, rpkgs, witness=True):
    shoot = run.build_shoot()
    mod = l2.make_module(run, MODULE)
    files = {}
    for p in pkgs:
        files.update(g.render_go(p))
    for _, p in rpkgs:
        files.update(g.render_go(p))
    wit = {}
    if witness:
        for kid, (name, results, _) in WITNESS.items():
            wp = g.rejected_pkg(name, results)
            files.update(g.render_go(wp))
            wit[kid] = wp
    l2.write_files(mod, files)

    def one(p):
        types = ",".join(i.name for i in p.ifaces)
        return l2.run_shoot(shoot, mod / p.name, ["rest", "-type=" + types], timeout=120)
    allp = list(pkgs) + [p for _, p in rpkgs] + list(wit.values())
    with cf.ThreadPoolExecutor(max_workers=PAR) as ex:
        runs = list(ex.map(one, allp))
    res = {p.name: r for p, r in zip(allp, runs)}
    for p in allp:
        if res[p.name]["timed_out"] or res[p.name]["panicked"]:
            raise lib.CheckBroken("shoot rest hung or panicked on %s: %s" % (p.name, res[p.name]["err"][-1500:]))
    # the generated clients must compile (one go build for all of them); a package that does not
    # is reported by the caller and left out of the driver
    gen_pkgs = [p for p in pkgs if res[p.name]["rc"] == 0]
    broken = {}
    if gen_pkgs:
        ok, errs = l2.go_build(mod, ["./" + p.name for p in gen_pkgs])
        if not ok:
            for p in gen_pkgs:
                e = errs.get("%s/%s" % (MODULE, p.name))
                if e:
                    broken[p.name] = e
            if not broken:
                raise lib.CheckBroken("go build of the generated clients failed: %s" % json.dumps(errs)[-3000:])
    for name, e in broken.items():
        res[name]["build_errors"] = e
    # the driver: the generic main.go + a registry of the packages that were generated and compile
    ok_pkgs = [p for p in gen_pkgs if p.name not in broken]
    l2.write_files(mod, {"cmd/c10drv/main.go": (lib.VERIF / "harness/go/cmd/c10drv/main.go").read_text(),
                         "cmd/c10drv/zz_registry.go": g.registry_go(MODULE, ok_pkgs)})
    drv = run.scratch / "bin" / "c10drv"
    ok, err = l2.go_build_bin(mod, "./cmd/c10drv", drv)
    if not ok:
        raise lib.CheckBroken("go build of the C10 driver (with the generated clients) failed: " + err[-3000:])
    return shoot, mod, drv, res, files, wit


def witness_handler(run, mod, res, kid):
    name, _, msg = WITNESS[kid]

    def h(entry):
        r = res[name]
        if r["rc"] != 0:
            f = fatal_of(r)
            return "correct" if f and not f.startswith("other") else "other: shoot rest failed: %s" % f
        ok, errs = l2.go_build(mod, ["./" + name])
        if ok:
            return "correct"
        txt = "\n".join("\n".join(v) for v in errs.values())
        return "buggy" if msg in txt else "other: go build: " + txt[-600:]
    return h


def redirect_handler(run, drv, pkgs):
    """K_rest_redirect_response_dropped: a redirect loop makes http.Client.Do return the last 3xx response
    together with an error; the generated method returns (nil, nil, err)"""
    def h(entry):
        methods = [(p, i, m) for p in pkgs[:1] for i in p.ifaces for m in i.methods][:4]
        if not methods:
            return "other: no generated client to run the witness on"
        obs = run_driver(drv, redirect_loop_cases(methods))
        kinds = set()
        for o in obs:
            e = o["err"]
            if o["panic"] or e is None or e["same"] != "do" or "redirects" not in e["text"] or not o["got_resp"]:
                kinds.add("other: %s" % json.dumps({k: o[k] for k in ("resp", "err", "panic", "got_resp")})[:300])
            elif o["resp"] == "nil":
                kinds.add("buggy")
            elif o["resp"] == "same":
                kinds.add("correct")
            else:
                kinds.add("other: a different response was returned")
        if len(kinds) == 1:
            return kinds.pop()
        return "other: mixed behaviour %s" % sorted(kinds)
    return h


# ------------------------------------------------------------------- cases
def redirect_loop_cases(methods, start=0):
    """Do returns the last 3xx response together with 'stopped after 10 redirects'"""
    cases = []
    for p, i, m in methods:
        for s in REDIRECT_STATUSES:
            cases.append({"i": start + len(cases), "iface": "%s.%s" % (p.name, i.name), "method": m.name, "mode": "fault",
                          "status": s, "body": "", "body_fault": False, "fault": "redirect_loop", "via": 0,
                          "logging": s in (302, 307), "wrap": s in (303, 307), "headers": s == 308,
                          "retry": 1 if s == 301 else None, "opt_timeout": 0, "nil_body": False, "gzip": False,
                          "_m": m, "_p": p, "_label": "redirect_loop"})
    return cases


def gen_cases(run, pkgs, with_redirect_loops=False):
    """list of dicts: the driver's Case fields plus bookkeeping (pkg, method object, body label)"""
    rng = run.rng
    cases = []
    methods = [(p, i, m) for p in pkgs for i in p.ifaces for m in i.methods]

    def add(p, i, m, **kw):
        c = {"i": len(cases), "iface": "%s.%s" % (p.name, i.name), "method": m.name, "mode": kw.pop("mode"),
             "status": kw.pop("status", 0), "body": kw.pop("body", ""), "body_fault": kw.pop("body_fault", False),
             "fault": kw.pop("fault", ""), "via": kw.pop("via", 0), "logging": kw.pop("logging", False),
             "wrap": kw.pop("wrap", False), "headers": kw.pop("headers", False), "retry": kw.pop("retry", None),
             "opt_timeout": kw.pop("opt_timeout", 0), "nil_body": kw.pop("nil_body", False),
             "gzip": kw.pop("gzip", False), "_m": m, "_p": p, "_label": kw.pop("label", "")}
        assert not kw, kw
        cases.append(c)

    def fault_ok(m, f, o):
        """does fault f make sense for method m through a client built with option set o"""
        if f in ("cancelled", "inflight", "deadline", "nilctx", "bodyhang") and not m.ctx:
            return False
        # a transport that answers (nil, nil) breaks the RoundTripper contract: LoggingMiddleware and
        # RetryMiddleware dereference the response
        return not (f == "nilnil" and (o.get("logging") or o.get("retry") is not None))

    statuses = g.quick_statuses(rng)
    inrange = g.BOUNDARIES[1:]
    for k, (p, i, m) in enumerate(methods):
        base = k < 4                                   # the four shapes of the property text
        full = base or run.thorough() or k % 8 == 5    # quick: the full status sample for 4 + every 8th method
        bodies = g.bodies_for(m, rng, extra=True)
        main4 = bodies[:4]
        # ~60 statuses (thorough: all 400) x the 4 body classes; real round trips and fabricated
        # responses alternate; the other methods get every boundary x 4 bodies and a random sample
        if run.thorough():
            sweep = list(range(200, 600))
        elif full:
            sweep = statuses
        else:
            sweep = inrange + rng.sample([x for x in range(200, 600) if x not in inrange], 6)
        for s in sweep:
            for j, (label, b) in enumerate(main4):
                mode = "srv" if (s + j + k) % 3 else "fab"
                add(p, i, m, mode=mode, status=s, body=b, label=label)
        # body variants on the boundaries
        for label, b in bodies[4:]:
            for s in (inrange if full else rng.sample(inrange, 3)):
                add(p, i, m, mode=rng.choice(["srv", "fab"]), status=s, body=b, label=label)
        # statuses no HTTP/1.1 server can send as a final status: fabricated responses
        for s in (g.OUT_OF_RANGE if full else [199] + rng.sample(g.OUT_OF_RANGE, 7)):
            label, b = rng.choice(main4)
            add(p, i, m, mode="fab", status=s, body=b, label=label)
        for s in (600, 750, 999):                      # net/http servers may send up to 999
            label, b = rng.choice(main4)
            add(p, i, m, mode="srv", status=s, body=b, label=label)
        # a redirect that http.Client follows: the answer is the final response
        for via in (REDIRECT_STATUSES if full else rng.sample(REDIRECT_STATUSES, 2)):
            label, b = rng.choice(main4)
            add(p, i, m, mode="srv", status=rng.choice([200, 201, 404, 500, 302]), body=b, via=via,
                label="redirected_" + label)
        # a read error after (part of) the body
        for s in (200, 201, 299, 300, 404, 500):
            label, b = rng.choice(bodies)
            cut = b[:rng.randint(0, len(b))] if rng.random() < 0.6 else b
            add(p, i, m, mode="fab", status=s, body=cut, body_fault=True, label="fault_after_" + label)
        # failures before a response exists
        faults = list(CHEAP_FAULTS)
        if m.ctx:
            faults += ["cancelled", "nilctx"]
        if m.body_param:
            faults.append("marshal")
        timed = k < DET_METHODS or run.thorough() or rng.random() < 0.2
        if timed:
            faults += TIMED_FAULTS if m.ctx else ["timeout"]
        # client variants: plain, shoot.EnableLogging(true), a pass-through shoot.Use middleware, both --
        # a middleware of the chain must hand the transport's error on as it is
        variants = [(False, False), (True, False), (False, True), (True, True)]
        for f in faults:
            vs = variants if (base or f in ("sentinel", "refused")) else [variants[0], rng.choice(variants[1:])]
            for lg, wr in vs:
                if f == "nilnil" and lg:
                    continue        # LoggingMiddleware dereferences the nil response of a transport that breaks its contract
                add(p, i, m, mode="fault", fault=f, status=200, body="{}", label=f, logging=lg, wrap=wr)
        # the same variants on ordinary answers
        for lg, wr in variants[1:]:
            s_ = rng.choice(inrange)
            label, b = rng.choice(main4)
            add(p, i, m, mode=rng.choice(["srv", "fab"]), status=s_, body=b, label=label, logging=lg, wrap=wr)
        # the body stalls after the headers: cancellation (always) / client timeout (few: 0.4 s each)
        if m.ctx:
            for s in (200, 404, 503, 302):
                label, b = rng.choice(bodies[1:4])
                add(p, i, m, mode="fault", fault="bodyhang", status=s, body=b, label="hang_" + label)
        if base or (run.thorough() and rng.random() < 0.3):
            for s in (200, 500):
                add(p, i, m, mode="fault", fault="bodytimeout", status=s, body=bodies[2][1], label="bodytimeout")
        # ---- client options x failures that travel through the request context, and middleware chains in
        # front of answers with bodies.  Deterministic for the first methods of the first package (context
        # first / last / middle / absent, body and non-body verbs), sampled for the others.
        det = k < DET_METHODS
        answers = [(s_, lb) for s_ in (200, 400, 404, 499, 500, 503, 599) for lb in (bodies[1], [x for x in bodies if x[0] == "text"][0])]
        if det or run.thorough():
            for o in OPTSETS[4:]:
                for f in CTX_FAULTS + ["sentinel", "refused", "bodyhang"]:
                    if fault_ok(m, f, o):
                        add(p, i, m, mode="fault", fault=f, status=200, body=bodies[1][1], label=f, **o)
            for n_, o in enumerate(OPTSETS[1:]):
                for a_, (s_, (label, b)) in enumerate(answers):
                    # a retried request with a body cannot be sent twice over a real connection (RetryMiddleware
                    # hands the consumed body on again: reported, not this property's subject): fabricated answers
                    real = (n_ + a_ + k) % 2 == 0 and not (m.body_param and o.get("retry") is not None and s_ >= 500)
                    add(p, i, m, mode="srv" if real else "fab", status=s_, body=b, label="chain_" + label, **o)
        else:
            for o in rng.sample(OPTSETS[4:], 2):
                f = rng.choice([f for f in CTX_FAULTS + ["sentinel", "refused"] if fault_ok(m, f, o)])
                add(p, i, m, mode="fault", fault=f, status=200, body=bodies[1][1], label=f, **o)
                s_, (label, b) = rng.choice(answers)
                add(p, i, m, mode="fab", status=s_, body=b, label="chain_" + label, **o)
        # ---- a document parameter of pointer type called with nil (json.Marshal sends null): the mapping of the
        # answer is the same as for any other call -- the status sweep once more (fixed methods: all of it)
        if m.ptr_body:
            for s_ in (statuses if det or run.thorough() else rng.sample(inrange, 4)):
                for j, (label, b) in enumerate(main4 if det or run.thorough() else [rng.choice(main4)]):
                    add(p, i, m, mode="srv" if (s_ + j + k) % 2 else "fab", status=s_, body=b, label="nilbody_" + label, nil_body=True)
            for f in ("sentinel", "refused") + (("cancelled",) if m.ctx else ()):
                add(p, i, m, mode="fault", fault=f, status=200, body="{}", label=f, nil_body=True)
        # ---- a server that compresses the answer when the request allows it (net/http asks for gzip on its own
        # and decompresses transparently): the mapping works on the document, whatever the content coding
        gz_answers = [(s_, lb) for s_ in (200, 201, 400, 404, 500, 503) for lb in (bodies[1], [x for x in bodies if x[0] == "text"][0])]
        for s_, (label, b) in (gz_answers if det or run.thorough() else rng.sample(gz_answers, 2)):
            add(p, i, m, mode="srv", status=s_, body=b, label="gzip_" + label, gzip=True, nil_body=m.ptr_body and s_ in (201, 404))
        if k in (0, 4, 5, 9):
            # shoot.Timeout as an option (the constructor turns 1 into one second: open finding K_rest_timeout)
            for o in ({}, {"headers": True}):
                add(p, i, m, mode="fault", fault="timeout", status=200, body="{}", label="timeout", opt_timeout=1, **o)
    if with_redirect_loops:
        # only once the finding K_rest_redirect_response_dropped no longer reproduces
        cases += redirect_loop_cases(methods, start=len(cases))
    return cases


def run_driver(drv, cases):
    inp = "".join(json.dumps({k: v for k, v in c.items() if not k.startswith("_")}) + "\n" for c in cases)
    rc, out, err = lib.sh([str(drv), str(PAR)], input=inp, timeout=2400)
    obs = {}
    for line in out.splitlines():
        if line.strip():
            o = json.loads(line)
            obs[o["i"]] = o
    if rc != 0 or len(obs) != len(cases):
        raise lib.CheckBroken("c10drv: rc=%s, %d observations for %d cases: %s" % (rc, len(obs), len(cases), err[-2000:]))
    return [obs[c["i"]] for c in cases]


# --------------------------------------------------------------- rendering
def coq_val(j, nil):
    return "{| v_json := %s; v_nil := %s |}" % (g.coq_str(j), "true" if nil else "false")


def classify_case(c, o):
    """which model outcome this case is, from what the transport did (measured):
    ('resp', status, data, fault) or ('fail', stage)"""
    if c["mode"] in ("fab", "srv"):
        return ("resp",)
    f = c["fault"]
    if f == "redirect_loop":
        return ("both",)
    if f in PRE_STAGE:
        return ("fail", PRE_STAGE[f])
    if f in ("bodyhang", "bodytimeout") and o["got_resp"] and o["resp"] != "nil":
        return ("resp",)
    if f in ("bodyhang", "bodytimeout") and o["got_resp"]:
        # the transport produced a response but the client did not get it: leave it to the comparison
        return ("resp",)
    return ("fail", "StDo")


def coq_case(c, o, mname):
    kind = classify_case(c, o)
    m = c["_m"]
    dummy = coq_val("", False)
    zero = coq_val(o["zero"], o["zero_nil"]) if m.has_result() else dummy
    if kind[0] == "both":
        out = ("OBoth {| r_id := 1; r_status := (%d)%%Z; r_body := {| b_data := \"\"; b_fault := None |} |} 1"
               % c["status"])
        dec = "(%s, None)" % zero
    elif kind[0] == "fail":
        out = "OFail %s 1" % kind[1]
        dec = "(%s, None)" % zero
    else:
        streamed = c["mode"] == "fault"
        data = o["delivered"] if o["delivered"] is not None else c["body"]
        fault = "Some 3" if (c["body_fault"] or streamed) else "None"
        out = ("OResp {| r_id := 1; r_status := (%d)%%Z; r_body := {| b_data := %s; b_fault := %s |} |}"
               % (c["status"], g.coq_str(data), fault))
        d = o["dec"]
        if d is None:
            dec = "(%s, None)" % zero
        else:
            e = {"ok": "None", "eof": "Some DEof", "err": "Some (DOther 2)"}[d["class"]]
            dec = "(%s, %s)" % (coq_val(d["json"], d["nil"]), e)
    # the observation
    if o["panic"]:
        res, resp, err = "None", "ROther", "EUnknown %s" % g.coq_str("panic: " + o["panic"])
    else:
        r = o["res"]
        res = "None" if r is None else "(Some %s)" % ("ONil" if r["nil"] else "(OJson %s)" % g.coq_str(r["json"]))
        resp = {"nil": "RNil", "same": "RSame", "other": "ROther"}[o["resp"]]
        e = o["err"]
        if e is None:
            err = "ENone"
        elif e["same"] in ("do", "pre"):
            err = "ESame 1"
        elif e["same"] == "decode":
            err = "ESame 2"
        elif e["type"] == "*errors.errorString":
            err = "EMsg %s" % g.coq_str(e["text"])
        else:
            err = "EUnknown %s" % g.coq_str(e["type"] + ": " + e["text"])
    obs = ("{| ob_nout := %d; ob_res := %s; ob_resp := %s; ob_err := %s; ob_read := %s; ob_closed := %d |}"
           % (o["nout"], res, resp, err, "true" if o["reads"] > 0 else "false", o["closed"]))
    return ("{| c_body_verb := %s; c_results := %s; c_out := %s; c_zero := %s; c_dec := %s; c_obs := %s |}"
            % ("true" if m.body_param else "false", mname, out, zero, dec, obs))


def coq_shards(run, tag, cases, obs, shard=400, extra=""):
    def one(k):
        lo = k * shard
        part = list(zip(cases[lo:lo + shard], obs[lo:lo + shard]))
        names, defs = {}, []
        for c, _ in part:
            key = id(c["_m"])
            if key not in names:
                names[key] = "m%d" % len(names)
                defs.append("Definition %s : list field := %s.\n" % (names[key], g.coq_fields(c["_m"].results)))
        body = (HEADER + "".join(defs) + "Definition cases : list case := [\n%s\n].\n"
                "Definition M := Eval vm_compute in mismatches cases.\nPrint M.\n%s"
                % (";\n".join(coq_case(c, o, names[id(c["_m"])]) for c, o in part), extra))
        out = run.coq_eval("%s_%d" % (tag, k), body)
        return [(lo + i, v) for i, v in lib.parse_coq_list_pairs(out, "M")], out
    res, outs = [], []
    n = (len(cases) + shard - 1) // shard
    with cf.ThreadPoolExecutor(max_workers=PAR) as ex:
        for r, out in ex.map(one, range(n)):
            res.extend(r)
            outs.append(out)
    return res, outs


def model_says(run, c, o):
    """the model's observation for one case, as Coq prints it (for replay files)"""
    try:
        _, outs = coq_shards(run, "c10explain_%d" % c["i"], [c], [o],
                             extra="Definition E := Eval vm_compute in map model_obs cases.\nPrint E.\n")
        m = re.search(r"E = (.*?) : list", " ".join(outs[0].split()))
        return m.group(1) if m else outs[0][-1500:]
    except lib.CheckBroken as e:
        return "coqc failed: %s" % e


def acc_mismatches(run, entries):
    """entries: (results, observed fatal Coq term or None)"""
    body = (HEADER + "Definition cases : list acc_case := [\n%s\n].\n"
            "Definition M := Eval vm_compute in mismatches_acc cases.\nPrint M.\n"
            % ";\n".join("{| a_results := %s; a_obs := %s |}"
                         % (g.coq_fields(r), "None" if f is None else "(Some (%s))" % f) for r, f in entries))
    return lib.parse_coq_list_pairs(run.coq_eval("c10acc", body), "M")


def pub(c):
    return {k: v for k, v in c.items() if not k.startswith("_")}


# -------------------------------------------------------------------- main
def main(run):
    proof_ok = run.prove("Properties/C10.v", ["Corr/RestHandleCorr.v"])
    pkgs, rpkgs = gen_packages(run)
    shoot, mod, drv, res, files, wit = setup(run, pkgs, rpkgs)
    run.log("generated %d packages (%d methods), %d refused signatures"
            % (len(pkgs), sum(len(p.methods()) for p in pkgs), len(rpkgs)))
    live = [p for p in pkgs if res[p.name]["rc"] == 0 and not res[p.name].get("build_errors")]
    handlers = {k: witness_handler(run, mod, res, k) for k in WITNESS}
    handlers[REDIRECT_FINDING] = redirect_handler(run, drv, live)
    outcome = run.replay_findings(handlers)

    # ---- acceptance: which signatures get a client
    def obs_fatal(r):
        f = fatal_of(r)
        if f is not None and f.startswith("other"):
            f = "FUnsupported %s" % g.coq_str(f)        # an unknown failure can match no model fatal
        return f
    entries, emeta = [], []
    for p in pkgs:
        for i, m in p.methods():
            entries.append((m.results, obs_fatal(res[p.name])))
            emeta.append((p, m, res[p.name], "accepted"))
    for label, p in rpkgs:
        entries.append((p.ifaces[0].methods[0].results, obs_fatal(res[p.name])))
        emeta.append((p, p.ifaces[0].methods[0], res[p.name], label))
    am = acc_mismatches(run, entries)
    for idx, v in am[:4]:
        p, m, r, label = emeta[idx]
        rep = {"kind": "correspondence-broken", "theorem": "C10_method_exists_iff_signature_accepted",
               "correspondence": "L2:C10:shoot rest exit class vs cook_results (Model/RestHandle.v)",
               "signature": m.decl(), "label": label, "shoot_rc": r["rc"], "shoot_stderr": r["err"][-1500:],
               "pkg": {"name": p.name, "ifaces": [i.name for i in p.ifaces]},
               "sources": g.render_go(p), "how": "cd %s && shoot rest -type=%s && go build ." % (p.name, p.ifaces[0].name)}
        no_input = True
        if label != "accepted" and r["rc"] == 0:
            # shoot generated a client for a signature the model refuses: does that client work at all?
            ok, errs = l2.go_build(mod, ["./" + p.name])
            if not ok:
                rep["kind"] = "property-fails-on-implementation"
                rep["what"] = ("shoot accepted this signature (exit 0) but the generated client does not compile, "
                               "so the method returns nothing")
                rep["build_errors"] = sum(errs.values(), [])[:20]
                no_input = False
        run.violation(rep, no_input=no_input)
    for p in pkgs:
        if res[p.name].get("build_errors"):
            run.violation({"kind": "property-fails-on-implementation",
                           "what": "the client generated for accepted signatures does not compile, so no method "
                                   "returns anything (C10_method_exists_iff_signature_accepted predicts a working method)",
                           "correspondence": "L2:C10:go build of the generated client",
                           "build_errors": res[p.name]["build_errors"][:20], "sources": g.render_go(p),
                           "pkg": {"name": p.name, "ifaces": [i.name for i in p.ifaces]},
                           "how": "cd %s && shoot rest -type=%s && go build ." % (p.name, ",".join(i.name for i in p.ifaces))})
    # every signature of the refused/random stream that shoot accepted must at least compile
    accepted_r = [(label, p) for label, p in rpkgs if res[p.name]["rc"] == 0]
    n_compiled = 0
    if accepted_r:
        ok, errs = l2.go_build(mod, ["./" + p.name for _, p in accepted_r])
        n_compiled = len(accepted_r)
        for label, p in accepted_r:
            e = errs.get("%s/%s" % (MODULE, p.name))
            if e:
                n_compiled -= 1
                run.violation({"kind": "property-fails-on-implementation",
                               "what": "shoot accepted this signature (exit 0) but the generated client does not compile",
                               "correspondence": "L2:C10:go build of every accepted signature of the refused/random stream",
                               "signature": p.ifaces[0].methods[0].decl(), "label": label, "build_errors": e[:20],
                               "pkg": {"name": p.name, "ifaces": [i.name for i in p.ifaces]}, "sources": g.render_go(p),
                               "how": "cd %s && shoot rest -type=R && go build ." % p.name})

    # ---- behaviour of the generated methods
    cases = gen_cases(run, live, with_redirect_loops=(outcome.get(REDIRECT_FINDING) == "correct"))
    run.log("cases:", len(cases))
    obs = run_driver(drv, cases)
    run.log("driver done")
    mism, _ = coq_shards(run, "c10cases", cases, obs)
    run.log("coq done: %d mismatches" % len(mism))
    # timing-dependent scenarios are re-run alone before they are believed; every other mismatch counts as it is
    def timed(c):
        return c["mode"] == "fault" and c["fault"] in TIMED_FAULTS + ["bodyhang", "bodytimeout"]
    confirmed = [(idx, v, obs[idx]) for idx, v in mism if not timed(cases[idx])]
    timed_mism = [(idx, v) for idx, v in mism if timed(cases[idx])]
    discarded = 0
    if timed_mism:
        # one more driver run and one more Coq evaluation for (at most 40 of) them together
        again = [dict(cases[idx]) for idx, _ in timed_mism[:40]]
        for n_, c2 in enumerate(again):
            c2["i"] = n_
        obs2 = run_driver(drv, again)
        m2 = dict(coq_shards(run, "c10re", again, obs2)[0])
        for n_, (idx, v) in enumerate(timed_mism[:40]):
            if n_ in m2:
                confirmed.append((idx, m2[n_], obs2[n_]))
            else:
                discarded += 1
    for idx, v in timed_mism[40:]:
        confirmed.append((idx, v, obs[idx]))      # too many to re-run: reported as they are
    confirmed.sort(key=lambda t: t[1] != 2)       # failures of the property itself (concrete inputs) first
    for idx, v, o in confirmed[:5]:
        c = cases[idx]
        p = c["_p"]
        run.violation({"kind": {2: "property-fails-on-implementation", 3: "stdlib-law-violated"}.get(v, "correspondence-broken"),
                       "theorem": "C10_method_refines_spec (and the per-class theorems of Properties/C10.v)",
                       "correspondence": "L2:C10:c10drv vs Model/RestHandle.v",
                       "case": pub(c), "signature": c["_m"].decl(), "observed": o,
                       "pkg": {"name": p.name, "ifaces": [i.name for i in p.ifaces]},
                       "method": {"name": c["_m"].name, "verb": c["_m"].verb, "ctx": c["_m"].ctx, "ptr_body": c["_m"].ptr_body,
                                  "results": c["_m"].results},
                       "expected_by_model": model_says(run, c, o),
                       "coq_case": coq_case(c, o, g.coq_fields(c["_m"].results)),
                       "sources": g.render_go(p),
                       "how": "cd %s && shoot rest -type=%s ; go build ./cmd/c10drv ; echo '<case>' | c10drv"
                              % (p.name, ",".join(i.name for i in p.ifaces))},
                      no_input=(v != 2))
    if not proof_ok and not confirmed and not am:
        run.proof_failure_violation()

    # ---- evidence
    def klass(s):
        return "2xx" if 200 <= s < 300 else "4xx" if 400 <= s < 500 else "5xx" if s >= 500 else "other"
    dist, decs, shapes, faults = {}, {}, {}, {}
    nontrivial = set()
    for c, o in zip(cases, obs):
        m = c["_m"]
        shape = g.go_type(m.result_type()) if m.has_result() else "(none)"
        shapes[shape] = shapes.get(shape, 0) + 1
        if c["mode"] == "fault":
            faults[c["fault"]] = faults.get(c["fault"], 0) + 1
            nontrivial.add((c["iface"], c["method"], c["fault"], c["status"]))
            continue
        k = klass(c["status"]) + "/" + c["mode"]
        dist[k] = dist.get(k, 0) + 1
        d = o["dec"]["class"] if o.get("dec") else "n/a"
        decs[c["_label"] + "->" + d] = decs.get(c["_label"] + "->" + d, 0) + 1
        if o["err"] is not None or (o.get("dec") and o["dec"]["class"] != "ok") or c["body"] == "":
            nontrivial.add((c["iface"], c["method"], c["status"], c["body"], c["body_fault"]))
    ctxopt, ctxpos = {}, {}
    for c in cases:
        if c["mode"] == "fault" and c["fault"] in CTX_FAULTS + ["bodyhang", "nilctx"]:
            o_ = "+".join(k_ for k_ in ("logging", "wrap", "headers") if c[k_]) + ("+retry%d" % c["retry"] if c["retry"] is not None else "") \
                + ("+shoot.Timeout" if c["opt_timeout"] else "")
            key = "%s/%s" % (c["fault"], o_.strip("+") or "plain")
            ctxopt[key] = ctxopt.get(key, 0) + 1
            key = "%s/%s" % (c["_m"].ctx or "absent", c["fault"])
            ctxpos[key] = ctxpos.get(key, 0) + 1
    sample_idx = [0, len(cases) // 3, len(cases) // 2, len(cases) - 1] if cases else []
    swept = sorted({c["status"] for c in cases if c["mode"] in ("srv", "fab")})
    cov = {
        "evaluations": len(cases) + len(entries),
        "distinct_nontrivial": len(nontrivial),
        "rule": ("per generated method (%d methods in %d packages; result shapes: none, *T, []T, map[K]V over structs, "
                 "scalars, any, nested slices/maps/pointers, time.Time, anonymous structs): %s statuses in 200..599 x "
                 "bodies {empty, valid JSON of the result type, malformed, wrong-typed (for *any / *interface{} no JSON is "
                 "wrong-typed: the measured decode class decides)} alternating between a real "
                 "httptest round trip and a fabricated *http.Response; body variants (null, whitespace, valid+trailing "
                 "text, quoted/UTF-8 text) on the boundary statuses; %d statuses outside 200..599 incl. negatives and "
                 "int64 extremes (fabricated) and 600/750/999 (real server); read errors after part of the body; "
                 "failures (each also through clients built with shoot.EnableLogging(true) and/or a pass-through shoot.Use "
                 "middleware; for the first 10 methods -- context parameter first / last / middle / absent -- the failures "
                 "that travel through the request context and the statuses 200/400/404/499/500/503/599 with a body also "
                 "through every option set of OPTSETS: non-empty shoot.DefaultHeaders, shoot.Use(RetryMiddleware(0|1|2)), "
                 "combinations; shoot.Timeout as an option; methods whose document is a pointer parameter called with nil "
                 "over the status sweep; answers compressed with gzip by the server): transport sentinel, response+error, nil/nil, connection refused, context cancelled "
                 "before/in flight, context deadline, http.Client.Timeout, stalled body (cancel, timeout), url.JoinPath, "
                 "json.Marshal, nil context.  %d signatures the generator must refuse, one shoot run each.  "
                 "non-trivial = distinct cases with a non-nil error, an empty body, a body that is not plainly decodable, "
                 "or a failure" % (sum(len(p.methods()) for p in live), len(live),
                                   "all 400" if run.thorough() else "60 (all boundaries)", len(g.OUT_OF_RANGE), len(rpkgs))),
        "exhaustive": bool(run.thorough()),
        "exhaustive_note": ("every status 200..599 x 4 body classes x every generated method (all result shapes) "
                            "x the fault list" if run.thorough() else "quick tier samples 60 of the 400 statuses"),
        "traces_validated_against_impl": len(cases) + len(entries),
        "programs": len(live) + len(rpkgs),
        "methods": sum(len(p.methods()) for p in live),
        "result_shapes": shapes,
        "status_class_by_transport": dist,
        "statuses_covered_200_599": len([s for s in swept if 200 <= s <= 599]),
        "body_class_to_measured_decode_class": decs,
        "faults": faults,
        "client_variants": {"logging": sum(1 for c in cases if c["logging"]), "wrapped": sum(1 for c in cases if c["wrap"]),
                            "default_headers": sum(1 for c in cases if c["headers"]),
                            "retry_middleware": sum(1 for c in cases if c["retry"] is not None),
                            "shoot_timeout_option": sum(1 for c in cases if c["opt_timeout"]),
                            "fault_cases_with_logging_or_wrap": sum(1 for c in cases if c["mode"] == "fault" and (c["logging"] or c["wrap"])),
                            "context_faults_by_option_set": ctxopt,
                            "answers_4xx_5xx_with_body_behind_a_chain": sum(
                                1 for c in cases if c["mode"] in ("srv", "fab") and c["status"] >= 400 and c["body"]
                                and (c["logging"] or c["wrap"] or c["headers"] or c["retry"] is not None))},
        "context_position_by_context_fault": ctxpos,
        "pointer_document_methods": len({(c["iface"], c["method"]) for c in cases if c["_m"].ptr_body}),
        "nil_document_calls": sum(1 for c in cases if c["nil_body"]),
        "gzip_answers": sum(1 for c in cases if c["gzip"]),
        "refused_signatures": {label: (fatal_of(res[p.name]) or "generated") for label, p in rpkgs},
        "findings_measured": outcome,
        "mismatches": {"raw": len(mism), "timed_rerun": min(len(timed_mism), 40), "timed_not_reproduced": discarded,
                       "reported": min(len(confirmed), 5), "confirmed": len(confirmed)},
        "accepted_signatures_of_the_refused_stream_compiled": n_compiled,
        "samples": [{"case": pub(cases[i]), "signature": cases[i]["_m"].decl().strip(), "observed": obs[i]}
                    for i in sample_idx],
        "trusted_base": lib.TRUSTED_BASE_COMMON + [
            "encoding/json is a parameter of the model (Section variable decode); per case it is instantiated with "
            "what json.NewDecoder(body).Decode does for a variable of the declared type, measured by the driver "
            "independently of the generated code; the one law used (empty stream -> io.EOF, variable untouched) is "
            "checked on every measurement (verdict 3)",
            "net/http is not modelled: a case starts from what http.Client.Do returned (a response with status and "
            "body, an error, or both: a failed redirect chain); that 204/304 carry no body, that 3xx without Location "
            "are returned as they are, that a 3xx with Location is followed (both exercised) and that final statuses "
            "below 200 cannot arrive over HTTP/1.1 are facts of net/http (statuses outside 200..999 are exercised with "
            "fabricated responses through the middleware chain)",
            "'unchanged' for an error of another package is observed as: *url.Error whose Err is the transport's own "
            "sentinel (identity), or equality of dynamic type and text with the error a hand-written reference call "
            "(same http.Client, same URL and context conditions) returns; the optional ' (Client.Timeout exceeded ...)' "
            "suffix is ignored because net/http adds it depending on a race of two of its own timers",
            "results are compared as canonical JSON (json.Marshal) plus nil-ness; the returned *http.Response by "
            "pointer identity with the one the innermost transport produced",
            "fmt's %d is modelled by dec (proved to round-trip); the template text is given its meaning by hand "
            "(emit: the rendered statements, exec: what they do); go/ast and go/printer enter through the rendering of "
            "the declared result list as a list of fields (names, type expression)",
        ],
    }
    return run.finish(cov, assumptions=[
        "wf_results: identifiers in result types are non-empty (true of every parsed file); no other guard on the signature "
        "(K_rest_array_result, K_rest_multi_name_result, K_rest_result_names_collide are fixed in /repo; their input "
        "classes are inside the comparison stream and their witnesses are replayed)",
        "no_both: C10_method_refines_spec and the oracle theorems exclude the scenario 'Do returns a response together "
        "with an error' (a failed redirect chain): there the code drops the response (open finding "
        "K_rest_redirect_response_dropped, golden-locked); the class is replayed every run and enters the comparison "
        "stream as soon as it no longer reproduces",
        "encoding/json is a parameter: 'an empty body decodes to the zero value via io.EOF' and 'malformed / wrong-typed "
        "bodies are errors' are MEASURED per case (law_ok, verdict 3), not proved; the theorems are conditional on json's answer",
        "statuses of 600 and above are reported as server errors by the code (>= 500) although the property text counts "
        "them among 'any other status'; outside the property's quantifier (200..599), stated as its own theorem",
    ])


def _tuples(x):
    """JSON lists back to the tuples of rest10gen type expressions"""
    if isinstance(x, list):
        return tuple(_tuples(y) for y in x)
    return x


def replay(run, path):
    r = json.load(open(path))
    run.prove("Properties/C10.v", ["Corr/RestHandleCorr.v"])
    if "pkg" not in r or "sources" not in r:
        print("nothing to replay (no concrete input in %s)" % path)
        return 0
    if "case" not in r:
        # a signature whose client did not compile: generate and build again
        shoot = run.build_shoot()
        mod = l2.make_module(run, MODULE)
        l2.write_files(mod, r["sources"])
        name = r["pkg"]["name"]
        sr = l2.run_shoot(shoot, mod / name, ["rest", "-type=" + ",".join(r["pkg"]["ifaces"])], timeout=120)
        ok, errs = (True, {}) if sr["rc"] != 0 else l2.go_build(mod, ["./" + name])
        print("shoot rc=%s; go build ok=%s %s" % (sr["rc"], ok, json.dumps(errs)[:800]))
        if sr["rc"] == 0 and not ok:
            print("VIOLATION property=C10 replay=%s" % path)
            return 1
        return 0
    # rebuild the package from the stored sources (no generator involved)
    ms = r["method"]
    m = g.Method(ms["name"], ms["verb"], ms["ctx"], [(list(n), _tuples(t)) for n, t in ms["results"]],
                 ptr_body=ms.get("ptr_body", False))
    pkg = g.Pkg(r["pkg"]["name"], [g.Iface(n, []) for n in r["pkg"]["ifaces"]])
    shoot = run.build_shoot()
    mod = l2.make_module(run, MODULE)
    l2.write_files(mod, r["sources"])
    sr = l2.run_shoot(shoot, mod / pkg.name, ["rest", "-type=" + ",".join(r["pkg"]["ifaces"])], timeout=120)
    if sr["rc"] != 0:
        print("shoot rest failed on the stored package: %s" % sr["err"][-800:])
        print("VIOLATION property=C10 replay=%s" % path)
        return 1
    l2.write_files(mod, {"cmd/c10drv/main.go": (lib.VERIF / "harness/go/cmd/c10drv/main.go").read_text(),
                         "cmd/c10drv/zz_registry.go": g.registry_go(MODULE, [pkg])})
    drv = run.scratch / "bin" / "c10drv"
    ok, err = l2.go_build_bin(mod, "./cmd/c10drv", drv)
    if not ok:
        print("the generated client does not compile: %s" % err[-1500:])
        print("VIOLATION property=C10 replay=%s" % path)
        return 1
    c = dict(r["case"])
    c.update({"_m": m, "_p": pkg, "_label": ""})
    o = run_driver(drv, [c])[0]
    mism, _ = coq_shards(run, "c10replay", [c], [o])
    print("observed:", json.dumps(o), "verdict:", mism)
    if mism:
        print("VIOLATION property=C10 replay=%s" % path)
        return 1
    return 0
