"""Witnesses of the known findings that list C06 (known_findings/K_rest_*.json) and their replay handlers.

Every witness lives in its own small package of the scratch module of the check; the packages that are
expected to compile are called by the same driver as the comparison stream (one go build), the others
are built on their own.  A handler returns 'buggy' (the recorded defect is present), 'correct' (the code
now does what the property asks) or 'other: ...' (see lib.Run.replay_findings)."""
import concurrent.futures as cf
import shutil

import lib
import l2

IMPORTS = '''import (
	"context"
	"net/http"

	"github.com/lopolopen/shoot"
)
'''

W_FIX = '''package wfix

''' + IMPORTS + '''
type Mixed interface {
	shoot.RestClient[Mixed]

	//shoot: Get("/a")
	A(ctx context.Context) (*http.Response, error)

	//shoot: Get("/b")
	B(x int) (*http.Response, error)
}
'''

W_BODY = '''package wbody

''' + IMPORTS + '''
type NoStruct interface {
	shoot.RestClient[NoStruct]

	//shoot: Post("/a/{id}")
	A(ctx context.Context, id int, note string) (*http.Response, error)
}
'''

W_PMAP = '''package wpmap

''' + IMPORTS + '''
type PtrMap interface {
	shoot.RestClient[PtrMap]

	//shoot: Get("/users")
	Q(ctx context.Context, params *map[string]string) (*http.Response, error)
}
'''

W_DUP = '''package wdup

''' + IMPORTS + '''
type Dup interface {
	shoot.RestClient[Dup]

	//shoot: Get("/u/{x}")
	//shoot: alias={a:x},{b:x}
	A(ctx context.Context, a string, b string) (*http.Response, error)
}
'''

W_RUN = '''package wrun

''' + IMPORTS + '''
type Req0 struct {
	Name string
	Size *int `shoot:"alias=sz"`
}

func NewReq0(a0 string, a1 *int) Req0 { return Req0{Name: a0, Size: a1} }

type W interface {
	//shoot: headers={Accept:*/*}
	shoot.RestClient[W]

	//shoot: Get("/nil")
	NilPtr(ctx context.Context, req *Req0) (*http.Response, error)

	//shoot: Get("/other")
	Other(ctx context.Context, req Req9) (*http.Response, error)

	//shoot: Get("/users/{id}")
	Percent(ctx context.Context, id string) (*http.Response, error)

	//shoot: Get("/u/{id}/{name}")
	Rescan(ctx context.Context, id string, name string) (*http.Response, error)
}
'''

W_MAPS = '''package wmaps

''' + IMPORTS + '''
type M interface {
	shoot.RestClient[M]

	//shoot: Get("/maps")
	TwoMaps(ctx context.Context, a map[string]string, b map[string]string) (*http.Response, error)
}
'''

W_RUN_OTHER = '''package wrun

type Req9 struct {
	Name string
}

func NewReq9(a0 string) Req9 { return Req9{Name: a0} }
'''


def _f(names, gotype, ptr=False, alias=None):
    return {"names": names, "gotype": gotype, "ptr": ptr, "alias": alias, "json": None, "tagpre": "", "tagpost": ""}


WRUN_PKG = {"name": "wrun", "qpkg": None, "ifaces": [],
            "structs": [{"name": "Req0", "qual": False, "fields": [_f(["Name"], "string"), _f(["Size"], "int", True, "sz")]},
                        {"name": "Req9", "qual": False, "fields": [_f(["Name"], "string")]}]}
CTX = {"name": "ctx", "kind": "ctx", "ptr": False}


def _m(name, params):
    return {"name": name, "params": [CTX] + params, "result": "none"}


def _s(name):
    return {"name": name, "kind": "scalar", "ptr": False, "gotype": "string"}


W_UNNAMED = '''package wunnamed

''' + IMPORTS + '''
type U interface {
	shoot.RestClient[U]

	//shoot: Get("/b")
	A(context.Context, int) (*http.Response, error)
}
'''

W_PTRPATH = '''package wptrpath

''' + IMPORTS + '''
type P interface {
	shoot.RestClient[P]

	//shoot: Get("/p/{id}")
	PtrPath(ctx context.Context, id *string) (*http.Response, error)
}
'''

W_LIT = '''package wlit

''' + IMPORTS + '''
type L interface {
	//shoot: headers={X-Sig:a"b\\c}
	shoot.RestClient[L]

	//shoot: Get(/a\\x41/{id})
	//shoot: alias={n:q"k}
	Lit(ctx context.Context, id string, n int) (*http.Response, error)
}
'''

W_DUR = '''package wdur

import (
	"context"
	"net/http"
	"time"

	"github.com/lopolopen/shoot"
)

type D interface {
	shoot.RestClient[D]

	//shoot: Get("/a")
	Dur(ctx context.Context, d time.Duration, n int) (*http.Response, error)
}
'''

WLIT_PKG = {"name": "wlit", "qpkg": None, "ifaces": [], "structs": []}
WLIT_CALLS = [("K_rest_literal_unescaped", _m("Lit", [_s("id"), {"name": "n", "kind": "scalar", "ptr": False, "gotype": "int"}]),
               {"id": ("str", "x"), "n": ("int", 5)})]
WDUR_PKG = {"name": "wdur", "qpkg": None, "ifaces": [], "structs": []}
WDUR_CALLS = [("K_rest_qualified_scalar", _m("Dur", [{"name": "d", "kind": "scalar", "ptr": False, "gotype": "time.Duration"},
                                                     {"name": "n", "kind": "scalar", "ptr": False, "gotype": "int"}]),
               {"d": ("raw", "3 * time.Second"), "n": ("int", 5)})]
WMAPS_PKG = {"name": "wmaps", "qpkg": None, "ifaces": [], "structs": []}
WMAPS_CALLS = [
    ("K_rest_two_maps", _m("TwoMaps", [{"name": "a", "kind": "map", "ptr": False, "maptype": "string"},
                                       {"name": "b", "kind": "map", "ptr": False, "maptype": "string"}]),
     {"a": ("map", [("ka", ("str", "1"))]), "b": ("map", [("kb", ("str", "2"))])}),
]
WRUN_CALLS = [
    ("K_rest_nil_struct_ptr", _m("NilPtr", [{"name": "req", "kind": "struct", "ptr": True, "struct": "Req0", "qual": False}]),
     {"req": ("struct", None, True)}),
    ("K_rest_struct_other_file", _m("Other", [{"name": "req", "kind": "struct", "ptr": False, "struct": "Req9", "qual": False}]),
     {"req": ("struct", {"Name": ("str", "zed")}, False)}),
    ("K_rest_path_percent", _m("Percent", [_s("id")]), {"id": ("str", "50%")}),
    ("K_rest_subst_rescan", _m("Rescan", [_s("id"), _s("name")]), {"id": ("str", "{name}"), "name": ("str", "nm")}),
]


def witness_packages(modname):
    return {
        "wfix": {"files": {"wfix/wfix.go": W_FIX}, "type": "Mixed"},
        "wbody": {"files": {"wbody/wbody.go": W_BODY}, "type": "NoStruct"},
        "wpmap": {"files": {"wpmap/wpmap.go": W_PMAP}, "type": "PtrMap"},
        "wdup": {"files": {"wdup/wdup.go": W_DUP}, "type": "Dup"},
        "wrun": {"files": {"wrun/wrun.go": W_RUN, "wrun/other.go": W_RUN_OTHER}, "type": "W"},
        "wmaps": {"files": {"wmaps/wmaps.go": W_MAPS}, "type": "M"},
        "wunnamed": {"files": {"wunnamed/wunnamed.go": W_UNNAMED}, "type": "U"},
        "wptrpath": {"files": {"wptrpath/wptrpath.go": W_PTRPATH}, "type": "P"},
        "wlit": {"files": {"wlit/wlit.go": W_LIT}, "type": "L"},
        "wdur": {"files": {"wdur/wdur.go": W_DUR}, "type": "D"},
    }


def run_witnesses(run, shoot, mod, wit, sem):
    """run shoot on every witness package; build the ones that are not called by the driver.
    returns {name: {"shoot": result, "build": (ok, errors) | None, "outputs": [texts] (wdup)}}"""
    st = {}

    def one(name):
        with sem:
            r = l2.run_shoot(shoot, mod / name, ["rest", "-type=" + wit[name]["type"]], timeout=90)
            res = {"shoot": r, "build": None}
            if name in ("wfix", "wbody", "wpmap") and r["rc"] == 0:
                res["build"] = l2.go_build(mod, ["./" + name])
        return name, res
    with cf.ThreadPoolExecutor(max_workers=5) as ex:
        for name, res in ex.map(one, list(wit)):
            st[name] = res
    # K_rest_alias_dup: is the output a function of the sources?  (Go map iteration order is redrawn per process)
    outs = set()

    def again(k):
        d = mod / ("wdup_%d" % k)
        d.mkdir(exist_ok=True)
        shutil.copy(mod / "wdup" / "wdup.go", d / "wdup.go")
        with sem:
            r = l2.run_shoot(shoot, d, ["rest", "-type=Dup"], timeout=90)
        txt = "".join(p.read_text() for p in sorted(d.glob("*.shootrest*.go")))
        shutil.rmtree(d, ignore_errors=True)
        return r["rc"], txt
    with cf.ThreadPoolExecutor(max_workers=6) as ex:
        rr = list(ex.map(again, range(12)))
    st["wdup"]["runs"] = rr
    # wdup itself must not stay in the module if it would break the driver build: it is not imported, so it is harmless
    return st


def witness_cases(wit, st, first_client, first_id):
    """calls of the runtime witnesses for the driver (a package only if shoot produced its client)"""
    clients, cases = [], []
    for pname, iname, pkg, calls in (("wrun", "W", WRUN_PKG, WRUN_CALLS), ("wmaps", "M", WMAPS_PKG, WMAPS_CALLS),
                                     ("wlit", "L", WLIT_PKG, WLIT_CALLS), ("wdur", "D", WDUR_PKG, WDUR_CALLS)):
        if st[pname]["shoot"]["rc"] != 0:
            continue
        var = "cw%d" % (first_client + len(clients))
        clients.append((var, pname, iname, ""))
        for kid, m, args in calls:
            cid = first_id + len(cases)
            cases.append({"id": cid, "client": var, "base": ("", []), "pkg": pkg, "iface": {"name": iname}, "method": m,
                          "args": dict(args, ctx=("ctx", cid, False)), "finding": kid})
    return clients, cases


def _build_verdict(st, name, needle):
    s = st[name]
    r = s["shoot"]
    if r["timed_out"] or r["panicked"]:
        return "other: shoot %s" % ("timed out" if r["timed_out"] else "panicked: " + r["err"][-300:])
    if r["rc"] != 0:
        return "correct"          # a clean refusal with a diagnostic is what the property allows
    ok, errs = s["build"]
    if ok:
        return "correct"
    txt = " ".join(e for v in errs.values() for e in v)
    if needle in txt:
        return "buggy"
    return "other: go build fails differently: " + txt[:300]


def handlers(run, shoot, mod, wit, st, wcases, wobs):
    obs = {c["finding"]: o for c, o in zip(wcases, wobs)}

    def need(kid):
        o = obs.get(kid)
        if o is None:
            raise lib.CheckBroken("witness package wrun was not generated: " + st["wrun"]["shoot"]["err"][-800:])
        return o

    def ctx_global(entry):
        r = st["wfix"]["shoot"]
        if r["rc"] != 0:
            return "buggy" if "expected operand" in r["err"] or "format" in r["err"] else "other: shoot exits %d: %s" % (r["rc"], r["err"][-300:])
        ok, errs = st["wfix"]["build"]
        return "correct" if ok else "other: the generated client does not compile: %s" % str(errs)[:300]

    def body_no_struct(entry):
        return _build_verdict(st, "wbody", "json.Marshal")

    def ptr_map(entry):
        return _build_verdict(st, "wpmap", "range")

    def nil_struct_ptr(entry):
        o = need("K_rest_nil_struct_ptr")
        if o["out"] == "panic":
            return "buggy"
        if o["out"] == "sent" and o["path"] == "/nil" and o["query"] == []:
            return "correct"
        return "other: %s" % str(o)[:300]

    def other_file(entry):
        o = need("K_rest_struct_other_file")
        if o["out"] == "sent" and o["query"] == [["req", "{zed}"]]:
            return "buggy"
        if o["out"] == "sent" and o["query"] == [["name", "zed"]]:
            return "correct"
        return "other: %s" % str(o)[:300]

    def path_percent(entry):
        o = need("K_rest_path_percent")
        if o["out"] == "sent" and o["path"] == "/users/50%":
            return "correct"
        if o["out"] == "sent" and o["path"] == "/":
            return "buggy"
        return "other: %s" % str(o)[:300]

    def subst_rescan(entry):
        o = need("K_rest_subst_rescan")
        if o["out"] == "sent" and o["path"] == "/u/{name}/nm":
            return "correct"
        if o["out"] == "sent" and o["path"] == "/u/nm/{name}":
            return "buggy"
        return "other: %s" % str(o)[:300]

    def header_trim(entry):
        o = need("K_rest_path_percent")
        if o["out"] != "sent":
            return "other: %s" % str(o)[:300]
        acc = [v for k, v in o["headers"] if k == "Accept"]
        if acc == ["*"]:
            return "buggy"
        if acc == ["*/*"]:
            return "correct"
        return "other: Accept = %s" % acc

    def two_maps(entry):
        r = st["wmaps"]["shoot"]
        if r["rc"] != 0:
            if r["timed_out"] or r["panicked"]:
                return "other: shoot %s" % r["err"][-300:]
            return "correct"          # the second map is refused with a diagnostic
        o = need("K_rest_two_maps")
        if o["out"] == "sent" and o["query"] == [["kb", "2"]]:
            return "buggy"
        if o["out"] == "sent" and o["query"] == [["ka", "1"], ["kb", "2"]]:
            return "correct"
        return "other: %s" % str(o)[:300]

    def refused(name):
        def h(entry):
            r = st[name]["shoot"]
            if r["timed_out"] or r["panicked"]:
                return "other: shoot %s" % r["err"][-300:]
            return "correct" if r["rc"] != 0 else "buggy"
        return h

    def literal(entry):
        r = st["wlit"]["shoot"]
        if r["rc"] != 0:
            return "buggy" if ("format" in r["err"] or "expected" in r["err"]) else "other: shoot exits %d: %s" % (r["rc"], r["err"][-300:])
        o = need("K_rest_literal_unescaped")
        if o["out"] != "sent":
            return "other: %s" % str(o)[:300]
        sig = [v for k, v in o["headers"] if k == "X-Sig"]
        if sig == ['a"b\\c'] and o["path"] == "/a\\x41/x" and o["query"] == [['q"k', "5"]]:
            return "correct"
        if o["path"] == "/aA/x":
            return "buggy"
        return "other: %s" % str(o)[:300]

    def qualified_scalar(entry):
        r = st["wdur"]["shoot"]
        if r["rc"] != 0:
            return "other: shoot exits %d: %s" % (r["rc"], r["err"][-300:])
        o = need("K_rest_qualified_scalar")
        if o["out"] == "sent" and o["query"] == [["d", "3s"], ["n", "5"]]:
            return "correct"
        if o["out"] == "sent" and o["query"] == [["n", "5"]]:
            return "buggy"
        return "other: %s" % str(o)[:300]

    def alias_dup(entry):
        rr = st["wdup"]["runs"]
        if any(rc != 0 for rc, _ in rr):
            return "correct" if all(rc != 0 for rc, _ in rr) else "other: shoot sometimes fails on the witness"
        return "buggy" if len({t for _, t in rr}) > 1 else "correct"

    return {"K_rest_ctx_global": ctx_global, "K_rest_body_no_struct": body_no_struct, "K_rest_ptr_map": ptr_map,
            "K_rest_nil_struct_ptr": nil_struct_ptr, "K_rest_struct_other_file": other_file,
            "K_rest_path_percent": path_percent, "K_rest_subst_rescan": subst_rescan,
            "K_rest_header_value_trim": header_trim, "K_rest_two_maps": two_maps, "K_rest_alias_dup": alias_dup,
            "K_rest_unnamed_param": refused("wunnamed"), "K_rest_ptr_path_param": refused("wptrpath"),
            "K_rest_literal_unescaped": literal, "K_rest_qualified_scalar": qualified_scalar}
