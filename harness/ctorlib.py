"""Shared L2 machinery of the constructor checks (C02, C13; reusable by C03, C11):
scratch module with helper + oracle-runtime packages, parallel shoot runs,
the go/types dumper (harness/go/cmd/ctorsig), batch build and run of the
in-package oracle files, parsing of the observation lines, sharded evaluation of
the comparison inside Coq."""
import concurrent.futures as cf
import json
import os
import re
from pathlib import Path

import lib
import l2
import ctorgen

PAR = 4
os.environ.setdefault("GOMAXPROCS", "4")     # go build -p defaults to GOMAXPROCS: keep the shared machine usable
ORT_SRC = lib.VERIF / "harness/go/cmd/ctorsig/ort.go.txt"

DEF_RE = re.compile(r"(?im)^shoot:.*?\Wdef(ault)?=([^;\n]+)(;.*|\s*)$")


def parse_def(doc):
    """Python twin of parseDef (used only to write the oracle's default probes)"""
    m = DEF_RE.search(doc or "")
    if not m:
        return ""
    return m.group(2).strip(" \t\n\v\f\r")


def setup_module(run, name):
    mod = l2.make_module(run, name)
    l2.write_files(mod, {"helper/helper.go": ctorgen.HELPER_GO, "ort/ort.go": ORT_SRC.read_text()})
    return mod


def run_shoot_pkgs(shoot, mod, jobs, timeout=20):
    """jobs: [(package dir name, [shoot args])]; returns [run_shoot result] in order"""
    def one(job):
        d, args = job
        return l2.run_shoot(shoot, mod / d, args, timeout=timeout)
    with cf.ThreadPoolExecutor(max_workers=PAR) as ex:
        return list(ex.map(one, jobs))


def run_ctorsig(sigbin, mod, patterns=("./...",)):
    rc, out, err = lib.sh([str(sigbin), str(mod)] + list(patterns), cwd=mod, env=lib.go_env(), timeout=900)
    if rc != 0:
        raise lib.CheckBroken("ctorsig failed: " + err[-3000:])
    res = {}
    for line in out.splitlines():
        if line.strip():
            o = json.loads(line)
            res[o["pkg"]] = o
    return res


ORACLE_MAIN = '''package main

import (
	"vmod/ort"
%s)

func main() {
	defer ort.Flush()
%s}
'''


def build_and_run_oracles(run, mod, modname, pkgdirs, binname="oracle"):
    """pkgdirs: package directories (relative) that contain a zz_oracle_verif.go exporting VerifOracle().
    One go build, one run.  Returns {case id: {"lines": [...], "panics": [...]}}."""
    imports = "".join('\t%s "%s/%s"\n' % (d.replace("/", "_"), modname, d) for d in pkgdirs)
    calls = "".join("\t%s.VerifOracle()\n" % d.replace("/", "_") for d in pkgdirs)
    main = (ORACLE_MAIN % (imports, calls)).replace('"vmod/ort"', '"%s/ort"' % modname)
    l2.write_files(mod, {"cmd/%s/main.go" % binname: main})
    out = run.scratch / "bin" / (modname + "_" + binname)
    out.parent.mkdir(exist_ok=True)
    ok, err = l2.go_build_bin(mod, "./cmd/" + binname, out)
    if not ok:
        return None, err
    rc, stdout, stderr = lib.sh([str(out)], cwd=mod, timeout=900)
    if rc != 0:
        raise lib.CheckBroken("oracle program failed (rc=%s): %s" % (rc, stderr[-3000:]))
    cases, cur = {}, None
    for line in stdout.splitlines():
        f = line.split(" ")
        if f[0] == "CASE":
            cur = {"args": [], "reads": [], "panics": []}
            cases[f[1]] = cur
        elif f[0] == "END":
            cur = None
        elif cur is None:
            continue
        elif f[0] == "ARG":
            cur["args"].append(f[2])
        elif f[0] == "R":
            cur["reads"].append((f[1], f[2], " ".join(f[3:])))
        elif f[0] == "PANIC":
            cur["panics"].append(" ".join(f[1:]))
    return cases, ""


def failing_packages(err, modname):
    """package dirs named in '# mod/dir' headers of a failed go build"""
    return sorted(set(m.group(1) for m in re.finditer(r"^# %s/(\S+)" % re.escape(modname), err, re.M)))


COQ_HEADER = ("From Coq Require Import List ZArith NArith String.\n"
              "From Shoot Require Import Base.GoVal Model.Ctor %s.\n"
              "Import ListNotations.\nLocal Open Scope string_scope.\n"
              "Set Printing Width 1000000.\nSet Printing Depth 1000000.\n")


def coq_shards(run, tag, pkgdefs, rendered, corr_mod, fn, ctype, shard=60):
    """pkgdefs: {coq identifier: term} definitions the rendered cases refer to (each case names the
    identifiers it needs through the list rendered[i] = (term, [identifiers])).
    Returns [(index, verdict)] for the non-zero verdicts."""
    def one(k):
        lo = k * shard
        part = rendered[lo:lo + shard]
        need = []
        for _, ids in part:
            for i in ids:
                if i not in need:
                    need.append(i)
        body = (COQ_HEADER % corr_mod +
                "".join("Definition %s := %s.\n" % (i, pkgdefs[i]) for i in need) +
                "Definition cases : list %s := [\n%s\n].\n"
                "Definition M := Eval vm_compute in %s cases.\nPrint M.\n"
                % (ctype, ";\n".join(t for t, _ in part), fn))
        out = run.coq_eval("%s_%d" % (tag, k), body)
        return [(lo + i, v) for i, v in lib.parse_coq_list_pairs(out, "M")]
    res = []
    n = (len(rendered) + shard - 1) // shard
    with cf.ThreadPoolExecutor(max_workers=PAR) as ex:
        for r in ex.map(one, range(n)):
            res.extend(r)
    return res


def coq_path(p):
    return ctorgen.coq_list([ctorgen.coq_str(x) for x in p])


def coq_pairs(l, f1, f2):
    return ctorgen.coq_list(["(%s, %s)" % (f1(a), f2(b)) for a, b in l])


def inst_for(sd, rng=None):
    """a concrete instantiation (list of ty) of the type parameters of sd"""
    res = []
    for g in sd["tparams"]:
        for _ in g["names"]:
            if g["con"][1] == "Number":
                res.append(ctorgen.T_basic("int"))
            elif rng is not None and rng.random() < 0.4:
                res.append(ctorgen.T_basic("string"))
            else:
                res.append(ctorgen.T_basic("int"))
    return res


def inst_suffix(inst):
    return "[" + ", ".join(ctorgen.go_type(t) for t in inst) + "]" if inst else ""


_ERR_POS = re.compile(r"([^\s:]+\.go):(\d+):(\d+)")


def attribute_errors(pkgdir, struct_names, errs):
    """Attribute go/types errors of one package to the struct whose GENERATED declarations contain the error
    position.  Generated code of a type T is either its own file <src>.shootnew.<t>.go or, in a merged file
    (-file= / -type=*), the block that starts at `func New<T>` (with its doc comment) and ends where the next
    type's block starts.  Returns ({struct: [errors]}, [errors that belong to no struct: hand-written files,
    the import section of a merged file, errors without a position])."""
    pkgdir = Path(pkgdir)
    own = {n: [] for n in struct_names}
    general = []
    blocks = {}          # file name -> sorted [(start line, struct)]

    def file_blocks(fname):
        if fname in blocks:
            return blocks[fname]
        res = []
        try:
            lines = (pkgdir / fname).read_text().splitlines()
        except OSError:
            lines = []
        for i, line in enumerate(lines, 1):
            m = re.match(r"^func New(\w+)[\[(]", line)
            if m and m.group(1) in own:
                start = i
                while start > 1 and lines[start - 2].startswith("//"):
                    start -= 1
                res.append((start, m.group(1)))
        res.sort()
        blocks[fname] = res
        return res

    for e in errs:
        m = _ERR_POS.search(e)
        if not m:
            general.append(e)
            continue
        fname, line = Path(m.group(1)).name, int(m.group(2))
        if ".shootnew" not in fname:
            general.append(e)
            continue
        single = [n for n in struct_names if fname.endswith(".shootnew.%s.go" % n.lower())]
        if single:
            own[single[0]].append(e)
            continue
        owner = None
        for start, n in file_blocks(fname):
            if start <= line:
                owner = n
        if owner is None:
            general.append(e)
        else:
            own[owner].append(e)
    return own, general


def status_from_errors(name, own, general):
    """3: an error inside this struct's own generated declarations (or one that cannot be attributed);
    5: only sibling types' generated declarations have errors; 0: no errors at all"""
    if own[name] or general:
        return 3, (own[name] or general)[:3]
    if any(v for v in own.values()):
        return 5, [e for v in own.values() for e in v][:3]
    return 0, []


# ---------------------------------------------------------------- selection / output modes and histories
MODE_WEIGHTS = [("type", 5), ("file", 3), ("filesep", 1), ("star", 1), ("each", 3)]


def choose_mode(rng):
    tot = sum(w for _, w in MODE_WEIGHTS)
    r = rng.random() * tot
    for m, w in MODE_WEIGHTS:
        r -= w
        if r < 0:
            return m
    return "type"


def plan_commands(pkg, flags):
    """the shoot command lines (argument lists) of one generation of the package in its mode:
    type    one run  -type=A,B,C (one file per type)          file     one run -file=<src> (ONE merged file)
    filesep one run  -file=<src> -sep (one file per type)     star     one run -type=* (merged; needs a go:generate line)
    each    one run PER TYPE -type=A, then -type=B, ... (two go:generate lines / separate invocations)"""
    names = pkg.get("order") or [sd["name"] for sd in pkg["structs"]]
    mode = pkg.get("mode", "type")
    base = ["new"] + list(flags)
    if mode == "file":
        return [base + ["-file=%s.go" % pkg["name"]]]
    if mode == "filesep":
        return [base + ["-file=%s.go" % pkg["name"], "-sep"]]
    if mode == "star":
        return [base + ["-type=*"]]
    if mode == "each":
        return [base + ["-type=" + n] for n in names]
    return [base + ["-type=" + ",".join(names)]]


def prepare_plan(rng, pkg, flags, modname, p_regen=0.25):
    """fix mode / order / optional earlier version of the package; returns the list of actions
    ("write", {file: text}) / ("shoot", args) to run in the package directory"""
    names = [sd["name"] for sd in pkg["structs"]]
    if not pkg.get("mode"):
        pkg["mode"] = choose_mode(rng)
    if not pkg.get("order"):
        order = list(names)
        if rng.random() < 0.5:
            rng.shuffle(order)
        pkg["order"] = order
    if pkg["mode"] == "star":
        pkg["generate_line"] = " ".join(["new"] + list(flags) + ["-type=*"])
    if "pre" not in pkg:
        pkg["pre"] = ctorgen.length_preserving_edit(pkg) if rng.random() < p_regen else None
    cmds = plan_commands(pkg, flags)
    pkg["cmds"] = cmds
    pkg["args"] = cmds[-1]
    actions = []
    if pkg["pre"] is not None:
        pre = dict(pkg["pre"])
        for k in ("mode", "order", "generate_line", "name"):
            if k in pkg:
                pre[k] = pkg[k]
        actions.append(("write", ctorgen.render_go(pre, modname)))
        actions += [("shoot", c) for c in cmds]
    actions.append(("write", ctorgen.render_go(pkg, modname)))
    actions += [("shoot", c) for c in cmds]
    return actions


def describe_plan(pkg):
    cmds = " && ".join("shoot " + " ".join(c) for c in pkg.get("cmds", []))
    if pkg.get("pre") is not None:
        return "(on the earlier version of the sources:) %s ; (edit the def= literals, same length) ; %s" % (cmds, cmds)
    return cmds


def run_plans(shoot, mod, plans, timeout=20):
    """plans: [(package dir name, actions)]; every shoot runs the REAL binary (cmd/shoot/main.go included) in the
    package directory.  Returns one dict per plan: rc (first non-zero), timed_out, out, err (of the failing or last run)"""
    def one(plan):
        d, actions = plan
        last = {"rc": 0, "out": "", "err": "", "timed_out": False}
        for kind, arg in actions:
            if kind == "write":
                l2.write_files(mod / d, arg)
            else:
                r = l2.run_shoot(shoot, mod / d, arg, timeout=timeout)
                last = r
                if r["rc"] != 0 or r["timed_out"]:
                    return r
        return last
    with cf.ThreadPoolExecutor(max_workers=PAR) as ex:
        return list(ex.map(one, plans))
