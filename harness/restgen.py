"""Generator of RestClient interface packages (the spec grammar of properties C06 / C01),
with a Go renderer and a Coq renderer.

    pkg   = gen_iface_pkg(rng, "p003", ...)      abstract package: structs, named scalars, interfaces
    files = render_go(pkg, modname)              {relative path: Go source}  (input of `shoot rest`)
    defs  = render_coq_pkg(pkg)                  Coq definitions (env, interfaces, mspecs) for Corr/RestCorr.v
    calls = gen_calls(rng, pkg, iface, method, n)   argument lists for one method
    render_driver(modname, pkgs, cases)          Go main that performs the calls against a recording server

The grammar (quantifier text of C06): five verbs in any letter case; quoted and unquoted paths with
0..3 placeholders (repeated ones too); alias directives; parameters: context, scalars (string, int,
int64, uint, bool, a named string type), pointers to scalars, a struct of the same file or of another
package by value or by pointer, a map; struct fields with alias tags, pointer fields, unexported
fields with getters, multi-name declarations; all result shapes; optional headers= directive on the
embedded shoot.RestClient; methods with and without context in the same interface.
"""
import json
import re

VERBS = ["GET", "POST", "PUT", "PATCH", "DELETE"]
BODY_VERBS = ("POST", "PUT", "PATCH")
HOLE_NAMES = ["id", "uid", "name", "key", "user_id", "orgID", "x1", "slug", "v"]
PARAM_NAMES = ["userID", "org", "item", "k", "who", "ref", "code", "num", "tag", "size", "page", "flag", "sort",
               "limit", "q", "lang", "since", "mode", "orgID", "page_size", "HTTPCode", "apiKey", "XMLName"]
ALIAS_NAMES = ["page_idx", "sz", "user-id", "x|y", "Q", "per_page", "s", "id2", "lng", "order-by", "f", 'a"b', "b\\c", "t.x"]
LITS = ["/users/", "/", "/v1/items/", "/a/b/", "/orgs/", "/x-", "/files/", "/api.v2/", "/t~/", "/m:n/", "/q/", "/u(1)/", "/a\\x41/", "/w\\/"]
MID_LITS = ["/", "/", "/", "-", ".", "/sub/", "", ":", "/x/", "}/", "/a b/", "/c;d=1/", "/?/"]
END_LITS = ["", "", "", "/", "/detail", ".json", "/x/", "/end)", "/e d"]
SCALAR_TYPES = ["string", "string", "int", "int64", "uint", "bool", "Status"]
HDR_KEYS = ["X-Api", "X-Trace-Id", "accept", "Accept", "Content-Type", "Authorization", "x_custom", "X-A|B", "x-lower-k"]
HDR_VALS = ["k1", "text/plain", "Bearer abc.def", "a=b;c=d", "v 1", "application/xml", "0", "T_1", "x,y",
            "*/*", "(x)", "-1", "=v", "~t", "*/*;q=0.8", 'a"b', "x\\y", '"q"']          # values with leading non-word characters (repaired K_rest_header_value_trim)
# texts a path argument carries to the wire unchanged (RestSpec.v path_text_safe): one non-empty segment, not a dot
# segment, without slash, percent sign or brace -- but otherwise URL-unsafe
STR_PATH_SAFE = ["a", "alice", "a b", "x?y#z", "a+b&c=d", "été", "semi;colon", "q=1", "#frag", "0", "-", "~", "a}b", "中", "A",
                 "(p)", "a:b@c", "!$'*,", "a\\b", 'q"t', "...", "a.b", " lead", "[x]", "^|`"]
# texts that url.JoinPath cleans, drops or re-reads because the generated code does not url.PathEscape them (open finding
# K_rest_path_percent): compared with the faithful model only
STR_PATH_UNSAFE = ["", "..", ".", "a/b", "x/../y", "sp ace/sl", "/lead", "trail/", "a//b", "./", "a/./b"]
STR_SAFE = STR_PATH_SAFE + STR_PATH_UNSAFE
STR_QUERY_ONLY = ["100%", "{x}", "%41", "{id}", "50%25", "a{b"]
BASE_PATHS = ["", "/", "/api", "/api/", "/api/v1", "/b.c/d-e"]
# (path, query) of the configured base URL; the query keys collide with parameter / map names on purpose
INVALID_BASE = "<invalid>"          # stands for shoot.BaseURL("http://[::1"): url.JoinPath fails, the method returns the error
BASES = [(b, []) for b in BASE_PATHS] + [("/api", [("x", "1"), ("sort", "base")]), ("/v/", [("q", "0")]), (INVALID_BASE, [])]
QSCALARS = {"QKind": "string", "QNum": "int64"}      # named scalars declared in the helper package
# names on which transfer.ToCamelCase / ToPascalCase are NOT the identity are frequent on purpose (acronym runs, underscores)
STRUCT_FIELD_NAMES = ["Name", "PageSize", "UserID", "Active", "Q", "HTTPCode", "Kind", "Note", "secret", "ownerId", "n",
                      "Lang", "MaxAge", "tok", "userID", "orgID", "user_name", "xAPIKey", "httpCode", "APIKey", "User_Name",
                      "ID", "userID", "orgID", "user_name", "HTTPCode", "UserID"]


# ------------------------------------------------------------------ Coq text
def coq_str(s):
    """Coq term for the BYTES of s (utf-8); printable ASCII literally, everything else through sb"""
    b = s.encode("utf-8") if isinstance(s, str) else s
    parts, cur = [], []
    for ch in b:
        if 32 <= ch <= 126:
            cur.append('""' if ch == 34 else chr(ch))
        else:
            if cur:
                parts.append('"' + "".join(cur) + '"')
                cur = []
            parts.append("sb %d" % ch)
    if cur or not parts:
        parts.append('"' + "".join(cur) + '"')
    if len(parts) == 1:
        return parts[0] if parts[0].startswith('"') else "(" + parts[0] + ")"
    return "(" + " ++ ".join(parts) + ")"


def coq_list(items):
    return "[" + "; ".join(items) + "]"


def coq_bool(b):
    return "true" if b else "false"


def coq_pairs(l):
    return coq_list("(%s, %s)" % (coq_str(k), coq_str(v)) for k, v in l)


def go_str(s):
    return json.dumps(s, ensure_ascii=False)


# ---------------------------------------------------------------- generation
def _pick_distinct(rng, pool, n, avoid=()):
    cand = [x for x in pool if x not in avoid]
    rng.shuffle(cand)
    return cand[:n]


def gen_struct(rng, name, qual, must=()):
    """must: field names that have to be present (they come first and carry no alias tag unless listed as 'name=alias')"""
    nf = max(rng.randint(1, 5), len(must))
    names = list(must)
    for n in _pick_distinct(rng, list(dict.fromkeys(rng.sample(STRUCT_FIELD_NAMES, len(STRUCT_FIELD_NAMES)))), len(set(STRUCT_FIELD_NAMES))):
        if len(names) >= nf:
            break
        # a getter must not collide with an exported field or another getter of the struct
        taken = {x if x[0].isupper() else getter_name(x) for x in names}
        me = n if n[0].isupper() else getter_name(n)
        if me not in taken and n not in names:
            names.append(n)
        if len(names) == nf:
            break
    fields, used_alias = [], set()
    i = 0
    while i < len(names):
        n = names[i]
        gotype = rng.choice(["string", "string", "int", "int64", "bool", "uint"] + ([] if qual else ["Status"]))
        ptr = rng.random() < 0.3
        exported = n[0].isupper()
        alias = None
        if n not in must and rng.random() < 0.4:
            c = [a for a in ALIAS_NAMES + ["name", "size"] if a not in used_alias and re.fullmatch(r"\w+", a, re.ASCII)]
            # `alias=(\w+)` takes word characters only
            if c:
                alias = rng.choice(c)
                used_alias.add(alias)
        group = [n]
        # a multi-name declaration (shares type and tag); only without alias so that the keys stay distinct
        if alias is None and n not in must and i + 1 < len(names) and names[i + 1] not in must and rng.random() < 0.25 \
                and (names[i + 1][0].isupper() == exported):
            group.append(names[i + 1])
            i += 1
        fields.append({"names": group, "gotype": gotype, "ptr": ptr, "alias": alias,
                       "tagpre": rng.choice(["", "", "q,", "x;", "get "]), "tagpost": rng.choice(["", "", ",omitempty", ";y", " z"]),
                       "json": (rng.choice(["n", "v_%d" % i, "-"]) if rng.random() < 0.3 else None)})
        i += 1
    return {"name": name, "fields": fields, "qual": qual}


def helpers(pkg):
    """the helper packages of a package (qualified struct / scalar types): pkg['qpkgs'], or the single pkg['qpkg']"""
    if pkg.get("qpkgs"):
        return pkg["qpkgs"]
    return [pkg["qpkg"]] if pkg.get("qpkg") else []


def pick_scalar_type(rng, pkg, verb):
    """a scalar type of the package, or (GET/DELETE only: on body verbs the generator binds it as the body) a
    named scalar of the helper package"""
    if pkg["qpkg"] and verb not in BODY_VERBS and rng.random() < 0.3:
        return {"gotype": rng.choice(sorted(QSCALARS)), "qscalar": True, "qname": pkg["qpkg"]["name"]}
    return {"gotype": rng.choice(SCALAR_TYPES)}


def scalar_base(gotype):
    return QSCALARS.get(gotype, gotype)


def gen_method(rng, name, pkg, force_verb=None, force_struct=None):
    verb = force_verb or rng.choice(VERBS)
    nholes = rng.choice([0, 0, 1, 1, 1, 2, 2, 3])
    hole_names = _pick_distinct(rng, HOLE_NAMES, nholes)
    holes = list(hole_names)
    if holes and rng.random() < 0.2:           # a repeated placeholder
        holes.insert(rng.randrange(len(holes) + 1), rng.choice(hole_names))
        holes = holes[:3]
    toks = []
    lead = rng.choice(LITS) if rng.random() < 0.9 else rng.choice(["users/", "x", ""])
    if not holes and lead == "":
        lead = "/ping"
    toks.append(("lit", lead))
    for k, h in enumerate(holes):
        toks.append(("hole", h))
        toks.append(("lit", rng.choice(MID_LITS) if k + 1 < len(holes) else rng.choice(END_LITS)))
    toks = [t for t in toks if not (t[0] == "lit" and t[1] == "")]
    path = "".join(t[1] if t[0] == "lit" else "{%s}" % t[1] for t in toks)
    quoted = rng.random() < 0.6
    if path != path.strip() or path == "":
        toks.append(("lit", "z"))
        path += "z"
    params, alias = [], []
    used = set()
    used_alias = set(hole_names)
    # path parameters
    for h in hole_names:
        if rng.random() < 0.45:
            pn = _pick_distinct(rng, PARAM_NAMES, 1, used | set(hole_names))[0]
            alias.append((pn, h))
        else:
            pn = h
        used.add(pn)
        params.append(dict({"name": pn, "kind": "scalar", "ptr": False}, **pick_scalar_type(rng, pkg, verb)))
    # further scalars
    for _ in range(rng.choice([0, 0, 1, 1, 2, 3])):
        pn = _pick_distinct(rng, PARAM_NAMES, 1, used | set(hole_names))[0]
        used.add(pn)
        params.append(dict({"name": pn, "kind": "scalar", "ptr": rng.random() < 0.35}, **pick_scalar_type(rng, pkg, verb)))
        if rng.random() < 0.35:
            c = [a for a in ALIAS_NAMES if a not in used_alias and a not in used]
            if c:
                a = rng.choice(c)
                used_alias.add(a)
                alias.append((pn, a))
    # struct
    structs = pkg["structs"] + [st for q in helpers(pkg) for st in q["structs"]]
    want_struct = verb in BODY_VERBS or rng.random() < 0.5
    if force_struct is not None:
        st, sptr = force_struct
        params.append({"name": rng.choice(["req", "in", "body", "opts"]), "kind": "struct", "ptr": sptr,
                       "struct": st["name"], "qual": st["qual"]})
    elif want_struct and structs:
        st = rng.choice(structs)
        params.append({"name": rng.choice(["req", "in", "body", "opts"]), "kind": "struct", "ptr": rng.random() < 0.45,
                       "struct": st["name"], "qual": st["qual"]})
    # map
    if (verb not in BODY_VERBS and rng.random() < 0.4) or (verb in BODY_VERBS and rng.random() < 0.12):
        params.append({"name": rng.choice(["params", "extra", "m"]), "kind": "map", "ptr": False,
                       "maptype": rng.choice(["string", "string", "int", "bool"])})
    rng.shuffle(params)
    if rng.random() < 0.7:
        ctxp = {"name": rng.choice(["ctx", "ctx", "cx", "reqCtx", "ctx2"]), "kind": "ctx", "ptr": False}
        if rng.random() < 0.85:
            params.insert(0, ctxp)
        else:
            params.append(ctxp)
    rng.shuffle(alias)
    # the doc comment; about a third in the canonical form of coq/Proofs/RestParse.v (canonical_doc), for which the
    # link between comment and structured directive is a theorem, the rest in other spellings the regexes accept
    canon = rng.random() < 0.3
    vcase = rng.choice([verb.capitalize(), verb.capitalize(), verb, verb.lower()] +
                       ([] if canon else [verb[0].lower() + verb[1:].upper()]))
    sp = " " if canon else rng.choice([" ", " ", "  "])
    inner = ('"%s"' % path) if quoted else path
    pad = "" if canon else rng.choice(["", "", " "])
    vline = "shoot:%s%s(%s%s%s)%s" % (sp, vcase, pad, inner, pad, "" if canon else rng.choice(["", "", ";", " ;"]))
    lines = []
    if not canon and rng.random() < 0.25:
        lines.append("%s talks to the service." % name)
    aline = None
    if alias:
        sep = "," if canon else rng.choice([",", ", ", ""])
        inner_fmt = "{%s:%s}" if canon else rng.choice(["{%s:%s}", "{%s:%s}", "{%s: %s}", "{%s : %s}"])
        aline = "shoot: alias=" + sep.join(inner_fmt % (p, a) for p, a in alias) + ("" if canon else rng.choice(["", "", "; note", " "]))
        if not canon and rng.random() < 0.15:
            aline = "shoot: see alias=" + sep.join(inner_fmt % (p, a) for p, a in alias)
    if aline and not canon and rng.random() < 0.2:
        lines += [aline, vline]
    else:
        lines += [vline] + ([aline] if aline else [])
    if not canon and rng.random() < 0.15:
        lines.append("Deprecated: no.")
    slashes = [rng.choice(["//", "// "]) for _ in lines]
    return {"name": name, "verb": verb, "toks": toks, "alias": alias, "params": params,
            "result": rng.choice(["none", "ptr", "slice", "map"]), "doc_lines": lines, "doc_slashes": slashes,
            "multi": rng.random() < 0.5}


def gen_iface(rng, name, pkg, nmethods, verbs=None):
    headers = None
    hdr_line = None
    if rng.random() < 0.5:
        ks = _pick_distinct(rng, HDR_KEYS, rng.randint(1, 3))
        headers = [(k, rng.choice(HDR_VALS)) for k in ks]
        sep = rng.choice([",", ", ", ""])
        hdr_line = "shoot: headers=" + sep.join(rng.choice(["{%s:%s}", "{%s: %s}"]) % kv for kv in headers)
    methods = []
    for i in range(nmethods):
        methods.append(gen_method(rng, "M%d" % i, pkg, verbs[i] if verbs and i < len(verbs) else None))
    return {"name": name, "headers": headers, "hdr_line": hdr_line, "hdr_slash": rng.choice(["//", "// "]),
            "embed_pos": 0 if rng.random() < 0.8 else rng.randint(0, nmethods), "methods": methods}


def gen_iface_pkg(rng, name, n_ifaces=2, methods_per_iface=(2, 4), with_qual=None, verbs=None):
    """an abstract package with n_ifaces RestClient interfaces"""
    if with_qual is None:
        with_qual = rng.random() < 0.3
    pkg = {"name": name, "structs": [], "qpkg": None, "ifaces": []}
    for i in range(rng.randint(1, 3)):
        st = gen_struct(rng, "Req%d" % i, False)
        st["other_file"] = rng.random() < 0.35         # declared in another file of the package (repaired K_rest_struct_other_file)
        pkg["structs"].append(st)
    if with_qual:
        # one or two helper packages; their structs carry unexported getter-backed fields on purpose, and some of them
        # have the NAME of a struct of the package itself or of the other helper package (different field lists)
        pkg["qpkgs"] = []
        for hp in (["q", "r"] if rng.random() < 0.5 else ["q"]):
            q = {"name": hp + name, "structs": []}
            taken = set()
            for i in range(rng.randint(1, 2)):
                sname = "QReq%d" % i
                if rng.random() < 0.5:
                    sname = rng.choice([x["name"] for x in pkg["structs"]])
                if sname in taken:
                    sname = "QReq%d" % i
                taken.add(sname)
                must = tuple(_pick_distinct(rng, ["userID", "orgID", "user_name", "secret", "tok", "httpCode"], rng.randint(0, 2)))
                st = gen_struct(rng, sname, True, must=must)
                st["qual"] = q["name"]
                q["structs"].append(st)
            pkg["qpkgs"].append(q)
        pkg["qpkg"] = pkg["qpkgs"][0]
    for i in range(n_ifaces):
        nm = rng.randint(*methods_per_iface)
        pkg["ifaces"].append(gen_iface(rng, "C%d" % i, pkg, nm, verbs))
    return pkg


def gen_coverage_pkg(rng, name):
    """a package that always contains the combinations a random draw may miss: the package's own struct Req0 and two helper
    packages that each declare a DIFFERENT struct of the same name Req0; every one of them has unexported getter-backed
    untagged fields (names that ToCamelCase would change), exported and pointer fields; each is a GET, a DELETE and a body
    parameter, by value and by pointer, inside one interface and across two interfaces of the same run"""
    pkg = {"name": name, "structs": [], "qpkg": None, "qpkgs": [], "ifaces": []}
    own = gen_struct(rng, "Req0", False, must=("userID", "Name", "secret"))
    own["other_file"] = rng.random() < 0.5
    pkg["structs"].append(own)
    musts = {"q": ("orgID", "Kind", "user_name"), "r": ("httpCode", "HTTPCode", "tok")}
    for hp in ("q", "r"):
        st = gen_struct(rng, "Req0", True, must=musts[hp])
        st["qual"] = hp + name
        pkg["qpkgs"].append({"name": hp + name, "structs": [st]})
    pkg["qpkg"] = pkg["qpkgs"][0]
    types = [own] + [q["structs"][0] for q in pkg["qpkgs"]]
    combos = [(st, ptr, verb) for st in types for ptr in (False, True) for verb in ("GET", "DELETE")]
    combos += [(types[1], False, "POST"), (types[2], True, "PUT"), (types[0], True, "PATCH")]
    rng.shuffle(combos)
    half = len(combos) // 2
    for k, part in enumerate((combos[:half], combos[half:])):
        ifc = gen_iface(rng, "C%d" % k, pkg, 0)
        for i, (st, ptr, verb) in enumerate(part):
            ifc["methods"].append(gen_method(rng, "M%d" % i, pkg, verb, force_struct=(st, ptr)))
        pkg["ifaces"].append(ifc)
    return pkg


# ----------------------------------------------------------------- Go source
def field_go_type(f):
    return ("*" if f["ptr"] else "") + f["gotype"]


def getter_name(n):
    """transfer.ToPascalCase on the field names of the grammar (no underscores): first byte upper-cased"""
    return "".join(p[:1].upper() + p[1:] for p in n.split("_") if p != "")


def render_struct(st):
    out = ["type %s struct {" % st["name"]]
    for f in st["fields"]:
        tags = []
        if f["json"]:
            tags.append('json:"%s"' % f["json"])
        if f["alias"]:
            tags.append('shoot:"%salias=%s%s"' % (f.get("tagpre", ""), f["alias"], f.get("tagpost", "")))
        tag = (" `" + " ".join(tags) + "`") if tags else ""
        out.append("\t%s %s%s" % (", ".join(f["names"]), field_go_type(f), tag))
    out.append("}")
    out.append("")
    # getters of unexported fields (value receiver), and a constructor for the driver
    for f in st["fields"]:
        for n in f["names"]:
            if not n[0].isupper():
                out.append("func (r %s) %s() %s { return r.%s }" % (st["name"], getter_name(n), field_go_type(f), n))
    args = ", ".join("a%d %s" % (i, field_go_type(f)) for i, (f, n) in enumerate(flat_fields(st)))
    body = ", ".join("%s: a%d" % (n, i) for i, (f, n) in enumerate(flat_fields(st)))
    out.append("func New%s(%s) %s { return %s{%s} }" % (st["name"], args, st["name"], st["name"], body))
    out.append("")
    return "\n".join(out)


def flat_fields(st):
    return [(f, n) for f in st["fields"] for n in f["names"]]


def param_go_type(p, pkg):
    k = p["kind"]
    if k == "ctx":
        return "context.Context"
    if k == "scalar":
        return ("*" if p["ptr"] else "") + ((pkg["qpkg"]["name"] + ".") if p.get("qscalar") else "") + p["gotype"]
    if k == "struct":
        t = (p["qual"] + "." + p["struct"]) if p["qual"] else p["struct"]
        return ("*" if p["ptr"] else "") + t
    if k == "map":
        return ("*" if p["ptr"] else "") + "map[string]" + p["maptype"]
    raise ValueError(k)


def param_groups(m, pkg):
    """[(names, type)] : adjacent parameters of the same type share one declaration when m['multi']"""
    groups = []
    for p in m["params"]:
        t = param_go_type(p, pkg)
        if m.get("multi") and groups and groups[-1][1] == t and p["kind"] == "scalar":
            groups[-1][0].append(p["name"])
        else:
            groups.append(([p["name"]], t))
    return groups


RESULTS = {"none": "(*http.Response, error)", "ptr": "(*Res, *http.Response, error)",
           "slice": "([]Res, *http.Response, error)", "map": "(map[string]Res, *http.Response, error)"}


def render_iface(ifc, pkg):
    out = ["type %s interface {" % ifc["name"]]
    embed = []
    if ifc["hdr_line"]:
        embed.append("\t%s%s" % (ifc["hdr_slash"], ifc["hdr_line"]))
    embed.append("\tshoot.RestClient[%s]" % ifc["name"])
    embed.append("")
    for i, m in enumerate(ifc["methods"]):
        if i == ifc["embed_pos"]:
            out += embed
        for sl, l in zip(m["doc_slashes"], m["doc_lines"]):
            out.append("\t%s%s" % (sl, l))
        ps = ", ".join("%s %s" % (", ".join(ns), t) for ns, t in param_groups(m, pkg))
        out.append("\t%s(%s) %s" % (m["name"], ps, RESULTS[m["result"]]))
        out.append("")
    if ifc["embed_pos"] >= len(ifc["methods"]):
        out += embed
    out.append("}")
    out.append("")
    return "\n".join(out)


def uses(pkg, what):
    for ifc in pkg["ifaces"]:
        for m in ifc["methods"]:
            for p in m["params"]:
                if what == "ctx" and p["kind"] == "ctx":
                    return True
                if what == "qual" and ((p["kind"] == "struct" and p["qual"]) or p.get("qscalar")):
                    return True
                if (p["kind"] == "struct" and p["qual"] == what) or (p.get("qscalar") and p.get("qname") == what):
                    return True
    return False


def render_go(pkg, modname):
    """{relative path: source} of the package (one file, as isStructType wants it) and its helper package"""
    imports = []
    if uses(pkg, "ctx"):
        imports.append('"context"')
    imports.append('"net/http"')
    imports.append("")
    imports.append('"github.com/lopolopen/shoot"')
    for q in helpers(pkg):
        if uses(pkg, q["name"]):
            imports.append('"%s/%s"' % (modname, q["name"]))
    src = ["package %s" % pkg["name"], "", "import ("] + ["\t" + i if i else "" for i in imports] + [")", ""]
    src.append("type Status string")
    src.append("")
    src.append("type Res struct {\n\tID int `json:\"id\"`\n}")
    src.append("")
    other = ["package %s" % pkg["name"], ""]
    for st in pkg["structs"]:
        (other if st.get("other_file") else src).append(render_struct(st))
    for ifc in pkg["ifaces"]:
        src.append(render_iface(ifc, pkg))
    files = {"%s/%s.go" % (pkg["name"], pkg["name"]): "\n".join(src)}
    if len(other) > 2:
        files["%s/%s_types.go" % (pkg["name"], pkg["name"])] = "\n".join(other)
    for k, q in enumerate(helpers(pkg)):
        qs = ["package %s" % q["name"], ""] + (["type %s %s\n" % (n, b) for n, b in sorted(QSCALARS.items())] if k == 0 else [])
        for st in q["structs"]:
            qs.append(render_struct(st))
        files["%s/%s.go" % (q["name"], q["name"])] = "\n".join(qs)
    return files


# ------------------------------------------------------------------ Coq side
def doc_text_lines(lines):
    """what go/ast CommentGroup.Text() returns for //-comment lines, split into lines:
    trailing blanks of every line removed (leading/trailing empty lines cannot occur here)"""
    return [l.rstrip(" \t") for l in lines]


def struct_of(pkg, p):
    pool = next(q for q in helpers(pkg) if q["name"] == p["qual"])["structs"] if p["qual"] else pkg["structs"]
    return next(s for s in pool if s["name"] == p["struct"])


def coq_field_decl(f):
    tags = []
    if f["json"]:
        tags.append('json:"%s"' % f["json"])
    if f["alias"]:
        tags.append('shoot:"%salias=%s%s"' % (f.get("tagpre", ""), f["alias"], f.get("tagpost", "")))
    tag = ("Some %s" % coq_str("`" + " ".join(tags) + "`")) if tags else "None"
    return ("{| fd_names := %s; fd_type := %s; fd_star := %s; fd_tag := %s |}"
            % (coq_list(coq_str(n) for n in f["names"]), coq_str(field_go_type(f)), coq_bool(f["ptr"]), tag))


def coq_env(pkg):
    ftypes = [("Status", False), ("Res", True)] + [(s["name"], True) for s in pkg["structs"] if not s.get("other_file")] + \
             [(i["name"], False) for i in pkg["ifaces"]] + [(s["name"], True) for s in pkg["structs"] if s.get("other_file")]
    sel = ['(("context", "Context"), SelCtx)']
    structs = []
    for s in pkg["structs"]:
        structs.append('(("", %s), %s)' % (coq_str(s["name"]), coq_list(coq_field_decl(f) for f in s["fields"])))
    structs.append('(("", "Res"), [{| fd_names := ["ID"]; fd_type := "int"; fd_star := false; fd_tag := Some %s |}])'
                   % coq_str('`json:"id"`'))
    for k, q in enumerate(helpers(pkg)):
        if k == 0:
            for n in sorted(QSCALARS):
                sel.append("((%s, %s), SelBasic)" % (coq_str(q["name"]), coq_str(n)))
        for s in q["structs"]:
            sel.append("((%s, %s), SelNamed)" % (coq_str(q["name"]), coq_str(s["name"])))
            structs.append("((%s, %s), %s)" % (coq_str(q["name"]), coq_str(s["name"]),
                                              coq_list(coq_field_decl(f) for f in s["fields"])))
    return ("{| e_pkg_types := %s; e_sel := %s; e_structs := %s |}"
            % (coq_list("(%s, %s)" % (coq_str(n), coq_bool(b)) for n, b in ftypes), coq_list(sel), coq_list(structs)))


def pkg_q_name(p):
    return p["qname"]


def coq_texpr(p):
    k = p["kind"]
    if k == "ctx":
        t = 'TSel "context" "Context"'
    elif k == "scalar":
        t = ("TSel %s %s" % (coq_str(pkg_q_name(p)), coq_str(p["gotype"]))) if p.get("qscalar") else "TIdent %s" % coq_str(p["gotype"])
    elif k == "struct":
        t = ("TSel %s %s" % (coq_str(p["qual"]), coq_str(p["struct"]))) if p["qual"] else "TIdent %s" % coq_str(p["struct"])
    else:
        t = "TMapT"
    return "TStar (%s)" % t if p["ptr"] else t


def coq_method_decl(m, pkg):
    groups = []
    byname = {p["name"]: p for p in m["params"]}
    for names, _t in param_groups(m, pkg):
        groups.append("{| pd_names := %s; pd_type := %s |}"
                      % (coq_list(coq_str(n) for n in names), coq_texpr(byname[names[0]])))
    doc = "Some (doc_of %s)" % coq_list(coq_str(l) for l in doc_text_lines(m["doc_lines"]))
    return "{| md_name := %s; md_doc := %s; md_params := %s |}" % (coq_str(m["name"]), doc, coq_list(groups))


def coq_iface(ifc, pkg):
    items = []
    embed = "IEmbed (%s)" % (("Some (doc_of [%s])" % coq_str(ifc["hdr_line"].rstrip(" \t"))) if ifc["hdr_line"] else "None")
    for i, m in enumerate(ifc["methods"]):
        if i == ifc["embed_pos"]:
            items.append(embed)
        items.append("IMethod %s" % coq_method_decl(m, pkg))
    if ifc["embed_pos"] >= len(ifc["methods"]):
        items.append(embed)
    return coq_list(items)


def coq_fspec(f, n):
    return ("{| fi_name := %s; fi_alias := %s; fi_exported := %s; fi_ptr := %s |}"
            % (coq_str(n), coq_str(f["alias"] or ""), coq_bool(n[0].isupper()), coq_bool(f["ptr"])))


def coq_pkind(p, pkg):
    k = p["kind"]
    if k == "ctx":
        return "KCtx"
    if k == "scalar":
        return "KScalar %s" % coq_bool(p["ptr"])
    if k == "map":
        return "KMap %s" % coq_bool(p["ptr"])
    st = struct_of(pkg, p)
    return "KStruct %s %s" % (coq_bool(p["ptr"]), coq_list(coq_fspec(f, n) for f, n in flat_fields(st)))


def coq_mspec(m, pkg):
    toks = coq_list(("PLit %s" % coq_str(t[1])) if t[0] == "lit" else ("PHole %s" % coq_str(t[1])) for t in m["toks"])
    return ("{| s_verb := %s; s_toks := %s; s_alias := %s; s_params := %s |}"
            % (coq_str(m["verb"]), toks, coq_pairs(m["alias"]),
               coq_list("(%s, %s)" % (coq_str(p["name"]), coq_pkind(p, pkg)) for p in m["params"])))


def coq_texpr_ast(t):
    k = t["k"]
    if k == "ident":
        return "TIdent %s" % coq_str(t["n"])
    if k == "sel":
        return "TSel %s %s" % (coq_str(t["pkg"]), coq_str(t["n"]))
    if k == "map":
        return "TMapT"
    if k == "star":
        return "TStar (%s)" % coq_texpr_ast(t["t"])
    return "TOther"


def coq_env_ast(ast, fname):
    """the env record from what harness/go/cmd/restast read in the Go sources (go/parser, as shoot does)"""
    decls = list(ast["files"][fname]) + [t for f in sorted(ast["files"]) if f != fname for t in ast["files"][f]]
    ftypes = coq_list("(%s, %s)" % (coq_str(t["name"]), coq_bool(t["struct"])) for t in decls)
    sel = ['(("context", "Context"), SelCtx)'] + ["((%s, %s), %s)" % (coq_str(a), coq_str(b), "SelBasic" if c == "basic" else "SelNamed")
                                                 for a, b, c in ast["named"]]
    structs = []
    for sd in ast["structs"]:
        fds = coq_list("{| fd_names := %s; fd_type := %s; fd_star := %s; fd_tag := %s |}"
                       % (coq_list(coq_str(n) for n in f["names"]), coq_str(f["type"]), coq_bool(f["star"]),
                          "None" if f["tag"] is None else "Some %s" % coq_str(f["tag"])) for f in sd["fields"])
        structs.append("((%s, %s), %s)" % (coq_str(sd["pkg"]), coq_str(sd["name"]), fds))
    return "{| e_pkg_types := %s; e_sel := %s; e_structs := %s |}" % (ftypes, coq_list(sel), coq_list(structs))


def coq_iface_ast(ifc):
    items = []
    for it in ifc["items"]:
        doc = "None" if it["doc"] is None else "Some %s" % coq_str(it["doc"])
        if it["embed"]:
            items.append("IEmbed (%s)" % doc)
        else:
            ps = coq_list("{| pd_names := %s; pd_type := %s |}" % (coq_list(coq_str(n) for n in p["names"]), coq_texpr_ast(p["type"]))
                          for p in it.get("params") or [])
            items.append("IMethod {| md_name := %s; md_doc := %s; md_params := %s |}" % (coq_str(it["method"]), doc, ps))
    return coq_list(items)


def render_coq_pkg(pkg, prefix, ast=None):
    """Coq definitions shared by the cases of one package: E_<prefix>_<iface>, I_<prefix>_<iface>,
    S_<prefix>_<iface>_<method>, H_<prefix>_<iface>.  With ast (the output of restast for the rendered
    package) the generator-side input (env, interface, doc comments) is what go/parser read in the very
    sources shoot was run on; without it, it is rendered from the abstract package."""
    out = []
    by = {i["name"]: i for i in (ast["ifaces"] if ast else [])}
    for ifc in pkg["ifaces"]:
        if ast:
            a = by[ifc["name"]]
            out.append("Definition E_%s_%s : env := %s." % (prefix, ifc["name"], coq_env_ast(ast, a["file"])))
            out.append("Definition I_%s_%s : iface := %s." % (prefix, ifc["name"], coq_iface_ast(a)))
        else:
            out.append("Definition E_%s_%s : env := %s." % (prefix, ifc["name"], coq_env(pkg)))
            out.append("Definition I_%s_%s : iface := %s." % (prefix, ifc["name"], coq_iface(ifc, pkg)))
        out.append("Definition H_%s_%s : list (string * string) := %s." % (prefix, ifc["name"], coq_pairs(ifc["headers"] or [])))
        for m in ifc["methods"]:
            out.append("Definition S_%s_%s_%s : mspec := %s." % (prefix, ifc["name"], m["name"], coq_mspec(m, pkg)))
    return "\n".join(out)


# ------------------------------------------------------------------ argument values
INTS = {"int": [0, 1, -1, 42, 2 ** 31, -2 ** 63, 2 ** 63 - 1, 7, 1000000],
        "int64": [0, 5, -9, 2 ** 62, -2 ** 63, 123456789012],
        "uint": [0, 7, 2 ** 64 - 1, 2 ** 32]}


def gen_scalar(rng, gotype, for_path):
    gotype = scalar_base(gotype)
    if gotype in ("string", "Status"):
        pool = STR_PATH_SAFE if for_path else STR_SAFE + STR_QUERY_ONLY
        return ("str", rng.choice(pool))
    if gotype == "bool":
        return ("bool", rng.random() < 0.5)
    return ("int", rng.choice(INTS[gotype]))


def static_query_keys(m, pkg):
    """the query names the parameter list produces (without the map)"""
    al = dict(m["alias"])
    hole_params = {resolve(m, h) for t, h in m["toks"] if t == "hole"}
    keys = []
    for p in m["params"]:
        if p["kind"] == "scalar" and p["name"] not in hole_params:
            keys.append(al.get(p["name"], p["name"]))
        if p["kind"] == "struct":
            for f, n in flat_fields(struct_of(pkg, p)):
                keys.append(f["alias"] or n)          # approximation (camel-casing ignored): only used to provoke collisions
    return keys


def resolve(m, h):
    for p, a in m["alias"]:
        if a == h:
            return p
    return h


BRACE_VALUES = ["{x}", "a{b", "{id}", "{name}", "{uid}}", "x{"]


def gen_args(rng, m, pkg, tag, allow_nil_struct_on_query=False, force_nil_struct=False, brace_path=False, unsafe_path=False):
    """{param name: value}; values: ('str',s) ('int',z) ('bool',b) ('ptr', v|None, gotype) ('struct', {...}|None, ptr)
    ('map', [(k, v)]|None) ('ctx', tag, cancelled)"""
    hole_params = {resolve(m, h) for t, h in m["toks"] if t == "hole"}
    args = {}
    for p in m["params"]:
        k = p["kind"]
        if k == "ctx":
            args[p["name"]] = ("ctxnil",) if rng.random() < 0.03 else ("ctx", tag, rng.random() < 0.08)
        elif k == "scalar":
            if p["ptr"]:
                args[p["name"]] = ("ptr", None if rng.random() < 0.3 else gen_scalar(rng, p["gotype"], False), p["gotype"])
            else:
                args[p["name"]] = gen_scalar(rng, p["gotype"], p["name"] in hole_params)
                if brace_path and p["name"] in hole_params and scalar_base(p["gotype"]) in ("string", "Status") and rng.random() < 0.7:
                    args[p["name"]] = ("str", rng.choice(BRACE_VALUES))
                if unsafe_path and p["name"] in hole_params and scalar_base(p["gotype"]) in ("string", "Status") and rng.random() < 0.7:
                    args[p["name"]] = ("str", rng.choice(STR_PATH_UNSAFE))
        elif k == "struct":
            st = struct_of(pkg, p)
            nil_ok = p["ptr"] and (m["verb"] in BODY_VERBS or allow_nil_struct_on_query)
            if nil_ok and (force_nil_struct or rng.random() < 0.2):
                args[p["name"]] = ("struct", None, True)
            else:
                fv = {}
                for f, n in flat_fields(st):
                    if f["ptr"]:
                        fv[n] = ("ptr", None if rng.random() < 0.35 else gen_scalar(rng, f["gotype"], False), f["gotype"])
                    else:
                        fv[n] = gen_scalar(rng, f["gotype"], False)
                args[p["name"]] = ("struct", fv, p["ptr"])
        elif k == "map":
            r = rng.random()
            if r < 0.1:
                args[p["name"]] = ("map", None)
            else:
                n = rng.choice([0, 1, 1, 2, 3])
                keys = _pick_distinct(rng, ["k", "b b", "x&y", "sort", "ü", "a=b", "z%z", "K", "", "page"], n)
                sk = static_query_keys(m, pkg)
                if sk and keys and rng.random() < 0.35:
                    keys[0] = rng.choice(sk)          # the map overwrites a declared parameter (url.Values.Set)
                keys = list(dict.fromkeys(keys))
                mt = {"string": "string", "int": "int", "bool": "bool"}[p["maptype"]]
                args[p["name"]] = ("map", [(kk, gen_scalar(rng, mt, False)) for kk in keys])
    return args


def go_scalar(v, gotype, pkgname, qname=None):
    kind, x = v[0], v[1]
    if gotype in QSCALARS:
        return "%s.%s(%s)" % (qname, gotype, go_str(x) if kind == "str" else "%d" % x)
    if kind == "str":
        s = go_str(x)
        return "%s.Status(%s)" % (pkgname, s) if gotype == "Status" else s
    if kind == "bool":
        return "true" if x else "false"
    return "%s(%d)" % (gotype, x)


def go_value(v, p, pkg):
    k = v[0]
    if k == "ctx":
        return "mkctx(%d, %s)" % (v[1], "true" if v[2] else "false")
    qn = pkg["qpkg"]["name"] if pkg.get("qpkg") else None
    if k == "ctxnil":
        return "context.Context(nil)"
    if k == "raw":
        return v[1]                      # a Go expression (witness packages only)
    if k in ("str", "int", "bool"):
        return go_scalar(v, p["gotype"], pkg["name"], qn)
    if k == "ptr":
        gt = p["gotype"]
        gtq = (pkg["name"] + ".Status") if gt == "Status" else ((qn + "." + gt) if gt in QSCALARS else gt)
        return "(*%s)(nil)" % gtq if v[1] is None else "ptr(%s)" % go_scalar(v[1], gt, pkg["name"], qn)
    if k == "map":
        if v[1] is None:
            return "map[string]%s(nil)" % p["maptype"]
        return "map[string]%s{%s}" % (p["maptype"], ", ".join("%s: %s" % (go_str(kk), go_scalar(vv, p["maptype"], pkg["name"]))
                                                             for kk, vv in v[1]))
    if k == "struct":
        st = struct_of(pkg, p)
        owner = p["qual"] or pkg["name"]
        tname = "%s.%s" % (owner, st["name"])
        if v[1] is None:
            return "(*%s)(nil)" % tname
        parts = []
        for f, n in flat_fields(st):
            fv = v[1][n]
            gt = f["gotype"]
            gtq = (owner + ".Status") if gt == "Status" else gt
            if fv[0] == "ptr":
                parts.append("(*%s)(nil)" % gtq if fv[1] is None else "ptr(%s)" % go_scalar(fv[1], gt, owner))
            else:
                parts.append(go_scalar(fv, gt, owner))
        e = "%s.New%s(%s)" % (owner, st["name"], ", ".join(parts))
        return "ptr(%s)" % e if v[2] else e
    raise ValueError(v)


def coq_sval(v):
    if v[0] == "str":
        return "SStr %s" % coq_str(v[1])
    if v[0] == "bool":
        return "SBool %s" % coq_bool(v[1])
    return "SInt (%d)%%Z" % v[1]


def coq_aval(v, p, pkg):
    k = v[0]
    if k == "ctxnil":
        return "ACtx None"
    if k == "ctx":
        return "ACtx (Some (%d, %s))" % (v[1], coq_bool(v[2]))
    if k in ("str", "int", "bool"):
        return "AScalar (%s)" % coq_sval(v)
    if k == "ptr":
        return "APtr None" if v[1] is None else "APtr (Some (%s))" % coq_sval(v[1])
    if k == "map":
        return "AMap %s" % coq_list("(%s, %s)" % (coq_str(kk), coq_sval(vv)) for kk, vv in (v[1] or []))
    if k == "struct":
        if v[1] is None:
            return "AStruct true None"
        st = struct_of(pkg, p)
        fs = []
        for f, n in flat_fields(st):
            fv = v[1][n]
            if fv[0] == "ptr":
                fs.append("(%s, FPtr %s)" % (coq_str(n), "None" if fv[1] is None else "(Some (%s))" % coq_sval(fv[1])))
            else:
                fs.append("(%s, FPlain (%s))" % (coq_str(n), coq_sval(fv)))
        return "AStruct %s (Some %s)" % (coq_bool(v[2]), coq_list(fs))
    raise ValueError(v)


def coq_args(args, m, pkg):
    return coq_list("(%s, %s)" % (coq_str(p["name"]), coq_aval(args[p["name"]], p, pkg)) for p in m["params"])


def coq_obs(o):
    """o: one JSON line of the driver"""
    k = o.get("out")
    if k == "sent":
        ctx = "None" if o["ctx"] < 0 else "(Some %d)" % o["ctx"]
        return ("ObSent %s %s %s %s %s %s" % (coq_str(o["method"]), coq_str(o["path"]), coq_pairs(o["query"]),
                                            coq_pairs(o["headers"]), coq_str(o["body"]), ctx))
    if k == "canceled":
        return "ObCanceled"
    if k == "panic":
        return "ObPanic"
    if k == "err":
        return "ObErr"
    return "ObOther %s" % coq_str("driver: " + json.dumps(o, sort_keys=True)[:300])


# -------------------------------------------------------------------- driver
DRIVER_HEAD = '''// Code written by harness/restgen.py: performs the calls of the C06 cases against a recording
// httptest server and prints one JSON line per call.
package main

import (
	"context"
	"encoding/json"
	"errors"
	"fmt"
	"io"
	"net/http"
	"net/http/httptest"
	"os"
	"sort"
	"sync"
	"time"

	"github.com/lopolopen/shoot"
%s
)

type tagKey struct{}

type rec struct {
	Method  string
	Path    string
	Query   [][2]string
	Headers [][2]string
	Body    string
}

var (
	mu      sync.Mutex
	recs    []rec
	lastTag = -1
	nRT     int
)

// recT records the context the generated method attached to the request
type recT struct{ next http.RoundTripper }

func (t recT) RoundTrip(r *http.Request) (*http.Response, error) {
	mu.Lock()
	nRT++
	lastTag = -1
	if v := r.Context().Value(tagKey{}); v != nil {
		lastTag = v.(int)
	}
	mu.Unlock()
	return t.next.RoundTrip(r)
}

func ptr[T any](v T) *T { return &v }

func mkctx(tag int, cancelled bool) context.Context {
	ctx := context.WithValue(context.Background(), tagKey{}, tag)
	if cancelled {
		c, cancel := context.WithCancel(ctx)
		cancel()
		return c
	}
	return ctx
}

var skipHeader = map[string]bool{"User-Agent": true, "Accept-Encoding": true, "Content-Length": true}

func handler(w http.ResponseWriter, r *http.Request) {
	b, _ := io.ReadAll(r.Body)
	x := rec{Method: r.Method, Path: r.URL.Path, Body: string(b)}
	q := r.URL.Query()
	qk := make([]string, 0, len(q))
	for k := range q {
		qk = append(qk, k)
	}
	sort.Strings(qk)
	for _, k := range qk {
		vs := append([]string(nil), q[k]...)
		sort.Strings(vs)
		for _, v := range vs {
			x.Query = append(x.Query, [2]string{k, v})
		}
	}
	hk := make([]string, 0, len(r.Header))
	for k := range r.Header {
		if !skipHeader[k] {
			hk = append(hk, k)
		}
	}
	sort.Strings(hk)
	for _, k := range hk {
		for _, v := range r.Header[k] {
			x.Headers = append(x.Headers, [2]string{k, v})
		}
	}
	mu.Lock()
	recs = append(recs, x)
	mu.Unlock()
	w.WriteHeader(204)
}

var out = json.NewEncoder(os.Stdout)

// run performs one call and prints what was observed
func run(id int, structs map[string]any, f func() error) {
	mu.Lock()
	recs = nil
	lastTag = -1
	nRT = 0
	mu.Unlock()
	res := map[string]any{"id": id}
	js := map[string]string{}
	for k, v := range structs {
		b, err := json.Marshal(v)
		if err != nil {
			js[k] = "marshal error: " + err.Error()
		} else {
			js[k] = string(b)
		}
	}
	res["json"] = js
	var err error
	panicked := func() (p bool) {
		defer func() {
			if r := recover(); r != nil {
				p = true
				res["panic"] = fmt.Sprint(r)
			}
		}()
		err = f()
		return false
	}()
	mu.Lock()
	n := len(recs)
	var first rec
	if n > 0 {
		first = recs[0]
	}
	tag := lastTag
	mu.Unlock()
	res["nreq"] = n
	switch {
	case panicked:
		res["out"] = "panic"
	case err != nil && n == 0 && errors.Is(err, context.Canceled):
		res["out"] = "canceled"
	case err != nil && n == 0:
		res["out"] = "err"
		res["err"] = err.Error()
	case err == nil && n == 1:
		res["out"] = "sent"
		res["method"] = first.Method
		res["path"] = first.Path
		if first.Query == nil {
			first.Query = [][2]string{}
		}
		if first.Headers == nil {
			first.Headers = [][2]string{}
		}
		res["query"] = first.Query
		res["headers"] = first.Headers
		res["body"] = first.Body
		res["ctx"] = tag
	default:
		res["out"] = "other"
		res["err"] = fmt.Sprint(err)
	}
	out.Encode(res)
}

func main() {
	srv := httptest.NewServer(http.HandlerFunc(handler))
	defer srv.Close()
	base := srv.URL
	_ = base
	_ = time.Second
'''


def render_driver(modname, clients, cases):
    """clients: [(var, pkgname, ifacename, base prefix)]; cases: [(id, client var, method, pkg, args)]"""
    cand = sorted({c[1] for c in clients} | {q["name"] for c in cases for q in helpers(c[3])})
    out = [None]
    for var, pkgname, iname, prefix in clients:
        burl = go_str("http://[::1") if prefix == INVALID_BASE else "base + %s" % go_str(prefix)
        out.append("\tvar %s %s.%s = shoot.NewRest[%s.%s](shoot.BaseURL(%s))" % (var, pkgname, iname, pkgname, iname, burl))
        out.append("\t%s.ConfigHTTPClient(func(h *http.Client) { h.Transport = recT{http.DefaultTransport} })" % var)
    chunks = []
    for cid, var, m, pkg, args in cases:
        lines = ["\t{"]
        names = []
        structs = []
        for i, p in enumerate(m["params"]):
            lines.append("\t\ta%d := %s" % (i, go_value(args[p["name"]], p, pkg)))
            names.append("a%d" % i)
            if p["kind"] == "struct":
                structs.append("%s: a%d" % (go_str(p["name"]), i))
        blanks = "_, " if m["result"] == "none" else "_, _, "
        lines.append("\t\trun(%d, map[string]any{%s}, func() error { %serr := %s.%s(%s); return err })"
                     % (cid, ", ".join(structs), blanks, var, m["name"], ", ".join(names)))
        lines.append("\t}")
        chunks.append("\n".join(lines))
    # split the calls over functions so that no single function gets huge
    funcs = []
    per = 150
    for k in range(0, len(chunks), per):
        funcs.append(k // per)
    out.append("\t_ = ptr[int]")
    for k in funcs:
        out.append("\tcalls%d(%s)" % (k, ", ".join(c[0] for c in clients)))
    out.append("}")
    sig = ", ".join("%s %s.%s" % (c[0], c[1], c[2]) for c in clients)
    for k in funcs:
        out.append("")
        out.append("func calls%d(%s) {" % (k, sig))
        out.append("\n".join(chunks[k * per:(k + 1) * per]))
        out.append("}")
    body = "\n".join(l for l in out[1:] if l is not None) + "\n"
    pkgs = [p for p in cand if (p + ".") in body]
    imports = "\n".join('\t"%s/%s"' % (modname, p) for p in pkgs)
    return DRIVER_HEAD % imports + body
