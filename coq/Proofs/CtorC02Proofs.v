(* Assembly of the C02 statements from the flatten / resolve / decode / eval lemmas. *)
From Coq Require Import String Ascii List Bool Arith ZArith Lia.
From Shoot Require Import Base.Str Base.GoVal Model.Transfer Model.CtorDirective Model.Ctor Model.CtorSpec.
From Shoot Require Import Proofs.GoValProofs Proofs.CtorFlattenProofs Proofs.CtorResolveProofs Proofs.CtorNewProofs.
Import ListNotations.
Local Open Scope list_scope.

(* an entry that becomes a parameter *)
Definition pentry (hn : bool) (e : field) : bool :=
  negb (f_shadowed e) && negb (f_embedded e) && (negb hn || f_new e).

Lemma assoc_map_put : forall A k (v : A) m k',
  assoc k' (map_put k v m) = if String.eqb k' k then Some v else assoc k' m.
Proof.
  intros A k v m k'. induction m as [|[k2 v2] m IH]; simpl.
  - destruct (String.eqb k' k); reflexivity.
  - destruct (String.eqb k k2) eqn:E; simpl.
    + apply String.eqb_eq in E. subst k2. destruct (String.eqb k' k); reflexivity.
    + destruct (String.eqb k' k2) eqn:E2.
      * apply String.eqb_eq in E2. subst k2. rewrite String.eqb_sym, E. reflexivity.
      * exact IH.
Qed.

Lemma loop_names : forall hn fs a n,
  assoc n (a_names (make_new_loop hn fs a)) =
  if existsb (fun e => pentry hn e && String.eqb (f_name e) n) fs then Some (to_camel_case n)
  else assoc n (a_names a).
Proof.
  intros hn fs. induction fs as [|f fs IH]; intros a n; simpl; auto.
  unfold pentry at 1.
  destruct (f_shadowed f); simpl; [apply IH|].
  destruct (f_embedded f); simpl; [apply IH|].
  destruct (hn && negb (f_new f)) eqn:E.
  - rewrite IH. simpl.
    assert (negb hn || f_new f = false) by (destruct hn, (f_new f); simpl in *; congruence).
    rewrite H. simpl. reflexivity.
  - rewrite IH. simpl.
    assert (negb hn || f_new f = true) by (destruct hn, (f_new f); simpl in *; congruence).
    rewrite H. simpl. rewrite assoc_map_put.
    destruct (existsb (fun e => pentry hn e && String.eqb (f_name e) n) fs); [destruct (String.eqb (f_name f) n); reflexivity|].
    rewrite String.eqb_sym. destruct (String.eqb (f_name f) n) eqn:En; auto.
    apply String.eqb_eq in En. subst n. reflexivity.
Qed.

Definition empty_acc : new_acc := {| a_all := []; a_names := []; a_types := []; a_defs := []; a_defmap := [] |}.

Definition name_map (hn : bool) (fs : list field) : list (ident * string) := a_names (make_new_loop hn fs empty_acc).

Lemma name_map_spec : forall hn fs n,
  assoc n (name_map hn fs) =
  if existsb (fun e => pentry hn e && String.eqb (f_name e) n) fs then Some (to_camel_case n) else None.
Proof. intros. unfold name_map. rewrite loop_names. reflexivity. Qed.

(* uniqueness of the unshadowed entry of a name *)
Definition unique_unshadowed (fs : list field) : Prop :=
  forall e1 e2, In e1 fs -> In e2 fs -> f_name e1 = f_name e2 ->
                f_shadowed e1 = false -> f_shadowed e2 = false -> e1 = e2.

Lemma params_are_pentries : forall hn fs, unique_unshadowed fs ->
  new_params_list fs (name_map hn fs) =
  map (fun e => (to_camel_case (f_name e), star_type e)) (filter (pentry hn) fs).
Proof.
  intros hn fs U.
  assert (G : forall l, (forall e, In e l -> In e fs) ->
            new_params_list l (name_map hn fs) =
            map (fun e => (to_camel_case (f_name e), star_type e)) (filter (pentry hn) l)).
  { induction l as [|e l IH]; intros Hin; simpl; auto.
    assert (He : In e fs) by (apply Hin; left; reflexivity).
    rewrite IH by (intros e' He'; apply Hin; right; exact He').
    rewrite name_map_spec.
    destruct (f_embedded e) eqn:Ee; simpl.
    - assert (Pe : pentry hn e = false) by (unfold pentry; rewrite Ee; destruct (f_shadowed e); reflexivity).
      rewrite Pe. reflexivity.
    - destruct (f_shadowed e) eqn:Es; simpl.
      + assert (Pe : pentry hn e = false) by (unfold pentry; rewrite Es; reflexivity).
        rewrite Pe. reflexivity.
      + destruct (existsb (fun e0 => pentry hn e0 && String.eqb (f_name e0) (f_name e)) fs) eqn:Ex.
        * apply existsb_exists in Ex. destruct Ex as [e' [He' Hp]].
          apply andb_true_iff in Hp. destruct Hp as [Hp Hn]. apply String.eqb_eq in Hn.
          assert (Hs' : f_shadowed e' = false).
          { unfold pentry in Hp. destruct (f_shadowed e'); simpl in Hp; [discriminate|reflexivity]. }
          assert (e' = e) by (apply U; auto). subst e'.
          rewrite Hp. reflexivity.
        * destruct (pentry hn e) eqn:Ep; auto.
          exfalso. assert (existsb (fun e0 => pentry hn e0 && String.eqb (f_name e0) (f_name e)) fs = true).
          { apply existsb_exists. exists e. split; auto. rewrite Ep, String.eqb_refl. reflexivity. }
          congruence. }
  apply G. auto.
Qed.

Lemma leafv_pentry : forall hn fs args e, In e fs -> pentry hn e = true ->
  leafv (name_map hn fs) args e = args (to_camel_case (f_name e)).
Proof.
  intros hn fs args e He Hp. unfold leafv. rewrite name_map_spec.
  assert (existsb (fun e0 => pentry hn e0 && String.eqb (f_name e0) (f_name e)) fs = true).
  { apply existsb_exists. exists e. split; auto. rewrite Hp, String.eqb_refl. reflexivity. }
  rewrite H. unfold pentry in Hp. destruct (f_shadowed e); simpl in *; [discriminate|reflexivity].
Qed.

Lemma leafv_other : forall hn fs args e, unique_unshadowed fs -> In e fs ->
  f_embedded e = false -> pentry hn e = false -> leafv (name_map hn fs) args e = dv e.
Proof.
  intros hn fs args e U He Hemb Hp. unfold leafv. rewrite name_map_spec.
  destruct (existsb (fun e0 => pentry hn e0 && String.eqb (f_name e0) (f_name e)) fs) eqn:Ex; auto.
  destruct (f_shadowed e) eqn:Es; simpl; auto.
  exfalso. apply existsb_exists in Ex. destruct Ex as [e' [He' Hq]].
  apply andb_true_iff in Hq. destruct Hq as [Hq Hn]. apply String.eqb_eq in Hn.
  assert (Hs' : f_shadowed e' = false).
  { unfold pentry in Hq. destruct (f_shadowed e'); simpl in Hq; [discriminate|reflexivity]. }
  assert (e' = e) by (apply U; auto). subst e'. congruence.
Qed.

(* positional binding of the arguments *)
Lemma bind_args_nth : forall ps vals i p t,
  NoDup (map fst ps) -> length vals = length ps -> nth_error ps i = Some (p, t) ->
  bind_args ps vals p = nth i vals VZero.
Proof.
  induction ps as [|[q tq] ps IH]; intros vals i p t ND Hl Hn.
  - destruct i; discriminate.
  - destruct vals as [|v vals]; [discriminate|]. simpl in *. inversion ND; subst.
    destruct i as [|i]; simpl in Hn.
    + inversion Hn; subst. rewrite String.eqb_refl. reflexivity.
    + destruct (String.eqb p q) eqn:E.
      * apply String.eqb_eq in E. subst q. exfalso. apply H1.
        apply nth_error_In in Hn. apply (in_map fst) in Hn. exact Hn.
      * eapply IH; eauto.
Qed.

(* ----------------------------------------------------- guards as propositions *)
Lemma closure_distinct_of_guard : forall pkg fuel sd,
  wf_structs pkg fuel sd = true -> depth_bounded pkg fuel sd = true ->
  closure_distinct pkg (top_tfields sd) [].
Proof.
  intros pkg fuel sd GW GB j o Hin Hemb si Hs.
  rewrite <- struct_fields_self, <- level_is_fields in Hin.
  assert (Hlt := depth_lt_fuel _ _ _ _ _ GB Hin).
  unfold wf_structs in GW. apply andb_true_iff in GW. destruct GW as [_ GW].
  rewrite forallb_forall in GW. specialize (GW o (in_all_occ _ _ _ _ _ Hlt Hin)).
  rewrite Hemb in GW. unfold sinst_of in GW. rewrite Hs in GW. simpl in GW.
  rewrite andb_true_r in GW. unfold fields_distinct in GW. apply nodup_str_NoDup. exact GW.
Qed.

Lemma top_names_nodup : forall pkg fuel sd,
  wf_structs pkg fuel sd = true -> NoDup (map tf_name (top_tfields sd)).
Proof.
  intros pkg fuel sd GW. unfold wf_structs in GW. apply andb_true_iff in GW. destruct GW as [GW _].
  unfold fields_distinct in GW. rewrite struct_fields_self in GW. apply nodup_str_NoDup. exact GW.
Qed.

Lemma unique_unshadowed_mark : forall pkg fl fuel sd raw,
  raw_top pkg fl fuel (sd_fields sd) = COk raw ->
  depth_bounded pkg fuel sd = true -> wf_structs pkg fuel sd = true ->
  unambiguous pkg fuel sd = true -> no_embedded_nonstruct pkg fuel sd = true ->
  no_excluded_shadow pkg fuel sd = true ->
  unique_unshadowed (mark raw).
Proof.
  intros pkg fl fuel sd raw Hraw GB GW GU GN GX e1 e2 H1 H2 Hn S1 S2.
  unfold mark, markmap in H1, H2. apply in_map_iff in H1. apply in_map_iff in H2.
  destruct H1 as [a [Ea Ha]]. destruct H2 as [b [Eb Hb]]. subst e1 e2.
  assert (Ua : unmarked raw) by (eapply raw_top_unmarked; eauto).
  rewrite mark_with_shadowed in S1, S2 by (apply Ua; auto).
  rewrite !mark_with_name in Hn.
  destruct (shadow_refines_selector_raw _ _ _ _ _ _ Hraw GB GW GU GN GX Ha) as [[Ra _] Fa].
  destruct (shadow_refines_selector_raw _ _ _ _ _ _ Hraw GB GW GU GN GX Hb) as [[Rb _] Fb].
  specialize (Ra S1). specialize (Rb S2). specialize (Fa S1). specialize (Fb S2).
  rewrite Hn in Ra. rewrite Ra in Rb. inversion Rb as [Hp].
  assert (Hd : f_depth a = f_depth b).
  { pose proof (raw_top_path_len _ _ _ _ _ _ Hraw Ha). pose proof (raw_top_path_len _ _ _ _ _ _ Hraw Hb).
    rewrite Hp in H. lia. }
  assert (In b (filter (nd (f_name a) (f_depth a)) raw)).
  { apply in_filter_nd. auto. }
  rewrite Fa in H. destruct H as [H|[]]. subst b. reflexivity.
Qed.

Lemma expect_top_excluded : forall pkg fl fuel g nm args fds kv fd n,
  expect_top pkg fl fuel g nm args fds = Some kv ->
  NoDup (map tf_name (flat_map tfields_of_decl fds)) ->
  In fd fds -> In n (fd_names fd) -> excluded_decl fd n = true ->
  assoc n kv = Some VZero.
Proof.
  intros pkg fl fuel g nm args fds. induction fds as [|fd0 fds IH]; intros kv fd n X ND Hfd Hn Hex; [destruct Hfd|].
  cbn [expect_top flat_map] in *.
  destruct (expect_decl pkg fl fuel g nm args fd0) as [ka|] eqn:Eka; [|discriminate].
  destruct (expect_top pkg fl fuel g nm args fds) as [kb|] eqn:Ekb; [|discriminate].
  inversion X; subst kv. rewrite map_app in ND.
  assert (Hkeys : map fst ka = map tf_name (tfields_of_decl fd0)).
  { unfold expect_decl in Eka. unfold tfields_of_decl. destruct (fd_names fd0) as [|y names].
    - destruct (expect_type pkg fuel g nm args 0 [] (fd_ty fd0) (parse_new_comment (fd_doc fd0))); [|discriminate].
      inversion Eka; subst. reflexivity.
    - injection Eka as Heq. rewrite <- Heq. rewrite names_of_named_chunk.
      apply (expect_names_keys g nm args fl fd0 (parse_new_comment (fd_doc fd0)) (y :: names)). }
  destruct Hfd as [Hfd|Hfd].
  - subst fd0. unfold expect_decl in Eka. destruct (fd_names fd) as [|y names] eqn:EN; [destruct Hn|].
    injection Eka as Heq. rewrite <- Heq.
    apply (expect_names_excluded g nm args fl fd (parse_new_comment (fd_doc fd)) (y :: names) n kb Hn Hex).
    apply NoDup_app_head in ND. unfold tfields_of_decl in ND. rewrite EN, names_of_named_chunk in ND. exact ND.
  - rewrite assoc_app_notin.
    + eapply IH; eauto. eapply NoDup_app_tail; eauto.
    + rewrite Hkeys. intros Hin. eapply NoDup_app_disjoint; [exact ND|exact Hin|].
      eapply excluded_name_in_tfields; eauto.
Qed.

(* ------------------------------------------------------------ the master lemma *)
Lemma new_master : forall pkg fl fuel sd fs hn args,
  flatten pkg fl fuel sd = COk (fs, hn) ->
  depth_bounded pkg fuel sd = true -> wf_structs pkg fuel sd = true ->
  unambiguous pkg fuel sd = true -> no_embedded_nonstruct pkg fuel sd = true ->
  no_excluded_shadow pkg fuel sd = true ->
  let nd := make_new sd hn fs in
  exists kv,
    eval_new pkg fuel sd (nd_body nd) args = Ok (VPtr (VStruct kv)) /\
    unique_unshadowed fs /\
    nd_name_map nd = name_map hn fs /\
    (forall e, In e fs -> exists v, lookup (VPtr (VStruct kv)) (f_path e) = Ok v /\
        if f_embedded e then exists kv', v = wrap_ptr (f_ptr e) kv'
        else v = leafv (name_map hn fs) args e) /\
    (forall fd n, In fd (sd_fields sd) -> In n (fd_names fd) -> excluded_decl fd n = true ->
        lookup (VPtr (VStruct kv)) [n] = Ok VZero).
Proof.
  intros pkg fl fuel sd fs hn args H GB GW GU GN GX nd.
  destruct (flatten_is_marked_raw _ _ _ _ _ _ H) as [raw [Hraw [Hfs Hhn]]].
  set (g := mark_with raw). assert (K : keeps g) by apply mark_with_keeps.
  assert (Efs : fs = map g raw) by (subst fs; reflexivity).
  set (nm := name_map hn fs).
  assert (Enm : nd_name_map nd = nm) by reflexivity.
  assert (CD := closure_distinct_of_guard _ _ _ GW GB).
  assert (ND := top_names_nodup _ _ _ GW).
  unfold top_tfields in CD, ND.
  (* the literal *)
  destruct (decode_top pkg fl fuel g nm K (sd_fields sd) raw (S (length fs)) Hraw) as [lits [EL EB]].
  { rewrite Efs, map_length. lia. }
  assert (Ebody : nd_body nd = lits).
  { unfold nd, make_new. cbn [nd_body]. unfold new_body. fold empty_acc. fold (name_map hn fs). fold nm.
    rewrite Efs at 2. rewrite EB. reflexivity. }
  (* its value *)
  destruct (zero_struct_ok pkg fuel (self_inst sd)) as [zs [Ez Zz]].
  rewrite struct_fields_self in Zz. unfold top_tfields in Zz.
  destruct (eval_top pkg fl g nm args fuel K fuel (sd_fields sd) lits [] zs EL Zz) as [kv [EX EV]]; auto.
  exists kv. split; [|split; [|split; [|split]]].
  - unfold eval_new. rewrite Ebody, Ez. simpl app in EV. rewrite EV. reflexivity.
  - subst fs. eapply unique_unshadowed_mark; eauto.
  - exact Enm.
  - intros e He. rewrite Efs in He. apply in_map_iff in He. destruct He as [e0 [Ee He0]]. subst e.
    destruct (lookup_top pkg fl g nm args K fuel (sd_fields sd) raw kv [] Hraw EX) with (e := e0) (x := VPtr (VStruct kv))
      as [v [L1 L2]]; auto.
    { right. reflexivity. }
    exists v. unfold g at 1 2 3. rewrite mark_with_path, mark_with_embedded, mark_with_ptr.
    split; [exact L1|]. unfold entry_val_ok in L2. exact L2.
  - intros fd n Hfd Hn Hex. cbn [lookup sel bind].
    rewrite (expect_top_excluded _ _ _ _ _ _ _ _ _ _ EX ND Hfd Hn Hex). reflexivity.
Qed.

(* ------------------------------------------- entries and their declarations *)
Lemma raw_type_leaf_facts : forall pkg fuel depth pre t is_new l,
  raw_type pkg fuel depth pre t is_new = Some l ->
  forall e, In e l -> f_embedded e = false ->
  f_new e = is_new /\ f_def e = ""%string /\ S depth <= f_depth e /\ exists rel, f_path e = pre ++ short_name t :: rel.
Proof.
  intros pkg fuel. induction fuel as [|fuel IH]; intros depth pre t is_new l H; rewrite raw_type_unfold in H.
  - destruct (struct_of pkg t); inversion H; subst. intros e [].
  - destruct (struct_of pkg t) as [si|]; [|inversion H; subst; intros e []].
    set (e0 := embedded_entry t depth pre) in *.
    assert (Hp0 : f_path e0 = pre ++ [short_name t]) by (unfold e0; apply embedded_entry_path).
    assert (G : forall fs l', raw_fields pkg fuel (S depth) (f_path e0) is_new fs = Some l' ->
              forall e, In e l' -> f_embedded e = false ->
              f_new e = is_new /\ f_def e = ""%string /\ S depth <= f_depth e /\
              exists rel, f_path e = pre ++ short_name t :: rel).
    { induction fs as [|[[n ft] emb] fs IHfs]; intros l' H'.
      - inversion H'; subst. intros e [].
      - rewrite raw_fields_cons in H'. destruct emb.
        + destruct (raw_type pkg fuel (S depth) (f_path e0) ft is_new) as [a|] eqn:Ea; [|discriminate].
          destruct (raw_fields pkg fuel (S depth) (f_path e0) is_new fs) as [b|] eqn:Eb; [|discriminate].
          inversion H'; subst. intros e He Hemb. apply in_app_or in He. destruct He as [He|He].
          * destruct (IH _ _ _ _ _ Ea e He Hemb) as [A [B [C [rel D]]]]. repeat split; auto; try lia.
            exists (short_name ft :: rel). rewrite D, Hp0, <- app_assoc. reflexivity.
          * eapply IHfs; eauto.
        + destruct (raw_fields pkg fuel (S depth) (f_path e0) is_new fs) as [b|] eqn:Eb; [|discriminate].
          inversion H'; subst. intros e [He|He] Hemb; [|eapply IHfs; eauto].
          subst e. simpl. repeat split; auto. exists [n]. rewrite Hp0, <- app_assoc. reflexivity. }
    destruct (raw_fields pkg fuel (S depth) (f_path e0) is_new (struct_fields si)) as [l'|] eqn:E; [|discriminate].
    inversion H; subst. intros e [He|He] Hemb.
    + subst e. unfold e0 in Hemb. rewrite embedded_entry_emb in Hemb. discriminate.
    + eapply G; eauto.
Qed.

Definition decl_names (fd : fdecl) : list ident := map tf_name (tfields_of_decl fd).

Lemma decl_has_name_iff : forall n fd, decl_has_name n fd = true <-> In n (decl_names fd).
Proof.
  intros n fd. unfold decl_has_name, decl_names. rewrite tfields_of_decl_names.
  destruct (fd_names fd) as [|x ns].
  - rewrite String.eqb_eq. simpl. split; [intros H; left; exact H|intros [H|[]]; exact H].
  - rewrite existsb_exists. split.
    + intros [y [Hy E]]. apply String.eqb_eq in E. subst. exact Hy.
    + intros H. exists n. split; auto. apply String.eqb_refl.
Qed.

(* with distinct field names, the declaration found by name is THE declaration *)
Lemma find_decl_unique : forall fds fd n,
  NoDup (map tf_name (flat_map tfields_of_decl fds)) -> In fd fds -> In n (decl_names fd) ->
  find (decl_has_name n) fds = Some fd.
Proof.
  induction fds as [|fd0 fds IH]; intros fd n ND Hfd Hn; [destruct Hfd|].
  cbn [flat_map] in ND. rewrite map_app in ND. simpl.
  destruct (decl_has_name n fd0) eqn:E.
  - destruct Hfd as [Hfd|Hfd]; [subst; reflexivity|].
    exfalso. apply decl_has_name_iff in E. eapply NoDup_app_disjoint; [exact ND|exact E|].
    clear - Hfd Hn. induction fds as [|f fds IHf]; [destruct Hfd|].
    cbn [flat_map]. rewrite map_app. apply in_or_app. destruct Hfd as [Hfd|Hfd]; [subst; left; exact Hn|right; auto].
  - destruct Hfd as [Hfd|Hfd].
    + subst fd0. apply decl_has_name_iff in Hn. congruence.
    + apply IH; auto. eapply NoDup_app_tail; eauto.
Qed.

(* every leaf entry and the declaration of the struct it comes from *)
Lemma raw_entry_decl : forall pkg fl fuel fds raw e,
  raw_top pkg fl fuel fds = COk raw -> In e raw -> f_embedded e = false ->
  exists fd first rest, In fd fds /\ f_path e = first :: rest /\ In first (decl_names fd) /\
    f_new e = parse_new_comment (fd_doc fd) /\
    ((rest = [] /\ first = f_name e /\ In first (fd_names fd) /\ excluded_decl fd first = false /\
      f_def e = parse_def (fd_doc fd)) \/
     (rest <> [] /\ fd_names fd = [] /\ f_def e = ""%string)).
Proof.
  intros pkg fl fuel fds. induction fds as [|fd fds IH]; intros raw e H He Hemb; simpl in H.
  - inversion H; subst. destruct He.
  - destruct (raw_decl pkg fl fuel fd) as [a| |] eqn:Ea; try discriminate.
    destruct (raw_top pkg fl fuel fds) as [b| |] eqn:Eb; try discriminate.
    inversion H; subst raw. apply in_app_or in He. destruct He as [He|He].
    + unfold raw_decl in Ea. destruct (fd_names fd) as [|x names] eqn:EN.
      * destruct (raw_type pkg fuel 0 [] (fd_ty fd) (parse_new_comment (fd_doc fd))) as [l|] eqn:Er; [|discriminate].
        inversion Ea; subst l.
        destruct (raw_type_leaf_facts _ _ _ _ _ _ _ Er e He Hemb) as [A [B [C [rel D]]]].
        exists fd, (short_name (fd_ty fd)), rel. simpl in D. repeat split; auto.
        -- left. reflexivity.
        -- unfold decl_names. rewrite tfields_of_decl_names, EN. left. reflexivity.
        -- right. repeat split; auto. intros Hr. subst rel.
           pose proof (raw_type_path_len _ _ _ _ _ _ _ Er eq_refl e He) as Hl. rewrite D in Hl. simpl in Hl. lia.
      * destruct (raw_names_facts _ _ _ _ _ _ Ea He) as [Hd [Hp [_ [Hin [Hex [Hnew [Hdef _]]]]]]].
        exists fd, (f_name e), []. repeat split; auto.
        -- left. reflexivity.
        -- unfold decl_names. rewrite tfields_of_decl_names, EN. exact Hin.
        -- left. rewrite EN. repeat split; auto.
    + destruct (IH b e eq_refl He Hemb) as [fd' [first [rest [A B]]]].
      exists fd', first, rest. split; [right; exact A|exact B].
Qed.

Lemma entry_spec_facts : forall pkg fl fuel sd raw e,
  raw_top pkg fl fuel (sd_fields sd) = COk raw -> wf_structs pkg fuel sd = true ->
  In e raw -> f_embedded e = false ->
  f_new e = marked_new sd (f_path e) /\ excluded_top sd (f_path e) = false /\ f_def e = def_text sd (f_path e).
Proof.
  intros pkg fl fuel sd raw e Hraw GW He Hemb.
  assert (ND := top_names_nodup _ _ _ GW). unfold top_tfields in ND.
  destruct (raw_entry_decl _ _ _ _ _ _ Hraw He Hemb) as [fd [first [rest [Hfd [Hp [Hfirst [Hnew Hcase]]]]]]].
  assert (Hfind : top_decl sd (f_path e) = Some fd).
  { rewrite Hp. unfold top_decl. apply find_decl_unique; auto. }
  unfold marked_new, excluded_top, def_text. rewrite Hfind. rewrite Hp.
  destruct Hcase as [[Hr [Hf [Hin [Hex Hdef]]]]|[Hr [Hn Hdef]]].
  - subst rest. destruct (fd_names fd) as [|y ys] eqn:EN; [destruct Hin|].
    repeat split; auto.
  - destruct rest as [|r0 rest]; [congruence|]. repeat split; auto.
Qed.

(* ------------------------------------------------------------ final statements *)
Lemma c02_guard_parts : forall pkg fuel sd, c02_guard pkg fuel sd = true ->
  depth_bounded pkg fuel sd = true /\ wf_structs pkg fuel sd = true /\ unambiguous pkg fuel sd = true /\
  no_embedded_nonstruct pkg fuel sd = true /\ no_promoted_excluded pkg fuel sd = true /\
  no_excluded_def sd = true /\ no_excluded_shadow pkg fuel sd = true /\ ident_constraints sd = true /\
  no_double_ptr sd = true /\ param_names_ok pkg fuel sd = true.
Proof.
  intros pkg fuel sd H. unfold c02_guard in H.
  apply andb_true_iff in H. destruct H as [H _]. apply andb_true_iff in H. destruct H as [H _].
  apply andb_true_iff in H. destruct H as [H _]. unfold c02_guard_core in H.
  repeat (apply andb_true_iff in H; destruct H as [H ?]). repeat split; assumption.
Qed.

Lemma c02_guard_ext : forall pkg fuel sd, c02_guard pkg fuel sd = true ->
  foreign_fields_exported pkg fuel sd = true /\ no_tagged_embed pkg fuel sd = true /\ no_promoted_def pkg fuel sd = true.
Proof.
  intros pkg fuel sd H. unfold c02_guard in H.
  repeat (apply andb_true_iff in H; destruct H as [H ?]). repeat split; assumption.
Qed.

Definition default_or_zero (text : string) : val := if String.eqb text "" then VZero else VDef text.

Lemma in_mark : forall raw e, In e (mark raw) -> exists e0, In e0 raw /\ e = mark_with raw e0.
Proof. intros raw e H. unfold mark, markmap in H. apply in_map_iff in H. destruct H as [e0 [E H]]. eauto. Qed.

Theorem new_wiring : forall pkg fl fuel sd fs hn vals,
  flatten pkg fl fuel sd = COk (fs, hn) ->
  c02_guard pkg fuel sd = true ->
  let nd := make_new sd hn fs in
  NoDup (map fst (nd_params nd)) ->
  length vals = length (nd_params nd) ->
  exists v, eval_new pkg fuel sd (nd_body nd) (bind_args (nd_params nd) vals) = Ok v /\
    (* every parameter *)
    (forall i p t, nth_error (nd_params nd) i = Some (p, t) ->
       exists e, In e fs /\ f_embedded e = false /\ f_shadowed e = false /\
                 p = to_camel_case (f_name e) /\ t = star_type e /\
                 resolve pkg fuel sd (f_name e) = Some (f_path e) /\
                 excluded_top sd (f_path e) = false /\
                 (has_new_spec sd = true -> marked_new sd (f_path e) = true) /\
                 lookup v (f_path e) = Ok (nth i vals VZero)) /\
    (* every other leaf entry: its default, else zero *)
    (forall e, In e fs -> f_embedded e = false -> pentry hn e = false ->
       lookup v (f_path e) = Ok (default_or_zero (def_text sd (f_path e)))) /\
    (* the excluded fields of the struct are zero *)
    (forall fd n, In fd (sd_fields sd) -> In n (fd_names fd) -> excluded_decl fd n = true ->
       lookup v [n] = Ok VZero) /\
    (* embedded structs are present; embedded pointers are allocated *)
    (forall e, In e fs -> f_embedded e = true ->
       exists kv, lookup v (f_path e) = Ok (if f_ptr e then VPtr (VStruct kv) else VStruct kv)).
Proof.
  intros pkg fl fuel sd fs hn vals H G nd NDp Hlen.
  destruct (c02_guard_parts _ _ _ G) as [GB [GW [GU [GN [GP [GD [GX [GI [GPP GPN]]]]]]]]].
  set (args := bind_args (nd_params nd) vals).
  destruct (new_master pkg fl fuel sd fs hn args H GB GW GU GN GX) as [kv [EV [U [ENM [LK LX]]]]].
  fold nd in EV, ENM.
  destruct (flatten_is_marked_raw _ _ _ _ _ _ H) as [raw [Hraw [Hfs Hhn]]].
  assert (Ua : unmarked raw) by (eapply raw_top_unmarked; eauto).
  assert (Hparams : nd_params nd = map (fun e => (to_camel_case (f_name e), star_type e)) (filter (pentry hn) fs)).
  { unfold nd, make_new. cbn [nd_params]. fold empty_acc. fold (name_map hn fs). apply params_are_pentries. exact U. }
  exists (VPtr (VStruct kv)). split; [exact EV|]. split; [|split; [|split]].
  - intros i p t Hn. pose proof Hn as Hn0. rewrite Hparams in Hn. rewrite nth_error_map in Hn.
    destruct (nth_error (filter (pentry hn) fs) i) as [e|] eqn:Ee; [|discriminate].
    inversion Hn; subst p t. apply nth_error_In in Ee. apply filter_In in Ee. destruct Ee as [He Hp].
    assert (Hs : f_shadowed e = false) by (unfold pentry in Hp; destruct (f_shadowed e); [discriminate|reflexivity]).
    assert (Hemb : f_embedded e = false).
    { unfold pentry in Hp. rewrite Hs in Hp. destruct (f_embedded e); [discriminate|reflexivity]. }
    exists e. repeat split; auto.
    + apply (shadow_refines_selector pkg fl fuel sd fs hn e H GB GW GU GN GX He). exact Hs.
    + subst fs. destruct (in_mark _ _ He) as [e0 [He0 Ee0]]. subst e.
      rewrite mark_with_path. rewrite mark_with_embedded in Hemb.
      apply (entry_spec_facts _ _ _ _ _ _ Hraw GW He0 Hemb).
    + intros Hnew. subst fs. destruct (in_mark _ _ He) as [e0 [He0 Ee0]]. subst e.
      rewrite mark_with_path. rewrite mark_with_embedded in Hemb.
      destruct (entry_spec_facts _ _ _ _ _ _ Hraw GW He0 Hemb) as [Fn _]. rewrite <- Fn.
      unfold pentry in Hp. rewrite mark_with_new in Hp. rewrite Hhn, Hnew in Hp.
      rewrite andb_true_iff in Hp. destruct Hp as [_ Hp]. exact Hp.
    + destruct (LK e He) as [v [L1 L2]]. rewrite Hemb in L2. subst v. rewrite L1. f_equal.
      rewrite (leafv_pentry hn fs args e He Hp). unfold args.
      apply (bind_args_nth _ _ i _ (star_type e)); auto.
  - intros e He Hemb Hp. destruct (LK e He) as [v [L1 L2]]. rewrite Hemb in L2. subst v. rewrite L1. f_equal.
    rewrite (leafv_other hn fs args e U He Hemb Hp). unfold dv, default_or_zero.
    subst fs. destruct (in_mark _ _ He) as [e0 [He0 Ee0]]. subst e.
    rewrite mark_with_path, mark_with_def. rewrite mark_with_embedded in Hemb.
    destruct (entry_spec_facts _ _ _ _ _ _ Hraw GW He0 Hemb) as [_ [_ Fd]]. rewrite Fd. reflexivity.
  - exact LX.
  - intros e He Hemb. destruct (LK e He) as [v [L1 L2]]. rewrite Hemb in L2. destruct L2 as [kv' L2].
    exists kv'. rewrite L1, L2. reflexivity.
Qed.

(* ------------------------------------------------- parameter list, generics *)
Theorem new_param_list : forall pkg fl fuel sd fs hn,
  flatten pkg fl fuel sd = COk (fs, hn) ->
  c02_guard pkg fuel sd = true ->
  hn = has_new_spec sd /\
  nd_params (make_new sd hn fs) =
    map (fun e => (to_camel_case (f_name e), star_type e)) (filter (pentry hn) fs) /\
  (forall e, In e fs -> f_embedded e = false ->
     f_new e = marked_new sd (f_path e) /\ excluded_top sd (f_path e) = false).
Proof.
  intros pkg fl fuel sd fs hn H G.
  destruct (c02_guard_parts _ _ _ G) as [GB [GW [GU [GN [GP [GD [GX [GI [GPP GPN]]]]]]]]].
  destruct (new_master pkg fl fuel sd fs hn (fun _ => VZero) H GB GW GU GN GX) as [kv [_ [U _]]].
  destruct (flatten_is_marked_raw _ _ _ _ _ _ H) as [raw [Hraw [Hfs Hhn]]].
  split; [exact Hhn|]. split.
  - unfold make_new. cbn [nd_params]. fold empty_acc. fold (name_map hn fs). apply params_are_pentries. exact U.
  - intros e He Hemb. subst fs. destruct (in_mark _ _ He) as [e0 [He0 Ee0]]. subst e.
    rewrite mark_with_path, mark_with_new. rewrite mark_with_embedded in Hemb.
    destruct (entry_spec_facts _ _ _ _ _ _ Hraw GW He0 Hemb) as [A [B _]]. auto.
Qed.

Definition con_text (c : constraint) : string := match c with CIdent n => n | COther t => t end.

Lemma mapi_tparams : forall (gs : list tpgroup) (pre : list string),
  forallb (fun g => match tp_con g with CIdent _ => true | COther _ => false end) gs = true ->
  mapi_aux (fun i t => (nth i (pre ++ map (fun g => String.concat ", " (tp_names g)) gs) ""%string, t))
           (length pre)
           (flat_map (fun g => match tp_con g with CIdent n => [n] | COther _ => [] end) gs) =
  map (fun g => (String.concat ", " (tp_names g), con_text (tp_con g))) gs.
Proof.
  induction gs as [|g gs IH]; intros pre H; simpl; auto.
  simpl in H. apply andb_true_iff in H. destruct H as [Hg H].
  destruct (tp_con g) eqn:E; [|discriminate]. simpl. f_equal.
  - rewrite app_nth2 by lia. rewrite Nat.sub_diag. reflexivity.
  - specialize (IH (pre ++ [String.concat ", " (tp_names g)]) H).
    rewrite app_length in IH. simpl in IH. rewrite Nat.add_1_r in IH.
    rewrite <- app_assoc in IH. simpl in IH. exact IH.
Qed.

Theorem new_generics : forall sd hn fs,
  ident_constraints sd = true ->
  nd_tparams (make_new sd hn fs) =
  map (fun g => (String.concat ", " (tp_names g), con_text (tp_con g))) (sd_tparams sd).
Proof.
  intros sd hn fs H. unfold make_new. cbn [nd_tparams]. unfold new_tparams, type_params, type_params_map.
  apply (mapi_tparams (sd_tparams sd) [] H).
Qed.

(* NewT returns *T instantiated with exactly the struct's own type parameters, in order *)
Theorem new_result_type_spec : forall sd,
  ident_constraints sd = true ->
  new_result_type sd =
  ("*" ++ sd_name sd ++ match sd_tparams sd with
                        | [] => ""
                        | gs => "[" ++ String.concat ", " (map (fun g => String.concat ", " (tp_names g)) gs) ++ "]"
                        end)%string.
Proof.
  intros sd H. unfold new_result_type, new_tname_list.
  assert (E : new_tparams sd = map (fun g => (String.concat ", " (tp_names g), con_text (tp_con g))) (sd_tparams sd)).
  { unfold new_tparams, type_params, type_params_map. apply (mapi_tparams (sd_tparams sd) [] H). }
  rewrite E. destruct (sd_tparams sd) as [|g gs]; [reflexivity|].
  cbn [map]. rewrite map_map. cbn [fst]. reflexivity.
Qed.

(* a struct that embeds a pointer to itself: the analysis does not terminate, whatever the fuel *)
Lemma self_embed_out_of_fuel : forall (pkg : pkg_spec) (sd : sdecl) fuel depth pre is_new acc,
  find_struct pkg (sd_pkg sd) (sd_name sd) = Some sd ->
  sd_tparams sd = [] ->
  (exists doc tag rest, sd_fields sd =
      {| fd_names := []; fd_ty := TPtr (TNamed (sd_pkg sd) (sd_name sd) []); fd_doc := doc; fd_tag := tag |} :: rest) ->
  expand_if_struct pkg fuel depth pre (TPtr (TNamed (sd_pkg sd) (sd_name sd) [])) is_new acc = None.
Proof.
  intros pkg sd fuel. induction fuel as [|fuel IH]; intros depth pre is_new acc Hf Ht [doc [tag [rest Hr]]].
  - simpl. rewrite Hf. reflexivity.
  - simpl. rewrite Hf. unfold struct_fields, tparam_names. rewrite Hr, Ht. simpl.
    rewrite IH; auto. exists doc, tag, rest. exact Hr.
Qed.
