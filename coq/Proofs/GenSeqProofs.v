(* C08, first sentence, for a generator that DOES read generated files (new -getset: the accessor interfaces of
   embedded types): overlay = on-disk view.  The all-in-one run that feeds every generated source back through the
   overlay produces, type by type, the declarations that the one-at-a-time runs produce when each of them finds the
   files of the earlier ones in the directory. *)
From Coq Require Import List String Ascii Bool Arith Lia Permutation.
From Shoot Require Import Model.Gen Proofs.GenBaseProofs Proofs.GenProofs.
Import ListNotations.
Local Open Scope string_scope.

(* what the analyses can see of a generated file: its name (package order) and its declarations *)
Definition strip (e : string * afile) : string * list adecl := (fst e, a_decls (snd e)).
Definition stripv (f : vfile) : string * list adecl :=
  (fst f, match snd f with FGen a => a_decls a | FHand _ => [] end).

Lemma insert_map : forall {A B} (f : A -> B) (leb : A -> A -> bool) (leb' : B -> B -> bool),
  (forall a b, leb' (f a) (f b) = leb a b) ->
  forall x l, map f (insert leb x l) = insert leb' (f x) (map f l).
Proof.
  intros A B f leb leb' H x l. induction l as [|y l IH]; cbn; auto.
  rewrite H. destruct (leb x y); cbn; [reflexivity | rewrite IH; reflexivity].
Qed.

Lemma isort_map : forall {A B} (f : A -> B) (leb : A -> A -> bool) (leb' : B -> B -> bool),
  (forall a b, leb' (f a) (f b) = leb a b) ->
  forall l, map f (isort leb l) = isort leb' (map f l).
Proof.
  intros A B f leb leb' H l. induction l as [|x l IH]; cbn; auto.
  rewrite (insert_map f leb leb' H), IH. reflexivity.
Qed.

Lemma gen_decls_stripv : forall v, gen_decls v = flat_map snd (map stripv v).
Proof.
  unfold gen_decls. induction v as [|[n fc] v IH]; [reflexivity|].
  destruct fc as [h|a]; simpl; rewrite IH; reflexivity.
Qed.

Lemma stripv_gen : forall d : gfiles, map stripv (map (fun e : string * afile => (fst e, FGen (snd e))) d) = map strip d.
Proof. induction d as [|e d IH]; cbn; [reflexivity | rewrite IH; reflexivity]. Qed.

Lemma mk_view_gen_only : forall d : gfiles, map stripv (mk_view [] d []) = sort_by_key fst (map strip d).
Proof.
  intros d. unfold mk_view, sort_by_key. simpl map at 2. simpl app. unfold overlay_apply. simpl fold_left.
  rewrite (isort_map stripv (fun a b : vfile => sleb (fst a) (fst b)) (fun a b : string * list adecl => sleb (fst a) (fst b)))
    by (intros a b; reflexivity).
  rewrite stripv_gen. reflexivity.
Qed.

Lemma gen_decls_strip : forall hw d1 d2, map strip d1 = map strip d2 ->
  gen_decls (mk_view hw d1 []) = gen_decls (mk_view hw d2 []).
Proof.
  intros hw d1 d2 H.
  rewrite (gen_decls_mk_view hw d1 []), (gen_decls_mk_view hw d2 []).
  change (overlay_apply d1 []) with d1. change (overlay_apply d2 []) with d2.
  rewrite !gen_decls_stripv, !mk_view_gen_only, H. reflexivity.
Qed.

Lemma pview_strip : forall hw d1 d2, map strip d1 = map strip d2 ->
  pview_of (mk_view hw d1 []) = pview_of (mk_view hw d2 []).
Proof.
  intros. unfold pview_of. rewrite (hand_decls_mk_view hw d1 []), (hand_decls_mk_view hw d2 []), (gen_decls_strip hw d1 d2); auto.
Qed.

Lemma strip_upsert : forall n f (d : gfiles), map strip (upsert n f d) = upsert n (a_decls f) (map strip d).
Proof.
  induction d as [|[k v] d IH]; cbn; auto.
  destruct (k =? n); cbn; [reflexivity | rewrite IH; reflexivity].
Qed.

Lemma overlay_apply_snoc : forall (disk ov : gfiles) e, overlay_apply disk (ov ++ [e])%list = upsert (fst e) (snd e) (overlay_apply disk ov).
Proof. intros. unfold overlay_apply. rewrite fold_left_app. reflexivity. Qed.

Lemma upsert_fresh : forall {A} k (v : A) m, ~ In k (keys m) -> upsert k v m = (m ++ [(k, v)])%list.
Proof.
  induction m as [|[k' v'] m IH]; intros H; cbn; auto.
  destruct (String.eqb_spec k' k) as [->|ne]; [exfalso; apply H; left; auto|].
  rewrite IH; auto. intros Hin. apply H. right. auto.
Qed.

Section Sequential.
  Context {St Data : Type}.
  Variable mk : cmd -> St -> pview -> string -> mres Data St.
  Variable render : St -> Data -> afile.
  Hypothesis Hmake : forall c st1 st2 v T, same_out render (mk c st1 v T) (mk c st2 v T).
  Variable lt : view -> list string.
  Variable c : cmd.                       (* the all-in-one command *)
  Variable cT : string -> cmd.            (* the command used for T alone *)
  Hypothesis HcT_types : forall T, c_types (cT T) = [T].
  Hypothesis HcT_file : forall T, c_file (cT T) = "".
  Hypothesis Hsim : forall T st v, same_body render render (mk c st v T) (mk (cT T) st v T).
  (* every generated source is fed back (new -getset) *)
  Hypothesis Hstale : forall st v T d s st', mk c st v T = MOk d s st' -> s = true.
  Variable hw : list hfile.
  Variable disk : gfiles.
  Variable fmap : list (string * string).

  Definition nm (T : string) : string := file_name c (all_in_one_file c (mk_view hw [] [])) fmap T.
  (* one -type=T run in a directory holding d: what it analyses, and the file it writes *)
  Definition single_step (st : St) (T : string) (d : gfiles) : option (option afile) :=
    match mk (cT T) st (pview_of (mk_view hw d [])) T with
    | MFatal => None
    | MSkip _ => Some None
    | MOk d0 _ s => Some (Some (render s d0))
    end.

  (* the real run is that step, written under the name of the overlay entry whenever the run names its file so
     (-file=f with T declared in f: fileNameMap[T] = f) *)
  Lemma single_run_any : forall T o d st,
    file_name (cT T) (all_in_one_file (cT T) (mk_view hw d [])) [(T, get_go_file o (mk_view hw d []) T)] T = nm T ->
    generate (mk (cT T)) render lt (cT T) o hw d st =
    match single_step st T d with
    | None => None
    | Some None => Some []
    | Some (Some f) => Some [(nm T, f)]
    end.
  Proof.
    intros T o d st Hname. unfold generate, single_step.
    assert (Hc : confirm_types lt (cT T) o (mk_view hw d []) = Some ([T], [(T, get_go_file o (mk_view hw d []) T)])).
    { unfold confirm_types, specified. rewrite HcT_types. cbn [fold_left]. rewrite HcT_file. reflexivity. }
    assert (Hsp : separate (cT T) = true) by (unfold separate, specified; rewrite HcT_types; reflexivity).
    rewrite Hc. cbn [gen_loop].
    destruct (mk (cT T) st (pview_of (mk_view hw d [])) T) as [d0 s st'|st'|]; auto.
    rewrite Hsp. cbn [gen_loop merge]. rewrite Hname. reflexivity.
  Qed.

  (* the one-at-a-time sequence: every run finds the files of the earlier ones *)
  Fixpoint seq_files (st : St) (types : list string) (d : gfiles) : option (list afile) :=
    match types with
    | [] => Some []
    | T :: r =>
        match single_step st T d with
        | None => None
        | Some None => seq_files st r d
        | Some (Some f) => match seq_files st r (upsert (nm T) f d) with Some l => Some (f :: l) | None => None end
        end
    end.

  Hypothesis Hsep : separate c = false.

  Lemma seq_vs_loop : forall st0 st types ov sm sl,
    NoDup (map nm types) ->
    (forall T, In T types -> ~ In (nm T) (keys ov)) ->
    forall d, map strip d = map strip (overlay_apply disk ov) ->
    match pure_loop (mk c) render c hw disk st0 types fmap ov sm sl with
    | None => seq_files st types d = None
    | Some (sm', sl', _) =>
        exists fs, seq_files st types d = Some fs /\
                   exists tl, sl' = (sl ++ tl)%list /\ map body tl = map body fs
    end.
  Proof.
    intros st0 st. induction types as [|T r IH]; intros ov sm sl Hnd Hfresh d Hd.
    - cbn. exists []. split; auto. exists []. rewrite app_nil_r. auto.
    - cbn [pure_loop seq_files]. unfold single_step.
      assert (Ev : pview_of (mk_view hw disk ov) = pview_of (mk_view hw d [])).
      { rewrite view_overlay_is_disk. apply pview_strip. symmetry. exact Hd. }
      rewrite <- Ev.
      inversion Hnd as [|? ? Hnot Hnd']; subst.
      assert (Hfresh' : forall T', In T' r -> ~ In (nm T') (keys ov)) by (intros T' HT'; apply Hfresh; right; auto).
      pose proof (Hsim T st0 (pview_of (mk_view hw disk ov))) as Hs.
      pose proof (Hmake (cT T) st0 st (pview_of (mk_view hw disk ov)) T) as Hm.
      destruct (mk c st0 (pview_of (mk_view hw disk ov)) T) as [d1 s1 st1|st1|] eqn:E1;
        destruct (mk (cT T) st0 (pview_of (mk_view hw disk ov)) T) as [d2 s2 st2|st2|] eqn:E2; cbn in Hs; try contradiction;
        destruct (mk (cT T) st (pview_of (mk_view hw disk ov)) T) as [d3 s3 st3|st3|] eqn:E3; cbn in Hm; try contradiction.
      + (* generates *)
        destruct Hs as [_ Hb]. destruct Hm as [-> [-> Hr]].
        pose proof (Hstale _ _ _ _ _ _ E1) as ->.
        rewrite all_in_one_file_mk_view. fold (nm T). rewrite Hsep.
        set (src := render st1 d1). set (src' := render st3 d3) in *.
        assert (Hbody : body src = body src') by (unfold src, src'; rewrite Hb, Hr; reflexivity).
        assert (Hdecl : a_decls src = a_decls src') by (apply body_eq in Hbody; tauto).
        destruct r as [|T2 r2].
        * cbn [andb pure_loop seq_files]. exists [src']. split; auto. exists [src]. split; auto. cbn. rewrite Hbody. reflexivity.
        * cbn [andb].
          assert (Hd' : map strip (upsert (nm T) src' d) = map strip (overlay_apply disk (upsert (nm T) src ov))).
          { rewrite (upsert_fresh (nm T) src ov) by (apply Hfresh; left; auto).
            rewrite overlay_apply_snoc. cbn [fst snd]. rewrite !strip_upsert, Hd, Hdecl. reflexivity. }
          assert (Hfr : forall T', In T' (T2 :: r2) -> ~ In (nm T') (keys (upsert (nm T) src ov))).
          { intros T' HT' Hin. apply (upsert_keys_in (nm T) src ov (nm T')) in Hin. destruct Hin as [E|Hin].
            - apply Hnot. rewrite <- E. apply in_map. exact HT'.
            - exact (Hfresh' T' HT' Hin). }
          specialize (IH (upsert (nm T) src ov) sm (sl ++ [src])%list Hnd' Hfr (upsert (nm T) src' d) Hd').
          destruct (pure_loop (mk c) render c hw disk st0 (T2 :: r2) fmap (upsert (nm T) src ov) sm (sl ++ [src])%list)
            as [[[sm' sl'] ov']|].
          -- destruct IH as [fs [Hfs [tl [Hsl Htl]]]]. rewrite Hfs. exists (src' :: fs). split; auto.
             exists (src :: tl). split; [rewrite Hsl, <- app_assoc; reflexivity|]. cbn. rewrite Hbody, Htl. reflexivity.
          -- rewrite IH. reflexivity.
      + (* skipped *)
        specialize (IH ov sm sl Hnd' Hfresh' d Hd). exact IH.
      + (* fatal *)
        reflexivity.
  Qed.

  Lemma pure_loop_sm_unchanged : forall st0 types ov sm sl sm' sl' ov',
    pure_loop (mk c) render c hw disk st0 types fmap ov sm sl = Some (sm', sl', ov') -> sm' = sm.
  Proof.
    intros st0. induction types as [|T r IH]; intros ov sm sl sm' sl' ov' Hp; cbn [pure_loop] in Hp.
    - injection Hp as <- _ _. reflexivity.
    - destruct (mk c st0 (pview_of (mk_view hw disk ov)) T) as [d0 s0 st0'|st0'|]; [| |discriminate].
      + rewrite Hsep in Hp. eapply IH; eauto.
      + eapply IH; eauto.
  Qed.

  (* C08, first sentence, with the overlay: the all-in-one file has the declarations, imports and free comments of
     the files the one-at-a-time runs write, each run finding the files of the earlier ones in the directory *)
  Theorem aio_is_sequential : forall o st st' types sm,
    confirm_types lt c o (mk_view hw disk []) = Some (types, fmap) ->
    NoDup (map nm types) ->
    generate (mk c) render lt c o hw disk st = Some sm ->
    exists fs, seq_files st' types disk = Some fs /\
      match sm with
      | [] => fs = []
      | [(n, m)] =>
          a_decls m = flat_map a_decls fs /\ a_imports m = dedup (flat_map a_imports fs) /\
          a_stray m = flat_map (fun f => strays (a_decls f)) fs /\ n = nm ""
      | _ => False
      end.
  Proof.
    intros o st st' types sm Hconf Hnd Hgen. unfold generate in Hgen. rewrite Hconf in Hgen.
    pose proof (gen_loop_pure (mk c) render (Hmake c) c hw disk st types fmap st [] [] []) as Hp.
    pose proof (seq_vs_loop st st' types [] [] [] Hnd (fun _ _ H => H) disk eq_refl) as Hs.
    destruct (gen_loop (mk c) render c hw disk types fmap st [] [] []) as [[[[sm1 sl1] ov1] s1]|]; [|discriminate].
    cbn in Hp. rewrite <- Hp in Hs. destruct Hs as [fs [Hfs [tl [Hsl Htl]]]]. cbn in Hsl. subst sl1.
    exists fs. split; auto.
    destruct (map_body_flat _ _ Htl) as [Hd [Hi Hst]].
    assert (Hsm1 : sm1 = []) by (symmetry in Hp; eapply pure_loop_sm_unchanged; exact Hp).
    subst sm1.
    destruct (merge tl) as [m|] eqn:Em.
    - injection Hgen as <-. cbn [upsert]. rewrite (merge_decls _ _ Em), (merge_imports _ _ Em), Hd, Hi.
      repeat split; auto.
      + destruct tl as [|f0 fs0]; [discriminate|]. cbn in Em. injection Em as <-. cbn [a_stray]. exact Hst.
      + rewrite all_in_one_file_mk_view. reflexivity.
    - injection Hgen as <-. apply merge_none in Em. subst tl. destruct fs; [reflexivity | discriminate].
  Qed.
End Sequential.

(* the counterpart without feedback (stale = false: new without -getset, enum, rest, map): the overlay stays empty, so
   every type of the all-in-one run is analysed against the directory as it was found -- no guard on embedding *)
Section SameDir.
  Context {St Data : Type}.
  Variable mk : cmd -> St -> pview -> string -> mres Data St.
  Variable render : St -> Data -> afile.
  Hypothesis Hmake : forall c st1 st2 v T, same_out render (mk c st1 v T) (mk c st2 v T).
  Variable lt : view -> list string.
  Variable c : cmd.
  Variable cT : string -> cmd.
  Hypothesis Hsim : forall T st v, sim_body render render (mk c st v T) (mk (cT T) st v T).
  Hypothesis Hnostale : forall st v T d s st', mk c st v T = MOk d s st' -> s = false.
  Variable hw : list hfile.
  Variable disk : gfiles.
  Variable fmap : list (string * string).
  Hypothesis Hsep : separate c = false.

  (* -type=T for every type, each in a directory holding the same files the all-in-one run found *)
  Fixpoint same_dir_files (st : St) (types : list string) : list afile :=
    match types with
    | [] => []
    | T :: r =>
        match single_step mk render cT hw st T disk with
        | Some (Some f) => f :: same_dir_files st r
        | _ => same_dir_files st r
        end
    end.

  Lemma same_dir_vs_loop : forall st0 st types sm sl sm' sl' ov',
    pure_loop (mk c) render c hw disk st0 types fmap [] sm sl = Some (sm', sl', ov') ->
    exists tl, sl' = (sl ++ tl)%list /\ map body tl = map body (same_dir_files st types).
  Proof.
    intros st0 st. induction types as [|T r IH]; intros sm sl sm' sl' ov' H; cbn [pure_loop same_dir_files] in *.
    - injection H as _ <- _. exists []. rewrite app_nil_r. auto.
    - unfold single_step.
      pose proof (Hsim T st0 (pview_of (mk_view hw disk []))) as Hs.
      pose proof (Hmake (cT T) st0 st (pview_of (mk_view hw disk [])) T) as Hm.
      destruct (mk c st0 (pview_of (mk_view hw disk [])) T) as [d1 s1 st1|st1|] eqn:E1; [| |discriminate].
      + pose proof (Hnostale _ _ _ _ _ _ E1) as ->. cbn [andb] in H. rewrite Hsep in H.
        destruct (IH _ _ _ _ _ H) as [tl [Hsl Htl]].
        destruct (mk (cT T) st0 (pview_of (mk_view hw disk [])) T) as [d2 s2 st2|st2|] eqn:E2; cbn in Hs; try contradiction.
        destruct (mk (cT T) st (pview_of (mk_view hw disk [])) T) as [d3 s3 st3|st3|] eqn:E3; cbn in Hm; try contradiction.
        destruct Hs as [_ Hb]. destruct Hm as [-> [-> Hr]].
        exists (render st1 d1 :: tl). split; [rewrite Hsl, <- app_assoc; reflexivity|].
        cbn. rewrite Hb, Hr, Htl. reflexivity.
      + destruct (IH _ _ _ _ _ H) as [tl [Hsl Htl]]. exists tl. split; auto. rewrite Htl.
        destruct (mk (cT T) st0 (pview_of (mk_view hw disk [])) T) as [d2 s2 st2|st2|] eqn:E2; cbn in Hs; try contradiction;
          destruct (mk (cT T) st (pview_of (mk_view hw disk [])) T) as [d3 s3 st3|st3|] eqn:E3; cbn in Hm; try contradiction; reflexivity.
  Qed.

  Theorem aio_is_concat_same_dir : forall o st st' types sm,
    confirm_types lt c o (mk_view hw disk []) = Some (types, fmap) ->
    generate (mk c) render lt c o hw disk st = Some sm ->
    let fs := same_dir_files st' types in
    match sm with
    | [] => fs = []
    | [(n, m)] =>
        a_decls m = flat_map a_decls fs /\ a_imports m = dedup (flat_map a_imports fs) /\
        a_stray m = flat_map (fun f => strays (a_decls f)) fs /\ n = nm c hw fmap ""
    | _ => False
    end.
  Proof.
    intros o st st' types sm Hconf Hgen fs. unfold generate in Hgen. rewrite Hconf in Hgen.
    pose proof (gen_loop_pure (mk c) render (Hmake c) c hw disk st types fmap st [] [] []) as Hp.
    destruct (gen_loop (mk c) render c hw disk types fmap st [] [] []) as [[[[sm1 sl1] ov1] s1]|]; [|discriminate].
    cbn in Hp. symmetry in Hp.
    destruct (same_dir_vs_loop st st' types [] [] sm1 sl1 ov1 Hp) as [tl [Hsl Htl]]. cbn in Hsl. subst sl1.
    assert (Hsm1 : sm1 = []) by (eapply (pure_loop_sm_unchanged mk render c hw disk fmap Hsep); exact Hp).
    subst sm1. fold fs in Htl.
    destruct (map_body_flat _ _ Htl) as [Hd [Hi Hst]].
    destruct (merge tl) as [m|] eqn:Em.
    - injection Hgen as <-. cbn [upsert]. rewrite (merge_decls _ _ Em), (merge_imports _ _ Em), Hd, Hi.
      repeat split; auto.
      + destruct tl as [|f0 fs0]; [discriminate|]. cbn in Em. injection Em as <-. cbn [a_stray]. exact Hst.
      + rewrite all_in_one_file_mk_view. reflexivity.
    - injection Hgen as <-. apply merge_none in Em. subst tl. destruct fs; [reflexivity | discriminate].
  Qed.
End SameDir.
