(* The literal carry-down walk of str.go (`collect`) refines the declarative
   reading (`declared`) of "the constants of type T" on the grammar of
   Model/Enum.v, plus the basic facts about `declared` used downstream. *)
From Coq Require Import List ZArith Bool String Ascii Lia Arith.
From Shoot Require Import Model.Enum.
Import ListNotations.
Local Open Scope string_scope.
Local Open Scope Z_scope.

Definition mkv (k : kind) (nv : string * Z) : value :=
  {| v_name := fst nv; v_bits := to_u64 (snd nv); v_signed := signed k |}.

(* ------------------------------------------------------ mem_s / nodup_s --- *)

Lemma mem_s_In : forall x l, mem_s x l = true <-> In x l.
Proof.
  intros x l. unfold mem_s. rewrite existsb_exists. split.
  - intros [y [Hin Heq]]. apply String.eqb_eq in Heq. subst y. exact Hin.
  - intros Hin. exists x. split; [exact Hin | apply String.eqb_refl].
Qed.

Lemma nodup_s_NoDup : forall l, nodup_s l = true <-> NoDup l.
Proof.
  induction l as [|x l IH]; simpl.
  - split; intros _; [constructor | reflexivity].
  - rewrite andb_true_iff, negb_true_iff. split.
    + intros [Hm Hn]. constructor.
      * intro Hin. apply mem_s_In in Hin. congruence.
      * apply IH. exact Hn.
    + intros Hnd. inversion Hnd as [|y l' Hnin Hnd']; subst. split.
      * destruct (mem_s x l) eqn:E; [|reflexivity].
        apply mem_s_In in E. contradiction.
      * apply IH. exact Hnd'.
Qed.

(* --------------------------------------------- structure of const_env ----- *)

(* the entries contributed by the blocks `bs` on top of `env` *)
Fixpoint blocks_contrib (p : pkg) (env : cenv_t) (bs : list cblock) : cenv_t :=
  match bs with
  | [] => []
  | b :: bs' =>
      (block_entries p env 0 (TNone, []) b
       ++ blocks_contrib p (env ++ block_entries p env 0 (TNone, []) b) bs')%list
  end.

Lemma blocks_entries_contrib : forall p bs env,
  blocks_entries p env bs = (env ++ blocks_contrib p env bs)%list.
Proof.
  intros p bs. induction bs as [|b bs IH]; intros env; simpl.
  - rewrite app_nil_r. reflexivity.
  - rewrite IH. rewrite <- app_assoc. reflexivity.
Qed.

Lemma const_env_contrib : forall p,
  const_env p = blocks_contrib p [] (all_blocks p).
Proof.
  intros p. unfold const_env. rewrite blocks_entries_contrib. reflexivity.
Qed.

(* a property of every entry that spec_entries can produce holds of every
   entry of const_env *)
Lemma block_entries_Forall : forall (P : centry -> Prop) p,
  (forall env iota ty names exprs, Forall P (spec_entries p env iota ty names exprs)) ->
  forall b env iota last, Forall P (block_entries p env iota last b).
Proof.
  intros P p HP b. induction b as [|s b IH]; intros env iota last; simpl.
  - constructor.
  - apply Forall_app. split; [apply HP | apply IH].
Qed.

Lemma blocks_contrib_Forall : forall (P : centry -> Prop) p,
  (forall env iota ty names exprs, Forall P (spec_entries p env iota ty names exprs)) ->
  forall bs env, Forall P (blocks_contrib p env bs).
Proof.
  intros P p HP bs. induction bs as [|b bs IH]; intros env; simpl.
  - constructor.
  - apply Forall_app. split; [apply block_entries_Forall; exact HP | apply IH].
Qed.

Lemma const_env_Forall : forall (P : centry -> Prop) p,
  (forall env iota ty names exprs, Forall P (spec_entries p env iota ty names exprs)) ->
  Forall P (const_env p).
Proof.
  intros P p HP. rewrite const_env_contrib. apply blocks_contrib_Forall. exact HP.
Qed.

(* --------------------------------------------------------------- lookup --- *)

Lemma lookup_unique : forall env e,
  NoDup (map ce_name (named_entries env)) ->
  In e env -> ce_name e <> "_" ->
  lookup_c (ce_name e) env = Some e.
Proof.
  intros env e. induction env as [|a env IH]; intros Hnd Hin Hnb.
  - destruct Hin.
  - simpl. destruct (String.eqb (ce_name e) (ce_name a)) eqn:Heq.
    + apply String.eqb_eq in Heq.
      destruct Hin as [Hea | Hin]; [subst a; reflexivity|].
      exfalso. unfold named_entries in Hnd. simpl in Hnd.
      assert (Ha : String.eqb (ce_name a) "_" = false).
      { apply String.eqb_neq. rewrite <- Heq. exact Hnb. }
      rewrite Ha in Hnd. simpl in Hnd.
      inversion Hnd as [|x l Hnin Hnd']; subst.
      apply Hnin. rewrite <- Heq. apply in_map.
      apply filter_In. split; [exact Hin|].
      apply negb_true_iff. apply String.eqb_neq. exact Hnb.
    + apply String.eqb_neq in Heq.
      destruct Hin as [Hea | Hin]; [subst a; congruence|].
      apply IH; [|exact Hin|exact Hnb].
      unfold named_entries in Hnd. simpl in Hnd.
      destruct (negb (String.eqb (ce_name a) "_")).
      * simpl in Hnd. inversion Hnd; assumption.
      * exact Hnd.
Qed.

Lemma wf_parts : forall p, wf_pkg p = true ->
  forallb ce_ok (const_env p) = true
  /\ nodup_s (map ce_name (named_entries (const_env p))) = true
  /\ nodup_s (map fst (p_types p)) = true
  /\ forallb (fun e => negb (String.eqb (ce_name e) "") && negb (mem_s (ce_name e) (map fst (p_types p))))
             (const_env p) = true.
Proof.
  intros p Hwf. unfold wf_pkg in Hwf.
  apply andb_true_iff in Hwf. destruct Hwf as [Hwf H4].
  apply andb_true_iff in Hwf. destruct Hwf as [Hwf H3].
  apply andb_true_iff in Hwf. destruct Hwf as [H1 H2].
  repeat split; assumption.
Qed.

Lemma wf_nodup : forall p, wf_pkg p = true ->
  NoDup (map ce_name (named_entries (const_env p))).
Proof.
  intros p Hwf. apply nodup_s_NoDup. exact (proj1 (proj2 (wf_parts p Hwf))).
Qed.

Lemma wf_ok : forall p e, wf_pkg p = true -> In e (const_env p) -> ce_ok e = true.
Proof.
  intros p e Hwf Hin. pose proof (proj1 (wf_parts p Hwf)) as Hok.
  rewrite forallb_forall in Hok. apply Hok. exact Hin.
Qed.

(* a constant is not named like a type, and not "" *)
Lemma wf_names : forall p e, wf_pkg p = true -> In e (const_env p) ->
  ce_name e <> "" /\ ~ In (ce_name e) (map fst (p_types p)).
Proof.
  intros p e Hwf Hin. pose proof (proj2 (proj2 (proj2 (wf_parts p Hwf)))) as Hn.
  rewrite forallb_forall in Hn. specialize (Hn e Hin).
  apply andb_true_iff in Hn. destruct Hn as [H1 H2]. split.
  - apply negb_true_iff in H1. apply String.eqb_neq. exact H1.
  - apply negb_true_iff in H2. intros Hm. apply mem_s_In in Hm. congruence.
Qed.

(* ---------------------------------------------------------- decl_of ------- *)

Definition nv (e : centry) : string * Z := (ce_name e, ce_val e).

Definition decl_of (T : string) (l : cenv_t) : list (string * Z) :=
  map nv (filter (fun e => ctype_is T (ce_type e)) (named_entries l)).

Lemma declared_decl_of : forall T p, declared T p = decl_of T (const_env p).
Proof. reflexivity. Qed.

Lemma decl_of_app : forall T l1 l2,
  decl_of T (l1 ++ l2)%list = (decl_of T l1 ++ decl_of T l2)%list.
Proof.
  intros T l1 l2. unfold decl_of, named_entries.
  rewrite !filter_app, map_app. reflexivity.
Qed.

Lemma decl_of_cons : forall T e l,
  decl_of T (e :: l) =
  if negb (String.eqb (ce_name e) "_") && ctype_is T (ce_type e)
  then nv e :: decl_of T l else decl_of T l.
Proof.
  intros T e l. unfold decl_of, named_entries. simpl.
  destruct (negb (String.eqb (ce_name e) "_")); simpl.
  - destruct (ctype_is T (ce_type e)); reflexivity.
  - reflexivity.
Qed.

Lemma decl_of_In : forall T l n v,
  In (n, v) (decl_of T l) <->
  exists e, In e l /\ ce_name e <> "_" /\ ctype_is T (ce_type e) = true
            /\ n = ce_name e /\ v = ce_val e.
Proof.
  intros T l n v. unfold decl_of, named_entries. rewrite in_map_iff. split.
  - intros [e [Hnv Hin]]. unfold nv in Hnv. inversion Hnv; subst.
    apply filter_In in Hin. destruct Hin as [Hin Hsel].
    apply filter_In in Hin. destruct Hin as [Hin Hnb].
    exists e. repeat split; try assumption.
    apply negb_true_iff in Hnb. apply String.eqb_neq. exact Hnb.
  - intros [e [Hin [Hnb [Hsel [Hn Hv]]]]]. subst. exists e. split; [reflexivity|].
    apply filter_In. split; [|exact Hsel].
    apply filter_In. split; [exact Hin|].
    apply negb_true_iff. apply String.eqb_neq. exact Hnb.
Qed.

Lemma names_values_cons : forall p E n names,
  names_values p E (n :: names) =
  if negb (String.eqb n "_") then mk_value p E n :: names_values p E names
  else names_values p E names.
Proof.
  intros p E n names. unfold names_values. simpl.
  destruct (negb (String.eqb n "_")); reflexivity.
Qed.

(* ------------------------------------------------ the walk, spec by spec -- *)

Definition tyname (ty : vtype) : string :=
  match ty with TIdent t => t | _ => "" end.

(* what the walk needs to know about an entry: looking its name up in the
   final environment finds it, and it is not an implicitly typed constant OF TYPE T *)
Definition good (T : string) (E : cenv_t) (e : centry) : Prop :=
  ce_name e <> "_" ->
  lookup_c (ce_name e) E = Some e /\ (ce_implicit e = true -> ctype_is T (ce_type e) = false).

Lemma spec_collect : forall p E T k,
  T <> "" -> kind_of_type p T = Some k ->
  forall env iota ty names exprs,
  Forall (good T E) (spec_entries p env iota ty names exprs) ->
  map (mkv k) (decl_of T (spec_entries p env iota ty names exprs)) =
  if String.eqb (tyname ty) T then names_values p E names else [].
Proof.
  intros p E T k HT Hk env iota ty names.
  induction names as [|n names IH]; intros exprs Hg.
  - simpl. destruct (String.eqb (tyname ty) T); reflexivity.
  - cbn [spec_entries] in Hg |- *.
    rewrite names_values_cons.
    destruct (String.eqb n "_") eqn:Hn.
    + inversion Hg as [|x l Hx Hl]; subst.
      rewrite decl_of_cons. cbn [ce_name]. simpl negb. simpl andb.
      cbn iota. apply IH. exact Hl.
    + inversion Hg as [|x l Hx Hl]; subst.
      specialize (IH _ Hl).
      rewrite decl_of_cons. cbn [ce_name ce_type]. rewrite Hn.
      cbn [negb andb].
      assert (Hnb : n <> "_") by (apply String.eqb_neq; exact Hn).
      unfold good in Hx. cbn [ce_name ce_implicit ce_type] in Hx.
      destruct (Hx Hnb) as [Hlk Himpl].
      destruct ty as [|t|fk]; cbn [ctype_of tyname] in *.
      * assert (Hne : String.eqb "" T = false).
        { apply String.eqb_neq. congruence. }
        rewrite Hne in *.
        destruct (etype env (hd (ELit 0) exprs)) as [|t|fk] eqn:Het.
        -- cbn [ctype_is]. exact IH.
        -- (* implicitly typed: by the guard not of type T *)
           rewrite (Himpl eq_refl). exact IH.
        -- cbn [ctype_is]. exact IH.
      * cbn [ctype_is]. destruct (String.eqb t T) eqn:HtT.
        -- apply String.eqb_eq in HtT. subst t.
           cbn [map]. rewrite IH. f_equal.
           unfold mk_value. rewrite Hlk. cbn [ce_val ce_type kind_of_ctype].
           rewrite Hk. reflexivity.
        -- exact IH.
      * assert (Hne : String.eqb "" T = false).
        { apply String.eqb_neq. congruence. }
        rewrite Hne in *. cbn [ctype_is]. exact IH.
Qed.

(* ------------------------------------------------ the walk, per block ----- *)

Definition typed_has_vals (s : vspec) : Prop := vs_vals s = [] -> vs_type s = TNone.

Lemma block_collect : forall p E T k,
  T <> "" -> kind_of_type p T = Some k ->
  forall b env iota last typ,
  typ = tyname (fst last) ->
  Forall typed_has_vals b ->
  Forall (good T E) (block_entries p env iota last b) ->
  collect_block p E T typ b = map (mkv k) (decl_of T (block_entries p env iota last b)).
Proof.
  intros p E T k HT Hk b.
  induction b as [|s b IH]; intros env iota last typ Htyp Hshape Hg.
  - reflexivity.
  - cbn [block_entries collect_block] in Hg |- *.
    inversion Hshape as [|s' b' Hs Hshape']; subst s' b'.
    apply Forall_app in Hg. destruct Hg as [Hg1 Hg2].
    rewrite decl_of_app, map_app.
    rewrite (spec_collect p E T k HT Hk _ _ _ _ _ Hg1).
    unfold typed_has_vals in Hs.
    assert (Hne : String.eqb "" T = false) by (apply String.eqb_neq; congruence).
    destruct (vs_type s) as [|t|fk] eqn:Hty.
    + destruct (vs_vals s) as [|v0 vals] eqn:Hvals.
      * rewrite <- Htyp.
        rewrite (IH _ _ _ typ Htyp Hshape' Hg2).
        destruct (String.eqb typ T); reflexivity.
      * cbn [fst snd tyname]. rewrite Hne. cbn [app].
        apply IH; [reflexivity | exact Hshape' | exact Hg2].
    + destruct (vs_vals s) as [|v0 vals] eqn:Hvals.
      * specialize (Hs eq_refl). discriminate.
      * cbn [fst snd tyname].
        rewrite (IH _ _ (TIdent t, v0 :: vals) t eq_refl Hshape' Hg2).
        destruct (String.eqb t T); reflexivity.
    + (* a qualified type: skipped, the remembered type is forgotten; what is carried
         down from it is of that qualified type, never of T *)
      destruct (vs_vals s) as [|v0 vals] eqn:Hvals.
      * specialize (Hs eq_refl). discriminate.
      * cbn [fst snd tyname]. rewrite Hne. cbn [app].
        apply IH; [reflexivity | exact Hshape' | exact Hg2].
Qed.

(* ------------------------------------------------ the walk, all blocks ---- *)

Lemma blocks_collect : forall p E T k,
  T <> "" -> kind_of_type p T = Some k ->
  forall bs env,
  Forall (Forall typed_has_vals) bs ->
  Forall (good T E) (blocks_contrib p env bs) ->
  flat_map (collect_block p E T "") bs = map (mkv k) (decl_of T (blocks_contrib p env bs)).
Proof.
  intros p E T k HT Hk bs.
  induction bs as [|b bs IH]; intros env Hshape Hg.
  - reflexivity.
  - cbn [flat_map blocks_contrib] in Hg |- *.
    inversion Hshape as [|b' bs' Hb Hshape']; subst b' bs'.
    apply Forall_app in Hg. destruct Hg as [Hg1 Hg2].
    rewrite decl_of_app, map_app.
    rewrite (IH _ Hshape' Hg2).
    f_equal.
    apply block_collect; try assumption. reflexivity.
Qed.

Lemma flat_map_concat : forall (A B : Type) (f : A -> list B) (l : list (list A)),
  flat_map (fun x => flat_map f x) l = flat_map f (List.concat l).
Proof.
  intros A B f l. induction l as [|x l IH]; simpl.
  - reflexivity.
  - rewrite flat_map_app, IH. reflexivity.
Qed.

Lemma block_shape_typed_has_vals : forall b first,
  block_shape_ok first b = true -> Forall typed_has_vals b.
Proof.
  induction b as [|s b IH]; intros first Hok.
  - constructor.
  - simpl in Hok. apply andb_true_iff in Hok. destruct Hok as [Hs Hb].
    constructor; [|apply (IH false); exact Hb].
    unfold typed_has_vals. intros Hv. rewrite Hv in Hs.
    apply andb_true_iff in Hs. destruct Hs as [_ Hs].
    destruct (vs_type s); [reflexivity | discriminate | discriminate].
Qed.

Lemma shape_ok_typed_has_vals : forall p,
  shape_ok p = true -> Forall (Forall typed_has_vals) (all_blocks p).
Proof.
  intros p Hs. unfold shape_ok in Hs. rewrite forallb_forall in Hs.
  apply Forall_forall. intros b Hin. specialize (Hs b Hin).
  apply andb_true_iff in Hs. destruct Hs as [Hs _].
  apply (block_shape_typed_has_vals b true). exact Hs.
Qed.

Lemma const_env_good : forall p T,
  wf_pkg p = true -> no_implicit p T = true -> Forall (good T (const_env p)) (const_env p).
Proof.
  intros p T Hwf Hni. apply Forall_forall. intros e Hin Hnb. split.
  - apply lookup_unique; [apply wf_nodup; exact Hwf | exact Hin | exact Hnb].
  - intros Himp. unfold no_implicit in Hni. rewrite forallb_forall in Hni.
    specialize (Hni e Hin). rewrite Himp in Hni. cbn [andb] in Hni.
    apply negb_true_iff in Hni. exact Hni.
Qed.

(* ================================================================ results == *)

Theorem collect_eq : forall p T k,
  wf_pkg p = true -> shape_ok p = true -> no_implicit p T = true ->
  T <> "" -> kind_of_type p T = Some k ->
  collect p T = map (mkv k) (declared T p).
Proof.
  intros p T k Hwf Hshape Hni HT Hk.
  unfold collect. rewrite flat_map_concat. fold (all_blocks p).
  rewrite declared_decl_of.
  pose proof (const_env_good p T Hwf Hni) as Hg.
  rewrite (const_env_contrib p) in Hg at 2.
  rewrite (const_env_contrib p) at 2.
  apply blocks_collect.
  - exact HT.
  - exact Hk.
  - apply shape_ok_typed_has_vals. exact Hshape.
  - exact Hg.
Qed.

(* every entry produced by spec_entries: if it is ok and its type has kind k,
   its value is in range of k *)
Definition entry_sound (p : pkg) (e : centry) : Prop :=
  ce_name e <> "_" -> ce_ok e = true ->
  forall k, kind_of_ctype p (ce_type e) = Some k -> in_range k (ce_val e) = true.

Lemma spec_entries_sound : forall p env iota ty names exprs,
  Forall (entry_sound p) (spec_entries p env iota ty names exprs).
Proof.
  intros p env iota ty names.
  induction names as [|n names IH]; intros exprs.
  - constructor.
  - cbn [spec_entries]. destruct (String.eqb n "_") eqn:Hn.
    + constructor; [|apply IH].
      intros Hnb. cbn [ce_name] in Hnb. congruence.
    + constructor; [|apply IH].
      intros _ Hok k Hkind. cbn [ce_ok ce_type ce_val] in *.
      destruct exprs as [|e0 exprs']; [discriminate|].
      cbn [hd] in *.
      destruct (eval env iota e0) as [x|]; [|discriminate].
      rewrite Hkind in Hok. exact Hok.
Qed.

Theorem declared_in_range : forall p T k,
  wf_pkg p = true -> kind_of_type p T = Some k ->
  Forall (fun nv => in_range k (snd nv) = true) (declared T p).
Proof.
  intros p T k Hwf Hk. apply Forall_forall. intros [n v] Hin.
  rewrite declared_decl_of in Hin. apply decl_of_In in Hin.
  destruct Hin as [e [Hin [Hnb [Hsel [Hn Hv]]]]]. subst n v. cbn [snd].
  pose proof (const_env_Forall (entry_sound p) p (spec_entries_sound p)) as Hs.
  rewrite Forall_forall in Hs. specialize (Hs e Hin).
  apply Hs; [exact Hnb | apply (wf_ok p); assumption |].
  destruct (ce_type e) as [|t|fk]; cbn [ctype_is] in Hsel; try discriminate.
  apply String.eqb_eq in Hsel. subst t. exact Hk.
Qed.

Lemma NoDup_map_filter : forall (A B : Type) (f : A -> B) (g : A -> bool) (l : list A),
  NoDup (map f l) -> NoDup (map f (filter g l)).
Proof.
  intros A B f g l. induction l as [|x l IH]; intros Hnd.
  - constructor.
  - simpl in Hnd. inversion Hnd as [|y l' Hnin Hnd']; subst.
    simpl. destruct (g x).
    + simpl. constructor; [|apply IH; exact Hnd'].
      intros Hin. apply Hnin. apply in_map_iff in Hin.
      destruct Hin as [z [Hz Hzin]]. apply filter_In in Hzin.
      destruct Hzin as [Hzin _]. rewrite <- Hz. apply in_map. exact Hzin.
    + apply IH. exact Hnd'.
Qed.

Theorem declared_names_nodup : forall p T,
  wf_pkg p = true -> NoDup (map fst (declared T p)).
Proof.
  intros p T Hwf. unfold declared. rewrite map_map. cbn [fst].
  apply NoDup_map_filter. apply wf_nodup. exact Hwf.
Qed.

Theorem declared_const_val : forall p T n v,
  wf_pkg p = true -> In (n, v) (declared T p) -> const_val (const_env p) n = v.
Proof.
  intros p T n v Hwf Hin.
  rewrite declared_decl_of in Hin. apply decl_of_In in Hin.
  destruct Hin as [e [Hin [Hnb [_ [Hn Hv]]]]]. subst n v.
  unfold const_val.
  rewrite (lookup_unique (const_env p) e (wf_nodup p Hwf) Hin Hnb). reflexivity.
Qed.

(* also useful downstream: a declared name is never "_" *)
Theorem declared_not_blank : forall p T n v, In (n, v) (declared T p) -> n <> "_".
Proof.
  intros p T n v Hin.
  rewrite declared_decl_of in Hin. apply decl_of_In in Hin.
  destruct Hin as [e [_ [Hnb [_ [Hn _]]]]]. subst n. exact Hnb.
Qed.
