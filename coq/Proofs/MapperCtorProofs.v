(* C15: makeCtorMatch (Model/Mapper.v make_ctor_match) — every constructor
   parameter that receives a value got it from a name-matching readable field
   under an applicable strategy, its name is then in the write-once set, and no
   later statement writes it. *)
From Coq Require Import String Ascii List Bool Arith Lia.
From Shoot Require Import Base.Str Model.Transfer Model.MapVal Model.Mapper
     Proofs.MapperProofs Proofs.MapperPlanProofs Proofs.MapperFlattenProofs Proofs.MapperAnalyseProofs.
Import ListNotations.
Local Open Scope string_scope.
Local Open Scope list_scope.

(* a strategy a constructor argument may use *)
Definition ctor_applicable (e : env) (fns : list mfunc) (rt pt : ty) (h : strategy) : Prop :=
  match h with
  | SAssign => type_equals rt pt = true
  | SConv a b => a = rt /\ b = pt /\ type_equals rt pt = false
                 /\ convertible e rt pt = true /\ may_mis_conv e rt pt = false
  | SFunc f => exists fn, In fn fns /\ mf_name fn = f
                          /\ type_equals (mf_param fn) rt = true /\ type_equals (mf_result fn) pt = true
  | _ => False
  end.

Section Ctor.
  Variable e : env.
  Variable tm : tagmap.
  Variable ic : bool.
  Variable fns : list mfunc.
  Variable readers : list field.
  Variable ws0 : sset.
  Hypothesis fn_names : forall fn, In fn fns -> mf_name fn <> "".

  Definition pgood (ws : sset) (p : field) : Prop :=
    f_zero p = false /\ f_canmap p = false /\ f_caneach p = false /\
    match f_target p with
    | Some fi => fi < length readers /\ f_isset (rd readers fi) = false
                 /\ can_name_match (rd readers fi) p tm ic = true
                 /\ s_has ws (f_name p) = true
                 /\ flagcount p = 1
                 /\ just e fns true (rd readers fi) p
    | None => flagcount p = 0
    end.

  Definition CInv (params : list field) (acc : list field * sset) : Prop :=
    length (fst acc) = length params
    /\ (forall k, core_eq (rd params k) (rd (fst acc) k))
    /\ (forall x, s_has ws0 x = true -> s_has (snd acc) x = true)
    /\ (forall k, k < length (fst acc) -> pgood (snd acc) (rd (fst acc) k)).

  Lemma pgood_mono ws x p : pgood ws p -> pgood (s_add ws x) p.
  Proof.
    intros (Z & A & B & C). split; auto. split; auto. split; auto. destruct (f_target p); [|exact C].
    destruct C as (c1 & c2 & c3 & c4 & c5 & c6).
    refine (conj c1 (conj c2 (conj c3 (conj _ (conj c5 c6))))). apply s_has_add_mono; auto.
  Qed.

  (* updating parameter k with a field that is good for the enlarged write set *)
  Lemma cinv_upd params ps ws k g x :
    CInv params (ps, ws) -> k < length ps -> keeps_core g ->
    pgood (s_add ws x) (g (rd ps k)) ->
    CInv params (upd ps k g, s_add ws x).
  Proof.
    intros (L & C & M & G) Hk Kg Pg. unfold CInv. simpl in *. rewrite upd_length.
    split; auto. split; [|split].
    - intros j. rewrite rd_upd by auto. destruct (Nat.eqb_spec j k) as [->|]; auto.
      eapply core_eq_trans; [apply C | apply keeps_core_eq; auto].
    - intros y Hy. apply s_has_add_mono. auto.
    - intros j Hj. rewrite rd_upd by auto. destruct (Nat.eqb_spec j k) as [->|]; auto.
      apply pgood_mono. auto.
  Qed.

  Lemma just_only_func r p fn :
    In fn fns -> type_equals (mf_param fn) (f_ty r) = true -> type_equals (mf_result fn) (f_ty p) = true ->
    f_canassign p = false -> f_isconv p = false -> f_canmap p = false -> f_caneach p = false ->
    just e fns true r (set_func (mf_name fn) (set_target (Some 0) p)).
  Proof.
    intros I T1 T2 a b c d. unfold just, has_func. simpl. rewrite a, b, c, d.
    repeat split; try discriminate. intros _. exists fn. repeat split; auto.
  Qed.

  Lemma ctor_func_loop_ok params : forall l fi k ps ws,
    (forall fn, In fn l -> In fn fns) ->
    CInv params (ps, ws) -> k < length ps -> fi < length readers ->
    f_isset (rd readers fi) = false ->
    can_name_match (rd readers fi) (rd ps k) tm ic = true ->
    f_canassign (rd ps k) = false -> f_isconv (rd ps k) = false ->
    CInv params (ctor_func_loop l fi (f_ty (rd readers fi)) (f_ty (rd ps k)) (f_name (rd ps k)) k (ps, ws)).
  Proof.
    induction l as [|fn l IH]; intros fi k ps ws Hin CI Hk Hfi Hset Hnm Ha Hc; simpl; auto.
    destruct (type_equals (mf_param fn) (f_ty (rd readers fi)) && type_equals (mf_result fn) (f_ty (rd ps k))) eqn:M.
    - apply andb_true_iff in M. destruct M as (M1 & M2). simpl.
      set (g := fun p => set_func (mf_name fn) (set_target (Some fi) p)).
      assert (Kg : keeps_core g) by (unfold g; apply kc_comp; [apply kc_func | apply kc_target]).
      assert (CI' : CInv params (upd ps k g, s_add ws (f_name (rd ps k)))).
      { apply cinv_upd; auto.
        destruct CI as (_ & _ & _ & G). simpl in G. destruct (G k Hk) as (Z & A & B & _).
        unfold pgood, g. simpl.
        split; [exact Z|]. split; [exact A|]. split; [exact B|]. split; [exact Hfi|]. split; [exact Hset|].
        split; [|split; [apply s_has_add_same|split]].
        - rewrite <- Hnm. apply can_name_match_core; [apply core_eq_refl|].
          apply (keeps_core_eq (fun p => set_func (mf_name fn) (set_target (Some fi) p))); auto.
        - unfold flagcount, has_func, b2n. simpl.
          assert (N : mf_name fn <> "") by (apply fn_names; apply Hin; left; auto).
          destruct (String.eqb_spec (mf_name fn) ""); [congruence|]. simpl.
          rewrite Ha, Hc, A, B. reflexivity.
        - unfold just, has_func. simpl. rewrite Ha, Hc, A, B.
          repeat split; try discriminate. intros _. exists fn. repeat split; auto. apply Hin. left; auto. }
      assert (E1 : f_ty (rd (upd ps k g) k) = f_ty (rd ps k)) by (rewrite rd_upd, Nat.eqb_refl by auto; reflexivity).
      assert (E2 : f_name (rd (upd ps k g) k) = f_name (rd ps k)) by (rewrite rd_upd, Nat.eqb_refl by auto; reflexivity).
      rewrite <- E1, <- E2.
      apply IH; [intros f Hf; apply Hin; right; auto | rewrite E2; exact CI' | rewrite upd_length; exact Hk | exact Hfi | exact Hset | | | ].
      + rewrite <- Hnm. apply can_name_match_core; [apply core_eq_refl|].
        rewrite rd_upd, Nat.eqb_refl by auto. apply keeps_core_eq; auto.
      + rewrite rd_upd, Nat.eqb_refl by auto. exact Ha.
      + rewrite rd_upd, Nat.eqb_refl by auto. exact Hc.
    - apply IH; auto. intros f Hf. apply Hin. right; auto.
  Qed.

  Lemma ctor_step_ok params fi k ps ws :
    CInv params (ps, ws) -> k < length ps -> fi < length readers ->
    CInv params (ctor_step e tm ic fns readers fi k (ps, ws)).
  Proof.
    intros CI Hk Hfi. unfold ctor_step. simpl fst. simpl snd.
    fold (rd readers fi). fold (rd ps k).
    destruct (f_isset (rd readers fi)) eqn:Hset; auto.
    destruct (can_name_match (rd readers fi) (rd ps k) tm ic) eqn:Hnm; cbn [negb]; auto.
    destruct (s_has ws (f_name (rd ps k))) eqn:Hhas; auto.
    (* the parameter is still free: it carries no flag and no Target *)
    assert (G := CI). destruct G as (_ & _ & _ & G). simpl in G. destruct (G k Hk) as (Z & A & B & C).
    destruct (f_target (rd ps k)) as [x|] eqn:T.
    { destruct C as (_ & _ & _ & C & _). congruence. }
    apply flag0 in C. destruct C as (z1 & z2 & z3 & z4 & z5).
    destruct (match_type e (f_ty (rd readers fi)) (f_ty (rd ps k))) as (same, conv) eqn:M.
    destruct same eqn:S.
    - (* assignment *)
      simpl. rewrite <- (upd_length ps k set_canassign) in Hk.
      assert (X : upd (upd ps k set_canassign) k (set_target (Some fi)) = upd ps k (fun p => set_target (Some fi) (set_canassign p))).
      { clear. revert k. induction ps as [|p ps IH]; intros [|k]; simpl; auto. f_equal. apply IH. }
      rewrite X. rewrite upd_length in Hk.
      apply cinv_upd; auto. { apply kc_comp; [apply kc_target | apply kc_canassign]. }
      unfold pgood. simpl. split; [exact Z|]. split; [exact A|]. split; [exact B|]. split; [exact Hfi|]. split; [exact Hset|].
      split; [|split; [apply s_has_add_same|split]].
      + rewrite <- Hnm. apply can_name_match_core; [apply core_eq_refl|].
        apply (keeps_core_eq (fun p => set_target (Some fi) (set_canassign p))). apply kc_comp; [apply kc_target | apply kc_canassign].
      + unfold flagcount, b2n, has_func in *. simpl. rewrite z2, z3, z4, z5. reflexivity.
      + unfold just, has_func in *. simpl. simpl in z3. rewrite z2, z3, z4, z5.
        repeat split; try discriminate. intros _. rewrite <- (match_type_same _ _ _ _ _ M). reflexivity.
    - destruct conv eqn:Cv.
      + (* conversion *)
        simpl.
        assert (X : upd (upd ps k (set_isconv (f_ty (rd ps k)))) k (set_target (Some fi))
                    = upd ps k (fun p => set_target (Some fi) (set_isconv (f_ty (rd ps k)) p))).
        { clear. generalize (f_ty (rd ps k)). intros t. revert k. induction ps as [|p ps IH]; intros [|k]; simpl; auto. f_equal. apply IH. }
        rewrite X.
        apply cinv_upd; auto. { apply kc_comp; [apply kc_target | apply kc_isconv]. }
        unfold pgood. simpl. split; [exact Z|]. split; [exact A|]. split; [exact B|]. split; [exact Hfi|]. split; [exact Hset|].
        split; [|split; [apply s_has_add_same|split]].
        * rewrite <- Hnm. apply can_name_match_core; [apply core_eq_refl|].
          apply (keeps_core_eq (fun p => set_target (Some fi) (set_isconv (f_ty (rd ps k)) p))). apply kc_comp; [apply kc_target | apply kc_isconv].
        * unfold flagcount, b2n, has_func in *. simpl. rewrite z1, z3, z4, z5. reflexivity.
        * unfold just, has_func in *. simpl. simpl in z3. rewrite z1, z3, z4, z5.
          destruct (match_type_conv _ _ _ _ _ M eq_refl eq_refl) as (a & b & c).
          repeat split; try discriminate; auto.
      + (* neither: the mapper methods *)
        simpl. apply ctor_func_loop_ok; auto.
  Qed.

  Lemma ctor_fold_ok params : forall (fis : list nat) ps ws,
    CInv params (ps, ws) -> (forall fi, In fi fis -> fi < length readers) -> length ps = length params ->
    CInv params (fold_left (fun acc fi => fold_left (fun acc k => ctor_step e tm ic fns readers fi k acc)
                                                    (seq 0 (length params)) acc) fis (ps, ws)).
  Proof.
    assert (Inner : forall (ks : list nat) fi acc, CInv params acc -> fi < length readers ->
              (forall k, In k ks -> k < length params) ->
              CInv params (fold_left (fun acc k => ctor_step e tm ic fns readers fi k acc) ks acc)).
    { induction ks as [|k ks IH]; intros fi [ps ws] CI Hfi Hks; simpl; auto.
      apply IH; auto.
      - apply ctor_step_ok; auto. destruct CI as (L & _). simpl in L. rewrite L. apply Hks. left; auto.
      - intros j Hj. apply Hks. right; auto. }
    induction fis as [|fi fis IH]; intros ps ws CI Hfis L; simpl; auto.
    assert (C1 : CInv params (fold_left (fun acc k => ctor_step e tm ic fns readers fi k acc) (seq 0 (length params)) (ps, ws))).
    { apply Inner; auto. { apply Hfis. left; auto. } intros k Hk. apply in_seq in Hk. lia. }
    destruct (fold_left (fun acc k => ctor_step e tm ic fns readers fi k acc) (seq 0 (length params)) (ps, ws)) as (ps1, ws1) eqn:E.
    apply IH; auto.
    - intros j Hj. apply Hfis. right; auto.
    - destruct C1 as (L1 & _). exact L1.
  Qed.
End Ctor.

(* ------------------------------------------------- makeCtorMatch as a whole *)
Definition pfinal (e : env) (tm : tagmap) (ic : bool) (fns : list mfunc) (readers : list field) (ws : sset) (p : field) : Prop :=
  f_canmap p = false /\ f_caneach p = false /\
  match f_target p with
  | Some fi => f_zero p = false /\ fi < length readers /\ f_isset (rd readers fi) = false
               /\ can_name_match (rd readers fi) p tm ic = true
               /\ s_has ws (f_name p) = true /\ flagcount p = 1
               /\ just e fns true (rd readers fi) p
  | None => f_zero p = true
  end.

Lemma nth_map_dflt {A B} (f : A -> B) (l : list A) (d : A) (d' : B) k : k < length l -> nth k (map f l) d' = f (nth k l d).
Proof. revert k. induction l as [|x l IH]; intros [|k] H; simpl in *; try lia; auto. apply IH. lia. Qed.

Lemma make_ctor_match_ok e tm ic fns readers params ws ps' ws' h :
  (forall fn, In fn fns -> mf_name fn <> "") ->
  (forall p, In p params -> fresh p /\ f_zero p = false /\ f_canmap p = false /\ f_caneach p = false) ->
  make_ctor_match e tm ic fns readers params ws = (ps', ws', h) ->
  length ps' = length params
  /\ (forall j, j < length ps' -> core_eq (rd params j) (rd ps' j))
  /\ (forall x, s_has ws x = true -> s_has ws' x = true)
  /\ (params <> [] -> forall j, j < length ps' -> pfinal e tm ic fns readers ws' (rd ps' j)).
Proof.
  intros FN FR H. unfold make_ctor_match in H.
  destruct params as [|p0 params0] eqn:EP.
  { inversion H; subst. split; [reflexivity|]. split; [intros; apply core_eq_refl|]. split; [auto|congruence]. }
  rewrite <- EP in *.
  assert (NE : params <> []) by (rewrite EP; discriminate).
  assert (C0 : CInv e tm ic fns readers ws params (params, ws)).
  { unfold CInv. simpl. split; auto. split; [intros; apply core_eq_refl|]. split; auto.
    intros j Hj. destruct (FR (rd params j)) as ((F1 & F2) & F3 & F4 & F5). { apply nth_In; auto. }
    unfold pgood. rewrite F2. auto. }
  pose proof (ctor_fold_ok e tm ic fns readers ws FN params (seq 0 (length readers)) params ws C0) as CF.
  match type of H with (let '(_, _) := ?F in _) = _ => destruct F as (ps, ws1) eqn:EF end.
  assert (CI : CInv e tm ic fns readers ws params (ps, ws1)).
  { apply CF; auto. intros fi Hfi. apply in_seq in Hfi. lia. }
  clear CF EF. inversion H; subst ps' ws' h; clear H.
  destruct CI as (L & C & M & G). simpl in *.
  split; [rewrite map_length; auto|]. split; [|split; [exact M|]].
  - intros j Hj. rewrite map_length in Hj. unfold rd. rewrite (nth_map_dflt _ ps fdummy) by auto.
    fold (rd ps j). eapply core_eq_trans; [apply C|].
    destruct (f_target (rd ps j)); [apply core_eq_refl | repeat split].
  - intros _ j Hj. rewrite map_length in Hj. unfold rd. rewrite (nth_map_dflt _ ps fdummy) by auto.
    fold (rd ps j). destruct (G j Hj) as (Z & A & B & D). unfold pfinal.
    destruct (f_target (rd ps j)) as [fi|] eqn:T.
    + rewrite T. destruct D as (d1 & d2 & d3 & d4 & d5 & d6). auto 10.
    + simpl. rewrite T. auto.
Qed.

(* ------------------------------------------------------------- on [analyse] *)
Definition fn_names_ok (jb : job) : Prop := forall fn, In fn (j_funcs jb) -> mf_name fn <> "".

Lemma ctor_field_fresh c : fresh (ctor_field c) /\ f_zero (ctor_field c) = false
                           /\ f_canmap (ctor_field c) = false /\ f_caneach (ctor_field c) = false.
Proof. repeat split; reflexivity. Qed.

Lemma prepare_ctor jb pr :
  prepare jb = Some pr -> fn_names_ok jb ->
  (forall j, j < length (pr_dctor pr) ->
     core_eq (rd (map ctor_field (j_dst_ctor jb)) j) (rd (pr_dctor pr) j)
     /\ (j_dst_ctor jb <> [] ->
         pfinal (j_env jb) (p_tags (pr_src pr)) (j_ic jb) (j_funcs jb) (s_src (pr_s0 pr)) (s_wdst (pr_s0 pr)) (rd (pr_dctor pr) j)))
  /\ length (pr_dctor pr) = length (j_dst_ctor jb)
  /\ (forall j, j < length (pr_sctor pr) ->
     j_src_ctor jb <> [] ->
     pfinal (j_env jb) [] (j_ic jb) (j_funcs jb) (s_dst (pr_s0 pr)) (s_wsrc (pr_s0 pr)) (rd (pr_sctor pr) j)).
Proof.
  unfold prepare. intros H FN.
  destruct (parse_fields (j_env jb) (j_fuel jb) PSrc (j_src jb) true) as [ps|]; [|discriminate].
  destruct (parse_fields (j_env jb) (j_fuel jb) PDst (j_dst jb) false) as [pd|]; [|discriminate].
  destruct (make_ctor_match _ _ _ _ _ (map ctor_field (j_dst_ctor jb)) _) as [[dctor wdst1] use_d] eqn:MD.
  destruct (make_ctor_match _ _ _ _ _ (map ctor_field (j_src_ctor jb)) _) as [[sctor wsrc1] use_s] eqn:MS.
  inversion H; subst; clear H. simpl.
  assert (FR : forall cs p, In p (map ctor_field cs) -> fresh p /\ f_zero p = false /\ f_canmap p = false /\ f_caneach p = false).
  { intros cs p I. apply in_map_iff in I. destruct I as (c & <- & _). apply ctor_field_fresh. }
  destruct (make_ctor_match_ok _ _ _ _ _ _ _ _ _ _ FN (FR _) MD) as (L1 & C1 & _ & P1).
  destruct (make_ctor_match_ok _ _ _ _ _ _ _ _ _ _ FN (FR _) MS) as (L2 & C2 & _ & P2).
  split; [|split].
  - intros j Hj. split; [apply C1; auto|]. intros NE. apply P1; auto.
    intros E. apply NE. destruct (j_dst_ctor jb); auto. discriminate.
  - rewrite L1, map_length. reflexivity.
  - intros j Hj NE. apply P2; auto. intros E. apply NE. destruct (j_src_ctor jb); auto. discriminate.
Qed.

(* no statement writes a name that the constructor call (or a manual method) covers *)
Theorem analyse_ctor_disjoint sigma jb a pr :
  analyse sigma jb = Some a -> prepare jb = Some pr -> acc_guard jb -> fn_names_ok jb ->
  (forall st, In st (pl_stmts (a_to a)) -> s_has (s_wdst (pr_s0 pr)) (r_name (st_dst st)) = false)
  /\ (forall st, In st (pl_stmts (a_from a)) -> s_has (s_wsrc (pr_s0 pr)) (r_name (st_dst st)) = false)
  /\ (forall p, In p (pr_dctor pr) -> f_target p <> None -> s_has (s_wdst (pr_s0 pr)) (f_name p) = true)
  /\ (forall p, In p (pr_sctor pr) -> f_target p <> None -> s_has (s_wsrc (pr_s0 pr)) (f_name p) = true).
Proof.
  intros H P G FN. destruct (analyse_inv _ _ _ _ H P G) as (I & _).
  destruct (analyse_stmts _ _ _ H) as ((sp & n1 & E1) & (dp & n2 & E2)).
  destruct (prepare_ctor _ _ P FN) as (PD & LD & PS).
  split; [|split; [|split]].
  - intros st Hst. rewrite E1 in Hst. eapply to_stmts_fresh; eauto.
  - intros st Hst. rewrite E2 in Hst. eapply from_stmts_fresh; eauto.
  - intros p Ip T. destruct (In_nth _ _ fdummy Ip) as (k & Hk & <-).
    destruct (PD k Hk) as (_ & PF).
    assert (NE : j_dst_ctor jb <> []) by (intros E; rewrite LD, E in Hk; simpl in Hk; lia).
    specialize (PF NE). unfold pfinal, rd in PF. destruct PF as (_ & _ & PF).
    destruct (f_target (nth k (pr_dctor pr) fdummy)); [|congruence]. tauto.
  - intros p Ip T. destruct (In_nth _ _ fdummy Ip) as (k & Hk & <-).
    assert (NE : j_src_ctor jb <> []).
    { intros E. unfold prepare in P.
      destruct (parse_fields (j_env jb) (j_fuel jb) PSrc (j_src jb) true); [|discriminate].
      destruct (parse_fields (j_env jb) (j_fuel jb) PDst (j_dst jb) false); [|discriminate].
      rewrite E in P. simpl in P.
      destruct (make_ctor_match _ _ _ _ _ (map ctor_field (j_dst_ctor jb)) _) as [[? ?] ?].
      inversion P; subst. simpl in Hk. lia. }
    specialize (PS k Hk NE). unfold pfinal, rd in PS. destruct PS as (_ & _ & PS).
    destruct (f_target (nth k (pr_sctor pr) fdummy)); [|congruence]. tauto.
Qed.

Lemma Forall2_nth_intro {A B} (R : A -> B -> Prop) (l1 : list A) (l2 : list B) d1 d2 :
  length l1 = length l2 -> (forall k, k < length l1 -> R (nth k l1 d1) (nth k l2 d2)) -> Forall2 R l1 l2.
Proof.
  revert l2. induction l1 as [|x l1 IH]; intros [|y l2] L H; simpl in *; try lia; constructor.
  - apply (H 0). lia.
  - apply IH; [lia|]. intros k Hk. apply (H (S k)). lia.
Qed.

Lemma flat_map_pointwise {A B} (F : A -> list B) (Q : nat -> B -> Prop) d : forall (l : list A) (off : nat),
  (forall k, k < length l -> exists x, F (nth k l d) = [x] /\ Q (off + k) x) ->
  exists xs, flat_map F l = xs /\ length xs = length l /\ forall k dx, k < length l -> Q (off + k) (nth k xs dx).
Proof.
  induction l as [|a l IH]; intros off H; simpl.
  - exists []. repeat split; auto. intros k dx Hk. simpl in Hk. lia.
  - destruct (H 0) as (x & Fx & Qx); [simpl; lia|]. simpl in Fx. rewrite Nat.add_0_r in Qx.
    destruct (IH (S off)) as (xs & E & L & Qs).
    { intros k Hk. destruct (H (S k)) as (y & Fy & Qy); [simpl; lia|]. exists y. split; auto.
      replace (S off + k) with (off + S k) by lia. auto. }
    exists (x :: xs). rewrite Fx, E. simpl. repeat split; auto.
    intros [|k] dx Hk; simpl.
    + rewrite Nat.add_0_r. auto.
    + replace (off + S k) with (S off + k) by lia. apply Qs. simpl in Hk. lia.
Qed.

Lemma map_eq_nth {A B C} (f : A -> C) (g : B -> C) (xs : list A) (ys : list B) dx dy :
  length xs = length ys -> (forall k, k < length xs -> f (nth k xs dx) = g (nth k ys dy)) -> map f xs = map g ys.
Proof.
  revert ys. induction xs as [|x xs IH]; intros [|y ys] L H; simpl in *; try lia; auto.
  f_equal. { apply (H 0). lia. } apply IH; [lia|]. intros k Hk. apply (H (S k)). lia.
Qed.

Definition cdummy : cparam := {| cp_field := ""; cp_path := []; cp_ty := TBasic BBool |}.

(* the argument list of the constructor call in ToX *)
Theorem analyse_ctor_args_to sigma jb a args :
  analyse sigma jb = Some a -> acc_guard jb -> fn_names_ok jb -> pl_ctor (a_to a) = Some args ->
  map fst args = map cp_path (j_dst_ctor jb)
  /\ Forall2 (fun arg c =>
       snd arg = CZero (cp_ty c)
       \/ exists sf h, snd arg = CVal (ref_of sf) h /\ In sf (s_src (a_state a)) /\ f_isset sf = false
                       /\ can_name_match sf (ctor_field c) (p_tags (a_src_parsed a)) (j_ic jb) = true
                       /\ ctor_applicable (j_env jb) (j_funcs jb) (f_ty sf) (cp_ty c) h)
     args (j_dst_ctor jb).
Proof.
  intros H G FN PC. destruct (analyse_state _ _ _ H) as (pr & P & S & T).
  destruct (prepare_ctor _ _ P FN) as (PD & LD & _).
  assert (EA : args = ctor_args true (pr_dctor pr) (s_src (a_state a)) /\ pr_use_d pr = true).
  { unfold analyse in H. rewrite P in H. inversion H; subst a; clear H. simpl in PC.
    destruct (pr_use_d pr); inversion PC. auto. }
  destruct EA as (-> & UD).
  assert (NE : j_dst_ctor jb <> []).
  { intros E. unfold prepare in P.
    destruct (parse_fields (j_env jb) (j_fuel jb) PSrc (j_src jb) true); [|discriminate].
    destruct (parse_fields (j_env jb) (j_fuel jb) PDst (j_dst jb) false); [|discriminate].
    rewrite E in P. simpl in P.
    destruct (make_ctor_match _ _ _ _ _ (map ctor_field (j_src_ctor jb)) _) as [[? ?] ?].
    inversion P; subst. simpl in UD. discriminate. }
  destruct (prepare_ok _ _ P G) as (I0 & _).
  destruct (passes_ok _ _ _ _ _ _ _ I0) as (_ & CR).
  fold (run_passes (j_env jb) (p_tags (pr_src pr)) (j_ic jb) (j_funcs jb) (pr_s0 pr)) in CR. rewrite <- S in CR.
  destruct CR as (Ls & _ & Cs & _). rewrite T.
  set (s2 := a_state a) in *.
  set (Q := fun (k : nat) (x : path * carg) =>
              let c := nth k (j_dst_ctor jb) cdummy in
              fst x = cp_path c /\
              (snd x = CZero (cp_ty c)
               \/ exists sf h, snd x = CVal (ref_of sf) h /\ In sf (s_src s2) /\ f_isset sf = false
                               /\ can_name_match sf (ctor_field c) (p_tags (pr_src pr)) (j_ic jb) = true
                               /\ ctor_applicable (j_env jb) (j_funcs jb) (f_ty sf) (cp_ty c) h)).
  unfold ctor_args.
  match goal with |- context [flat_map ?F (pr_dctor pr)] => set (FF := F) end.
  destruct (flat_map_pointwise FF Q fdummy (pr_dctor pr) 0) as (xs & E & L & Qs).
  { intros k Hk. simpl. destruct (PD k Hk) as (CE & PF). specialize (PF NE).
    unfold rd in CE, PF. rewrite (nth_map_dflt ctor_field (j_dst_ctor jb) cdummy fdummy k) in CE by (rewrite <- LD; exact Hk).
    set (c := nth k (j_dst_ctor jb) cdummy) in *. set (p := nth k (pr_dctor pr) fdummy) in *.
    destruct CE as (cn & ct & cg & cs & cb & cp). simpl in ct, cp.
    assert (CEq : core_eq (ctor_field c) p) by (repeat split; auto).
    unfold pfinal in PF. destruct PF as (A & B & PF). unfold FF, Q. fold c.
    destruct (f_target p) as [fi|] eqn:Tg.
    - destruct PF as (Z & Hfi & Hset & Hnm & _ & FC & (J1 & J2 & J3 & _)). rewrite Z.
      fold (rd (s_src (pr_s0 pr)) fi) in *.
      set (r0 := rd (s_src (pr_s0 pr)) fi) in *. set (r := nth fi (s_src s2) fdummy).
      assert (CRr : core_eq r0 r) by (apply (Cs fi)).
      assert (Tr : f_ty r = f_ty r0) by (destruct CRr as (_ & X & _); exact X).
      assert (Common : In r (s_src s2) /\ f_isset r = false
                       /\ can_name_match r (ctor_field c) (p_tags (pr_src pr)) (j_ic jb) = true).
      { split; [apply nth_In; rewrite Ls; exact Hfi|]. split.
        - destruct CRr as (_ & _ & _ & X & _). rewrite X. exact Hset.
        - rewrite <- Hnm. apply can_name_match_core.
          + destruct CRr as (a1&a2&a3&a4&a5&a6). repeat split; congruence.
          + destruct CEq as (a1&a2&a3&a4&a5&a6). repeat split; congruence. }
      unfold flagcount, has_func, b2n in FC. rewrite A, B in FC.
      destruct (negb (String.eqb (f_func p) "")) eqn:Fn.
      + eexists. split.
        { rewrite <- map_rev, !rev_app_distr. simpl. reflexivity. }
        simpl. split; [congruence|]. right. exists r, (SFunc (f_func p)). split; auto.
        destruct Common as (c1 & c2 & c3). repeat split; auto.
        simpl. destruct (J3 Fn) as (fn & I1 & I2 & I3 & I4). exists fn. rewrite Tr, <- ct. auto.
      + rewrite app_nil_r. destruct (f_isconv p) eqn:Cv.
        * eexists. split. { rewrite <- map_rev, !rev_app_distr. simpl. reflexivity. }
          simpl. split; [congruence|]. right.
          destruct (J2 eq_refl) as (j1 & j2 & j3 & j4). rewrite j4.
          exists r, (SConv (f_ty r) (f_ty p)). split; auto.
          destruct Common as (c1 & c2 & c3). repeat split; auto; rewrite ?Tr, <- ?ct; auto.
        * destruct (f_canassign p) eqn:Ca; [|simpl in FC; lia].
          eexists. split; [simpl; reflexivity|]. simpl. split; [congruence|]. right.
          exists r, SAssign. split; auto. destruct Common as (c1 & c2 & c3). repeat split; auto.
          simpl. rewrite Tr, <- ct. auto.
    - rewrite PF. eexists. split; [reflexivity|]. simpl. split; [congruence|]. left. rewrite ct. reflexivity. }
  rewrite E. simpl in Qs. split.
  - apply (map_eq_nth fst cp_path xs (j_dst_ctor jb) (([] : path), CZero (TBasic BBool)) cdummy); [lia|].
    intros k Hk. destruct (Qs k (([] : path), CZero (TBasic BBool))) as (X & _); [lia|]. exact X.
  - apply (Forall2_nth_intro _ xs (j_dst_ctor jb) (([] : path), CZero (TBasic BBool)) cdummy); [lia|].
    intros k Hk. destruct (Qs k (([] : path), CZero (TBasic BBool))) as (_ & X); [lia|]. exact X.
Qed.

(* ---------------------------------------------------------------- FromX *)
Lemma prepare_ctor_src jb pr :
  prepare jb = Some pr -> fn_names_ok jb ->
  length (pr_sctor pr) = length (j_src_ctor jb)
  /\ (forall j, j < length (pr_sctor pr) ->
        core_eq (rd (map ctor_field (j_src_ctor jb)) j) (rd (pr_sctor pr) j)
        /\ (j_src_ctor jb <> [] ->
            pfinal (j_env jb) [] (j_ic jb) (j_funcs jb) (s_dst (pr_s0 pr)) (s_wsrc (pr_s0 pr)) (rd (pr_sctor pr) j))).
Proof.
  unfold prepare. intros H FN.
  destruct (parse_fields (j_env jb) (j_fuel jb) PSrc (j_src jb) true) as [ps|]; [|discriminate].
  destruct (parse_fields (j_env jb) (j_fuel jb) PDst (j_dst jb) false) as [pd|]; [|discriminate].
  destruct (make_ctor_match _ _ _ _ _ (map ctor_field (j_dst_ctor jb)) _) as [[dctor wdst1] use_d] eqn:MD.
  destruct (make_ctor_match _ _ _ _ _ (map ctor_field (j_src_ctor jb)) _) as [[sctor wsrc1] use_s] eqn:MS.
  inversion H; subst; clear H. simpl.
  assert (FR : forall cs p, In p (map ctor_field cs) -> fresh p /\ f_zero p = false /\ f_canmap p = false /\ f_caneach p = false).
  { intros cs p I. apply in_map_iff in I. destruct I as (c & <- & _). apply ctor_field_fresh. }
  destruct (make_ctor_match_ok _ _ _ _ _ _ _ _ _ _ FN (FR _) MS) as (L2 & C2 & _ & P2).
  split.
  - rewrite L2, map_length. reflexivity.
  - intros j Hj. split; [apply C2; auto|]. intros NE. apply P2; auto.
    intros E. apply NE. destruct (j_src_ctor jb); auto. discriminate.
Qed.

(* the argument list of the constructor call in FromX: one argument per
   parameter, in order; the zero value of the parameter's type, or the value of a
   name-matching readable field of the DESTINATION side (no tag map in this
   direction) under an applicable strategy *)
Theorem analyse_ctor_args_from sigma jb a args :
  analyse sigma jb = Some a -> acc_guard jb -> fn_names_ok jb -> pl_ctor (a_from a) = Some args ->
  map fst args = map cp_path (j_src_ctor jb)
  /\ Forall2 (fun arg c =>
       snd arg = CZero (cp_ty c)
       \/ exists df h, snd arg = CVal (ref_of df) h /\ In df (s_dst (a_state a)) /\ f_isset df = false
                       /\ can_name_match df (ctor_field c) [] (j_ic jb) = true
                       /\ ctor_applicable (j_env jb) (j_funcs jb) (f_ty df) (cp_ty c) h)
     args (j_src_ctor jb).
Proof.
  intros H G FN PC. destruct (analyse_state _ _ _ H) as (pr & P & S & T).
  destruct (prepare_ctor_src _ _ P FN) as (LD & PD).
  assert (EA : args = ctor_args false (pr_sctor pr) (s_dst (a_state a)) /\ pr_use_s pr = true).
  { unfold analyse in H. rewrite P in H. inversion H; subst a; clear H. simpl in PC.
    destruct (pr_use_s pr); inversion PC. auto. }
  destruct EA as (-> & US).
  assert (NE : j_src_ctor jb <> []).
  { intros E. unfold prepare in P.
    destruct (parse_fields (j_env jb) (j_fuel jb) PSrc (j_src jb) true); [|discriminate].
    destruct (parse_fields (j_env jb) (j_fuel jb) PDst (j_dst jb) false); [|discriminate].
    rewrite E in P. simpl in P.
    destruct (make_ctor_match _ _ _ _ _ (map ctor_field (j_dst_ctor jb)) _) as [[? ?] ?].
    inversion P; subst. simpl in US. discriminate. }
  destruct (prepare_ok _ _ P G) as (I0 & _).
  destruct (passes_ok _ _ _ _ _ _ _ I0) as (_ & CR).
  fold (run_passes (j_env jb) (p_tags (pr_src pr)) (j_ic jb) (j_funcs jb) (pr_s0 pr)) in CR. rewrite <- S in CR.
  destruct CR as (_ & Ld & _ & Cd).
  set (s2 := a_state a) in *.
  set (Q := fun (k : nat) (x : path * carg) =>
              let c := nth k (j_src_ctor jb) cdummy in
              fst x = cp_path c /\
              (snd x = CZero (cp_ty c)
               \/ exists df h, snd x = CVal (ref_of df) h /\ In df (s_dst s2) /\ f_isset df = false
                               /\ can_name_match df (ctor_field c) [] (j_ic jb) = true
                               /\ ctor_applicable (j_env jb) (j_funcs jb) (f_ty df) (cp_ty c) h)).
  unfold ctor_args.
  match goal with |- context [flat_map ?F (pr_sctor pr)] => set (FF := F) end.
  destruct (flat_map_pointwise FF Q fdummy (pr_sctor pr) 0) as (xs & E & L & Qs).
  { intros k Hk. simpl. destruct (PD k Hk) as (CE & PF). specialize (PF NE).
    unfold rd in CE, PF. rewrite (nth_map_dflt ctor_field (j_src_ctor jb) cdummy fdummy k) in CE by (rewrite <- LD; exact Hk).
    set (c := nth k (j_src_ctor jb) cdummy) in *. set (p := nth k (pr_sctor pr) fdummy) in *.
    destruct CE as (cn & ct & cg & cs & cb & cp). simpl in ct, cp.
    assert (CEq : core_eq (ctor_field c) p) by (repeat split; auto).
    unfold pfinal in PF. destruct PF as (A & B & PF). unfold FF, Q. fold c.
    destruct (f_target p) as [fi|] eqn:Tg.
    - destruct PF as (Z & Hfi & Hset & Hnm & _ & FC & (J1 & J2 & J3 & _)). rewrite Z.
      fold (rd (s_dst (pr_s0 pr)) fi) in *.
      set (r0 := rd (s_dst (pr_s0 pr)) fi) in *. set (r := nth fi (s_dst s2) fdummy).
      assert (CRr : core_eq r0 r) by (apply (Cd fi)).
      assert (Tr : f_ty r = f_ty r0) by (destruct CRr as (_ & X & _); exact X).
      assert (Common : In r (s_dst s2) /\ f_isset r = false
                       /\ can_name_match r (ctor_field c) [] (j_ic jb) = true).
      { split; [apply nth_In; rewrite Ld; exact Hfi|]. split.
        - destruct CRr as (_ & _ & _ & X & _). rewrite X. exact Hset.
        - rewrite <- Hnm. apply can_name_match_core.
          + destruct CRr as (a1&a2&a3&a4&a5&a6). repeat split; congruence.
          + destruct CEq as (a1&a2&a3&a4&a5&a6). repeat split; congruence. }
      unfold flagcount, has_func, b2n in FC. rewrite A, B in FC. cbn [app].
      destruct (negb (String.eqb (f_func p) "")) eqn:Fn.
      + assert (Ca : f_canassign p = false) by (destruct (f_canassign p), (f_isconv p); simpl in FC; auto; lia).
        assert (Cv : f_isconv p = false) by (destruct (f_canassign p), (f_isconv p); simpl in FC; auto; lia).
        rewrite Ca, Cv. eexists. split; [simpl; reflexivity|].
        simpl. split; [congruence|]. right. exists r, (SFunc (f_func p)). split; auto.
        destruct Common as (c1 & c2 & c3). repeat split; auto.
        simpl. destruct (J3 Fn) as (fn & I1 & I2 & I3 & I4). exists fn. rewrite Tr, <- ct. auto.
      + destruct (f_isconv p) eqn:Cv.
        * assert (Ca : f_canassign p = false) by (destruct (f_canassign p); simpl in FC; auto; lia).
          rewrite Ca. eexists. split; [simpl; reflexivity|].
          simpl. split; [congruence|]. right.
          destruct (J2 eq_refl) as (j1 & j2 & j3 & j4). rewrite j4.
          exists r, (SConv (f_ty r) (f_ty p)). split; auto.
          destruct Common as (c1 & c2 & c3). repeat split; auto; rewrite ?Tr, <- ?ct; auto.
        * destruct (f_canassign p) eqn:Ca; [|simpl in FC; lia].
          eexists. split; [simpl; reflexivity|]. simpl. split; [congruence|]. right.
          exists r, SAssign. split; auto. destruct Common as (c1 & c2 & c3). repeat split; auto.
          simpl. rewrite Tr, <- ct. auto.
    - rewrite PF. eexists. split; [reflexivity|]. simpl. split; [congruence|]. left. rewrite ct. reflexivity. }
  rewrite E. simpl in Qs. split.
  - apply (map_eq_nth fst cp_path xs (j_src_ctor jb) (([] : path), CZero (TBasic BBool)) cdummy); [lia|].
    intros k Hk. destruct (Qs k (([] : path), CZero (TBasic BBool))) as (X & _); [lia|]. exact X.
  - apply (Forall2_nth_intro _ xs (j_src_ctor jb) (([] : path), CZero (TBasic BBool)) cdummy); [lia|].
    intros k Hk. destruct (Qs k (([] : path), CZero (TBasic BBool))) as (_ & X); [lia|]. exact X.
Qed.
