(* C15: makeCtorMatch (Model/Mapper.v make_ctor_match) — every constructor
   parameter that receives a value got it from a name-matching readable field
   under an applicable strategy, its name is then in the write-once set, and no
   later statement writes it. *)
From Coq Require Import String Ascii List Bool Arith Lia.
From Shoot Require Import Base.Str Model.Transfer Model.MapVal Model.Mapper
     Proofs.MapperProofs Proofs.MapperPlanProofs Proofs.MapperFlattenProofs Proofs.MapperAnalyseProofs.
Import ListNotations.
Local Open Scope string_scope.
Local Open Scope list_scope.

(* a strategy a constructor argument may use *)
Definition ctor_applicable (e : env) (fns : list mfunc) (rt pt : ty) (h : strategy) : Prop :=
  match h with
  | SAssign => type_equals rt pt = true
  | SConv a b => a = rt /\ b = pt /\ type_equals rt pt = false
                 /\ convertible e rt pt = true /\ may_mis_conv e rt pt = false
  | SFunc f => exists fn, In fn fns /\ mf_name fn = f
                          /\ type_equals (mf_param fn) rt = true /\ type_equals (mf_result fn) pt = true
  | _ => False
  end.

Section Ctor.
  Variable e : env.
  Variable tm : tagmap.
  Variable ic : bool.
  Variable fns : list mfunc.
  Variable readers : list field.
  Variable ws0 : sset.
  Hypothesis fn_names : forall fn, In fn fns -> mf_name fn <> "".

  Definition pgood (ws : sset) (p : field) : Prop :=
    f_canmap p = false /\ f_caneach p = false /\
    match f_target p with
    | Some fi => fi < length readers /\ f_isset (rd readers fi) = false
                 /\ can_name_match (rd readers fi) p tm ic = true
                 /\ s_has ws (f_name p) = true
                 /\ 1 <= flagcount p
                 /\ just e fns true (rd readers fi) p
    | None => flagcount p = 0
    end.

  Definition CInv (params : list field) (acc : list field * sset) : Prop :=
    length (fst acc) = length params
    /\ (forall k, core_eq (rd params k) (rd (fst acc) k))
    /\ (forall x, s_has ws0 x = true -> s_has (snd acc) x = true)
    /\ (forall k, k < length (fst acc) -> pgood (snd acc) (rd (fst acc) k)).

  Lemma pgood_mono ws x p : pgood ws p -> pgood (s_add ws x) p.
  Proof.
    intros (A & B & C). split; auto. split; auto. destruct (f_target p); [|exact C].
    destruct C as (c1 & c2 & c3 & c4 & c5 & c6). repeat split; auto. apply s_has_add_mono; auto.
  Qed.

  (* updating parameter k with a field that is good for the enlarged write set *)
  Lemma cinv_upd params ps ws k g x :
    CInv params (ps, ws) -> k < length ps -> keeps_core g ->
    pgood (s_add ws x) (g (rd ps k)) ->
    CInv params (upd ps k g, s_add ws x).
  Proof.
    intros (L & C & M & G) Hk Kg Pg. unfold CInv. simpl in *. rewrite upd_length.
    split; auto. split; [|split].
    - intros j. rewrite rd_upd by auto. destruct (Nat.eqb_spec j k) as [->|]; auto.
      eapply core_eq_trans; [apply C | apply keeps_core_eq; auto].
    - intros y Hy. apply s_has_add_mono. auto.
    - intros j Hj. rewrite rd_upd by auto. destruct (Nat.eqb_spec j k) as [->|]; auto.
      apply pgood_mono. auto.
  Qed.

  Lemma just_only_func r p fn :
    In fn fns -> type_equals (mf_param fn) (f_ty r) = true -> type_equals (mf_result fn) (f_ty p) = true ->
    f_canassign p = false -> f_isconv p = false -> f_canmap p = false -> f_caneach p = false ->
    just e fns true r (set_func (mf_name fn) (set_target (Some 0) p)).
  Proof.
    intros I T1 T2 a b c d. unfold just, has_func. simpl. rewrite a, b, c, d.
    repeat split; try discriminate. intros _. exists fn. repeat split; auto.
  Qed.

  Lemma ctor_func_loop_ok params : forall l fi k ps ws,
    (forall fn, In fn l -> In fn fns) ->
    CInv params (ps, ws) -> k < length ps -> fi < length readers ->
    f_isset (rd readers fi) = false ->
    can_name_match (rd readers fi) (rd ps k) tm ic = true ->
    f_canassign (rd ps k) = false -> f_isconv (rd ps k) = false ->
    CInv params (ctor_func_loop l fi (f_ty (rd readers fi)) (f_ty (rd ps k)) (f_name (rd ps k)) k (ps, ws)).
  Proof.
    induction l as [|fn l IH]; intros fi k ps ws Hin CI Hk Hfi Hset Hnm Ha Hc; simpl; auto.
    destruct (type_equals (mf_param fn) (f_ty (rd readers fi)) && type_equals (mf_result fn) (f_ty (rd ps k))) eqn:M.
    - apply andb_true_iff in M. destruct M as (M1 & M2). simpl.
      set (g := fun p => set_func (mf_name fn) (set_target (Some fi) p)).
      assert (Kg : keeps_core g) by (unfold g; apply kc_comp; [apply kc_func | apply kc_target]).
      assert (CI' : CInv params (upd ps k g, s_add ws (f_name (rd ps k)))).
      { apply cinv_upd; auto.
        destruct CI as (_ & _ & _ & G). destruct (G k Hk) as (A & B & _).
        unfold pgood, g. simpl. split; auto. split; auto.
        repeat split; auto.
        - rewrite <- Hnm. apply can_name_match_core; [apply core_eq_refl|].
          apply (keeps_core_eq (fun p => set_func (mf_name fn) (set_target (Some fi) p))); auto.
        - apply s_has_add_same.
        - unfold flagcount, has_func, b2n. simpl.
          assert (N : mf_name fn <> "") by (apply fn_names; apply Hin; left; auto).
          destruct (String.eqb_spec (mf_name fn) ""); [congruence|]. simpl.
          destruct (f_canassign (rd ps k)), (f_isconv (rd ps k)), (f_canmap (rd ps k)), (f_caneach (rd ps k)); simpl; lia.
        - unfold just, has_func. simpl. rewrite Ha, Hc, A, B.
          repeat split; try discriminate. intros _. exists fn. repeat split; auto. apply Hin. left; auto. }
      assert (E1 : f_ty (rd (upd ps k g) k) = f_ty (rd ps k)) by (rewrite rd_upd, Nat.eqb_refl by auto; reflexivity).
      assert (E2 : f_name (rd (upd ps k g) k) = f_name (rd ps k)) by (rewrite rd_upd, Nat.eqb_refl by auto; reflexivity).
      rewrite <- E1, <- E2.
      apply IH; auto.
      + intros f Hf. apply Hin. right; auto.
      + rewrite upd_length. auto.
      + rewrite <- Hnm. apply can_name_match_core; [apply core_eq_refl|].
        rewrite rd_upd, Nat.eqb_refl by auto. apply keeps_core_eq; auto.
      + rewrite rd_upd, Nat.eqb_refl by auto. exact Ha.
      + rewrite rd_upd, Nat.eqb_refl by auto. exact Hc.
    - apply IH; auto. intros f Hf. apply Hin. right; auto.
  Qed.
End Ctor.
