(* Package-level statements for C04 / C12 / C14: everything is phrased over
   (p : pkg) (T : string) (fl : flags) with
       enum_guard p T = true   and   generate p T fl = Some g,
   relating the behaviour of the generated code (Model/Enum.v, section
   Generated, run against the constants of the source: const_env p) to the
   declarative `declared T p`.  The work is in EnumCollect / EnumTables /
   EnumBits; this file only instantiates.

   first_name D v (Model/Enum.v) is the first declared constant with value v: the
   name that stands for the value when several constants share it (aliases). *)
From Coq Require Import List ZArith Bool String Ascii Lia Sorted Permutation.
From Shoot Require Import Model.Enum Proofs.EnumCollect Proofs.EnumBits Proofs.EnumTables.
Import ListNotations.
Local Open Scope string_scope.
Local Open Scope Z_scope.

Lemma ctx_inv : forall p T fl g,
  enum_guard p T = true -> generate p T fl = Some g ->
  exists k, guarded p T /\ kind_of_type p T = Some k /\ g = make_str p T k fl.
Proof.
  intros p T fl g Hgd Hgen. apply enum_guard_spec in Hgd.
  destruct (generate_inv p T fl g Hgen) as [k [Hk [Hg _]]].
  exists k. split; [exact Hgd | split; assumption].
Qed.

Ltac ctx Hgd Hgen k Hg Hk :=
  destruct (ctx_inv _ _ _ _ Hgd Hgen) as [k [Hg [Hk ->]]].

(* ======================================================================= C04 *)

(* the literal walk of str.go collects exactly the constants of type T *)
Lemma P_collect_refines_declared : forall p T k,
  enum_guard p T = true -> kind_of_type p T = Some k ->
  collect p T = map (mkv k) (declared T p).
Proof.
  intros p T k Hgd Hk. apply enum_guard_spec in Hgd. destruct Hgd.
  apply collect_eq; assumption.
Qed.

(* output is generated iff the type exists and has constants *)
Lemma P_generate_some_iff : forall p T fl,
  enum_guard p T = true ->
  ((exists g, generate p T fl = Some g) <->
   (exists k, kind_of_type p T = Some k) /\ declared T p <> []).
Proof.
  intros p T fl Hgd. pose proof (proj1 (enum_guard_spec p T) Hgd) as Hg. split.
  - intros [g Hgen]. destruct (generate_inv p T fl g Hgen) as [k [Hk [Heq Hne]]]. subst g.
    split; [exists k; exact Hk|]. intros Hnil. apply Hne.
    apply (names_nil_iff p T k fl Hg Hk). exact Hnil.
  - intros [[k Hk] Hne]. unfold generate. rewrite Hk.
    destruct (g_names (make_str p T k fl)) eqn:Hn; [|eexists; reflexivity].
    exfalso. apply Hne. apply (names_nil_iff p T k fl Hg Hk). exact Hn.
Qed.

(* the first declared name of a declared value exists and is a constant of that value *)
Lemma P_first_name : forall p T fl g n v,
  enum_guard p T = true -> generate p T fl = Some g -> In (n, v) (declared T p) ->
  exists n1, first_name (declared T p) v = Some n1 /\ In (n1, v) (declared T p)
             /\ ((forall n', In (n', v) (declared T p) -> n' = n) -> n1 = n).
Proof.
  intros p T fl g n v Hgd Hgen Hin. ctx Hgd Hgen k Hg Hk.
  destruct (first_name_declared p T n v Hin) as [n1 [Hf Hin1]].
  exists n1. split; [exact Hf|]. split; [exact Hin1|].
  intros Huniq. apply Huniq. exact Hin1.
Qed.

Lemma P_constant_to_name_and_back : forall p T fl g n v,
  enum_guard p T = true -> generate p T fl = Some g -> In (n, v) (declared T p) ->
  assoc_s (trim_prefix n T) (t_value_map (const_env p) g) = Some v
  /\ exists n1, first_name (declared T p) v = Some n1
       /\ assoc_z v (t_string_map (const_env p) g) = Some (trim_prefix n1 T)
       /\ str_of (const_env p) g v = trim_prefix n1 T
       /\ assoc_s (trim_prefix n1 T) (t_value_map (const_env p) g) = Some v.
Proof.
  intros p T fl g n v Hgd Hgen Hin. ctx Hgd Hgen k Hg Hk. split.
  - apply value_map_declared; assumption.
  - destruct (string_map_declared p T k fl Hg Hk n v Hin) as [n1 [Hf [Hin1 Hsm]]].
    exists n1. split; [exact Hf|]. split; [exact Hsm|]. split.
    + apply str_of_first; assumption.
    + apply value_map_declared; assumption.
Qed.

(* StringMap is exactly `value |-> trimmed first declared name` *)
Lemma P_string_map_exact : forall p T fl g x,
  enum_guard p T = true -> generate p T fl = Some g ->
  assoc_z x (t_string_map (const_env p) g)
  = option_map (fun n => trim_prefix n T) (first_name (declared T p) x).
Proof.
  intros p T fl g x Hgd Hgen. ctx Hgd Hgen k Hg Hk. apply string_map_total; assumption.
Qed.

Lemma P_maps_hold_only_declared : forall p T fl g,
  enum_guard p T = true -> generate p T fl = Some g ->
  (forall x s, assoc_z x (t_string_map (const_env p) g) = Some s ->
               exists n, In (n, x) (declared T p) /\ first_name (declared T p) x = Some n
                         /\ s = trim_prefix n T)
  /\ (forall s v, assoc_s s (t_value_map (const_env p) g) = Some v ->
                  exists n, In (n, v) (declared T p) /\ s = trim_prefix n T)
  /\ List.length (t_string_map (const_env p) g) = List.length (t_values (const_env p) g)
  /\ List.length (t_value_map (const_env p) g) = List.length (declared T p).
Proof.
  intros p T fl g Hgd Hgen. ctx Hgd Hgen k Hg Hk. split; [|split; [|split]].
  - intros x s. apply string_map_sound; assumption.
  - intros s v. apply value_map_sound; assumption.
  - unfold t_string_map, t_values. rewrite !map_length. reflexivity.
  - rewrite (value_map_eq p T k fl Hg Hk), map_length. apply Permutation_length, dsort_perm.
Qed.

Lemma P_values_strings_aligned : forall p T fl g,
  enum_guard p T = true -> generate p T fl = Some g ->
  List.length (t_values (const_env p) g) = List.length (t_strings g)
  /\ forall i v s,
       nth_error (t_values (const_env p) g) i = Some v -> nth_error (t_strings g) i = Some s ->
       exists n, In (n, v) (declared T p) /\ first_name (declared T p) v = Some n
                 /\ s = trim_prefix n T.
Proof.
  intros p T fl g Hgd Hgen. ctx Hgd Hgen k Hg Hk. split.
  - apply values_strings_length; assumption.
  - apply aligned_nth; assumption.
Qed.

Lemma P_values_ascending : forall p T fl g,
  enum_guard p T = true -> generate p T fl = Some g ->
  StronglySorted Z.lt (t_values (const_env p) g)
  /\ (forall x, In x (t_values (const_env p) g) <-> In x (map snd (declared T p)))
  /\ (NoDup (map snd (declared T p)) ->
      Permutation (t_values (const_env p) g) (map snd (declared T p))).
Proof.
  intros p T fl g Hgd Hgen. ctx Hgd Hgen k Hg Hk. split; [|split].
  - apply values_ascending; assumption.
  - apply values_in; assumption.
  - apply values_perm; assumption.
Qed.

Lemma P_is_valid_iff_declared : forall p T fl g x,
  enum_guard p T = true -> generate p T fl = Some g ->
  (is_valid (const_env p) g x = true <-> In x (map snd (declared T p))).
Proof.
  intros p T fl g x Hgd Hgen. ctx Hgd Hgen k Hg Hk. apply is_valid_spec; assumption.
Qed.

Lemma P_string_of_undeclared : forall p T fl g x,
  enum_guard p T = true -> generate p T fl = Some g -> f_bit fl = false ->
  ~ In x (map snd (declared T p)) -> str_of (const_env p) g x = dec x.
Proof.
  intros p T fl g x Hgd Hgen Hb Hnin. ctx Hgd Hgen k Hg Hk. apply str_of_undeclared; assumption.
Qed.

Lemma P_declared_in_range : forall p T fl g n v,
  enum_guard p T = true -> generate p T fl = Some g -> In (n, v) (declared T p) ->
  in_range (g_kind g) v = true.
Proof.
  intros p T fl g n v Hgd Hgen Hin. ctx Hgd Hgen k Hg Hk. cbn [g_kind make_str].
  pose proof (D_in_range p T k Hg Hk) as Hall. rewrite Forall_forall in Hall. exact (Hall (n, v) Hin).
Qed.

(* stale guard *)
Lemma P_guard_exact : forall p T fl g ce2,
  enum_guard p T = true -> generate p T fl = Some g ->
  (guard_ok ce2 g = true <->
   forall n v, In (n, v) (declared T p) -> exists c, lookup_c n ce2 = Some c /\ ce_val c = v).
Proof.
  intros p T fl g ce2 Hgd Hgen. ctx Hgd Hgen k Hg Hk. apply guard_ok_spec; assumption.
Qed.

Lemma P_stale_guard : forall p T fl g p2 n v b,
  enum_guard p T = true -> generate p T fl = Some g ->
  In (n, v) (declared T p) ->
  (forall c, lookup_c n (const_env p2) = Some c -> ce_val c <> v) ->
  compiles (const_env p2) g b = false.
Proof.
  intros p T fl g p2 n v b Hgd Hgen Hin Hch. ctx Hgd Hgen k Hg Hk.
  apply (stale_guard p T k fl Hg Hk (const_env p2) n v b Hin Hch).
Qed.

Lemma P_fresh_output_compiles : forall p T fl g,
  enum_guard p T = true -> generate p T fl = Some g ->
  compiles (const_env p) g false = true.
Proof.
  intros p T fl g Hgd Hgen. ctx Hgd Hgen k Hg Hk. apply fresh_compiles; assumption.
Qed.

(* ======================================================================= C12 *)

(* s is the trimmed name of a constant of type T *)
Definition declared_name (p : pkg) (T : string) (s : string) : Prop :=
  exists n v, In (n, v) (declared T p) /\ s = trim_prefix n T.

Lemma declared_name_eq : forall p T s, declared_name p T s <-> is_declared_name p T s.
Proof. intros. reflexivity. Qed.

Lemma P_declared_name_decidable : forall p T fl g s,
  enum_guard p T = true -> generate p T fl = Some g ->
  declared_name p T s \/ ~ declared_name p T s.
Proof.
  intros p T fl g s Hgd Hgen. ctx Hgd Hgen k Hg Hk.
  apply (is_declared_name_dec p T k fl Hg Hk).
Qed.

Lemma P_parse_enum : forall p T fl g,
  enum_guard p T = true -> generate p T fl = Some g ->
  (forall n v, In (n, v) (declared T p) ->
     parse_enum (const_env p) g (trim_prefix n T) = (v, None))
  /\ (forall s, ~ declared_name p T s -> parse_enum (const_env p) g s = (0, Some ENotFound))
  /\ (forall s v, parse_enum (const_env p) g s = (v, None) ->
        exists n, In (n, v) (declared T p) /\ s = trim_prefix n T).
Proof.
  intros p T fl g Hgd Hgen. ctx Hgd Hgen k Hg Hk. split; [|split].
  - intros n v Hin. apply parse_enum_hit; assumption.
  - intros s Hno. apply parse_enum_miss; assumption.
  - intros s v. apply parse_enum_ok_inv; assumption.
Qed.

(* ParseEnum agrees with the generated ValueMap() *)
Lemma P_parse_enum_agrees_value_map : forall p T fl g s,
  enum_guard p T = true -> generate p T fl = Some g ->
  (forall v, parse_enum (const_env p) g s = (v, None) <->
             assoc_s s (t_value_map (const_env p) g) = Some v)
  /\ (snd (parse_enum (const_env p) g s) <> None <->
      assoc_s s (t_value_map (const_env p) g) = None).
Proof.
  intros p T fl g s _ _. unfold parse_enum.
  destruct (assoc_s s (t_value_map (const_env p) g)) as [v'|]; split.
  - intros v. split; intros Heq; inversion Heq; reflexivity.
  - cbn. split; [intros Hne; exfalso; apply Hne; reflexivity | discriminate].
  - intros v. split; discriminate.
  - cbn. split; [reflexivity | discriminate].
Qed.

Lemma P_try_parse_enum : forall p T fl g tgt,
  enum_guard p T = true -> generate p T fl = Some g ->
  (forall n v, In (n, v) (declared T p) ->
     try_parse_enum (const_env p) g (trim_prefix n T) tgt = (true, v))
  /\ (forall s, ~ declared_name p T s -> try_parse_enum (const_env p) g s tgt = (false, tgt)).
Proof.
  intros p T fl g tgt Hgd Hgen. ctx Hgd Hgen k Hg Hk. split.
  - intros n v Hin. apply try_parse_hit; assumption.
  - intros s Hno. apply try_parse_miss; assumption.
Qed.

(* IsEnum[T, TV](x) for EVERY integer x: true iff x is a declared value / is in Values() *)
Lemma P_is_enum : forall p T fl g x,
  enum_guard p T = true -> generate p T fl = Some g ->
  (is_enum (const_env p) g x = true <-> In x (map snd (declared T p)))
  /\ (is_enum (const_env p) g x = true <-> In x (t_values (const_env p) g)).
Proof.
  intros p T fl g x Hgd Hgen. ctx Hgd Hgen k Hg Hk.
  pose proof (is_enum_spec p T k fl Hg Hk x) as Hspec.
  split; [exact Hspec|]. split.
  - intros Hx. apply (values_in p T k fl Hg Hk). apply Hspec. exact Hx.
  - intros Hx. apply Hspec. apply (values_in p T k fl Hg Hk). exact Hx.
Qed.

Lemma P_text_codec : forall p T fl g tgt,
  enum_guard p T = true -> generate p T fl = Some g ->
  (forall n v, In (n, v) (declared T p) ->
     (exists n1, first_name (declared T p) v = Some n1
                 /\ marshal_text (const_env p) g v = trim_prefix n1 T)
     /\ unmarshal_text (const_env p) g (marshal_text (const_env p) g v) tgt = (None, v)
     /\ unmarshal_text (const_env p) g (trim_prefix n T) tgt = (None, v))
  /\ (forall s, ~ declared_name p T s ->
        unmarshal_text (const_env p) g s tgt = (Some ENotFound, tgt)).
Proof.
  intros p T fl g tgt Hgd Hgen. ctx Hgd Hgen k Hg Hk. split.
  - intros n v Hin. split; [|split].
    + destruct (str_of_declared p T k fl Hg Hk n v Hin) as [n1 [Hf [_ Hs]]].
      exists n1. split; [exact Hf | exact Hs].
    + apply (text_roundtrip p T k fl Hg Hk n v tgt Hin).
    + apply (text_accepts p T k fl Hg Hk n v tgt Hin).
  - intros s Hno. apply text_rejects; assumption.
Qed.

Lemma P_sql_codec : forall p T fl g tgt,
  enum_guard p T = true -> generate p T fl = Some g ->
  (forall n v, In (n, v) (declared T p) ->
     (exists n1, first_name (declared T p) v = Some n1
                 /\ sql_value (const_env p) g v = SStr (trim_prefix n1 T))
     /\ scan (const_env p) g (sql_value (const_env p) g v) tgt = (None, v)
     /\ scan (const_env p) g (SBytes (trim_prefix n T)) tgt = (None, v)
     /\ scan (const_env p) g (SStr (trim_prefix n T)) tgt = (None, v))
  /\ (forall s, ~ declared_name p T s ->
        scan (const_env p) g (SBytes s) tgt = (Some ENotFound, tgt)
        /\ scan (const_env p) g (SStr s) tgt = (Some ENotFound, tgt))
  /\ (forall sv, (forall s, sv <> SBytes s) -> (forall s, sv <> SStr s) ->
        scan (const_env p) g sv tgt = (Some EBadType, tgt)).
Proof.
  intros p T fl g tgt Hgd Hgen. ctx Hgd Hgen k Hg Hk. split; [|split].
  - intros n v Hin. split; [|split].
    + destruct (str_of_declared p T k fl Hg Hk n v Hin) as [n1 [Hf [_ Hs]]].
      exists n1. split; [exact Hf|]. unfold sql_value. rewrite Hs. reflexivity.
    + apply (sql_roundtrip p T k fl Hg Hk n v tgt Hin).
    + apply (scan_accepts p T k fl Hg Hk n v tgt Hin).
  - intros s Hno. apply scan_rejects_name; assumption.
  - intros sv Hno1 Hno2. apply scan_rejects_type; assumption.
Qed.

(* encoding/json enters as two functions: jenc = json.Marshal of a Go string, jdec =
   json.Unmarshal into a *string (None = error).  Rejection and acceptance hold for an
   ARBITRARY decoder; only the round trip needs the decoder to invert the encoder, and
   only on the declared (trimmed) names -- identifiers, which encoding/json round-trips. *)
Lemma P_json_decode : forall (jdec : string -> option string) p T fl g tgt,
  enum_guard p T = true -> generate p T fl = Some g ->
  (forall data, jdec data = None ->
      unmarshal_json (const_env p) g jdec data tgt = (Some ENotString, tgt))
  /\ (forall data s, jdec data = Some s -> ~ declared_name p T s ->
        unmarshal_json (const_env p) g jdec data tgt = (Some ENotFound, tgt))
  /\ (forall data, jdec data = Some "" ->
        unmarshal_json (const_env p) g jdec data tgt = (Some ENotFound, tgt))
  /\ (forall data n v, jdec data = Some (trim_prefix n T) -> In (n, v) (declared T p) ->
        unmarshal_json (const_env p) g jdec data tgt = (None, v)).
Proof.
  intros jdec p T fl g tgt Hgd Hgen. ctx Hgd Hgen k Hg Hk. split; [|split; [|split]].
  - intros data Hd. apply json_rejects_nonstring; assumption.
  - intros data s Hd Hno. apply (json_rejects_name p T k fl Hg Hk jdec data s tgt Hd Hno).
  - intros data Hd. apply (json_rejects_name p T k fl Hg Hk jdec data "" tgt Hd).
    apply (empty_not_declared p T k Hg Hk).
  - intros data n v Hd Hin. apply (json_accepts p T k fl Hg Hk jdec data n v tgt Hd Hin).
Qed.

Lemma P_json_roundtrip : forall (jenc : string -> string) (jdec : string -> option string) p T fl g tgt,
  enum_guard p T = true -> generate p T fl = Some g ->
  (forall n v, In (n, v) (declared T p) -> jdec (jenc (trim_prefix n T)) = Some (trim_prefix n T)) ->
  forall n v, In (n, v) (declared T p) ->
    (exists n1, first_name (declared T p) v = Some n1
                /\ marshal_json (const_env p) g jenc v = jenc (trim_prefix n1 T))
    /\ unmarshal_json (const_env p) g jdec (marshal_json (const_env p) g jenc v) tgt = (None, v).
Proof.
  intros jenc jdec p T fl g tgt Hgd Hgen Hlaw n v Hin. ctx Hgd Hgen k Hg Hk.
  destruct (str_of_declared p T k fl Hg Hk n v Hin) as [n1 [Hf [Hin1 Hs]]]. split.
  - exists n1. split; [exact Hf|]. unfold marshal_json. rewrite Hs. reflexivity.
  - unfold marshal_json. rewrite Hs. apply (json_accepts p T k fl Hg Hk jdec _ n1 v tgt).
    + apply (Hlaw n1 v Hin1).
    + exact Hin1.
Qed.

(* ======================================================================= C14 *)

Lemma name_of_first : forall p T k fl n1 v,
  guarded p T -> kind_of_type p T = Some k -> first_name (declared T p) v = Some n1 ->
  name_of (const_env p) (make_str p T k fl) v = trim_prefix n1 T.
Proof.
  intros p T k fl n1 v Hg Hk Hf. unfold name_of.
  rewrite (string_map_total p T k fl Hg Hk v), Hf. reflexivity.
Qed.

(* String() of a union of declared single-bit flags whose union is not itself
   declared: their names (the first declared name of each flag) in ascending
   flag order, joined by ", " *)
Lemma P_bit_string_union : forall p T fl g (names : list string) (S : list Z),
  enum_guard p T = true -> generate p T fl = Some g -> f_bit fl = true ->
  Forall (fun v => 0 <= v) (map snd (declared T p)) ->
  S <> [] -> StronglySorted Z.lt S -> Forall single_bit S ->
  Forall2 (fun n s => first_name (declared T p) s = Some n) names S ->
  ~ In (lor_all S) (map snd (declared T p)) ->
  str_of (const_env p) g (lor_all S) = join ", " (map (fun n => trim_prefix n T) names).
Proof.
  intros p T fl g names S Hgd Hgen Hbit Hnn Hne Hsorted Hsb Hnames Hnot.
  ctx Hgd Hgen k Hg Hk.
  assert (Hincl : incl S (t_values (const_env p) (make_str p T k fl))).
  { intros s Hs. apply (values_in p T k fl Hg Hk).
    clear - Hnames Hs Hg Hk. induction Hnames as [|n s' names S' Hh Ht IH]; [destruct Hs|].
    destruct Hs as [Heq|Hs].
    - subst s'. change s with (snd (n, s)). apply in_map.
      apply (first_name_sound p T). exact Hh.
    - apply IH. exact Hs. }
  rewrite (str_of_union (const_env p) (make_str p T k fl) S); try assumption.
  - f_equal. clear - Hnames Hg Hk.
    induction Hnames as [|n s names S' Hh Ht IH]; [reflexivity|].
    simpl. rewrite IH. f_equal. apply name_of_first; assumption.
  - apply values_ascending; assumption.
  - apply Forall_forall. intros v Hv. apply (values_in p T k fl Hg Hk) in Hv.
    rewrite Forall_forall in Hnn. apply Hnn. exact Hv.
  - intros Hin. apply Hnot. apply (values_in p T k fl Hg Hk). exact Hin.
Qed.

(* anything else: decimal *)
Lemma P_bit_string_other : forall p T fl g x,
  enum_guard p T = true -> generate p T fl = Some g ->
  bits_declared (map snd (declared T p)) ->
  ~ In x (map snd (declared T p)) ->
  (x < 0 \/ x = 0 \/ exists i, 0 <= i /\ Z.testbit x i = true /\ ~ In (2 ^ i) (map snd (declared T p))) ->
  str_of (const_env p) g x = dec x.
Proof.
  intros p T fl g x Hgd Hgen [Hnn Hbd] Hnot Hcase. ctx Hgd Hgen k Hg Hk.
  assert (Hnot' : ~ In x (t_values (const_env p) (make_str p T k fl))).
  { intros Hin. apply Hnot. apply (values_in p T k fl Hg Hk). exact Hin. }
  destruct Hcase as [Hneg | [Hz | [i [Hi [Hb Hund]]]]].
  - apply str_of_negative; assumption.
  - subst x. apply str_of_zero. exact Hnot'.
  - apply (str_of_undeclared_bit (const_env p) (make_str p T k fl) x i); try assumption.
    + split.
      * apply Forall_forall. intros v Hv. apply (values_in p T k fl Hg Hk) in Hv.
        rewrite Forall_forall in Hnn. apply Hnn. exact Hv.
      * intros v j Hv Hj Hbit. apply (values_in p T k fl Hg Hk).
        apply (Hbd v j); [apply (values_in p T k fl Hg Hk); exact Hv | exact Hj | exact Hbit].
    + intros Hin. apply Hund. apply (values_in p T k fl Hg Hk). exact Hin.
Qed.

(* the three cases (declared / union of declared single bits / other) are exhaustive *)
Lemma P_bit_cases : forall p T fl g x,
  enum_guard p T = true -> generate p T fl = Some g ->
  bits_declared (map snd (declared T p)) ->
  In x (map snd (declared T p))
  \/ x < 0 \/ x = 0
  \/ (exists names S, S <> [] /\ StronglySorted Z.lt S /\ Forall single_bit S /\
                      Forall2 (fun n s => first_name (declared T p) s = Some n) names S /\ x = lor_all S)
  \/ (exists i, 0 <= i /\ Z.testbit x i = true /\ ~ In (2 ^ i) (map snd (declared T p))).
Proof.
  intros p T fl g x Hgd Hgen Hbd. ctx Hgd Hgen k Hg Hk.
  destruct (Z_lt_le_dec x 0) as [Hneg|Hx]; [right; left; exact Hneg|].
  assert (Hbd' : bits_declared (t_values (const_env p) (make_str p T k fl))).
  { destruct Hbd as [Hnn Hb]. split.
    - apply Forall_forall. intros v Hv. apply (values_in p T k fl Hg Hk) in Hv.
      rewrite Forall_forall in Hnn. apply Hnn. exact Hv.
    - intros v j Hv Hj Hbit. apply (values_in p T k fl Hg Hk).
      apply (Hb v j); [apply (values_in p T k fl Hg Hk); exact Hv | exact Hj | exact Hbit]. }
  destruct (bit_cases (const_env p) (make_str p T k fl) x Hbd'
                      (values_ascending p T k fl Hg Hk) Hx)
    as [Hin | [Hz | [[S [Hne [Hs [Hsb [Hincl Hx']]]]] | [i [Hi [Hb Hund]]]]]].
  - left. apply (values_in p T k fl Hg Hk). exact Hin.
  - right. right. left. exact Hz.
  - right. right. right. left.
    assert (Hex : exists names, Forall2 (fun n s => first_name (declared T p) s = Some n) names S).
    { clear - Hincl Hg Hk. induction S as [|s S IH]; [exists []; constructor|].
      destruct IH as [names Hn]; [intros z Hz; apply Hincl; right; exact Hz|].
      assert (Hs : In s (map snd (declared T p))).
      { apply (values_in p T k fl Hg Hk). apply Hincl. left. reflexivity. }
      apply in_map_iff in Hs. destruct Hs as [[n v] [Hv Hin]]. cbn in Hv. subst v.
      destruct (first_name_declared p T n s Hin) as [n1 [Hf _]].
      exists (n1 :: names). constructor; assumption. }
    destruct Hex as [names Hn]. exists names, S. repeat split; assumption.
  - right. right. right. right. exists i. repeat split; try assumption.
    intros Hin. apply Hund. apply (values_in p T k fl Hg Hk). exact Hin.
Qed.
