(* Value-level lemmas about get_path / set_path (Model/MapperEval.v): a path
   operation panics only at a nil value strictly above the end of the path, and
   writing at a path changes the nil-status of no position outside it. *)
From Coq Require Import String Ascii List Bool Arith Lia.
From Shoot Require Import Base.Str Model.MapVal Model.Mapper Model.MapperEval.
Import ListNotations.
Local Open Scope string_scope.
Local Open Scope list_scope.

Lemma assoc_set_same n x fs old : assoc_val n fs = Some old -> assoc_val n (assoc_set n x fs) = Some x.
Proof.
  induction fs as [|[m v] fs IH]; simpl; [discriminate|].
  destruct (String.eqb n m) eqn:E; simpl; rewrite E; auto.
Qed.

Lemma assoc_set_other n m x fs : m <> n -> assoc_val m (assoc_set n x fs) = assoc_val m fs.
Proof.
  intros N. induction fs as [|[k v] fs IH]; simpl; auto.
  destruct (String.eqb n k) eqn:E; simpl.
  - apply String.eqb_eq in E. subst k. destruct (String.eqb m n) eqn:E2; auto.
    apply String.eqb_eq in E2. congruence.
  - destruct (String.eqb m k); auto.
Qed.

(* the struct a path step looks into *)
Definition as_struct (v : val) : option (list (string * val)) :=
  match v with
  | VStruct fs => Some fs
  | VPtr (VStruct fs) => Some fs
  | _ => None
  end.

Lemma get_path_cons v n r :
  get_path v (n :: r) =
  match as_struct v with
  | Some fs => match assoc_val n fs with Some x => get_path x r | None => Stuck end
  | None => match v with VNil => Panic | _ => Stuck end
  end.
Proof. destruct v as [| | | |x| | |]; simpl; auto. destruct x; auto. Qed.

Lemma get_path_app v p q : get_path v (p ++ q) = bind (get_path v p) (fun x => get_path x q).
Proof.
  revert v. induction p as [|n p IH]; intros v; [reflexivity|].
  rewrite <- app_comm_cons. rewrite !get_path_cons. destruct (as_struct v) as [fs|].
  - destruct (assoc_val n fs); auto.
  - destruct v; auto.
Qed.

(* a read panics only below a nil value *)
Lemma get_path_panic : forall p v, get_path v p = Panic ->
  exists q r, p = q ++ r /\ r <> [] /\ get_path v q = Ok VNil.
Proof.
  induction p as [|n p IH]; intros v H; [discriminate|].
  rewrite get_path_cons in H. destruct (as_struct v) as [fs|] eqn:A.
  - destruct (assoc_val n fs) as [x|] eqn:B; [|discriminate].
    destruct (IH x H) as (q & r & E & R & G). exists (n :: q), r. subst p. repeat split; auto.
    rewrite get_path_cons, A, B. exact G.
  - destruct v; try discriminate. exists [], (n :: p). repeat split; auto. discriminate.
Qed.

Lemma set_path_cons v n r x :
  set_path v (n :: r) x =
  match v with
  | VStruct fs => match assoc_val n fs with
                  | Some old => bind (set_path old r x) (fun new => Ok (VStruct (assoc_set n new fs)))
                  | None => Stuck end
  | VPtr (VStruct fs) => match assoc_val n fs with
                         | Some old => bind (set_path old r x) (fun new => Ok (VPtr (VStruct (assoc_set n new fs))))
                         | None => Stuck end
  | VNil => Panic
  | _ => Stuck
  end.
Proof. destruct v as [| | | |y| | |]; simpl; auto. Qed.

(* a write panics only below a nil value *)
Lemma set_path_panic : forall p v x, set_path v p x = Panic ->
  exists q r, p = q ++ r /\ r <> [] /\ get_path v q = Ok VNil.
Proof.
  induction p as [|n p IH]; intros v x H; [discriminate|].
  rewrite set_path_cons in H.
  assert (K : forall fs, (match assoc_val n fs with
                          | Some old => bind (set_path old p x) (fun new => Ok (VStruct (assoc_set n new fs)))
                          | None => Stuck end = Panic
                          \/ match assoc_val n fs with
                          | Some old => bind (set_path old p x) (fun new => Ok (VPtr (VStruct (assoc_set n new fs))))
                          | None => Stuck end = Panic) ->
                         exists old, assoc_val n fs = Some old /\ set_path old p x = Panic).
  { intros fs. destruct (assoc_val n fs) as [old|]; [|intros [?|?]; discriminate].
    intros HH. exists old. split; auto. destruct (set_path old p x); simpl in HH; auto; destruct HH; discriminate. }
  destruct v as [| | | |y| fs | |]; try discriminate.
  - exists [], (n :: p). repeat split; auto. discriminate.
  - destruct y as [| | | | | fs | |]; try discriminate.
    destruct (K fs (or_intror H)) as (old & A & B).
    destruct (IH old x B) as (q & r & E & R & G). exists (n :: q), r. subst p. repeat split; auto.
    rewrite get_path_cons. simpl. rewrite A. exact G.
  - destruct (K fs (or_introl H)) as (old & A & B).
    destruct (IH old x B) as (q & r & E & R & G). exists (n :: q), r. subst p. repeat split; auto.
    rewrite get_path_cons. simpl. rewrite A. exact G.
Qed.

(* frame: outside the written path nothing becomes or stops being nil *)
Lemma set_path_frame : forall p v x v', set_path v p x = Ok v' ->
  forall q, path_prefix p q = false -> (get_path v' q = Ok VNil <-> get_path v q = Ok VNil).
Proof.
  induction p as [|n p IH]; intros v x v' H q Hq; [discriminate|].
  rewrite set_path_cons in H.
  assert (K : forall fs (wrap : list (string * val) -> val),
             (forall l, as_struct (wrap l) = Some l) -> (forall l, wrap l <> VNil) ->
             as_struct v = Some fs -> v <> VNil ->
             match assoc_val n fs with
             | Some old => bind (set_path old p x) (fun new => Ok (wrap (assoc_set n new fs)))
             | None => Stuck end = Ok v' ->
             get_path v' q = Ok VNil <-> get_path v q = Ok VNil).
  { intros fs wrap W1 W2 A NV HH.
    destruct (assoc_val n fs) as [old|] eqn:B; [|discriminate].
    destruct (set_path old p x) as [new| |] eqn:S; simpl in HH; try discriminate.
    inversion HH; subst v'; clear HH.
    destruct q as [|m q].
    - simpl. split; intros X; inversion X; [exfalso; eapply W2; eauto | congruence].
    - rewrite !get_path_cons, W1, A. simpl in Hq.
      destruct (String.eqb n m) eqn:E.
      + apply String.eqb_eq in E. subst m. rewrite (assoc_set_same _ _ _ _ B), B.
        simpl in Hq. apply (IH _ _ _ S). exact Hq.
      + rewrite assoc_set_other; [tauto|]. intros ->. rewrite String.eqb_refl in E. discriminate. }
  destruct v as [| | | |y| fs | |]; try discriminate.
  - destruct y as [| | | | | fs | |]; try discriminate.
    apply (K fs (fun l => VPtr (VStruct l))); auto; discriminate.
  - apply (K fs (fun l => VStruct l)); auto; discriminate.
Qed.

Lemma get_set_same : forall p v x v', set_path v p x = Ok v' -> get_path v' p = Ok x.
Proof.
  induction p as [|n p IH]; intros v x v' H.
  - simpl in H. inversion H. reflexivity.
  - rewrite set_path_cons in H.
    destruct v as [| | | |y| fs | |]; try discriminate.
    + destruct y as [| | | | | fs | |]; try discriminate.
      destruct (assoc_val n fs) as [old|] eqn:B; [|discriminate].
      destruct (set_path old p x) as [new| |] eqn:S; simpl in H; try discriminate. inversion H; subst.
      rewrite get_path_cons. simpl. rewrite (assoc_set_same _ _ _ _ B). eapply IH; eauto.
    + destruct (assoc_val n fs) as [old|] eqn:B; [|discriminate].
      destruct (set_path old p x) as [new| |] eqn:S; simpl in H; try discriminate. inversion H; subst.
      rewrite get_path_cons. simpl. rewrite (assoc_set_same _ _ _ _ B). eapply IH; eauto.
Qed.
