(* Refinement: shoot's shadow flag agrees with Go's selector rule [resolve].

   level_raw_top : the entries of name f at depth n, in list order, are exactly
                   the candidates of [resolve] at depth n (the raw depth-first
                   list restricted to one depth IS the breadth-first level)
   shadow_refines_selector : an entry is unshadowed iff resolve returns its path *)
From Coq Require Import String Ascii List Bool Arith Lia.
From Shoot Require Import Base.Str Base.GoVal Model.Transfer Model.CtorDirective Model.Ctor Model.CtorSpec.
From Shoot Require Import Proofs.GoValProofs Proofs.CtorFlattenProofs.
Import ListNotations.
Local Open Scope list_scope.

(* ------------------------------------------------ induction principle for ty *)
Section TyInd.
  Variable P : ty -> Prop.
  Hypothesis HBasic : forall n, P (TBasic n).
  Hypothesis HPtr : forall t, P t -> P (TPtr t).
  Hypothesis HSlice : forall t, P t -> P (TSlice t).
  Hypothesis HMap : forall k v, P k -> P v -> P (TMap k v).
  Hypothesis HNamed : forall pkg n args, Forall P args -> P (TNamed pkg n args).
  Hypothesis HParam : forall n, P (TParam n).
  Fixpoint ty_ind' (t : ty) : P t :=
    match t with
    | TBasic n => HBasic n
    | TPtr t' => HPtr t' (ty_ind' t')
    | TSlice t' => HSlice t' (ty_ind' t')
    | TMap k v => HMap k v (ty_ind' k) (ty_ind' v)
    | TNamed pkg n args =>
        HNamed pkg n args
          ((fix go (l : list ty) : Forall P l :=
              match l with
              | [] => Forall_nil P
              | x :: r => Forall_cons x (ty_ind' x) (go r)
              end) args)
    | TParam n => HParam n
    end.
End TyInd.

Lemma assoc_combine_self : forall ns n,
  assoc n (combine ns (map TParam ns)) = None \/ assoc n (combine ns (map TParam ns)) = Some (TParam n).
Proof.
  induction ns as [|a ns IH]; intros n; simpl; auto.
  destruct (String.eqb n a) eqn:E; auto.
  apply String.eqb_eq in E. subst. auto.
Qed.

Lemma subst_self : forall ns t, subst (combine ns (map TParam ns)) t = t.
Proof.
  intros ns t. induction t using ty_ind'; simpl; try congruence.
  - f_equal. induction H; simpl; congruence.
  - destruct (assoc_combine_self ns n) as [E|E]; rewrite E; reflexivity.
Qed.

(* ------------------------------------------------------- levels over field lists *)
Fixpoint level_fields (pkg : pkg_spec) (n : nat) (fs : list tfield) (pre : path) : list (path * tfield) :=
  match n with
  | O => map (fun tf => (pre ++ [fst (fst tf)], tf)) fs
  | S n' =>
      flat_map (fun tf : tfield => let '(nm, ft, emb) := tf in
        if emb then match struct_of pkg ft with
                    | Some si' => level_fields pkg n' (struct_fields si') (pre ++ [nm])
                    | None => []
                    end
        else []) fs
  end.

Lemma level_is_fields : forall pkg n si pre, level pkg n si pre = level_fields pkg n (struct_fields si) pre.
Proof.
  intros pkg n. induction n as [|n IH]; intros si pre; simpl; auto.
  apply flat_map_ext. intros [[nm ft] emb]. destruct emb; auto.
  destruct (struct_of pkg ft); auto.
Qed.

Lemma level_fields_cons : forall pkg n x fs pre,
  level_fields pkg n (x :: fs) pre = level_fields pkg n [x] pre ++ level_fields pkg n fs pre.
Proof.
  intros pkg n x fs pre. destruct n; simpl; auto. rewrite app_nil_r. reflexivity.
Qed.

Lemma level_fields_app : forall pkg n a b pre,
  level_fields pkg n (a ++ b) pre = level_fields pkg n a pre ++ level_fields pkg n b pre.
Proof.
  intros pkg n a b pre. destruct n; simpl.
  - apply map_app.
  - apply flat_map_app.
Qed.

(* ------------------------------------------------------ facts about raw lists *)
Lemma raw_depth_ge : forall pkg fuel depth pre t is_new l,
  raw_type pkg fuel depth pre t is_new = Some l -> forall e, In e l -> depth <= f_depth e.
Proof.
  intros pkg fuel. induction fuel as [|fuel IH]; intros depth pre t is_new l H; rewrite raw_type_unfold in H.
  - destruct (struct_of pkg t); inversion H; subst. intros e [].
  - destruct (struct_of pkg t) as [si|]; [|inversion H; subst; intros e []].
    set (e0 := embedded_entry t depth pre) in *.
    assert (G : forall fs l', raw_fields pkg fuel (S depth) (f_path e0) is_new fs = Some l' ->
                              forall e, In e l' -> S depth <= f_depth e).
    { induction fs as [|[[n ft] emb] fs IHfs]; intros l' H'.
      - inversion H'; subst. intros e [].
      - rewrite raw_fields_cons in H'. destruct emb.
        + destruct (raw_type pkg fuel (S depth) (f_path e0) ft is_new) as [a|] eqn:Ea; [|discriminate].
          destruct (raw_fields pkg fuel (S depth) (f_path e0) is_new fs) as [b|] eqn:Eb; [|discriminate].
          inversion H'; subst. intros e He. apply in_app_or in He. destruct He as [He|He].
          * eapply IH; eauto.
          * eapply IHfs; eauto.
        + destruct (raw_fields pkg fuel (S depth) (f_path e0) is_new fs) as [b|] eqn:Eb; [|discriminate].
          inversion H'; subst. intros e [He|He]; [subst; simpl; lia|eapply IHfs; eauto]. }
    destruct (raw_fields pkg fuel (S depth) (f_path e0) is_new (struct_fields si)) as [l'|] eqn:E; [|discriminate].
    inversion H; subst. intros e [He|He].
    + subst e. unfold e0, embedded_entry. destruct (qualified_name t). simpl. lia.
    + specialize (G _ _ E e He). lia.
Qed.

Lemma raw_fields_depth_ge : forall pkg fuel depth pre is_new fs l,
  raw_fields pkg fuel depth pre is_new fs = Some l -> forall e, In e l -> depth <= f_depth e.
Proof.
  intros pkg fuel depth pre is_new fs. induction fs as [|[[n ft] emb] fs IH]; intros l H.
  - inversion H; subst. intros e [].
  - rewrite raw_fields_cons in H. destruct emb.
    + destruct (raw_type pkg fuel depth pre ft is_new) as [a|] eqn:Ea; [|discriminate].
      destruct (raw_fields pkg fuel depth pre is_new fs) as [b|] eqn:Eb; [|discriminate].
      inversion H; subst. intros e He. apply in_app_or in He. destruct He as [He|He].
      * eapply raw_depth_ge; eauto.
      * eapply IH; eauto.
    + destruct (raw_fields pkg fuel depth pre is_new fs) as [b|] eqn:Eb; [|discriminate].
      inversion H; subst. intros e [He|He]; [subst; simpl; lia|eapply IH; eauto].
Qed.

Lemma embedded_entry_name : forall t d pre, f_name (embedded_entry t d pre) = short_name t.
Proof. intros. unfold embedded_entry. destruct (qualified_name t). reflexivity. Qed.
Lemma embedded_entry_depth : forall t d pre, f_depth (embedded_entry t d pre) = d.
Proof. intros. unfold embedded_entry. destruct (qualified_name t). reflexivity. Qed.
Lemma embedded_entry_path : forall t d pre, f_path (embedded_entry t d pre) = pre ++ [short_name t].
Proof. intros. unfold embedded_entry. destruct (qualified_name t). reflexivity. Qed.
Lemma embedded_entry_emb : forall t d pre, f_embedded (embedded_entry t d pre) = true.
Proof. intros. unfold embedded_entry. destruct (qualified_name t). reflexivity. Qed.
Lemma embedded_entry_ty : forall t d pre, f_ty (embedded_entry t d pre) = t.
Proof. intros. unfold embedded_entry. destruct (qualified_name t). reflexivity. Qed.
(* the selection of the entries of one name at one depth *)
Definition nd (f : ident) (d : nat) (e : field) : bool := String.eqb (f_name e) f && Nat.eqb (f_depth e) d.
Definition named (f : ident) (c : path * tfield) : bool := String.eqb (fst (fst (snd c))) f.

(* embedded fields are named by their type *)
Definition emb_named (fs : list tfield) : Prop :=
  forall nm ft, In (nm, ft, true) fs -> nm = short_name ft.

Lemma struct_fields_emb_named : forall si, emb_named (struct_fields si).
Proof.
  intros [sd args] nm ft H. unfold struct_fields in H. apply in_flat_map in H.
  destruct H as [fd [_ H]]. destruct (fd_names fd) eqn:E.
  - simpl in H. destruct H as [H|[]]. inversion H; subst. reflexivity.
  - apply in_map_iff in H. destruct H as [x [H _]]. inversion H.
Qed.

Lemma emb_named_tail : forall x fs, emb_named (x :: fs) -> emb_named fs.
Proof. intros x fs H nm ft Hin. apply H. right. exact Hin. Qed.

Lemma filter_nd_none : forall f d l, (forall e, In e l -> f_depth e <> d) -> filter (nd f d) l = [].
Proof.
  intros f d l H. induction l as [|e l IH]; simpl; auto.
  unfold nd at 1. destruct (Nat.eqb (f_depth e) d) eqn:E.
  - apply Nat.eqb_eq in E. exfalso. apply (H e); [left; auto|exact E].
  - rewrite andb_false_r. apply IH. intros e' He'. apply H. right. auto.
Qed.

(* guard: embedded fields met up to level n are structs *)
Definition emb_ok (pkg : pkg_spec) (o : path * tfield) : Prop :=
  occ_emb o = true -> struct_of pkg (occ_ty o) <> None.
Definition levels_ok (pkg : pkg_spec) (n : nat) (fs : list tfield) (pre : path) : Prop :=
  forall j o, j <= n -> In o (level_fields pkg j fs pre) -> emb_ok pkg o.

Lemma levels_ok_tail : forall pkg n x fs pre, levels_ok pkg n (x :: fs) pre -> levels_ok pkg n fs pre.
Proof.
  intros pkg n x fs pre H j o Hj Hin. apply (H j o Hj).
  rewrite level_fields_cons. apply in_or_app. right. exact Hin.
Qed.

Lemma levels_ok_child : forall pkg n nm ft fs pre si,
  levels_ok pkg (S n) ((nm, ft, true) :: fs) pre -> struct_of pkg ft = Some si ->
  levels_ok pkg n (struct_fields si) (pre ++ [nm]).
Proof.
  intros pkg n nm ft fs pre si H Hs j o Hj Hin. apply (H (S j) o); [lia|].
  rewrite level_fields_cons. apply in_or_app. left. simpl. rewrite Hs, app_nil_r. exact Hin.
Qed.

(* the raw depth-first list restricted to one name and one depth is the level *)
Lemma level_raw_fields : forall pkg n fuel depth pre is_new fs l f,
  raw_fields pkg fuel depth pre is_new fs = Some l ->
  emb_named fs -> levels_ok pkg n fs pre ->
  map f_path (filter (nd f (depth + n)) l) = map fst (filter (named f) (level_fields pkg n fs pre)).
Proof.
  unfold named. intros pkg n. induction n as [|n IHn]; intros fuel depth pre is_new fs.
  - (* level 0: the direct fields *)
    induction fs as [|[[nm ft] emb] fs IH]; intros l f H EN OK.
    + inversion H; subst. reflexivity.
    + rewrite raw_fields_cons in H.
      assert (OKt := levels_ok_tail _ _ _ _ _ OK). assert (ENt := emb_named_tail _ _ EN).
      rewrite Nat.add_0_r in *.
      destruct emb.
      * assert (Hnm : nm = short_name ft) by (apply EN; left; reflexivity).
        destruct (raw_type pkg fuel depth pre ft is_new) as [a|] eqn:Ea; [|discriminate].
        destruct (raw_fields pkg fuel depth pre is_new fs) as [b|] eqn:Eb; [|discriminate].
        inversion H; subst l. rewrite filter_app, map_app.
        specialize (IH b f eq_refl ENt). rewrite (IH OKt).
        cbn [level_fields map filter fst snd].
        rewrite raw_type_unfold in Ea.
        destruct (struct_of pkg ft) as [si|] eqn:Es.
        -- destruct fuel as [|fuel']; [discriminate|].
           destruct (raw_fields pkg fuel' (S depth) (f_path (embedded_entry ft depth pre)) is_new (struct_fields si)) as [l'|] eqn:El; [|discriminate].
           inversion Ea; subst a. cbn [filter]. unfold nd at 1.
           rewrite embedded_entry_name, embedded_entry_depth, Nat.eqb_refl, andb_true_r.
           rewrite filter_nd_none.
           2:{ intros e He. pose proof (raw_fields_depth_ge _ _ _ _ _ _ _ El e He). lia. }
           subst nm. destruct (String.eqb (short_name ft) f); cbn [map app fst];
             rewrite ?embedded_entry_path; reflexivity.
        -- exfalso. apply (OK 0 (pre ++ [nm], (nm, ft, true))); [lia| |reflexivity|exact Es].
           simpl. left. reflexivity.
      * destruct (raw_fields pkg fuel depth pre is_new fs) as [b|] eqn:Eb; [|discriminate].
        inversion H; subst l.
        specialize (IH b f eq_refl ENt).
        cbn [level_fields map filter app fst snd]. unfold nd at 1. cbn [f_name f_depth promoted_entry].
        rewrite Nat.eqb_refl, andb_true_r.
        destruct (String.eqb nm f); cbn [map fst f_path promoted_entry]; rewrite (IH OKt); reflexivity.
  - (* level n+1: inside the embedded structs *)
    induction fs as [|[[nm ft] emb] fs IH]; intros l f H EN OK.
    + inversion H; subst. reflexivity.
    + rewrite raw_fields_cons in H.
      assert (OKt := levels_ok_tail _ _ _ _ _ OK). assert (ENt := emb_named_tail _ _ EN).
      destruct emb.
      * assert (Hnm : nm = short_name ft) by (apply EN; left; reflexivity).
        destruct (raw_type pkg fuel depth pre ft is_new) as [a|] eqn:Ea; [|discriminate].
        destruct (raw_fields pkg fuel depth pre is_new fs) as [b|] eqn:Eb; [|discriminate].
        inversion H; subst l. rewrite filter_app, map_app.
        rewrite (IH b f eq_refl ENt OKt).
        rewrite (level_fields_cons pkg (S n) (nm, ft, true) fs pre), filter_app, map_app. f_equal.
        cbn [level_fields flat_map]. rewrite app_nil_r.
        rewrite raw_type_unfold in Ea.
        destruct (struct_of pkg ft) as [si|] eqn:Es.
        -- destruct fuel as [|fuel']; [discriminate|].
           destruct (raw_fields pkg fuel' (S depth) (f_path (embedded_entry ft depth pre)) is_new (struct_fields si)) as [l'|] eqn:El; [|discriminate].
           inversion Ea; subst a. cbn [filter]. unfold nd at 1.
           rewrite embedded_entry_depth.
           replace (Nat.eqb depth (depth + S n)) with false by (symmetry; apply Nat.eqb_neq; lia).
           rewrite andb_false_r.
           replace (depth + S n) with (S depth + n) by lia.
           rewrite embedded_entry_path in El. subst nm.
           apply (IHn fuel' (S depth) (pre ++ [short_name ft]) is_new (struct_fields si) l' f El).
           ++ apply struct_fields_emb_named.
           ++ eapply levels_ok_child; eauto.
        -- inversion Ea; subst a. reflexivity.
      * destruct (raw_fields pkg fuel depth pre is_new fs) as [b|] eqn:Eb; [|discriminate].
        inversion H; subst l.
        rewrite (level_fields_cons pkg (S n) (nm, ft, false) fs pre).
        cbn [level_fields flat_map app filter]. unfold nd at 1. cbn [f_depth promoted_entry].
        replace (Nat.eqb depth (depth + S n)) with false by (symmetry; apply Nat.eqb_neq; lia).
        rewrite andb_false_r. apply (IH b f eq_refl ENt OKt).
Qed.

(* ---------------------------------------------------------------- top level *)
Definition tfields_of_decl (fd : fdecl) : list tfield :=
  match fd_names fd with
  | [] => [(short_name (fd_ty fd), fd_ty fd, true)]
  | ns => map (fun n => (n, fd_ty fd, false)) ns
  end.
Definition top_tfields (sd : sdecl) : list tfield := flat_map tfields_of_decl (sd_fields sd).

Lemma struct_fields_self : forall sd, struct_fields (self_inst sd) = top_tfields sd.
Proof.
  intros sd. unfold struct_fields, self_inst, top_tfields. apply flat_map_ext. intros fd.
  unfold tfields_of_decl. rewrite subst_self. reflexivity.
Qed.

Lemma levels_ok_app_l : forall pkg n a b pre, levels_ok pkg n (a ++ b) pre -> levels_ok pkg n a pre.
Proof.
  intros pkg n a b pre H j o Hj Hin. apply (H j o Hj). rewrite level_fields_app. apply in_or_app. auto.
Qed.
Lemma levels_ok_app_r : forall pkg n a b pre, levels_ok pkg n (a ++ b) pre -> levels_ok pkg n b pre.
Proof.
  intros pkg n a b pre H j o Hj Hin. apply (H j o Hj). rewrite level_fields_app. apply in_or_app. auto.
Qed.

Lemma top_entry_name : forall n t g s nw d tg, f_name (top_entry n t g s nw d tg) = n.
Proof. intros. unfold top_entry. destruct (qualified_name t). reflexivity. Qed.
Lemma top_entry_depth : forall n t g s nw d tg, f_depth (top_entry n t g s nw d tg) = 0.
Proof. intros. unfold top_entry. destruct (qualified_name t). reflexivity. Qed.
Lemma top_entry_path : forall n t g s nw d tg, f_path (top_entry n t g s nw d tg) = [n].
Proof. intros. unfold top_entry. destruct (qualified_name t). reflexivity. Qed.
Lemma top_entry_emb : forall n t g s nw d tg, f_embedded (top_entry n t g s nw d tg) = false.
Proof. intros. unfold top_entry. destruct (qualified_name t). reflexivity. Qed.

(* the entries raw_names produces: one per non-excluded name, in order *)
Lemma raw_names_paths : forall fl fd is_new names l f d,
  raw_names fl fd is_new names = COk l ->
  map f_path (filter (nd f d) l) =
  if Nat.eqb d 0 then map (fun n => [n]) (filter (fun n => String.eqb n f && negb (excluded_decl fd n)) names)
  else [].
Proof.
  intros fl fd is_new names. induction names as [|n names IH]; intros l f d H; simpl in H.
  - inversion H; subst. simpl. destruct (Nat.eqb d 0); reflexivity.
  - cbn [filter].
    destruct (String.prefix "_" n) eqn:EP.
    + assert (Ex : excluded_decl fd n = true) by (unfold excluded_decl; rewrite EP; reflexivity).
      rewrite Ex. cbn [negb]. rewrite andb_false_r. apply IH; auto.
    + destruct (tag_is_dash (fd_tag fd)) eqn:ET.
      * assert (Ex : excluded_decl fd n = true) by (unfold excluded_decl; rewrite EP, ET; reflexivity).
        rewrite Ex. cbn [negb]. rewrite andb_false_r. apply IH; auto.
      * assert (Ex : excluded_decl fd n = false) by (unfold excluded_decl; rewrite EP, ET; reflexivity).
        rewrite Ex. cbn [negb]. rewrite andb_true_r.
        destruct (if fl_getset fl then parse_get_set (fd_doc fd) n else Some (false, false)) as [[get set]|]; [|discriminate].
        destruct (raw_names fl fd is_new names) as [r| |] eqn:Er; try discriminate.
        inversion H; subst l. cbn [filter]. unfold nd at 1.
        rewrite top_entry_name, top_entry_depth.
        rewrite (Nat.eqb_sym 0 d).
        specialize (IH r f d eq_refl).
        destruct (Nat.eqb d 0) eqn:Ed.
        -- rewrite andb_true_r. destruct (String.eqb n f); cbn [map]; rewrite ?top_entry_path, IH; reflexivity.
        -- rewrite andb_false_r. exact IH.
Qed.

Lemma raw_decl_level : forall pkg fl fuel fd a f n,
  raw_decl pkg fl fuel fd = COk a ->
  (n = 0 -> forall x, In x (fd_names fd) -> excluded_decl fd x = true -> x <> f) ->
  levels_ok pkg n (tfields_of_decl fd) [] ->
  map f_path (filter (nd f n) a) = map fst (filter (named f) (level_fields pkg n (tfields_of_decl fd) [])).
Proof.
  intros pkg fl fuel fd a f n H HX OK. unfold raw_decl in H. unfold tfields_of_decl in *.
  destruct (fd_names fd) as [|x names] eqn:EN.
  - destruct (raw_type pkg fuel 0 [] (fd_ty fd) (parse_new_comment (fd_doc fd))) as [l|] eqn:Er; [|discriminate].
    inversion H; subst a.
    assert (R : raw_fields pkg fuel 0 [] (parse_new_comment (fd_doc fd)) [(short_name (fd_ty fd), fd_ty fd, true)]
                = Some (l ++ [])).
    { rewrite raw_fields_cons. rewrite Er. reflexivity. }
    rewrite app_nil_r in R.
    apply (level_raw_fields pkg n fuel 0 [] _ _ l f R); auto.
    intros nm ft [Hin|[]]. inversion Hin; subst. reflexivity.
  - rewrite (raw_names_paths _ _ _ _ _ f n H).
    destruct n as [|n]; cbn [Nat.eqb].
    + cbn [level_fields]. rewrite map_map. unfold named.
      specialize (HX eq_refl). generalize (x :: names) as ns, (fun y Hy => HX y Hy) . clear.
      intros ns. induction ns as [|y ns IH]; intros HX; simpl; auto.
      destruct (String.eqb y f) eqn:E; cbn [andb].
      * destruct (excluded_decl fd y) eqn:Ex.
        -- exfalso. apply (HX y (or_introl eq_refl) Ex). apply String.eqb_eq. exact E.
        -- cbn [negb map fst]. rewrite IH; auto. intros z Hz. apply HX. right. exact Hz.
      * apply IH. intros z Hz. apply HX. right. exact Hz.
    + cbn [level_fields]. 
      assert (E : forall ns : list ident,
                 flat_map (fun tf : tfield => let '(nm, ft, emb) := tf in
                    if emb then match struct_of pkg ft with
                                | Some si' => level_fields pkg n (struct_fields si') ([] ++ [nm])
                                | None => [] end else []) (map (fun n0 => (n0, fd_ty fd, false)) ns) = []).
      { induction ns; simpl; auto. }
      rewrite E. reflexivity.
Qed.

Lemma level_raw_top : forall pkg fl fuel fds raw f n,
  raw_top pkg fl fuel fds = COk raw ->
  (n = 0 -> forall fd x, In fd fds -> In x (fd_names fd) -> excluded_decl fd x = true -> x <> f) ->
  levels_ok pkg n (flat_map tfields_of_decl fds) [] ->
  map f_path (filter (nd f n) raw) =
  map fst (filter (named f) (level_fields pkg n (flat_map tfields_of_decl fds) [])).
Proof.
  intros pkg fl fuel fds. induction fds as [|fd fds IH]; intros raw f n H HX OK; simpl in H.
  - inversion H; subst. destruct n; reflexivity.
  - destruct (raw_decl pkg fl fuel fd) as [a| |] eqn:Ea; try discriminate.
    destruct (raw_top pkg fl fuel fds) as [b| |] eqn:Eb; try discriminate.
    inversion H; subst raw. cbn [flat_map] in *.
    rewrite filter_app, map_app, level_fields_app, filter_app, map_app. f_equal.
    + eapply raw_decl_level; eauto.
      * intros En x Hx. apply (HX En fd x); auto. left. reflexivity.
      * eapply levels_ok_app_l; eauto.
    + apply IH; auto.
      * intros En fd' x Hfd. apply (HX En). right. exact Hfd.
      * eapply levels_ok_app_r; eauto.
Qed.

(* ------------------------------------------------------- resolve, characterised *)
Lemma resolve_from_some : forall pkg si f k d p,
  resolve_from pkg si f d k = Some p ->
  exists j c, d <= j < d + k /\ (forall i, d <= i < j -> candidates pkg i si f = []) /\
              candidates pkg j si f = [c] /\ fst c = p.
Proof.
  intros pkg si f k. induction k as [|k IH]; intros d p H; simpl in H; [discriminate|].
  destruct (candidates pkg d si f) as [|c [|c' r]] eqn:E.
  - destruct (IH _ _ H) as [j [c [Hj [Hz [Hc Hp]]]]].
    exists j, c. repeat split; auto; try lia.
    intros i Hi. destruct (Nat.eq_dec i d); [subst; exact E|apply Hz; lia].
  - inversion H; subst. exists d, c. repeat split; auto; try lia; try (intros i Hi; lia).
  - discriminate.
Qed.

Lemma resolve_from_first : forall pkg si f k d j c,
  d <= j < d + k -> (forall i, d <= i < j -> candidates pkg i si f = []) ->
  candidates pkg j si f = [c] -> resolve_from pkg si f d k = Some (fst c).
Proof.
  intros pkg si f k. induction k as [|k IH]; intros d j c Hj Hz Hc; [lia|].
  simpl. destruct (Nat.eq_dec j d).
  - subst. rewrite Hc. reflexivity.
  - rewrite (Hz d) by lia. apply (IH (S d) j c); auto; try lia. intros i Hi. apply Hz. lia.
Qed.

Lemma level_fields_path_len : forall pkg n fs pre o,
  In o (level_fields pkg n fs pre) -> length (fst o) = length pre + n + 1.
Proof.
  intros pkg n. induction n as [|n IH]; intros fs pre o H; simpl in H.
  - apply in_map_iff in H. destruct H as [tf [E _]]. subst o. simpl. rewrite app_length. simpl. lia.
  - apply in_flat_map in H. destruct H as [[[nm ft] emb] [_ H]]. destruct emb; [|destruct H].
    destruct (struct_of pkg ft); [|destruct H].
    apply IH in H. rewrite H, app_length. simpl. lia.
Qed.

Lemma level_fields_empty_up : forall pkg n fs pre,
  level_fields pkg n fs pre = [] -> forall pre', level_fields pkg (S n) fs pre' = [].
Proof.
  intros pkg n. induction n as [|n IH]; intros fs pre H pre'.
  - simpl in H. destruct fs; [reflexivity|discriminate].
  - simpl. simpl in H. induction fs as [|[[nm ft] emb] fs IHfs]; simpl; auto.
    simpl in H. apply app_eq_nil in H. destruct H as [H1 H2].
    rewrite (IHfs H2), app_nil_r. destruct emb; auto. destruct (struct_of pkg ft); auto.
    apply (IH _ _ H1).
Qed.

Lemma level_fields_empty_from : forall pkg n fs k,
  level_fields pkg n fs [] = [] -> level_fields pkg (n + k) fs [] = [].
Proof.
  intros pkg n fs k H. induction k as [|k IH].
  - rewrite Nat.add_0_r. exact H.
  - replace (n + S k) with (S (n + k)) by lia. eapply level_fields_empty_up. exact IH.
Qed.

(* ------------------------------------------------------------ raw: path lengths *)
Lemma raw_type_path_len : forall pkg fuel depth pre t is_new l,
  raw_type pkg fuel depth pre t is_new = Some l -> length pre = depth ->
  forall e, In e l -> length (f_path e) = S (f_depth e).
Proof.
  intros pkg fuel. induction fuel as [|fuel IH]; intros depth pre t is_new l H Hp; rewrite raw_type_unfold in H.
  - destruct (struct_of pkg t); inversion H; subst. intros e [].
  - destruct (struct_of pkg t) as [si|]; [|inversion H; subst; intros e []].
    set (e0 := embedded_entry t depth pre) in *.
    assert (Hp0 : length (f_path e0) = S depth).
    { unfold e0. rewrite embedded_entry_path, app_length. simpl. lia. }
    assert (G : forall fs l', raw_fields pkg fuel (S depth) (f_path e0) is_new fs = Some l' ->
                              forall e, In e l' -> length (f_path e) = S (f_depth e)).
    { induction fs as [|[[n ft] emb] fs IHfs]; intros l' H'.
      - inversion H'; subst. intros e [].
      - rewrite raw_fields_cons in H'. destruct emb.
        + destruct (raw_type pkg fuel (S depth) (f_path e0) ft is_new) as [a|] eqn:Ea; [|discriminate].
          destruct (raw_fields pkg fuel (S depth) (f_path e0) is_new fs) as [b|] eqn:Eb; [|discriminate].
          inversion H'; subst. intros e He. apply in_app_or in He. destruct He as [He|He].
          * eapply IH; eauto.
          * eapply IHfs; eauto.
        + destruct (raw_fields pkg fuel (S depth) (f_path e0) is_new fs) as [b|] eqn:Eb; [|discriminate].
          inversion H'; subst. intros e [He|He]; [|eapply IHfs; eauto].
          subst e. simpl. rewrite app_length, Hp0. simpl. lia. }
    destruct (raw_fields pkg fuel (S depth) (f_path e0) is_new (struct_fields si)) as [l'|] eqn:E; [|discriminate].
    inversion H; subst. intros e [He|He].
    + subst e. fold e0. rewrite Hp0. unfold e0. rewrite embedded_entry_depth. reflexivity.
    + eapply G; eauto.
Qed.

Lemma raw_fields_path_len : forall pkg fuel depth pre is_new fs l,
  raw_fields pkg fuel depth pre is_new fs = Some l -> length pre = depth ->
  forall e, In e l -> length (f_path e) = S (f_depth e).
Proof.
  intros pkg fuel depth pre is_new fs. induction fs as [|[[nm ft] emb] fs IH]; intros l H Hp.
  - inversion H; subst. intros e [].
  - rewrite raw_fields_cons in H. destruct emb.
    + destruct (raw_type pkg fuel depth pre ft is_new) as [a|] eqn:Ea; [|discriminate].
      destruct (raw_fields pkg fuel depth pre is_new fs) as [b|] eqn:Eb; [|discriminate].
      inversion H; subst. intros e He. apply in_app_or in He. destruct He as [He|He].
      * eapply raw_type_path_len; eauto.
      * eapply IH; eauto.
    + destruct (raw_fields pkg fuel depth pre is_new fs) as [b|] eqn:Eb; [|discriminate].
      inversion H; subst. intros e [He|He]; [|eapply IH; eauto].
      subst e. simpl. rewrite app_length. simpl. lia.
Qed.

Lemma raw_names_facts : forall fl fd is_new names l e,
  raw_names fl fd is_new names = COk l -> In e l ->
  f_depth e = 0 /\ f_path e = [f_name e] /\ f_embedded e = false /\
  In (f_name e) names /\ excluded_decl fd (f_name e) = false /\ f_new e = is_new /\
  f_def e = parse_def (fd_doc fd) /\ f_ty e = fd_ty fd.
Proof.
  intros fl fd is_new names. induction names as [|n names IH]; intros l e H He; simpl in H.
  - inversion H; subst. destruct He.
  - destruct (String.prefix "_" n) eqn:EP.
    { destruct (IH _ _ H He) as [? [? [? [? ?]]]]. repeat split; auto. right; auto. all: tauto. }
    destruct (tag_is_dash (fd_tag fd)) eqn:ET.
    { destruct (IH _ _ H He) as [? [? [? [? ?]]]]. repeat split; auto. right; auto. all: tauto. }
    destruct (if fl_getset fl then parse_get_set (fd_doc fd) n else Some (false, false)) as [[get set]|]; [|discriminate].
    destruct (raw_names fl fd is_new names) as [r| |] eqn:Er; try discriminate.
    inversion H; subst l. destruct He as [He|He].
    + subst e. rewrite top_entry_name, top_entry_depth, top_entry_path, top_entry_emb.
      repeat split; auto.
      * left; reflexivity.
      * unfold excluded_decl. rewrite EP, ET. reflexivity.
      * unfold top_entry. destruct (qualified_name (fd_ty fd)). reflexivity.
      * unfold top_entry. destruct (qualified_name (fd_ty fd)). reflexivity.
      * unfold top_entry. destruct (qualified_name (fd_ty fd)). reflexivity.
    + destruct (IH _ _ eq_refl He) as [? [? [? [? ?]]]]. repeat split; auto. right; auto. all: tauto.
Qed.

Lemma raw_decl_path_len : forall pkg fl fuel fd a e,
  raw_decl pkg fl fuel fd = COk a -> In e a -> length (f_path e) = S (f_depth e).
Proof.
  intros pkg fl fuel fd a e H He. unfold raw_decl in H. destruct (fd_names fd) eqn:EN.
  - destruct (raw_type pkg fuel 0 [] (fd_ty fd) (parse_new_comment (fd_doc fd))) as [l|] eqn:Er; [|discriminate].
    inversion H; subst a.
    assert (R : raw_fields pkg fuel 0 [] (parse_new_comment (fd_doc fd)) [(short_name (fd_ty fd), fd_ty fd, true)]
                = Some (l ++ [])) by (rewrite raw_fields_cons, Er; reflexivity).
    rewrite app_nil_r in R. eapply raw_fields_path_len; eauto.
  - destruct (raw_names_facts _ _ _ _ _ _ H He) as [Hd [Hp _]]. rewrite Hp, Hd. reflexivity.
Qed.

Lemma raw_top_path_len : forall pkg fl fuel fds raw e,
  raw_top pkg fl fuel fds = COk raw -> In e raw -> length (f_path e) = S (f_depth e).
Proof.
  intros pkg fl fuel fds. induction fds as [|fd fds IH]; intros raw e H He; simpl in H.
  - inversion H; subst. destruct He.
  - destruct (raw_decl pkg fl fuel fd) as [a| |] eqn:Ea; try discriminate.
    destruct (raw_top pkg fl fuel fds) as [b| |] eqn:Eb; try discriminate.
    inversion H; subst raw. apply in_app_or in He. destruct He as [He|He].
    + eapply raw_decl_path_len; eauto.
    + eapply IH; eauto.
Qed.

(* ------------------------------------------ entries never carry an excluded name *)
Definition tf_name (tf : tfield) : ident := fst (fst tf).

Lemma nodup_str_NoDup : forall l, nodup_str l = true -> NoDup l.
Proof.
  induction l as [|x l IH]; simpl; intros H; constructor.
  - apply andb_true_iff in H. destruct H as [H _]. intros Hin.
    apply negb_true_iff in H. assert (existsb (String.eqb x) l = true).
    { apply existsb_exists. exists x. split; auto. apply String.eqb_refl. }
    congruence.
  - apply IH. apply andb_true_iff in H. tauto.
Qed.

Lemma NoDup_app_tail : forall A (a b : list A), NoDup (a ++ b) -> NoDup b.
Proof. induction a as [|x a IH]; simpl; intros b H; auto. inversion H; subst. auto. Qed.

Lemma raw_decl_depth0 : forall pkg fl fuel fd a e,
  raw_decl pkg fl fuel fd = COk a -> In e a -> f_depth e = 0 ->
  (fd_names fd = [] /\ f_name e = short_name (fd_ty fd)) \/
  (In (f_name e) (fd_names fd) /\ excluded_decl fd (f_name e) = false).
Proof.
  intros pkg fl fuel fd a e H He Hd. unfold raw_decl in H. destruct (fd_names fd) as [|x names] eqn:EN.
  - left. split; auto.
    destruct (raw_type pkg fuel 0 [] (fd_ty fd) (parse_new_comment (fd_doc fd))) as [l|] eqn:Er; [|discriminate].
    inversion H; subst a. rewrite raw_type_unfold in Er.
    destruct (struct_of pkg (fd_ty fd)) as [si|]; [|inversion Er; subst; destruct He].
    destruct fuel as [|fuel']; [discriminate|].
    destruct (raw_fields pkg fuel' 1 (f_path (embedded_entry (fd_ty fd) 0 [])) (parse_new_comment (fd_doc fd)) (struct_fields si)) as [l'|] eqn:El; [|discriminate].
    inversion Er; subst l. destruct He as [He|He].
    + subst e. apply embedded_entry_name.
    + pose proof (raw_fields_depth_ge _ _ _ _ _ _ _ El e He). lia.
  - right. destruct (raw_names_facts _ _ _ _ _ _ H He) as [_ [_ [_ [Hin [Hex _]]]]]. auto.
Qed.

Lemma tfields_of_decl_names : forall fd,
  map tf_name (tfields_of_decl fd) = match fd_names fd with [] => [short_name (fd_ty fd)] | ns => ns end.
Proof.
  intros fd. unfold tfields_of_decl. destruct (fd_names fd) as [|x ns]; [reflexivity|].
  rewrite map_map. unfold tf_name. simpl. f_equal. induction ns; simpl; congruence.
Qed.

Lemma raw_decl_depth0_name_in : forall pkg fl fuel fd a e,
  raw_decl pkg fl fuel fd = COk a -> In e a -> f_depth e = 0 ->
  In (f_name e) (map tf_name (tfields_of_decl fd)).
Proof.
  intros. rewrite tfields_of_decl_names.
  destruct (raw_decl_depth0 _ _ _ _ _ _ H H0 H1) as [[E1 E2]|[E1 _]].
  - rewrite E1, E2. left. reflexivity.
  - destruct (fd_names fd); [destruct E1|exact E1].
Qed.

Lemma raw_top_depth0_name_in : forall pkg fl fuel fds raw e,
  raw_top pkg fl fuel fds = COk raw -> In e raw -> f_depth e = 0 ->
  In (f_name e) (map tf_name (flat_map tfields_of_decl fds)).
Proof.
  intros pkg fl fuel fds. induction fds as [|fd fds IH]; intros raw e H He Hd; simpl in H.
  - inversion H; subst. destruct He.
  - destruct (raw_decl pkg fl fuel fd) as [a| |] eqn:Ea; try discriminate.
    destruct (raw_top pkg fl fuel fds) as [b| |] eqn:Eb; try discriminate.
    inversion H; subst raw. cbn [flat_map]. rewrite map_app. apply in_or_app.
    apply in_app_or in He. destruct He as [He|He].
    + left. eapply raw_decl_depth0_name_in; eauto.
    + right. eapply IH; eauto.
Qed.

Lemma excluded_name_in_tfields : forall fds fd1 f,
  In fd1 fds -> In f (fd_names fd1) -> In f (map tf_name (flat_map tfields_of_decl fds)).
Proof.
  induction fds as [|fd fds IH]; intros fd1 f Hfd Hf; [destruct Hfd|].
  cbn [flat_map]. rewrite map_app. apply in_or_app. destruct Hfd as [Hfd|Hfd].
  - subst fd1. left. rewrite tfields_of_decl_names. destruct (fd_names fd); [destruct Hf|exact Hf].
  - right. eapply IH; eauto.
Qed.

Lemma raw_top_not_excluded : forall pkg fl fuel fds raw e fd1 f,
  NoDup (map tf_name (flat_map tfields_of_decl fds)) ->
  raw_top pkg fl fuel fds = COk raw -> In e raw -> f_depth e = 0 ->
  In fd1 fds -> In f (fd_names fd1) -> excluded_decl fd1 f = true -> f_name e <> f.
Proof.
  intros pkg fl fuel fds. induction fds as [|fd fds IH]; intros raw e fd1 f ND H He Hd Hfd Hf Hex; simpl in H.
  - destruct Hfd.
  - destruct (raw_decl pkg fl fuel fd) as [a| |] eqn:Ea; try discriminate.
    destruct (raw_top pkg fl fuel fds) as [b| |] eqn:Eb; try discriminate.
    inversion H; subst raw. cbn [flat_map] in ND. rewrite map_app in ND.
    assert (NDt : NoDup (map tf_name (flat_map tfields_of_decl fds))) by (eapply NoDup_app_tail; eauto).
    assert (Disj : forall x, In x (map tf_name (tfields_of_decl fd)) ->
                             In x (map tf_name (flat_map tfields_of_decl fds)) -> False).
    { clear - ND. induction (map tf_name (tfields_of_decl fd)) as [|y l IHl]; intros x H1 H2; [destruct H1|].
      simpl in ND. inversion ND; subst. destruct H1 as [H1|H1].
      - subst. apply H3. apply in_or_app. right. exact H2.
      - eapply IHl; eauto. }
    apply in_app_or in He. destruct He as [He|He]; destruct Hfd as [Hfd|Hfd].
    + subst fd1. destruct (raw_decl_depth0 _ _ _ _ _ _ Ea He Hd) as [[E1 _]|[_ E2]].
      * rewrite E1 in Hf. destruct Hf.
      * intros Heq. rewrite Heq in E2. congruence.
    + intros Heq. apply (Disj f).
      * rewrite <- Heq. eapply raw_decl_depth0_name_in; eauto.
      * eapply excluded_name_in_tfields; eauto.
    + subst fd1. intros Heq. apply (Disj f).
      * rewrite tfields_of_decl_names. destruct (fd_names fd); [destruct Hf|exact Hf].
      * rewrite <- Heq. eapply raw_top_depth0_name_in; eauto.
    + eapply IH; eauto.
Qed.

(* ------------------------------------------------------------- the refinement *)
Lemma in_all_occ : forall pkg fuel si j o, j < fuel -> In o (level pkg j si []) -> In o (all_occ pkg fuel si).
Proof.
  intros. unfold all_occ. apply in_flat_map. exists j. split; auto. apply in_seq. lia.
Qed.

Lemma levels_ok_of_guard : forall pkg fuel sd n,
  no_embedded_nonstruct pkg fuel sd = true -> depth_bounded pkg fuel sd = true ->
  levels_ok pkg n (top_tfields sd) [].
Proof.
  intros pkg fuel sd n G1 G2 j o _ Hin Hemb.
  rewrite <- struct_fields_self, <- level_is_fields in Hin.
  destruct (Nat.lt_ge_cases j fuel) as [Hlt|Hge].
  - unfold no_embedded_nonstruct in G1. rewrite forallb_forall in G1.
    specialize (G1 o (in_all_occ _ _ _ _ _ Hlt Hin)). rewrite Hemb in G1. simpl in G1.
    destruct (struct_of pkg (occ_ty o)); [discriminate|discriminate G1].
  - exfalso. unfold depth_bounded in G2.
    destruct (level pkg fuel (self_inst sd) []) eqn:E; [|discriminate].
    rewrite level_is_fields in E, Hin.
    replace j with (fuel + (j - fuel)) in Hin by lia.
    rewrite (level_fields_empty_from _ _ _ _ E) in Hin. destruct Hin.
Qed.

Lemma depth_lt_fuel : forall pkg fuel sd j o,
  depth_bounded pkg fuel sd = true -> In o (level pkg j (self_inst sd) []) -> j < fuel.
Proof.
  intros pkg fuel sd j o G2 Hin. destruct (Nat.lt_ge_cases j fuel) as [Hlt|Hge]; auto.
  exfalso. unfold depth_bounded in G2.
  destruct (level pkg fuel (self_inst sd) []) eqn:E; [|discriminate].
  rewrite level_is_fields in E, Hin.
  replace j with (fuel + (j - fuel)) in Hin by lia.
  rewrite (level_fields_empty_from _ _ _ _ E) in Hin. destruct Hin.
Qed.

Lemma map_eq_nil_iff : forall A B (f : A -> B) l, map f l = [] <-> l = [].
Proof. intros. destruct l; simpl; split; intros; auto; discriminate. Qed.

Lemma in_filter_nd : forall f d l e, In e (filter (nd f d) l) <-> In e l /\ f_name e = f /\ f_depth e = d.
Proof.
  intros. rewrite filter_In. unfold nd. rewrite andb_true_iff, String.eqb_eq, Nat.eqb_eq. tauto.
Qed.

Lemma shadowed_in_false_iff : forall l e,
  shadowed_in l e = false <-> (forall x, In x l -> f_name x = f_name e -> f_depth e <= f_depth x).
Proof.
  intros l e. unfold shadowed_in. split.
  - intros H x Hx Hn. destruct (Nat.lt_ge_cases (f_depth x) (f_depth e)) as [Hlt|]; auto.
    exfalso. assert (existsb (fun f0 => same_name f0 e && Nat.ltb (f_depth f0) (f_depth e)) l = true).
    { apply existsb_exists. exists x. split; auto. unfold same_name. rewrite Hn, String.eqb_refl.
      simpl. apply Nat.ltb_lt. exact Hlt. }
    congruence.
  - intros H. apply not_true_is_false. intros Ht. apply existsb_exists in Ht.
    destruct Ht as [x [Hx Hc]]. apply andb_true_iff in Hc. destruct Hc as [Hn Hl].
    apply String.eqb_eq in Hn. apply Nat.ltb_lt in Hl. specialize (H x Hx Hn). lia.
Qed.

Lemma raw_levels : forall pkg fl fuel sd raw e0,
  raw_top pkg fl fuel (sd_fields sd) = COk raw ->
  depth_bounded pkg fuel sd = true -> wf_structs pkg fuel sd = true ->
  unambiguous pkg fuel sd = true -> no_embedded_nonstruct pkg fuel sd = true ->
  no_excluded_shadow pkg fuel sd = true ->
  In e0 raw ->
  forall n, map f_path (filter (nd (f_name e0) n) raw) =
            map fst (candidates pkg n (self_inst sd) (f_name e0)).
Proof.
  intros pkg fl fuel sd raw e0 Hraw GB GW GU GN GX He0.
  set (f := f_name e0). set (si := self_inst sd).
  assert (OK : forall n, levels_ok pkg n (top_tfields sd) []) by (intros; eapply levels_ok_of_guard; eauto).
  (* entries of the name f are never excluded fields *)
  assert (ND : NoDup (map tf_name (top_tfields sd))).
  { unfold wf_structs in GW. apply andb_true_iff in GW. destruct GW as [GW _].
    unfold fields_distinct in GW. rewrite struct_fields_self in GW. apply nodup_str_NoDup. exact GW. }
  (* level correspondence at every depth >= 1, and at depth 0 once f is known not to be excluded *)
  assert (LV : forall n, (n = 0 -> forall fd x, In fd (sd_fields sd) -> In x (fd_names fd) ->
                                   excluded_decl fd x = true -> x <> f) ->
                         map f_path (filter (nd f n) raw) = map fst (candidates pkg n si f)).
  { intros n HX. unfold candidates, si. rewrite level_is_fields, struct_fields_self.
    apply (level_raw_top pkg fl fuel (sd_fields sd) raw f n Hraw HX (OK n)). }
  assert (NX : forall fd x, In fd (sd_fields sd) -> In x (fd_names fd) -> excluded_decl fd x = true -> x <> f).
  { intros fd x Hfd Hx Hex Heq. subst x.
    destruct (f_depth e0) as [|d] eqn:Ed.
    - exact (raw_top_not_excluded _ _ _ _ _ _ _ _ ND Hraw He0 Ed Hfd Hx Hex eq_refl).
    - (* e0 is deeper: an occurrence of the name f below the top level *)
      assert (Hc : In (f_path e0) (map fst (candidates pkg (S d) si f))).
      { rewrite <- LV by (intros; discriminate). apply in_map. apply in_filter_nd. auto. }
      apply in_map_iff in Hc. destruct Hc as [o [Ho Hin]]. unfold candidates in Hin.
      apply filter_In in Hin. destruct Hin as [Hin Hname].
      assert (Hlt := depth_lt_fuel _ _ _ _ _ GB Hin).
      unfold no_excluded_shadow in GX. rewrite forallb_forall in GX.
      specialize (GX o (in_all_occ _ _ _ _ _ Hlt Hin)).
      rewrite level_is_fields in Hin. apply level_fields_path_len in Hin. simpl in Hin.
      apply orb_true_iff in GX. destruct GX as [GX|GX]; [apply Nat.eqb_eq in GX; unfold path, ident in *; lia|].
      apply negb_true_iff in GX.
      assert (existsb (String.eqb (occ_name o)) (excluded_names sd) = true).
      { apply existsb_exists. exists f. split.
        - unfold excluded_names. apply in_flat_map. exists fd. split; auto. apply filter_In. auto.
        - unfold named in Hname. exact Hname. }
      congruence. }
  assert (LVa : forall n, map f_path (filter (nd f n) raw) = map fst (candidates pkg n si f)).
  { intros n. apply LV. intros _. exact NX. }
  exact LVa.
Qed.

Theorem shadow_refines_selector_raw : forall pkg fl fuel sd raw e0,
  raw_top pkg fl fuel (sd_fields sd) = COk raw ->
  depth_bounded pkg fuel sd = true -> wf_structs pkg fuel sd = true ->
  unambiguous pkg fuel sd = true -> no_embedded_nonstruct pkg fuel sd = true ->
  no_excluded_shadow pkg fuel sd = true ->
  In e0 raw ->
  (shadowed_in raw e0 = false <-> resolve pkg fuel sd (f_name e0) = Some (f_path e0)) /\
  (shadowed_in raw e0 = false -> filter (nd (f_name e0) (f_depth e0)) raw = [e0]).
Proof.
  intros pkg fl fuel sd raw e0 Hraw GB GW GU GN GX He0.
  set (f := f_name e0). set (si := self_inst sd).
  assert (LVa := raw_levels pkg fl fuel sd raw e0 Hraw GB GW GU GN GX He0). fold f si in LVa.
  assert (Hlen : length (f_path e0) = S (f_depth e0)) by (eapply raw_top_path_len; eauto).
  assert (Hin0 : In (f_path e0) (map fst (candidates pkg (f_depth e0) si f))).
  { rewrite <- LVa. apply in_map. apply in_filter_nd. auto. }
  assert (Hd0 : f_depth e0 < fuel).
  { apply in_map_iff in Hin0. destruct Hin0 as [o [_ Hin]]. unfold candidates in Hin.
    apply filter_In in Hin. destruct Hin as [Hin _]. eapply depth_lt_fuel; eauto. }
  assert (FWD : shadowed_in raw e0 = false ->
                resolve_from pkg si f 0 fuel = Some (f_path e0) /\ filter (nd f (f_depth e0)) raw = [e0]).
  { (* unshadowed -> resolve finds it *)
    intros Hs. rewrite shadowed_in_false_iff in Hs.
    assert (Hz : forall i, 0 <= i < f_depth e0 -> candidates pkg i si f = []).
    { intros i Hi. apply (map_eq_nil_iff _ _ fst). rewrite <- LVa. apply (map_eq_nil_iff _ _ f_path).
      destruct (filter (nd f i) raw) as [|x r] eqn:E; auto. exfalso.
      assert (Hx : In x (filter (nd f i) raw)) by (rewrite E; left; auto).
      apply in_filter_nd in Hx. destruct Hx as [Hx [Hn Hdx]]. specialize (Hs x Hx Hn). lia. }
    (* the name occurs, so by the guard it resolves; the resolution is at e0's depth *)
    assert (Hocc : exists o, In o (all_occ pkg fuel si) /\ occ_name o = f).
    { apply in_map_iff in Hin0. destruct Hin0 as [o [_ Hin]]. unfold candidates in Hin.
      apply filter_In in Hin. destruct Hin as [Hin Hn]. exists o. split.
      - eapply in_all_occ; eauto.
      - unfold named in Hn. apply String.eqb_eq in Hn. exact Hn. }
    destruct Hocc as [o [Ho Hon]].
    unfold unambiguous in GU. rewrite forallb_forall in GU. specialize (GU o Ho).
    rewrite Hon in GU. unfold resolve in GU. fold si in GU.
    destruct (resolve_from pkg si f 0 fuel) as [p|] eqn:ER; [|discriminate].
    destruct (resolve_from_some _ _ _ _ _ _ ER) as [j [c [Hj [Hzj [Hc Hp]]]]].
    assert (j = f_depth e0).
    { destruct (Nat.lt_trichotomy j (f_depth e0)) as [Hlt|[Heq|Hgt]]; auto.
      - rewrite Hz in Hc by lia. discriminate.
      - rewrite Hzj in Hin0 by lia. destruct Hin0. }
    subst j. split.
    - rewrite Hc in Hin0. simpl in Hin0. destruct Hin0 as [Hin0|[]]. congruence.
    - assert (Hl : length (filter (nd f (f_depth e0)) raw) = 1).
      { rewrite <- (map_length f_path), LVa, Hc. reflexivity. }
      destruct (filter (nd f (f_depth e0)) raw) as [|x [|y r]] eqn:EF; try (simpl in Hl; lia).
      assert (Hx : In e0 [x]) by (rewrite <- EF; apply in_filter_nd; auto).
      destruct Hx as [Hx|[]]. subst. reflexivity. }
  unfold resolve. fold si. split; [split|].
  - intros Hs. apply FWD. exact Hs.
  - (* resolve returns e0's path -> nothing shallower has its name *)
    intros ER. destruct (resolve_from_some _ _ _ _ _ _ ER) as [j [c [Hj [Hzj [Hc Hp]]]]].
    (* the candidate at depth j has a path of length j+1 *)
    assert (Hj' : j = f_depth e0).
    { assert (Hcin : In c (candidates pkg j si f)) by (rewrite Hc; left; auto).
      unfold candidates in Hcin. apply filter_In in Hcin. destruct Hcin as [Hcin _].
      rewrite level_is_fields in Hcin. apply level_fields_path_len in Hcin. simpl in Hcin.
      rewrite Hp, Hlen in Hcin. lia. }
    subst j. apply shadowed_in_false_iff. intros x Hx Hn.
    destruct (Nat.lt_ge_cases (f_depth x) (f_depth e0)) as [Hlt|]; auto. exfalso.
    assert (In (f_path x) (map fst (candidates pkg (f_depth x) si f))).
    { rewrite <- LVa. apply in_map. apply in_filter_nd. auto. }
    rewrite Hzj in H by lia. destruct H.
  - intros Hs. apply FWD. exact Hs.
Qed.

(* the same, for the list flatten returns *)
Theorem shadow_refines_selector : forall pkg fl fuel sd fs hn e,
  flatten pkg fl fuel sd = COk (fs, hn) ->
  depth_bounded pkg fuel sd = true -> wf_structs pkg fuel sd = true ->
  unambiguous pkg fuel sd = true -> no_embedded_nonstruct pkg fuel sd = true ->
  no_excluded_shadow pkg fuel sd = true ->
  In e fs ->
  (f_shadowed e = false <-> resolve pkg fuel sd (f_name e) = Some (f_path e)).
Proof.
  intros pkg fl fuel sd fs hn e H GB GW GU GN GX He.
  destruct (flatten_is_marked_raw _ _ _ _ _ _ H) as [raw [Hraw [Hfs _]]].
  subst fs. unfold mark, markmap in He. apply in_map_iff in He. destruct He as [e0 [Ee He0]]. subst e.
  rewrite mark_with_name, mark_with_path.
  rewrite mark_with_shadowed by (eapply raw_top_unmarked; eauto).
  eapply (proj1 (shadow_refines_selector_raw _ _ _ _ _ _ Hraw GB GW GU GN GX He0)).
Qed.
