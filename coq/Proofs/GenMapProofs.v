(* C08 for map: permuting -type changes no file content (no guard: the mapper never feeds a source back). *)
From Coq Require Import List String Ascii Bool Arith Lia Permutation.
From Shoot Require Import Model.Gen Proofs.GenBaseProofs Proofs.GenProofs Proofs.GenSigmaProofs Proofs.GenMapSigmaProofs Proofs.GenSeqProofs Proofs.GenPermProofs.
Import ListNotations.
Local Open Scope string_scope.

Lemma map_cmd_same : forall o c c' dp dv st v T,
  c_toonly c = c_toonly c' -> c_fromonly c = c_fromonly c' -> specified c = specified c' ->
  same_body map_render map_render (map_make o c dp dv st v T) (map_make o c' dp dv st v T).
Proof.
  intros o c c' dp dv st v T Ht Hf Hs. unfold map_make, map_make_gen.
  cbn [all_resets rs_mfuncs rs_mtags rs_mfields rs_mctor rs_mmeth rs_msets rs_mmaps].
  destruct (mparse_fields v "" T true []) as [[[[e u] tg] sp]|]; [|exact I].
  destruct (mparse_fields dv (dp ++ ".") T false []) as [[[[de du] dtg] dsp]|].
  - repeat match goal with
           | |- context [ctor_match ?a ?b ?c0 ?d ?e0 ?f] => destruct (ctor_match a b c0 d e0 f) as [[? ?] ?]
           end.
    match goal with
    | |- context [for_pairs ?t (type_match_pair ?q) ?p] => destruct (for_pairs t (type_match_pair q) p) as [[[[[? ?] ?] ?] ?] ?]
    end.
    repeat match goal with
           | |- context [nil_check_write o ?fs ?sel ?pp] => destruct (nil_check_write o fs sel pp) as [? ?]
           end.
    cbn. split; [reflexivity|]. unfold body, map_render, mk_file. cbn. rewrite Ht, Hf. reflexivity.
  - rewrite Hs. destruct (specified c'); exact I.
Qed.

Theorem map_permutation : forall ro c c' dp dv hw disk o st st',
  specified c = true -> specified c' = true ->
  Permutation (c_types c) (c_types c') -> c_file c = c_file c' -> c_sub c = c_sub c' ->
  c_star c = false -> c_star c' = false -> c_toonly c = c_toonly c' -> c_fromonly c = c_fromonly c' ->
  match generate (map_make ro c dp dv) map_render (list_types_of CMap) c o hw disk st,
        generate (map_make ro c' dp dv) map_render (list_types_of CMap) c' o hw disk st' with
  | Some sm, Some sm' => map nb (listing sm) = map nb (listing sm')
  | None, None => True
  | _, _ => False
  end.
Proof.
  intros ro c c' dp dv hw disk o st st' Hs Hs' Hp Hf Hsub H1 H2 Ht Hfo.
  apply (permutation_nostale (fun c0 => map_make ro c0 dp dv) map_render
           (fun c0 s1 s2 v T => map_make_state_indep ro c0 dp dv s1 s2 v T) hw disk (list_types_of CMap) c c' o st st'
           (fun s v T d b s' => map_nostale ro c dp dv s v T d b s')
           (fun s v T d b s' => map_nostale ro c' dp dv s v T d b s')); auto.
  intros T st0 v. apply map_cmd_same; auto. congruence.
Qed.
