(* Proofs for C16 (selection and naming): the literal front end of Model/Cli.v
   refines the declarative reading of Model/CliSpec.v on every well-formed
   skeleton outside the input classes of the open findings. *)
From Coq Require Import List String Ascii Bool Arith Lia Permutation.
From Shoot Require Import Model.Cli Model.CliSpec.
Import ListNotations.
Local Open Scope string_scope.

(* ------------------------------------------------------------ generic lists *)

Lemma mem_In : forall x l, mem x l = true <-> In x l.
Proof.
  intros x l. unfold mem. rewrite existsb_exists. split.
  - intros [y [Hy He]]. apply String.eqb_eq in He. subst. exact Hy.
  - intros H. exists x. split; [exact H | apply String.eqb_refl].
Qed.

Lemma mem_false : forall x l, mem x l = false <-> ~ In x l.
Proof.
  intros x l. rewrite <- mem_In. destruct (mem x l); split; intros H.
  - discriminate.
  - exfalso. apply H. reflexivity.
  - intros C. discriminate.
  - reflexivity.
Qed.

Lemma nodupb_NoDup : forall l, nodupb l = true <-> NoDup l.
Proof.
  induction l as [|x l IH]; simpl.
  - split; [constructor | reflexivity].
  - rewrite andb_true_iff, negb_true_iff, mem_false, IH. split.
    + intros [H1 H2]. constructor; assumption.
    + intros H. inversion H; subst. split; assumption.
Qed.

Lemma NoDup_app_disjoint : forall (A : Type) (l1 l2 : list A) x,
  NoDup (l1 ++ l2) -> In x l1 -> In x l2 -> False.
Proof.
  induction l1 as [|a l1 IH]; simpl; intros l2 x Hn H1 H2.
  - exact H1.
  - inversion Hn as [|a' l' Hna Hn']; subst. destruct H1 as [->|H1].
    + apply Hna. apply in_or_app. right. exact H2.
    + exact (IH l2 x Hn' H1 H2).
Qed.

Lemma NoDup_app_l : forall (A : Type) (l1 l2 : list A), NoDup (l1 ++ l2) -> NoDup l1.
Proof.
  induction l1 as [|a l1 IH]; simpl; intros l2 Hn.
  - constructor.
  - inversion Hn as [|a' l' Hna Hn']; subst. constructor.
    + intros C. apply Hna. apply in_or_app. left. exact C.
    + exact (IH l2 Hn').
Qed.

Lemma NoDup_app_r : forall (A : Type) (l1 l2 : list A), NoDup (l1 ++ l2) -> NoDup l2.
Proof.
  induction l1 as [|a l1 IH]; simpl; intros l2 Hn.
  - exact Hn.
  - inversion Hn; subst. apply IH. assumption.
Qed.

Lemma NoDup_map_inj : forall (A B : Type) (f : A -> B) l a b,
  NoDup (map f l) -> In a l -> In b l -> f a = f b -> a = b.
Proof.
  induction l as [|c l IH]; simpl; intros a b Hn Ha Hb He.
  - contradiction.
  - inversion Hn as [|c' l' Hnc Hn']; subst. destruct Ha as [->|Ha], Hb as [->|Hb].
    + reflexivity.
    + exfalso. apply Hnc. rewrite He. apply in_map. exact Hb.
    + exfalso. apply Hnc. rewrite <- He. apply in_map. exact Ha.
    + exact (IH a b Hn' Ha Hb He).
Qed.

Lemma map_flat_map : forall (A B C : Type) (f : B -> C) (g : A -> list B) l,
  map f (flat_map g l) = flat_map (fun x => map f (g x)) l.
Proof.
  induction l as [|a l IH]; simpl.
  - reflexivity.
  - rewrite map_app, IH. reflexivity.
Qed.

Lemma flat_map_flat_map : forall (A B C : Type) (g : A -> list B) (h : B -> list C) l,
  flat_map h (flat_map g l) = flat_map (fun x => flat_map h (g x)) l.
Proof.
  induction l as [|a l IH]; simpl.
  - reflexivity.
  - rewrite flat_map_app, IH. reflexivity.
Qed.

Lemma filter_flat_map : forall (A B : Type) (P : B -> bool) (g : A -> list B) l,
  filter P (flat_map g l) = flat_map (fun x => filter P (g x)) l.
Proof.
  induction l as [|a l IH]; simpl.
  - reflexivity.
  - rewrite filter_app, IH. reflexivity.
Qed.

Lemma filter_none : forall (A : Type) (P : A -> bool) l,
  (forall x, In x l -> P x = false) -> filter P l = [].
Proof.
  induction l as [|a l IH]; simpl; intros H.
  - reflexivity.
  - rewrite (H a (or_introl eq_refl)). apply IH. intros x Hx. apply H. right. exact Hx.
Qed.

Lemma existsb_false_forall : forall (A : Type) (P : A -> bool) l,
  existsb P l = false <-> (forall x, In x l -> P x = false).
Proof.
  induction l as [|a l IH]; simpl.
  - split; [intros _ x [] | reflexivity].
  - rewrite orb_false_iff, IH. split.
    + intros [H1 H2] x [->|Hx]; [exact H1 | exact (H2 x Hx)].
    + intros H. split; [apply H; left; reflexivity | intros x Hx; apply H; right; exact Hx].
Qed.

(* names distinct across the pieces of a flat_map: a name determines its piece *)
Lemma NoDup_flat_map_piece : forall (A B : Type) (g : A -> list B) l a b x,
  NoDup (flat_map g l) -> In a l -> In b l -> In x (g a) -> In x (g b) -> a = b.
Proof.
  induction l as [|c l IH]; simpl; intros a b x Hn Ha Hb Hxa Hxb.
  - contradiction.
  - destruct Ha as [->|Ha], Hb as [->|Hb].
    + reflexivity.
    + exfalso. apply (NoDup_app_disjoint _ _ _ x Hn Hxa). apply in_flat_map. exists b. split; assumption.
    + exfalso. apply (NoDup_app_disjoint _ _ _ x Hn Hxb). apply in_flat_map. exists a. split; assumption.
    + exact (IH a b x (NoDup_app_r _ _ _ Hn) Ha Hb Hxa Hxb).
Qed.

Lemma flat_map_split_perm : forall (A B : Type) (g h : A -> list B) l,
  Permutation (flat_map (fun x => (g x ++ h x)%list) l) (flat_map g l ++ flat_map h l)%list.
Proof.
  induction l as [|a l IH]; simpl.
  - constructor.
  - rewrite <- !app_assoc. apply Permutation_app_head.
    eapply Permutation_trans; [apply Permutation_app_head; exact IH|].
    apply Permutation_app_swap_app.
Qed.

(* find on a permuted list when all matches have the same image *)
Lemma find_perm_image : forall (A B : Type) (P : A -> bool) (g : A -> B) (d : B) l l',
  Permutation l' l ->
  (forall x y, In x l -> In y l -> P x = true -> P y = true -> g x = g y) ->
  match find P l' with Some x => g x | None => d end = match find P l with Some x => g x | None => d end.
Proof.
  intros A B P g d l l' Hp Hu.
  destruct (find P l') as [x|] eqn:E1; destruct (find P l) as [y|] eqn:E2.
  - apply find_some in E1. apply find_some in E2. destruct E1 as [I1 P1], E2 as [I2 P2].
    apply Hu; try assumption. eapply Permutation_in; eassumption.
  - apply find_some in E1. destruct E1 as [I1 P1].
    pose proof (find_none _ _ E2 x (Permutation_in _ Hp I1)) as C. congruence.
  - apply find_some in E2. destruct E2 as [I2 P2].
    pose proof (find_none _ _ E1 y (Permutation_in _ (Permutation_sym Hp) I2)) as C. congruence.
  - reflexivity.
Qed.

Lemma find_app : forall (A : Type) (P : A -> bool) l1 l2,
  find P (l1 ++ l2) = match find P l1 with Some x => Some x | None => find P l2 end.
Proof.
  induction l1 as [|a l1 IH]; simpl; intros l2.
  - reflexivity.
  - destruct (P a); [reflexivity | apply IH].
Qed.

(* ---------------------------------------------------- perm_eqb, srcmap_same *)

Lemma remove_one_perm : forall x l r, remove_one x l = Some r -> Permutation l (x :: r).
Proof.
  induction l as [|y l IH]; simpl; intros r H.
  - discriminate.
  - destruct (x =? y) eqn:E.
    + apply String.eqb_eq in E. inversion H; subst. apply Permutation_refl.
    + destruct (remove_one x l) as [r'|]; [|discriminate]. inversion H; subst.
      eapply Permutation_trans; [apply perm_skip; apply IH; reflexivity|]. apply perm_swap.
Qed.

Lemma remove_one_in : forall x l, In x l -> exists r, remove_one x l = Some r.
Proof.
  induction l as [|y l IH]; simpl; intros H.
  - contradiction.
  - destruct (x =? y) eqn:E.
    + eexists. reflexivity.
    + destruct H as [->|H]; [rewrite String.eqb_refl in E; discriminate|].
      destruct (IH H) as [r Hr]. rewrite Hr. eexists. reflexivity.
Qed.

Lemma perm_eqb_complete : forall a b, Permutation a b -> perm_eqb a b = true.
Proof.
  induction a as [|x a IH]; intros b Hp; simpl.
  - apply Permutation_nil in Hp. subst. reflexivity.
  - assert (Hx : In x b) by (eapply Permutation_in; [exact Hp | left; reflexivity]).
    destruct (remove_one_in x b Hx) as [r Hr]. rewrite Hr. apply IH.
    apply remove_one_perm in Hr. apply Permutation_cons_inv with (a := x).
    eapply Permutation_trans; eassumption.
Qed.

Lemma perm_eqb_sound : forall a b, perm_eqb a b = true -> Permutation a b.
Proof.
  induction a as [|x a IH]; intros b H; simpl in H.
  - destruct b; [constructor | discriminate].
  - destruct (remove_one x b) as [r|] eqn:E; [|discriminate].
    apply remove_one_perm in E. apply Permutation_sym.
    eapply Permutation_trans; [exact E|]. apply perm_skip. apply Permutation_sym. apply IH. exact H.
Qed.

Lemma types_eqb_refl : forall v, types_eqb v v = true.
Proof.
  intros v. unfold types_eqb. rewrite Nat.eqb_refl. simpl.
  induction v as [|x v IH]; simpl; [reflexivity|]. rewrite String.eqb_refl. exact IH.
Qed.

Lemma types_eqb_eq : forall v w, types_eqb v w = true -> v = w.
Proof.
  unfold types_eqb. induction v as [|x v IH]; intros [|y w] H; simpl in H; try discriminate; try reflexivity.
  rewrite !andb_true_iff in H. destruct H as [Hl [He Hr]]. apply String.eqb_eq in He. subst. f_equal.
  apply IH. rewrite Hl. exact Hr.
Qed.

Lemma has_entry_in : forall m kv, In kv m -> has_entry m kv = true.
Proof.
  intros m kv H. unfold has_entry. apply existsb_exists. exists kv. split; [exact H|].
  rewrite String.eqb_refl, types_eqb_refl. reflexivity.
Qed.

Lemma srcmap_same_refl : forall m, srcmap_same m m = true.
Proof.
  intros m. unfold srcmap_same. rewrite Nat.eqb_refl. simpl.
  assert (H : forallb (has_entry m) m = true) by (apply forallb_forall; intros kv Hkv; apply has_entry_in; exact Hkv).
  rewrite H. reflexivity.
Qed.

(* ------------------------------------------------------- views of a skeleton *)

Definition perm_oracle (o : oracle) : Prop := forall (A : Type) (l : list A), Permutation (o A l) l.

Lemma id_oracle_perm : perm_oracle id_oracle.
Proof. intros A l. apply Permutation_refl. Qed.

Definition names (l : list tspec) : list string := map ts_name l.

Lemma pkg_specs_decls : forall p, pkg_specs p = flat_map top_decl (all_decls p).
Proof. intros p. unfold pkg_specs, top_specs, all_decls. symmetry. apply flat_map_flat_map. Qed.

Lemma top_specs_in_pkg : forall p f t, In f (p_files p) -> In t (top_specs f) -> In t (pkg_specs p).
Proof. intros p f t Hf Ht. unfold pkg_specs. apply in_flat_map. exists f. split; assumption. Qed.

Lemma in_pkg_specs_file : forall p t, In t (pkg_specs p) -> exists f, In f (p_files p) /\ In t (top_specs f).
Proof. intros p t H. unfold pkg_specs in H. apply in_flat_map in H. exact H. Qed.

(* the conjuncts of wf_pkgb *)
Record wf (p : pkg) : Prop := {
  wf_names : NoDup (names (pkg_specs p));
  wf_idents : forall t, In t (pkg_specs p) -> is_ident (ts_name t) = true;
  wf_files : NoDup (map f_name (p_files p));
  wf_visible : forall f, In f (p_files p) -> visible_file (f_name f) = true
}.

Lemma wf_pkgb_wf : forall p, wf_pkgb p = true -> wf p.
Proof.
  intros p H. unfold wf_pkgb in H. rewrite !andb_true_iff in H. destruct H as [[[H1 H2] H3] H4].
  constructor.
  - apply nodupb_NoDup. exact H1.
  - intros t Ht. rewrite forallb_forall in H2. apply H2. apply in_map. exact Ht.
  - apply nodupb_NoDup. exact H3.
  - intros f Hf. rewrite forallb_forall in H4. apply H4. apply in_map. exact Hf.
Qed.

Lemma named_unique : forall p t1 t2, wf p ->
  In t1 (pkg_specs p) -> In t2 (pkg_specs p) -> ts_name t1 = ts_name t2 -> t1 = t2.
Proof. intros p t1 t2 W H1 H2 He. exact (NoDup_map_inj _ _ ts_name _ t1 t2 (wf_names p W) H1 H2 He). Qed.

Lemma names_pkg_specs : forall p, names (pkg_specs p) = flat_map (fun f => names (top_specs f)) (p_files p).
Proof. intros p. unfold names, pkg_specs. apply map_flat_map. Qed.

(* the file a package-level type is declared in *)
Lemma decl_file_spec : forall p f t, wf p -> In f (p_files p) -> In t (top_specs f) -> decl_file p (ts_name t) = f_name f.
Proof.
  intros p f t W Hf Ht. unfold decl_file.
  destruct (find (declares (ts_name t)) (p_files p)) as [f1|] eqn:E.
  - apply find_some in E. destruct E as [Hf1 Hd]. unfold declares in Hd. apply existsb_exists in Hd.
    destruct Hd as [t1 [Ht1 He]]. apply String.eqb_eq in He.
    assert (f1 = f); [|subst; reflexivity].
    pose proof (wf_names p W) as Hn. rewrite names_pkg_specs in Hn.
    apply (NoDup_flat_map_piece _ _ _ _ f1 f (ts_name t) Hn Hf1 Hf).
    + rewrite <- He. apply in_map. exact Ht1.
    + apply in_map. exact Ht.
  - exfalso. pose proof (find_none _ _ E f Hf) as C. unfold declares in C.
    rewrite existsb_false_forall in C. specialize (C t Ht). rewrite String.eqb_refl in C. discriminate.
Qed.

(* ---------------------------------------------------------------- getGoFile *)

Definition gg_pred (T : string) (d : tdef) : bool := (td_name d =? T) && td_pkgscope d.

Definition ofile (o : option tdef) : option string :=
  match o with Some d => Some (td_file d) | None => None end.

Lemma find_scopeless : forall T (g : string -> tdef) l,
  (forall n, td_pkgscope (g n) = false) -> find (gg_pred T) (map g l) = None.
Proof.
  intros T g l H. induction l as [|n l IH]; simpl; [reflexivity|].
  unfold gg_pred at 1. rewrite H, andb_false_r. exact IH.
Qed.

Lemma find_scopeless_ts : forall T (g : tspec -> tdef) l,
  (forall n, td_pkgscope (g n) = false) -> find (gg_pred T) (map g l) = None.
Proof.
  intros T g l H. induction l as [|n l IH]; simpl; [reflexivity|].
  unfold gg_pred at 1. rewrite H, andb_false_r. exact IH.
Qed.

Definition defs_of_decl (fname : string) (d : decl) : list tdef :=
  match d with
  | DType l => flat_map (fun t =>
      {| td_name := ts_name t; td_pkgscope := true; td_file := fname |} ::
      map (fun n => {| td_name := n; td_pkgscope := false; td_file := fname |}) (ts_tparams t)) l
  | DFunc l => map (fun t => {| td_name := ts_name t; td_pkgscope := false; td_file := fname |}) l
  | _ => []
  end.

Lemma defs_of_file_decls : forall f, defs_of_file f = flat_map (defs_of_decl (f_name f)) (f_decls f).
Proof. intros f. unfold defs_of_file. apply flat_map_ext. intros d. destruct d; reflexivity. Qed.

Lemma find_defs_decl : forall T fname d,
  ofile (find (gg_pred T) (defs_of_decl fname d)) =
  if existsb (fun t => ts_name t =? T) (top_decl d) then Some fname else None.
Proof.
  intros T fname d. destruct d as [l|ty ns|l|txt]; simpl; try reflexivity.
  - induction l as [|t l IH]; simpl; [reflexivity|].
    unfold gg_pred at 1. simpl. rewrite andb_true_r. destruct (ts_name t =? T); [reflexivity|].
    rewrite find_app, find_scopeless by reflexivity. exact IH.
  - rewrite find_scopeless_ts by reflexivity. reflexivity.
Qed.

Lemma find_defs_file : forall T f,
  ofile (find (gg_pred T) (defs_of_file f)) = if declares T f then Some (f_name f) else None.
Proof.
  intros T f. rewrite defs_of_file_decls. unfold declares, top_specs.
  induction (f_decls f) as [|d ds IH]; simpl; [reflexivity|].
  rewrite find_app, existsb_app. pose proof (find_defs_decl T (f_name f) d) as Hd.
  destruct (find (gg_pred T) (defs_of_decl (f_name f) d)) as [x|]; simpl in Hd |- *.
  - destruct (existsb (fun t => ts_name t =? T) (top_decl d)); [simpl; exact Hd | discriminate].
  - destruct (existsb (fun t => ts_name t =? T) (top_decl d)); [discriminate | simpl; exact IH].
Qed.

Lemma get_go_file_id : forall p T, get_go_file id_oracle p T = decl_file p T.
Proof.
  intros p T. unfold get_go_file, decl_file, id_oracle, defs_of. fold (gg_pred T).
  induction (p_files p) as [|f fs IH]; simpl; [reflexivity|].
  rewrite find_app. pose proof (find_defs_file T f) as Hf.
  destruct (find (gg_pred T) (defs_of_file f)) as [x|]; simpl in Hf.
  - destruct (declares T f); [inversion Hf; reflexivity | discriminate].
  - destruct (declares T f); [discriminate | exact IH].
Qed.

Lemma gg_pred_origin : forall p T d, In d (defs_of p) -> gg_pred T d = true ->
  exists f t, In f (p_files p) /\ In t (top_specs f) /\ ts_name t = T /\ td_file d = f_name f.
Proof.
  intros p T d Hd Hp. unfold defs_of in Hd. apply in_flat_map in Hd. destruct Hd as [f [Hf Hd]].
  rewrite defs_of_file_decls in Hd. apply in_flat_map in Hd. destruct Hd as [dc [Hdc Hd]].
  unfold gg_pred in Hp. apply andb_true_iff in Hp. destruct Hp as [Hn Hs]. apply String.eqb_eq in Hn.
  destruct dc as [l|ty ns|l|txt]; simpl in Hd; try contradiction.
  - apply in_flat_map in Hd. destruct Hd as [t [Ht [Hd|Hd]]].
    + subst d. simpl in *. exists f, t. repeat split; try assumption.
      unfold top_specs. apply in_flat_map. exists (DType l). split; [exact Hdc | exact Ht].
    + apply in_map_iff in Hd. destruct Hd as [n [Hd _]]. subst d. simpl in Hs. discriminate.
  - apply in_map_iff in Hd. destruct Hd as [t [Hd _]]. subst d. simpl in Hs. discriminate.
Qed.

Lemma get_go_file_perm : forall o p T, perm_oracle o -> wf p -> get_go_file o p T = decl_file p T.
Proof.
  intros o p T Ho W. rewrite <- get_go_file_id. unfold get_go_file, id_oracle. fold (gg_pred T).
  apply (find_perm_image _ _ (gg_pred T) td_file "" (defs_of p) (o _ (defs_of p))); [apply Ho|].
  intros x y Hx Hy Px Py.
  destruct (gg_pred_origin p T x Hx Px) as [f1 [t1 [Hf1 [Ht1 [Hn1 He1]]]]].
  destruct (gg_pred_origin p T y Hy Py) as [f2 [t2 [Hf2 [Ht2 [Hn2 He2]]]]].
  rewrite He1, He2. rewrite <- (decl_file_spec p f1 t1 W Hf1 Ht1), <- (decl_file_spec p f2 t2 W Hf2 Ht2).
  rewrite Hn1, Hn2. reflexivity.
Qed.

(* ---------------------------------------------------------------- MakeData *)

Lemma new_walk_absent : forall T l found,
  (forall t, In t l -> ts_name t <> T) ->
  new_walk T l found = if found then MGen else MFatal DgNotExists.
Proof.
  intros T l. induction l as [|a l IH]; simpl; intros found H; [reflexivity|].
  assert (Ha : (ts_name a =? T) = false) by (apply String.eqb_neq; apply H; left; reflexivity).
  rewrite Ha. simpl. apply IH. intros t Ht. apply H. right. exact Ht.
Qed.

Lemma new_walk_unique : forall T l t, NoDup (names l) -> In t l -> ts_name t = T ->
  new_walk T l false =
  if negb (is_struct t) then MFatal DgNotStruct else if has_prefix "_" T then MFatal DgNotExists else MGen.
Proof.
  intros T l t. induction l as [|a l IH]; simpl; intros Hn Ht He; [contradiction|].
  inversion Hn as [|x xs Hna Hn']; subst x xs.
  destruct (ts_name a =? T) eqn:Ea; simpl.
  - apply String.eqb_eq in Ea.
    assert (a = t).
    { destruct Ht as [Ht|Ht]; [exact Ht|]. exfalso. apply Hna. rewrite Ea, <- He. apply in_map. exact Ht. }
    subst a. assert (Habs : forall t', In t' l -> ts_name t' <> T).
    { intros t' Ht' C. apply Hna. rewrite Ea, <- C. apply in_map. exact Ht'. }
    destruct (is_struct t); simpl; [|reflexivity]. rewrite Ea.
    destruct (has_prefix "_" T); apply new_walk_absent; exact Habs.
  - apply String.eqb_neq in Ea. destruct Ht as [Ht|Ht]; [subst a; contradiction|].
    apply IH; assumption.
Qed.

Definition alias_pred (T : string) (t : tspec) : bool := ts_alias t && (ts_name t =? T).
Definition has_alias (p : pkg) (T : string) : bool := existsb (alias_pred T) (pkg_specs p).

Lemma enum_walk_specs_existsb : forall T l, enum_walk_specs T l = existsb (alias_pred T) l.
Proof. intros T l. induction l as [|t l IH]; simpl; [reflexivity|]. rewrite IH. reflexivity. Qed.

Definition consts_in (T : string) (ds : list decl) : nat := fold_right (fun d m => consts_decl T d + m) 0 ds.

Lemma consts_in_app : forall T l1 l2, consts_in T (l1 ++ l2) = consts_in T l1 + consts_in T l2.
Proof. intros T l1 l2. induction l1 as [|d l1 IH]; simpl; [reflexivity|]. rewrite IH. lia. Qed.

Lemma consts_of_all : forall p T, consts_of p T = consts_in T (all_decls p).
Proof.
  intros p T. unfold consts_of, all_decls. induction (p_files p) as [|f fs IH]; simpl; [reflexivity|].
  rewrite consts_in_app, IH. reflexivity.
Qed.

Definition enum_end (sp : bool) (n : nat) : md_res :=
  if Nat.eqb n 0 then (if sp then MFatal DgEnumNone else MSkip) else MGen.

Lemma enum_walk_ok : forall p sp T ds n,
  existsb (alias_pred T) (flat_map top_decl ds) = false ->
  (type_is_int p T = true \/ consts_in T ds = 0) ->
  enum_walk p sp T ds n = enum_end sp (n + consts_in T ds).
Proof.
  intros p sp T ds. induction ds as [|d ds IH]; intros n Ha Hc.
  - simpl. rewrite Nat.add_0_r. reflexivity.
  - simpl in Ha. rewrite existsb_app in Ha. apply orb_false_iff in Ha. destruct Ha as [Ha1 Ha2].
    destruct d as [l|ty ns|l|txt]; simpl.
    + simpl in Ha1. rewrite enum_walk_specs_existsb, Ha1. apply IH; [exact Ha2|]. simpl in Hc. exact Hc.
    + simpl in Hc. destruct (ty =? T) eqn:Et; simpl.
      * destruct (real_names ns) as [|x ns'] eqn:Er.
        -- simpl. apply IH; [exact Ha2|]. simpl in Hc. exact Hc.
        -- assert (Hi : type_is_int p T = true).
           { destruct Hc as [Hc|Hc]; [exact Hc|]. simpl in Hc. discriminate. }
           rewrite Hi. rewrite IH; [|exact Ha2|left; exact Hi].
           f_equal. simpl. lia.
      * apply IH; [exact Ha2|]. exact Hc.
    + apply IH; [exact Ha2|]. simpl in Hc. exact Hc.
    + apply IH; [exact Ha2|]. simpl in Hc. exact Hc.
Qed.

Lemma enum_walk_alias_fatal : forall p sp T ds n,
  existsb (alias_pred T) (flat_map top_decl ds) = true -> exists d, enum_walk p sp T ds n = MFatal d.
Proof.
  intros p sp T ds. induction ds as [|d ds IH]; intros n Ha; [discriminate|].
  simpl in Ha. rewrite existsb_app in Ha.
  destruct d as [l|ty ns|l|txt]; simpl in *.
  - rewrite enum_walk_specs_existsb. destruct (existsb (alias_pred T) l); [eexists; reflexivity|].
    apply IH. exact Ha.
  - destruct (ty =? T); simpl; [|apply IH; exact Ha].
    destruct (real_names ns) as [|x ns']; [apply IH; exact Ha|].
    destruct (type_is_int p T); [apply IH; exact Ha | eexists; reflexivity].
  - apply IH. exact Ha.
  - apply IH. exact Ha.
Qed.

Lemma enum_walk_nonint_fatal : forall p sp T ds n,
  type_is_int p T = false -> consts_in T ds <> 0 -> exists d, enum_walk p sp T ds n = MFatal d.
Proof.
  intros p sp T ds. induction ds as [|d ds IH]; intros n Hi Hc; [simpl in Hc; contradiction|].
  destruct d as [l|ty ns|l|txt]; simpl in *.
  - destruct (enum_walk_specs T l); [eexists; reflexivity | apply IH; assumption].
  - destruct (ty =? T); simpl; [|apply IH; assumption].
    destruct (real_names ns) as [|x ns']; [apply IH; assumption|]. rewrite Hi. eexists; reflexivity.
  - apply IH; assumption.
  - apply IH; assumption.
Qed.

Lemma type_is_int_unique : forall p t, wf p -> In t (pkg_specs p) -> type_is_int p (ts_name t) = ts_int t.
Proof.
  intros p t W Ht. unfold type_is_int.
  destruct (find (fun t0 => ts_name t0 =? ts_name t) (pkg_specs p)) as [t'|] eqn:E.
  - apply find_some in E. destruct E as [Ht' He]. apply String.eqb_eq in He.
    rewrite (named_unique p t' t W); try assumption; reflexivity.
  - pose proof (find_none _ _ E t Ht) as C. simpl in C. rewrite String.eqb_refl in C. discriminate.
Qed.

Lemma type_is_int_absent : forall p T, (forall t, In t (pkg_specs p) -> ts_name t <> T) -> type_is_int p T = false.
Proof.
  intros p T H. unfold type_is_int. destruct (find (fun t => ts_name t =? T) (pkg_specs p)) as [t|] eqn:E; [|reflexivity].
  apply find_some in E. destruct E as [Ht He]. apply String.eqb_eq in He. exfalso. exact (H t Ht He).
Qed.

Lemma nameable_iff : forall c p T,
  nameable c p T = true <-> exists t, In t (pkg_specs p) /\ ts_name t = T /\ eligible c p t = true.
Proof.
  intros c p T. unfold nameable. rewrite existsb_exists. split.
  - intros [t [Ht H]]. apply andb_true_iff in H. destruct H as [H1 H2]. apply String.eqb_eq in H1. exists t. tauto.
  - intros [t [Ht [H1 H2]]]. exists t. split; [exact Ht|]. rewrite H2. subst T. rewrite String.eqb_refl. reflexivity.
Qed.

Lemma no_alias_named : forall p t, wf p -> In t (pkg_specs p) -> ts_alias t = false -> has_alias p (ts_name t) = false.
Proof.
  intros p t W Ht Ha. apply existsb_false_forall. intros t' Ht'. unfold alias_pred.
  destruct (ts_name t' =? ts_name t) eqn:E; [|apply andb_false_r].
  apply String.eqb_eq in E. rewrite (named_unique p t' t W Ht' Ht E), Ha. reflexivity.
Qed.

Lemma has_alias_decls : forall p T, has_alias p T = existsb (alias_pred T) (flat_map top_decl (all_decls p)).
Proof. intros p T. unfold has_alias. rewrite pkg_specs_decls. reflexivity. Qed.

Lemma make_data_nameable : forall c p b T, wf p -> nameable c p T = true -> make_data c p b T = MGen.
Proof.
  intros c p b T W Hn. apply nameable_iff in Hn. destruct Hn as [t [Ht [He Hel]]].
  destruct c; simpl in *.
  - apply andb_true_iff in Hel. destruct Hel as [Hs Hp]. rewrite (new_walk_unique T (pkg_specs p) t (wf_names p W) Ht He).
    rewrite Hs. simpl. rewrite He in Hp. apply negb_true_iff in Hp. rewrite Hp. reflexivity.
  - rewrite !andb_true_iff in Hel. destruct Hel as [[Hi Ha] Hc]. apply negb_true_iff in Ha. apply negb_true_iff in Hc.
    subst T. rewrite enum_walk_ok.
    + rewrite <- consts_of_all. unfold enum_end. simpl. rewrite Hc. reflexivity.
    + rewrite <- has_alias_decls. apply no_alias_named; assumption.
    + left. rewrite type_is_int_unique; assumption.
  - assert (Hx : existsb (fun t0 => (ts_name t0 =? T) && is_rest_iface t0) (pkg_specs p) = true).
    { apply existsb_exists. exists t. split; [exact Ht|]. rewrite He, String.eqb_refl, Hel. reflexivity. }
    rewrite Hx. reflexivity.
  - apply andb_true_iff in Hel. destruct Hel as [Hs Hd].
    assert (Hx : existsb (fun t0 => (ts_name t0 =? T) && is_struct t0) (pkg_specs p) = true).
    { apply existsb_exists. exists t. split; [exact Ht|]. rewrite He, String.eqb_refl, Hs. reflexivity. }
    rewrite Hx. simpl. unfold dest_has_struct in Hd. rewrite He in Hd. rewrite Hd. reflexivity.
Qed.

Lemma named_or_absent : forall p T,
  (exists t, In t (pkg_specs p) /\ ts_name t = T) \/ (forall t, In t (pkg_specs p) -> ts_name t <> T).
Proof.
  intros p T. destruct (existsb (fun t => ts_name t =? T) (pkg_specs p)) eqn:E.
  - left. apply existsb_exists in E. destruct E as [t [Ht He]]. apply String.eqb_eq in He. exists t. tauto.
  - right. intros t Ht C. rewrite existsb_false_forall in E. specialize (E t Ht). simpl in E.
    rewrite C, String.eqb_refl in E. discriminate.
Qed.

Lemma not_nameable_ineligible : forall c p t, nameable c p (ts_name t) = false -> In t (pkg_specs p) -> eligible c p t = false.
Proof.
  intros c p t Hn Ht. unfold nameable in Hn. rewrite existsb_false_forall in Hn. specialize (Hn t Ht). simpl in Hn.
  rewrite String.eqb_refl in Hn. exact Hn.
Qed.

(* an explicitly named type the subcommand cannot generate for: always a diagnostic *)
Lemma make_data_not_nameable : forall c p T, wf p -> nameable c p T = false ->
  exists d, make_data c p true T = MFatal d.
Proof.
  intros c p T W Hn.
  destruct c; simpl.
  - destruct (named_or_absent p T) as [[t [Ht He]]|Habs].
    + subst T. pose proof (not_nameable_ineligible _ _ _ Hn Ht) as Hel. simpl in Hel.
      rewrite (new_walk_unique _ (pkg_specs p) t (wf_names p W) Ht eq_refl).
      destruct (is_struct t); simpl in *; [|eexists; reflexivity].
      apply negb_false_iff in Hel. rewrite Hel. eexists; reflexivity.
    + rewrite new_walk_absent by exact Habs. eexists; reflexivity.
  - destruct (has_alias p T) eqn:Ea.
    + apply enum_walk_alias_fatal. rewrite <- has_alias_decls. exact Ea.
    + destruct (Nat.eqb (consts_of p T) 0) eqn:Ec.
      * apply Nat.eqb_eq in Ec. rewrite enum_walk_ok.
        -- rewrite <- consts_of_all, Ec. eexists; reflexivity.
        -- rewrite <- has_alias_decls. exact Ea.
        -- right. rewrite <- consts_of_all. exact Ec.
      * apply Nat.eqb_neq in Ec.
        apply enum_walk_nonint_fatal; [|rewrite <- consts_of_all; exact Ec].
        destruct (named_or_absent p T) as [[t [Ht He]]|Habs].
        -- subst T. pose proof (not_nameable_ineligible _ _ _ Hn Ht) as Hel. simpl in Hel.
           rewrite type_is_int_unique by assumption.
           unfold has_alias in Ea. rewrite existsb_false_forall in Ea. specialize (Ea t Ht). unfold alias_pred in Ea.
           rewrite String.eqb_refl, andb_true_r in Ea. rewrite Ea in Hel. simpl in Hel.
           apply Nat.eqb_neq in Ec. rewrite Ec in Hel. simpl in Hel. rewrite !andb_true_r in Hel. exact Hel.
        -- apply type_is_int_absent. exact Habs.
  - assert (Hx : existsb (fun t0 => (ts_name t0 =? T) && is_rest_iface t0) (pkg_specs p) = false).
    { apply existsb_false_forall. intros t Ht. destruct (ts_name t =? T) eqn:E; [|reflexivity]. simpl.
      apply String.eqb_eq in E. subst T. exact (not_nameable_ineligible _ _ _ Hn Ht). }
    rewrite Hx. eexists; reflexivity.
  - destruct (existsb (fun t0 => (ts_name t0 =? T) && is_struct t0) (pkg_specs p)) eqn:Ex; simpl; [|eexists; reflexivity].
    apply existsb_exists in Ex. destruct Ex as [t [Ht Hx]]. apply andb_true_iff in Hx. destruct Hx as [He Hs].
    apply String.eqb_eq in He. subst T.
    pose proof (not_nameable_ineligible _ _ _ Hn Ht) as Hel. simpl in Hel. rewrite Hs in Hel. simpl in Hel.
    unfold dest_has_struct in Hel. rewrite Hel. eexists; reflexivity.
Qed.

Lemma listable_test : forall c p t, listable c p t = true -> test_node_list c t = true.
Proof.
  intros c p t H. unfold listable in H. destruct c; simpl in *.
  - rewrite andb_true_r in H. rewrite andb_comm. exact H.
  - rewrite andb_true_r in H. rewrite !andb_true_iff in H. destruct H as [[H1 H2] _]. rewrite H1, H2. reflexivity.
  - rewrite andb_true_r in H. exact H.
  - rewrite !andb_true_iff in H. destruct H as [[H1 _] H2]. rewrite H1, H2. reflexivity.
Qed.

Lemma make_data_listed : forall c p t, wf p -> In t (pkg_specs p) -> test_node_list c t = true ->
  make_data c p false (ts_name t) = if listable c p t then MGen else MSkip.
Proof.
  intros c p t W Ht Htest.
  unfold listable. destruct c; simpl in *.
  - apply andb_true_iff in Htest. destruct Htest as [Hp Hs].
    rewrite (new_walk_unique _ (pkg_specs p) t (wf_names p W) Ht eq_refl).
    rewrite Hs, Hp. simpl. apply negb_true_iff in Hp. rewrite Hp. reflexivity.
  - apply andb_true_iff in Htest. destruct Htest as [Hi Ha]. rewrite Hi, Ha. simpl.
    apply negb_true_iff in Ha. rewrite enum_walk_ok.
    + rewrite <- consts_of_all. unfold enum_end. simpl. rewrite andb_true_r.
      destruct (Nat.eqb (consts_of p (ts_name t)) 0); reflexivity.
    + rewrite <- has_alias_decls. apply no_alias_named; assumption.
    + left. rewrite type_is_int_unique; assumption.
  - assert (Hx : existsb (fun t0 => (ts_name t0 =? ts_name t) && is_rest_iface t0) (pkg_specs p) = true).
    { apply existsb_exists. exists t. split; [exact Ht|]. rewrite String.eqb_refl, Htest. reflexivity. }
    rewrite Hx, Htest. reflexivity.
  - apply andb_true_iff in Htest. destruct Htest as [Hs Hx'].
    assert (Hx : existsb (fun t0 => (ts_name t0 =? ts_name t) && is_struct t0) (pkg_specs p) = true).
    { apply existsb_exists. exists t. split; [exact Ht|]. rewrite String.eqb_refl, Hs. reflexivity. }
    rewrite Hx, Hs, Hx'. simpl. unfold dest_has_struct. rewrite andb_true_r.
    destruct (existsb (fun t0 => (ts_name t0 =? ts_name t) && is_struct t0) (p_dest p)); reflexivity.
Qed.

(* --------------------------------------------------------------- ListTypes *)

Lemma list_types_all : forall c fl p, fl_file fl = "" ->
  list_types c fl p = map ts_name (filter (test_node_list c) (pkg_specs p)).
Proof.
  intros c fl p Hf. unfold list_types, pkg_specs. rewrite filter_flat_map, map_flat_map. apply flat_map_ext. intros f.
  unfold test_file. rewrite Hf. reflexivity.
Qed.

Lemma flat_map_select : forall (A : Type) (g : file -> list A) F fs, NoDup (map f_name fs) ->
  flat_map (fun f => if f_name f =? F then g f else []) fs =
  match find (fun f => f_name f =? F) fs with Some f => g f | None => [] end.
Proof.
  intros A g F fs. induction fs as [|f fs IH]; simpl; intros Hn; [reflexivity|].
  inversion Hn as [|x xs Hnf Hn']; subst x xs. destruct (f_name f =? F) eqn:E.
  - apply String.eqb_eq in E. rewrite IH by exact Hn'.
    destruct (find (fun f0 => f_name f0 =? F) fs) as [f'|] eqn:E'; [|apply app_nil_r].
    exfalso. apply find_some in E'. destruct E' as [Hf' He]. apply String.eqb_eq in He.
    apply Hnf. rewrite E, <- He. apply in_map. exact Hf'.
  - apply IH. exact Hn'.
Qed.

Lemma list_types_file : forall c fl p, wf p -> fl_file fl <> "" ->
  list_types c fl p = map ts_name (filter (test_node_list c) (file_named p (fl_file fl))).
Proof.
  intros c fl p W Hf. unfold list_types. apply String.eqb_neq in Hf.
  rewrite (flat_map_ext _ (fun f => if f_name f =? fl_file fl then map ts_name (filter (test_node_list c) (top_specs f)) else [])).
  - rewrite flat_map_select by (apply (wf_files p W)). unfold file_named.
    destruct (find (fun f => f_name f =? fl_file fl) (p_files p)); reflexivity.
  - intros f. unfold test_file. rewrite Hf. reflexivity.
Qed.

Lemma file_named_in : forall p F t, In t (file_named p F) ->
  exists f, In f (p_files p) /\ f_name f = F /\ In t (top_specs f).
Proof.
  intros p F t H. unfold file_named in H. destruct (find (fun f => f_name f =? F) (p_files p)) as [f|] eqn:E; [|contradiction].
  apply find_some in E. destruct E as [Hf He]. apply String.eqb_eq in He. exists f. tauto.
Qed.

(* ---------------------------------------------------------------- Generate *)

Definition is_gen (r : md_res) : bool := match r with MGen => true | _ => false end.
Definition keep (c : subcmd) (p : pkg) (sp : bool) (T : string) : bool := is_gen (make_data c p sp T).

(* one file per type, all names free: every kept type gets its file, in order *)
Lemma gen_loop_sep : forall c p fl aio fmap (name : string -> string) l files merged, fl_sep fl = true ->
  (forall T d, In T l -> make_data c p (fl_specified fl) T <> MFatal d) ->
  (forall T, In T l -> file_name c fl aio fmap T = name T) ->
  NoDup (map fst files ++ map name (filter (keep c p (fl_specified fl)) l)) ->
  gen_loop c p fl aio fmap l files merged =
  (None, (files ++ map (fun T => (name T, [T])) (filter (keep c p (fl_specified fl)) l))%list, merged).
Proof.
  intros c p fl aio fmap name l. induction l as [|T l IH]; simpl; intros files merged Hs Hnf Hnm Hnd.
  - rewrite app_nil_r. reflexivity.
  - unfold keep at 1 in Hnd. unfold keep at 1. destruct (make_data c p (fl_specified fl) T) eqn:E; simpl in *.
    + rewrite Hs. rewrite (Hnm T (or_introl eq_refl)).
      assert (Hfree : mem (name T) (map fst files) = false).
      { apply mem_false. intros C. apply (NoDup_app_disjoint _ _ _ (name T) Hnd C). left. reflexivity. }
      rewrite Hfree. rewrite IH.
      * rewrite <- app_assoc. reflexivity.
      * exact Hs.
      * intros T' d HT'. apply Hnf. right. exact HT'.
      * intros T' HT'. apply Hnm. right. exact HT'.
      * rewrite map_app. simpl. rewrite <- app_assoc. exact Hnd.
    + apply IH; try assumption.
      * intros T' d HT'. apply Hnf. right. exact HT'.
      * intros T' HT'. apply Hnm. right. exact HT'.
    + exfalso. apply (Hnf T d); [left; reflexivity | exact E].
Qed.

(* one file per type, two kept types (or a kept type and an earlier file) with one name: a diagnostic *)
Lemma gen_loop_clash : forall c p fl aio fmap (name : string -> string) l files merged, fl_sep fl = true ->
  (forall T, In T l -> file_name c fl aio fmap T = name T) ->
  ~ NoDup (map fst files ++ map name (filter (keep c p (fl_specified fl)) l)) ->
  NoDup (map fst files) ->
  exists d fs m, gen_loop c p fl aio fmap l files merged = (Some d, fs, m).
Proof.
  intros c p fl aio fmap name l. induction l as [|T l IH]; simpl; intros files merged Hs Hnm Hnd Hf.
  - exfalso. apply Hnd. rewrite app_nil_r. exact Hf.
  - unfold keep at 1 in Hnd. destruct (make_data c p (fl_specified fl) T) eqn:E; simpl in *.
    + rewrite Hs. rewrite (Hnm T (or_introl eq_refl)).
      destruct (mem (name T) (map fst files)) eqn:Em; [do 3 eexists; reflexivity|].
      apply IH; try assumption.
      * intros T' HT'. apply Hnm. right. exact HT'.
      * rewrite map_app. simpl. rewrite <- app_assoc. exact Hnd.
      * rewrite map_app. simpl. apply mem_false in Em.
        clear - Hf Em. induction (map fst files) as [|x xs IHx]; simpl.
        -- constructor; [intros []|constructor].
        -- inversion Hf; subst. constructor.
           ++ intros C. apply in_app_or in C. destruct C as [C|[C|[]]]; [contradiction|]. subst. apply Em. left. reflexivity.
           ++ apply IHx; [assumption|]. intros C. apply Em. right. exact C.
    + apply IH; try assumption. intros T' HT'. apply Hnm. right. exact HT'.
    + do 3 eexists. reflexivity.
Qed.

Lemma gen_loop_merge : forall c p fl aio fmap l files merged, fl_sep fl = false ->
  (forall T d, In T l -> make_data c p (fl_specified fl) T <> MFatal d) ->
  gen_loop c p fl aio fmap l files merged = (None, files, (merged ++ filter (keep c p (fl_specified fl)) l)%list).
Proof.
  intros c p fl aio fmap l. induction l as [|T l IH]; simpl; intros files merged Hs Hnf.
  - rewrite app_nil_r. reflexivity.
  - unfold keep at 1. destruct (make_data c p (fl_specified fl) T) eqn:E; simpl.
    + rewrite Hs. rewrite IH; [|exact Hs|intros T' d HT'; apply Hnf; right; exact HT'].
      rewrite <- app_assoc. reflexivity.
    + apply IH; [exact Hs|]. intros T' d HT'. apply Hnf. right. exact HT'.
    + exfalso. apply (Hnf T d); [left; reflexivity | exact E].
Qed.

Lemma gen_loop_fatal : forall c p fl aio fmap l files merged,
  (exists T d, In T l /\ make_data c p (fl_specified fl) T = MFatal d) ->
  exists d fs m, gen_loop c p fl aio fmap l files merged = (Some d, fs, m).
Proof.
  intros c p fl aio fmap l. induction l as [|T l IH]; simpl; intros files merged [T0 [d0 [Hin Hf]]]; [contradiction|].
  destruct (make_data c p (fl_specified fl) T) eqn:E.
  - destruct Hin as [->|Hin]; [congruence|].
    destruct (fl_sep fl); [|apply IH; exists T0, d0; tauto].
    destruct (mem (file_name c fl aio fmap T) (map fst files)); [do 3 eexists; reflexivity|].
    apply IH; exists T0, d0; tauto.
  - destruct Hin as [->|Hin]; [congruence|]. apply IH. exists T0, d0. tauto.
  - do 3 eexists. reflexivity.
Qed.

Lemma filter_map_comm : forall (A B : Type) (P : B -> bool) (f : A -> B) l,
  filter P (map f l) = map f (filter (fun x => P (f x)) l).
Proof.
  intros A B P f l. induction l as [|x l IH]; simpl; [reflexivity|].
  destruct (P (f x)); simpl; rewrite IH; reflexivity.
Qed.

Lemma filter_keep_listable : forall c p pool, wf p -> (forall t, In t pool -> In t (pkg_specs p)) ->
  filter (keep c p false) (map ts_name (filter (test_node_list c) pool)) = map ts_name (filter (listable c p) pool).
Proof.
  intros c p pool W. induction pool as [|t pool IH]; simpl; intros H; [reflexivity|].
  assert (Ht : In t (pkg_specs p)) by (apply H; left; reflexivity).
  assert (IH' := IH (fun t' Ht' => H t' (or_intror Ht'))).
  destruct (test_node_list c t) eqn:Et; simpl.
  - unfold keep at 1. rewrite (make_data_listed c p t W Ht Et). destruct (listable c p t); simpl; rewrite IH'; reflexivity.
  - destruct (listable c p t) eqn:El; [|exact IH'].
    apply listable_test in El. congruence.
Qed.

Lemma listed_no_fatal : forall c p pool T d, wf p -> (forall t, In t pool -> In t (pkg_specs p)) ->
  In T (map ts_name (filter (test_node_list c) pool)) -> make_data c p false T <> MFatal d.
Proof.
  intros c p pool T d W H HT. apply in_map_iff in HT. destruct HT as [t [He Ht]]. apply filter_In in Ht.
  destruct Ht as [Ht Hp]. subst T. rewrite (make_data_listed c p t W (H t Ht) Hp).
  destruct (listable c p t); discriminate.
Qed.

(* ----------------------------------------------------------------- naming *)

Lemma is_ident_nonempty : forall T, is_ident T = true -> T <> "".
Proof. intros T H C. subst. discriminate. Qed.

Lemma is_ident_not_star : forall T, is_ident T = true -> T <> "*".
Proof. intros T H C. subst. vm_compute in H. discriminate. Qed.

Lemma file_name_type : forall c fl aio fmap T, T <> "" ->
  file_name c fl aio fmap T =
  per_type_name c (if negb (fl_file fl =? "") then fl_file fl else if negb (aio =? "") then aio else assoc T fmap) T.
Proof.
  intros c fl aio fmap T H. unfold file_name, per_type_name. apply String.eqb_neq in H. rewrite H. reflexivity.
Qed.

Lemma file_name_all : forall c fl aio,
  file_name c fl aio [] "" = all_in_one_name c (if fl_file fl =? "" then aio else fl_file fl).
Proof.
  intros c fl aio. unfold file_name, all_in_one_name. simpl.
  destruct (fl_file fl =? ""); simpl; [|reflexivity]. destruct (aio =? "") eqn:E; simpl; [|reflexivity].
  apply String.eqb_eq in E. subst. reflexivity.
Qed.

Lemma prefix_app_cong : forall a b c, String.prefix (a ++ b) (a ++ c) = String.prefix b c.
Proof.
  induction a as [|x a IH]; intros b c; simpl; [reflexivity|].
  destruct (ascii_dec x x) as [_|N]; [apply IH | contradiction].
Qed.

Lemma prefix_empty : forall s, String.prefix "" s = true.
Proof. destruct s; reflexivity. Qed.

Lemma anchored_per_type : forall c p f T, In f (p_files p) -> anchored c p (per_type_name c (f_name f) T) = true.
Proof.
  intros c p f T Hf. unfold anchored. apply existsb_exists. exists f. split; [exact Hf|].
  unfold has_prefix, per_type_name. rewrite prefix_app_cong.
  change ("." ++ shootcmd c ++ ".") with (String "." (shootcmd c ++ ".")).
  change ("." ++ shootcmd c ++ "." ++ type_part T ++ ".go") with (String "." (shootcmd c ++ "." ++ type_part T ++ ".go")).
  simpl. rewrite prefix_app_cong. simpl. apply prefix_empty.
Qed.

Lemma anchored_all_in_one : forall c p f, In f (p_files p) -> anchored c p (all_in_one_name c (f_name f)) = true.
Proof.
  intros c p f Hf. unfold anchored. apply existsb_exists. exists f. split; [exact Hf|].
  unfold has_prefix, all_in_one_name. rewrite prefix_app_cong.
  change ("." ++ shootcmd c ++ ".") with (String "." (shootcmd c ++ ".")).
  change ("." ++ shootcmd c ++ ".go") with (String "." (shootcmd c ++ "." ++ "go")).
  simpl. rewrite prefix_app_cong. reflexivity.
Qed.

Lemma aio_is_file : forall fl p, all_in_one_file fl p <> "" ->
  exists f, In f (p_files p) /\ all_in_one_file fl p = f_name f.
Proof.
  intros fl p H. unfold all_in_one_file in *.
  destruct ((fl_file fl =? "") && mem "*" (fl_types fl)); [|contradiction].
  destruct (find (file_has_cmdline (fl_cmdline fl)) (p_files p)) as [f|] eqn:E; [|contradiction].
  apply find_some in E. exists f. tauto.
Qed.

Lemma check_file_arg_ok : forall fl p, file_arg_ok fl p = true -> check_file_arg fl p = None.
Proof.
  intros fl p H. unfold file_arg_ok in H. unfold check_file_arg. destruct (fl_file fl =? ""); [reflexivity|].
  simpl in H. apply andb_true_iff in H. destruct H as [H1 H2]. rewrite H1, H2. reflexivity.
Qed.

Lemma check_file_arg_bad : forall fl p, file_arg_ok fl p = false -> exists d, check_file_arg fl p = Some d.
Proof.
  intros fl p H. unfold file_arg_ok in H. unfold check_file_arg. destruct (fl_file fl =? ""); [discriminate|].
  simpl in H. destruct (ends_with ".go" (fl_file fl)); simpl in *; [|eexists; reflexivity].
  rewrite H. simpl. eexists; reflexivity.
Qed.

(* ---------------------------------------------------------- confirmTypes *)

Definition fm_ok (p : pkg) (m : list (string * string)) : Prop := forall k v, In (k, v) m -> v = decl_file p k.

Lemma assoc_ok : forall p m T, fm_ok p m -> In T (map fst m) -> assoc T m = decl_file p T.
Proof.
  intros p m T. induction m as [|[k v] m IH]; simpl; intros Hok Hin; [contradiction|].
  destruct (k =? T) eqn:E.
  - apply String.eqb_eq in E. subst. apply Hok. left. reflexivity.
  - apply IH.
    + intros k' v' H. apply Hok. right. exact H.
    + destruct Hin as [Hin|Hin]; [|exact Hin]. apply String.eqb_neq in E. contradiction.
Qed.

Lemma confirm_nofile : forall o p fl l fmap, perm_oracle o -> wf p -> fl_file fl = "" -> fm_ok p fmap ->
  exists fm, confirm_specified o p fl l fmap = Some fm /\ fm_ok p fm /\
             (forall T, In T l \/ In T (map fst fmap) -> In T (map fst fm)).
Proof.
  intros o p fl l. induction l as [|T l IH]; simpl; intros fmap Ho W Hf Hok.
  - exists fmap. split; [reflexivity|]. split; [exact Hok|]. intros T [[]|H]. exact H.
  - rewrite Hf. simpl. destruct (IH ((T, get_go_file o p T) :: fmap) Ho W Hf) as [fm [H1 [H2 H3]]].
    + intros k v [H|H]; [|apply Hok; exact H]. inversion H; subst. apply get_go_file_perm; assumption.
    + exists fm. split; [exact H1|]. split; [exact H2|]. intros T' [[->|H]|H]; apply H3.
      * right. left. reflexivity.
      * left. exact H.
      * right. right. exact H.
Qed.

Lemma confirm_file : forall o p fl l fmap, perm_oracle o -> wf p -> fl_file fl <> "" ->
  confirm_specified o p fl l fmap =
  if forallb (fun T => decl_file p T =? fl_file fl) l then Some fmap else None.
Proof.
  intros o p fl l. induction l as [|T l IH]; simpl; intros fmap Ho W Hf; [reflexivity|].
  apply String.eqb_neq in Hf. rewrite Hf. rewrite get_go_file_perm by assumption.
  rewrite (String.eqb_sym (fl_file fl)). destruct (decl_file p T =? fl_file fl); simpl; [|reflexivity].
  apply IH; try assumption. apply String.eqb_neq. exact Hf.
Qed.


(* ------------------------------------------------------------ main theorem *)

(* main's loop writes the files in the order Go iterates srcMap and lists their names in that order *)
Lemma main_loop_spec : forall l w n, main_loop l w n = Done (w ++ l)%list (n ++ map fst l)%list.
Proof.
  induction l as [|[k v] l IH]; intros w n; simpl.
  - rewrite !app_nil_r. reflexivity.
  - rewrite IH, <- !app_assoc. reflexivity.
Qed.

Definition refines (o : oracle) (c : subcmd) (fl : cflags) (p : pkg) : Prop :=
  match spec c fl p with
  | EFail => exists d, run o c fl p = Failed d
  | EFiles fs => run o c fl p = Done (o _ fs) (map fst (o _ fs)) /\ forallb (anchored c p) (map fst fs) = true
  end.

Lemma known_class_false : forall c fl p, known_class c fl p = false ->
  k_star_no_generate_line c fl p = false /\ k_star_sep_file c fl p = false.
Proof.
  intros c fl p H. unfold known_class in H. rewrite !orb_false_iff in H. tauto.
Qed.

Lemma forallb_false_exists : forall (A : Type) (P : A -> bool) l, forallb P l = false -> exists x, In x l /\ P x = false.
Proof.
  intros A P l. induction l as [|a l IH]; simpl; intros H; [discriminate|].
  destruct (P a) eqn:E.
  - destruct (IH H) as [x [Hx Hp]]. exists x. tauto.
  - exists a. tauto.
Qed.

Lemma filter_all : forall (A : Type) (P : A -> bool) l, (forall x, In x l -> P x = true) -> filter P l = l.
Proof.
  intros A P l. induction l as [|a l IH]; simpl; intros H; [reflexivity|].
  rewrite (H a (or_introl eq_refl)). f_equal. apply IH. intros x Hx. apply H. right. exact Hx.
Qed.

Lemma nodupb_false : forall l, nodupb l = false -> ~ NoDup l.
Proof. intros l H C. apply nodupb_NoDup in C. congruence. Qed.

Lemma nameable_ident : forall c p T, wf p -> nameable c p T = true -> is_ident T = true.
Proof.
  intros c p T W H. apply nameable_iff in H. destruct H as [t [Ht [He _]]]. subst T.
  apply (wf_idents p W). exact Ht.
Qed.

Lemma nameable_file : forall c p T, wf p -> nameable c p T = true ->
  exists f, In f (p_files p) /\ decl_file p T = f_name f.
Proof.
  intros c p T W H. apply nameable_iff in H. destruct H as [t [Ht [He _]]]. subst T.
  destruct (in_pkg_specs_file p t Ht) as [f [Hf Htf]]. exists f. split; [exact Hf|].
  apply decl_file_spec; assumption.
Qed.

(* some name of an explicit list cannot be generated for: the loop stops with a diagnostic *)
Lemma specified_fatal : forall c p fl aio fm, wf p -> fl_specified fl = true ->
  forallb (nameable c p) (fl_types fl) = false ->
  exists d fs m, gen_loop c p fl aio fm (fl_types fl) [] [] = (Some d, fs, m).
Proof.
  intros c p fl aio fm W Hsp Hall.
  apply forallb_false_exists in Hall. destruct Hall as [T [HT Hn]].
  destruct (make_data_not_nameable c p T W Hn) as [d Hd].
  apply gen_loop_fatal. exists T, d. rewrite Hsp. tauto.
Qed.

Lemma refines_specified : forall o c fl p, perm_oracle o -> wf p ->
  fl_specified fl = true -> fl_sep fl = true -> file_arg_ok fl p = true -> refines o c fl p.
Proof.
  intros o c fl p Ho W Hsp Hsep Hfa.
  set (name := fun T => per_type_name c (decl_file p T) T).
  destruct (forallb (nameable c p) (fl_types fl) &&
            ((fl_file fl =? "") || forallb (fun T => decl_file p T =? fl_file fl) (fl_types fl))) eqn:Eok.
  - (* every name is eligible (and lies in the -file) *)
    apply andb_true_iff in Eok. destruct Eok as [Hall Hfile].
    assert (Hall' := Hall). rewrite forallb_forall in Hall.
    assert (Haio : all_in_one_file fl p = "").
    { unfold all_in_one_file. destruct (mem "*" (fl_types fl)) eqn:Em; [|rewrite andb_false_r; reflexivity].
      exfalso. apply mem_In in Em. apply (is_ident_not_star "*"); [|reflexivity].
      apply (nameable_ident c p "*" W). apply Hall. exact Em. }
    assert (Hconf : exists fm, confirm_specified o p fl (fl_types fl) [] = Some fm /\
              forall T, In T (fl_types fl) ->
                (if negb (fl_file fl =? "") then fl_file fl else if negb ("" =? "") then "" else assoc T fm) = decl_file p T).
    { destruct (fl_file fl =? "") eqn:Ef.
      - apply String.eqb_eq in Ef. destruct (confirm_nofile o p fl (fl_types fl) [] Ho W Ef) as [fm [H1 [H2 H3]]].
        { intros k v []. }
        exists fm. split; [exact H1|]. intros T HT. simpl. apply assoc_ok; [exact H2|]. apply H3. left. exact HT.
      - assert (Ef' := Ef). apply String.eqb_neq in Ef'. rewrite confirm_file by assumption.
        simpl in Hfile. rewrite Hfile. exists []. split; [reflexivity|]. intros T HT. simpl.
        rewrite forallb_forall in Hfile. specialize (Hfile T HT). apply String.eqb_eq in Hfile. symmetry. exact Hfile. }
    destruct Hconf as [fm [Hc Hsrc]].
    assert (Hnm : forall T, In T (fl_types fl) -> file_name c fl "" fm T = name T).
    { intros T HT. rewrite file_name_type.
      - rewrite (Hsrc T HT). reflexivity.
      - apply is_ident_nonempty. apply (nameable_ident c p T W). apply Hall. exact HT. }
    assert (Hk : filter (keep c p (fl_specified fl)) (fl_types fl) = fl_types fl).
    { apply filter_all. intros T HT. unfold keep. rewrite (make_data_nameable c p _ T W (Hall T HT)). reflexivity. }
    assert (Hnf : forall T d, In T (fl_types fl) -> make_data c p (fl_specified fl) T <> MFatal d).
    { intros T d HT. rewrite (make_data_nameable c p _ T W (Hall T HT)). discriminate. }
    destruct (nodupb (map name (fl_types fl))) eqn:End.
    + (* distinct output names *)
      assert (Hspec : spec c fl p = EFiles (map (fun T => (name T, [T])) (fl_types fl))).
      { unfold spec. rewrite Hfa, Hsp, Hall', Hfile. fold name. rewrite End. reflexivity. }
      unfold refines. rewrite Hspec. apply nodupb_NoDup in End. split.
      * unfold run. rewrite (check_file_arg_ok fl p Hfa). unfold run_loaded. rewrite Hsp, Hc, Haio.
        rewrite (gen_loop_sep c p fl "" fm name); try assumption.
        -- rewrite Hk, main_loop_spec. reflexivity.
        -- rewrite Hk. simpl. exact End.
      * rewrite map_map. simpl. apply forallb_forall. intros n Hn. apply in_map_iff in Hn. destruct Hn as [T [He HT]].
        subst n. unfold name. destruct (nameable_file c p T W (Hall T HT)) as [f [Hf Hd]]. rewrite Hd.
        apply anchored_per_type. exact Hf.
    + (* two of the named types map to one output file: a diagnostic, nothing written *)
      assert (Hspec : spec c fl p = EFail).
      { unfold spec. rewrite Hfa, Hsp, Hall', Hfile. fold name. rewrite End. reflexivity. }
      unfold refines. rewrite Hspec.
      unfold run. rewrite (check_file_arg_ok fl p Hfa). unfold run_loaded. rewrite Hsp, Hc, Haio.
      destruct (gen_loop_clash c p fl "" fm name (fl_types fl) [] [] Hsep Hnm) as [d [fs [m Hg]]].
      * rewrite Hk. simpl. apply nodupb_false. exact End.
      * constructor.
      * rewrite Hg. exists d. reflexivity.
  - (* a name that is missing or of the wrong kind, or outside the -file *)
    assert (Hspec : spec c fl p = EFail).
    { unfold spec. rewrite Hfa, Hsp, Eok. reflexivity. }
    unfold refines. rewrite Hspec. unfold run. rewrite (check_file_arg_ok fl p Hfa). unfold run_loaded. rewrite Hsp.
    destruct (fl_file fl =? "") eqn:Ef.
    + simpl in Eok. rewrite andb_true_r in Eok. apply String.eqb_eq in Ef.
      destruct (confirm_nofile o p fl (fl_types fl) [] Ho W Ef) as [fm [H1 _]].
      { intros k v []. }
      rewrite H1.
      destruct (specified_fatal c p fl (all_in_one_file fl p) fm W Hsp Eok) as [d [fs [m Hg]]].
      rewrite Hg. exists d. reflexivity.
    + assert (Ef' := Ef). apply String.eqb_neq in Ef'. rewrite confirm_file by assumption. simpl in Eok.
      destruct (forallb (fun T => decl_file p T =? fl_file fl) (fl_types fl)).
      * rewrite andb_true_r in Eok.
        destruct (specified_fatal c p fl (all_in_one_file fl p) [] W Hsp Eok) as [d [fs [m Hg]]].
        rewrite Hg. exists d. reflexivity.
      * exists DgNotInFile. reflexivity.
Qed.

Lemma refines_listed : forall o c fl p, perm_oracle o -> wf p ->
  fl_specified fl = false -> file_arg_ok fl p = true ->
  k_star_no_generate_line c fl p = false -> k_star_sep_file c fl p = false ->
  refines o c fl p.
Proof.
  intros o c fl p Ho W Hsp Hfa Hnogen Hstarsep.
  set (name := fun T => per_type_name c (decl_file p T) T).
  set (pool := if fl_file fl =? "" then pkg_specs p else file_named p (fl_file fl)).
  assert (Hpool : forall t, In t pool -> In t (pkg_specs p)).
  { intros t Ht. unfold pool in Ht. destruct (fl_file fl =? ""); [exact Ht|].
    destruct (file_named_in p _ t Ht) as [f [Hf [_ Htf]]]. eapply top_specs_in_pkg; eassumption. }
  assert (Hlist : list_types c fl p = map ts_name (filter (test_node_list c) pool)).
  { unfold pool. destruct (fl_file fl =? "") eqn:Ef.
    - apply String.eqb_eq in Ef. apply list_types_all; assumption.
    - apply String.eqb_neq in Ef. apply list_types_file; assumption. }
  remember (map ts_name (filter (listable c p) pool)) as sel eqn:Hsel.
  assert (Hselspec : spec_selection c fl p = sel) by (subst sel; reflexivity).
  assert (Hselin : forall T, In T sel -> exists t, In t pool /\ ts_name t = T).
  { intros T HT. subst sel. apply in_map_iff in HT. destruct HT as [t [He Ht]]. apply filter_In in Ht. exists t. tauto. }
  assert (Hsrc : fl_sep fl = true -> forall T, In T sel ->
            (if negb (fl_file fl =? "") then fl_file fl
             else if negb (all_in_one_file fl p =? "") then all_in_one_file fl p else assoc T []) = decl_file p T).
  { intros Hsep T HT. destruct (Hselin T HT) as [t [Ht He]]. subst T. unfold pool in Ht.
    destruct (fl_file fl =? "") eqn:Ef; simpl.
    - unfold k_star_no_generate_line, star_mode in Hnogen. rewrite Hsp, Ef, Hselspec in Hnogen. simpl in Hnogen.
      unfold k_star_sep_file, star_mode in Hstarsep. rewrite Hsp, Ef, Hsep, Hselspec in Hstarsep. simpl in Hstarsep.
      rewrite existsb_false_forall in Hstarsep. specialize (Hstarsep _ HT). apply negb_false_iff in Hstarsep.
      apply String.eqb_eq in Hstarsep.
      destruct (all_in_one_file fl p =? "") eqn:Ea; simpl.
      + simpl in Hnogen. destruct sel; [contradiction | discriminate].
      + symmetry. exact Hstarsep.
    - destruct (file_named_in p _ t Ht) as [f [Hf [Hn Htf]]]. rewrite (decl_file_spec p f t W Hf Htf). symmetry. exact Hn. }
  assert (Hrun : run o c fl p =
            match gen_loop c p fl (all_in_one_file fl p) [] (map ts_name (filter (test_node_list c) pool)) [] [] with
            | (Some d, _, _) => Failed d
            | (None, files, merged) =>
                let files' := match merged with
                              | [] => files
                              | _ => (files ++ [(file_name c fl (all_in_one_file fl p) [] "", merged)])%list
                              end in
                Done (o _ files') (map fst (o _ files'))
            end).
  { unfold run. rewrite (check_file_arg_ok fl p Hfa). unfold run_loaded. rewrite Hsp, Hlist.
    destruct (gen_loop c p fl (all_in_one_file fl p) [] (map ts_name (filter (test_node_list c) pool)) [] []) as [[[d|] fs] mg];
      [reflexivity|]. rewrite main_loop_spec. reflexivity. }
  assert (Hnofatal : forall T d, In T (map ts_name (filter (test_node_list c) pool)) ->
            make_data c p (fl_specified fl) T <> MFatal d).
  { intros T d HT. rewrite Hsp. eapply listed_no_fatal; eassumption. }
  assert (Hkeep : filter (keep c p (fl_specified fl)) (map ts_name (filter (test_node_list c) pool)) = sel).
  { rewrite Hsp, filter_keep_listable by assumption. symmetry. exact Hsel. }
  unfold refines. destruct (fl_sep fl) eqn:Esep.
  - (* one file per selected type *)
    assert (Hnm : forall T, In T (map ts_name (filter (test_node_list c) pool)) ->
              keep c p (fl_specified fl) T = true -> file_name c fl (all_in_one_file fl p) [] T = name T).
    { intros T HT Hk. assert (HTs : In T sel). { rewrite <- Hkeep. apply filter_In. tauto. }
      rewrite file_name_type.
      - rewrite (Hsrc eq_refl T HTs). reflexivity.
      - destruct (Hselin T HTs) as [t [Ht He]]. subst T. apply is_ident_nonempty. apply (wf_idents p W).
        apply Hpool. exact Ht. }
    (* the loop only names kept types: restrict it to them *)
    assert (Hloop : forall l files merged,
              (forall T, In T l -> In T (map ts_name (filter (test_node_list c) pool))) ->
              gen_loop c p fl (all_in_one_file fl p) [] l files merged =
              gen_loop c p fl (all_in_one_file fl p) [] (filter (keep c p (fl_specified fl)) l) files merged).
    { induction l as [|T l IH]; intros files merged Hin; [reflexivity|]. simpl.
      assert (Hin' : forall T', In T' l -> In T' (map ts_name (filter (test_node_list c) pool))) by (intros T' H'; apply Hin; right; exact H').
      unfold keep at 1. destruct (make_data c p (fl_specified fl) T) eqn:E; simpl.
      - rewrite E. rewrite Esep. destruct (mem _ _); [reflexivity|]. apply IH. exact Hin'.
      - apply IH. exact Hin'.
      - exfalso. apply (Hnofatal T d); [apply Hin; left; reflexivity | exact E]. }
    rewrite Hrun, Hloop by (intros T HT; exact HT). rewrite Hkeep.
    assert (Hnm' : forall T, In T sel -> file_name c fl (all_in_one_file fl p) [] T = name T).
    { intros T HT. rewrite <- Hkeep in HT. apply filter_In in HT. destruct HT as [H1 H2]. apply Hnm; assumption. }
    assert (Hnf' : forall T d, In T sel -> make_data c p (fl_specified fl) T <> MFatal d).
    { intros T d HT. rewrite <- Hkeep in HT. apply filter_In in HT. destruct HT as [H1 _]. apply Hnofatal. exact H1. }
    assert (Hk' : filter (keep c p (fl_specified fl)) sel = sel).
    { apply filter_all. intros T HT. rewrite <- Hkeep in HT. apply filter_In in HT. tauto. }
    destruct (nodupb (map name sel)) eqn:End.
    + assert (Hspec : spec c fl p = EFiles (map (fun T => (name T, [T])) sel)).
      { unfold spec. rewrite Hfa, Hsp, Esep. fold pool. rewrite <- Hsel. fold name. rewrite End. reflexivity. }
      rewrite Hspec. apply nodupb_NoDup in End. split.
      * rewrite (gen_loop_sep c p fl _ [] name sel [] [] Esep Hnf' Hnm'); [rewrite Hk'; reflexivity|].
        rewrite Hk'. simpl. exact End.
      * rewrite map_map. simpl. apply forallb_forall. intros n Hn. apply in_map_iff in Hn. destruct Hn as [T [He HT]].
        subst n. destruct (Hselin T HT) as [t [Ht Hn]]. subst T. unfold name.
        destruct (in_pkg_specs_file p t (Hpool t Ht)) as [f [Hf Htf]]. rewrite (decl_file_spec p f t W Hf Htf).
        apply anchored_per_type. exact Hf.
    + assert (Hspec : spec c fl p = EFail).
      { unfold spec. rewrite Hfa, Hsp, Esep. fold pool. rewrite <- Hsel. fold name. rewrite End. reflexivity. }
      rewrite Hspec.
      destruct (gen_loop_clash c p fl (all_in_one_file fl p) [] name sel [] [] Esep Hnm') as [d [fs [m Hg]]].
      * rewrite Hk'. simpl. apply nodupb_false. exact End.
      * constructor.
      * rewrite Hg. exists d. reflexivity.
  - (* all selected types in one file *)
    rewrite Hrun. rewrite gen_loop_merge by assumption. rewrite Hkeep.
    simpl. destruct sel as [|T0 sel'] eqn:Es.
    + assert (Hspec : spec c fl p = EFiles []).
      { unfold spec. rewrite Hfa, Hsp, Esep. fold pool. rewrite <- Hsel. reflexivity. }
      rewrite Hspec. split; reflexivity.
    + assert (Hspec : spec c fl p = EFiles [(all_in_one_name c (if fl_file fl =? "" then all_in_one_file fl p else fl_file fl), T0 :: sel')]).
      { unfold spec. rewrite Hfa, Hsp, Esep. fold pool. rewrite <- Hsel. reflexivity. }
      rewrite Hspec. rewrite file_name_all. split; [reflexivity|]. simpl. rewrite andb_true_r.
      destruct (fl_file fl =? "") eqn:Ef.
      * unfold k_star_no_generate_line, star_mode in Hnogen. rewrite Hsp, Ef, Hselspec in Hnogen. simpl in Hnogen.
        rewrite andb_true_r in Hnogen. apply String.eqb_neq in Hnogen.
        destruct (aio_is_file fl p Hnogen) as [f [Hf He]]. rewrite He. apply anchored_all_in_one. exact Hf.
      * destruct (Hselin T0 (or_introl eq_refl)) as [t [Ht _]]. unfold pool in Ht. try rewrite Ef in Ht.
        destruct (file_named_in p _ t Ht) as [f [Hf [He _]]]. rewrite <- He.
        apply anchored_all_in_one. exact Hf.
Qed.

Theorem run_refines_spec : forall o c fl p,
  perm_oracle o -> wf_pkgb p = true -> flags_okb fl = true -> known_class c fl p = false -> refines o c fl p.
Proof.
  intros o c fl p Ho Hwf Hfl Hk. apply wf_pkgb_wf in Hwf.
  apply known_class_false in Hk. destruct Hk as [H2 H3].
  destruct (file_arg_ok fl p) eqn:Hfa.
  - destruct (fl_specified fl) eqn:Hsp.
    + unfold flags_okb in Hfl. rewrite Hsp in Hfl. simpl in Hfl. apply refines_specified; assumption.
    + apply refines_listed; assumption.
  - unfold refines, spec. rewrite Hfa. simpl. destruct (check_file_arg_bad fl p Hfa) as [d Hd].
    exists d. unfold run. rewrite Hd. reflexivity.
Qed.

(* ----------------------------------------------------------- consequences *)

Lemma srcmap_same_perm : forall a b, Permutation a b -> srcmap_same a b = true.
Proof.
  intros a b Hp. unfold srcmap_same. rewrite (Permutation_length Hp), Nat.eqb_refl. simpl.
  apply andb_true_iff. split; apply forallb_forall; intros kv Hkv; apply has_entry_in.
  - eapply Permutation_in; eassumption.
  - eapply Permutation_in; [apply Permutation_sym; exact Hp | exact Hkv].
Qed.

Lemma forallb_perm : forall (A : Type) (P : A -> bool) l l', Permutation l' l -> forallb P l = true -> forallb P l' = true.
Proof.
  intros A P l l' Hp H. apply forallb_forall. intros x Hx. rewrite forallb_forall in H. apply H.
  eapply Permutation_in; eassumption.
Qed.

Lemma perm_oracle_nil : forall o (A : Type), perm_oracle o -> o A [] = [].
Proof. intros o A Ho. apply Permutation_nil. apply Permutation_sym. apply Ho. Qed.

Lemma perm_oracle_one : forall o (A : Type) (x : A), perm_oracle o -> o A [x] = [x].
Proof. intros o A x Ho. apply Permutation_length_1_inv. apply Permutation_sym. apply Ho. Qed.

Lemma refines_meets : forall o c fl p, perm_oracle o -> refines o c fl p ->
  meets c p (run o c fl p) (spec c fl p) = true.
Proof.
  intros o c fl p Ho H. unfold refines in H. destruct (spec c fl p) as [|fs].
  - destruct H as [d Hd]. rewrite Hd. reflexivity.
  - destruct H as [Hr Ha]. rewrite Hr. simpl. rewrite (srcmap_same_perm _ _ (Ho _ fs)).
    rewrite (perm_eqb_complete _ _ (Permutation_map fst (Ho _ fs))).
    rewrite (forallb_perm _ _ _ _ (Permutation_map fst (Ho _ fs)) Ha). reflexivity.
Qed.

Theorem run_meets_spec : forall o c fl p,
  perm_oracle o -> wf_pkgb p = true -> flags_okb fl = true -> known_class c fl p = false ->
  meets c p (run o c fl p) (spec c fl p) = true.
Proof. intros o c fl p Ho Hwf Hfl Hk. apply refines_meets; [exact Ho|]. apply run_refines_spec; assumption. Qed.

(* the success message lists the written files, in the order they were written --
   for every input and every iteration order.  NOTE: this follows from the shape
   of main's loop alone (each iteration writes one file and appends its name,
   [main_loop]); that the real message does so is checked by the correspondence
   run on every case, not by this theorem. *)
Theorem message_lists_every_file : forall o c fl p files listed,
  run o c fl p = Done files listed -> listed = map fst files.
Proof.
  intros o c fl p files listed H. unfold run in H. destruct (check_file_arg fl p); [discriminate|].
  unfold run_loaded in H.
  destruct (if fl_specified fl
            then match confirm_specified o p fl (fl_types fl) [] with
                 | Some fmap => Some (fl_types fl, fmap) | None => None end
            else Some (list_types c fl p, [])) as [[types fmap]|]; [|discriminate].
  destruct (gen_loop c p fl (all_in_one_file fl p) fmap types [] []) as [[[d|] fs] merged]; [discriminate|].
  rewrite main_loop_spec in H. inversion H; subst. reflexivity.
Qed.

(* naming a missing or wrong-kind type (for any of the four subcommands, function-local
   types included): a diagnostic and no file at all.  No guard besides well-formedness. *)
Theorem bad_name_fails : forall o c fl p T,
  perm_oracle o -> wf_pkgb p = true -> fl_specified fl = true ->
  In T (fl_types fl) -> nameable c p T = false ->
  exists d, run o c fl p = Failed d.
Proof.
  intros o c fl p T Ho Hwf Hsp HT Hn. apply wf_pkgb_wf in Hwf.
  unfold run. destruct (check_file_arg fl p) as [d|]; [exists d; reflexivity|].
  unfold run_loaded. rewrite Hsp. destruct (confirm_specified o p fl (fl_types fl) []) as [fm|]; [|eexists; reflexivity].
  destruct (make_data_not_nameable c p T Hwf Hn) as [d Hd].
  destruct (gen_loop_fatal c p fl (all_in_one_file fl p) fm (fl_types fl) [] []) as [d' [fs [m Hg]]].
  - exists T, d. rewrite Hsp. tauto.
  - rewrite Hg. exists d'. reflexivity.
Qed.

(* the code's decision to generate for an explicitly named type is the declarative [nameable] *)
Theorem generated_iff_nameable : forall c p T, wf_pkgb p = true ->
  (make_data c p true T = MGen <-> nameable c p T = true).
Proof.
  intros c p T Hwf. apply wf_pkgb_wf in Hwf. split.
  - intros Hg. destruct (nameable c p T) eqn:Hn; [reflexivity|]. exfalso.
    destruct (make_data_not_nameable c p T Hwf Hn) as [d Hd]. congruence.
  - intros Hn. apply make_data_nameable; assumption.
Qed.

(* ... and otherwise it is a diagnostic, never a silent skip *)
Theorem named_is_generated_or_fatal : forall c p T, wf_pkgb p = true ->
  make_data c p true T = MGen \/ exists d, make_data c p true T = MFatal d.
Proof.
  intros c p T Hwf. destruct (nameable c p T) eqn:Hn.
  - left. apply make_data_nameable; [apply wf_pkgb_wf; exact Hwf | exact Hn].
  - right. apply make_data_not_nameable; [apply wf_pkgb_wf; exact Hwf | exact Hn].
Qed.

(* the code's two-stage filter of -file / -type=* (ListTypes, then MakeData
   skipping) is the declarative [listable] on package-level declarations *)
Theorem listed_iff_listable : forall c p t, wf_pkgb p = true -> In t (pkg_specs p) ->
  (test_node_list c t && keep c p false (ts_name t)) = listable c p t.
Proof.
  intros c p t Hwf Ht. apply wf_pkgb_wf in Hwf. destruct (test_node_list c t) eqn:Et; simpl.
  - unfold keep. rewrite (make_data_listed c p t Hwf Ht Et). destruct (listable c p t); reflexivity.
  - destruct (listable c p t) eqn:El; [|reflexivity]. apply listable_test in El. congruence.
Qed.

(* function-local type declarations are invisible to every listing mode *)
Theorem list_types_top_level_only : forall c fl p T, In T (list_types c fl p) ->
  exists f t, In f (p_files p) /\ In t (top_specs f) /\ ts_name t = T /\ test_node_list c t = true.
Proof.
  intros c fl p T H. unfold list_types in H. apply in_flat_map in H. destruct H as [f [Hf H]].
  destruct (test_file fl f); [|contradiction]. apply in_map_iff in H. destruct H as [t [He Ht]].
  apply filter_In in Ht. exists f, t. tauto.
Qed.

(* -type=A,B: exactly the named types, one file each, named after the declaring file *)
Theorem type_list_exact : forall o c fl p,
  perm_oracle o -> wf_pkgb p = true -> fl_specified fl = true -> fl_sep fl = true -> fl_file fl = "" ->
  (forall T, In T (fl_types fl) -> nameable c p T = true) ->
  NoDup (map (fun T => per_type_name c (decl_file p T) T) (fl_types fl)) ->
  run o c fl p = Done (o _ (map (fun T => (per_type_name c (decl_file p T) T, [T])) (fl_types fl)))
                      (map fst (o _ (map (fun T => (per_type_name c (decl_file p T) T, [T])) (fl_types fl)))).
Proof.
  intros o c fl p Ho Hwf Hsp Hsep Hf Hall Hnd. apply wf_pkgb_wf in Hwf.
  assert (Hfa : file_arg_ok fl p = true) by (unfold file_arg_ok; rewrite Hf; reflexivity).
  assert (Hspec : spec c fl p = EFiles (map (fun T => (per_type_name c (decl_file p T) T, [T])) (fl_types fl))).
  { unfold spec. rewrite Hfa, Hsp, Hf. simpl. rewrite andb_true_r.
    assert (H : forallb (nameable c p) (fl_types fl) = true) by (apply forallb_forall; exact Hall).
    rewrite H. apply nodupb_NoDup in Hnd. rewrite Hnd. reflexivity. }
  pose proof (refines_specified o c fl p Ho Hwf Hsp Hsep Hfa) as R. unfold refines in R. rewrite Hspec in R.
  destruct R as [R _]. exact R.
Qed.

(* two named types whose output names coincide (Order / ORDER, or the same name
   twice): a diagnostic and no file -- no type is lost silently *)
Theorem name_clash_fails : forall o c fl p,
  perm_oracle o -> wf_pkgb p = true -> fl_specified fl = true -> fl_sep fl = true -> fl_file fl = "" ->
  ~ NoDup (map (fun T => per_type_name c (decl_file p T) T) (fl_types fl)) ->
  exists d, run o c fl p = Failed d.
Proof.
  intros o c fl p Ho Hwf Hsp Hsep Hf Hnd. apply wf_pkgb_wf in Hwf.
  assert (Hfa : file_arg_ok fl p = true) by (unfold file_arg_ok; rewrite Hf; reflexivity).
  assert (Hspec : spec c fl p = EFail).
  { unfold spec. rewrite Hfa, Hsp.
    destruct (nodupb (map (fun T => per_type_name c (decl_file p T) T) (fl_types fl))) eqn:E.
    - exfalso. apply Hnd. apply nodupb_NoDup. exact E.
    - rewrite andb_false_r. reflexivity. }
  pose proof (refines_specified o c fl p Ho Hwf Hsp Hsep Hfa) as R. unfold refines in R. rewrite Hspec in R. exact R.
Qed.

Lemma file_named_self : forall p f, wf p -> In f (p_files p) -> file_named p (f_name f) = top_specs f.
Proof.
  intros p f W Hf. unfold file_named. destruct (find (fun f0 => f_name f0 =? f_name f) (p_files p)) as [f'|] eqn:E.
  - apply find_some in E. destruct E as [Hf' He]. apply String.eqb_eq in He.
    rewrite (NoDup_map_inj _ _ f_name _ f' f (wf_files p W) Hf' Hf He). reflexivity.
  - pose proof (find_none _ _ E f Hf) as C. simpl in C. rewrite String.eqb_refl in C. discriminate.
Qed.

(* -file=f.go: exactly the eligible declarations of f.go, in declaration order, in f.shoot<cmd>.go *)
Theorem file_mode_exact : forall o c fl p f,
  perm_oracle o -> wf_pkgb p = true -> fl_specified fl = false -> fl_sep fl = false ->
  In f (p_files p) -> fl_file fl = f_name f -> ends_with ".go" (f_name f) = true ->
  let sel := map ts_name (filter (listable c p) (top_specs f)) in
  run o c fl p = match sel with
                 | [] => Done [] []
                 | _ => Done [(trim_go (f_name f) ++ "." ++ shootcmd c ++ ".go", sel)]
                             [trim_go (f_name f) ++ "." ++ shootcmd c ++ ".go"]
                 end.
Proof.
  intros o c fl p f Ho Hwf Hsp Hsep Hf Hfile Hgo sel. apply wf_pkgb_wf in Hwf.
  assert (Hne : f_name f <> "").
  { intros C. pose proof (wf_visible p Hwf f Hf) as V. rewrite C in V. discriminate. }
  assert (Hfa : file_arg_ok fl p = true).
  { unfold file_arg_ok. rewrite Hfile, Hgo. apply String.eqb_neq in Hne. rewrite Hne. simpl.
    apply mem_In. apply in_or_app. left. apply in_map. exact Hf. }
  assert (Hfn : file_named p (fl_file fl) = top_specs f) by (rewrite Hfile; apply file_named_self; assumption).
  assert (Hnes : (fl_file fl =? "") = false) by (rewrite Hfile; apply String.eqb_neq; exact Hne).
  assert (Hspec : spec c fl p = match sel with [] => EFiles [] | _ => EFiles [(all_in_one_name c (fl_file fl), sel)] end).
  { unfold spec. rewrite Hfa, Hsp, Hsep, Hnes. simpl. rewrite Hfn. fold sel. destruct sel; reflexivity. }
  assert (R : refines o c fl p).
  { apply refines_listed; try assumption.
    - unfold k_star_no_generate_line, star_mode. rewrite Hsp, Hnes. reflexivity.
    - unfold k_star_sep_file, star_mode. rewrite Hsp, Hnes. reflexivity. }
  unfold refines in R. rewrite Hspec in R. destruct sel as [|T0 sel'].
  - destruct R as [R _]. rewrite R, perm_oracle_nil by exact Ho. reflexivity.
  - destruct R as [R _]. rewrite R, perm_oracle_one by exact Ho. unfold all_in_one_name. rewrite Hfile. reflexivity.
Qed.

(* -file=f.go -sep: one file f.shoot<cmd>.<type>.go per eligible declaration of f.go;
   two of them with one name (types differing only in case) is a diagnostic *)
Theorem file_mode_sep_exact : forall o c fl p f,
  perm_oracle o -> wf_pkgb p = true -> fl_specified fl = false -> fl_sep fl = true ->
  In f (p_files p) -> fl_file fl = f_name f -> ends_with ".go" (f_name f) = true ->
  let sel := map ts_name (filter (listable c p) (top_specs f)) in
  let name := fun T => per_type_name c (f_name f) T in
  (NoDup (map name sel) -> run o c fl p = Done (o _ (map (fun T => (name T, [T])) sel))
                                                   (map fst (o _ (map (fun T => (name T, [T])) sel)))) /\
  (~ NoDup (map name sel) -> exists d, run o c fl p = Failed d).
Proof.
  intros o c fl p f Ho Hwf Hsp Hsep Hf Hfile Hgo sel name. apply wf_pkgb_wf in Hwf.
  assert (Hne : f_name f <> "").
  { intros C. pose proof (wf_visible p Hwf f Hf) as V. rewrite C in V. discriminate. }
  assert (Hfa : file_arg_ok fl p = true).
  { unfold file_arg_ok. rewrite Hfile, Hgo. apply String.eqb_neq in Hne. rewrite Hne. simpl.
    apply mem_In. apply in_or_app. left. apply in_map. exact Hf. }
  assert (Hfn : file_named p (fl_file fl) = top_specs f) by (rewrite Hfile; apply file_named_self; assumption).
  assert (Hnes : (fl_file fl =? "") = false) by (rewrite Hfile; apply String.eqb_neq; exact Hne).
  assert (Hnames : map (fun T => per_type_name c (decl_file p T) T) sel = map name sel).
  { apply map_ext_in. intros T HT. unfold sel in HT. apply in_map_iff in HT. destruct HT as [t [He Ht]].
    apply filter_In in Ht. destruct Ht as [Ht _]. subst T. unfold name. rewrite (decl_file_spec p f t Hwf Hf Ht). reflexivity. }
  assert (Hpairs : map (fun T => (per_type_name c (decl_file p T) T, [T])) sel = map (fun T => (name T, [T])) sel).
  { apply map_ext_in. intros T HT. unfold sel in HT. apply in_map_iff in HT. destruct HT as [t [He Ht]].
    apply filter_In in Ht. destruct Ht as [Ht _]. subst T. unfold name. rewrite (decl_file_spec p f t Hwf Hf Ht). reflexivity. }
  assert (R : refines o c fl p).
  { apply refines_listed; try assumption.
    - unfold k_star_no_generate_line, star_mode. rewrite Hsp, Hnes. reflexivity.
    - unfold k_star_sep_file, star_mode. rewrite Hsp, Hnes. reflexivity. }
  unfold refines, spec in R. rewrite Hfa, Hsp, Hsep, Hnes in R. simpl in R. rewrite Hfn in R. fold sel in R.
  rewrite Hnames, Hpairs in R. split; intros Hnd.
  - apply nodupb_NoDup in Hnd. rewrite Hnd in R. destruct R as [R _]. exact R.
  - destruct (nodupb (map name sel)) eqn:E; [exfalso; apply Hnd; apply nodupb_NoDup; exact E | exact R].
Qed.

(* -type=*: all eligible declarations of the package, in file and declaration
   order, in <file of the //go:generate line>.shoot<cmd>.go *)
Theorem star_mode_exact : forall o c fl p,
  perm_oracle o -> wf_pkgb p = true -> fl_specified fl = false -> fl_sep fl = false -> fl_file fl = "" ->
  all_in_one_file fl p <> "" ->
  let sel := map ts_name (filter (listable c p) (pkg_specs p)) in
  run o c fl p = match sel with
                 | [] => Done [] []
                 | _ => Done [(trim_go (all_in_one_file fl p) ++ "." ++ shootcmd c ++ ".go", sel)]
                             [trim_go (all_in_one_file fl p) ++ "." ++ shootcmd c ++ ".go"]
                 end.
Proof.
  intros o c fl p Ho Hwf Hsp Hsep Hf Haio sel. apply wf_pkgb_wf in Hwf.
  assert (Hfa : file_arg_ok fl p = true) by (unfold file_arg_ok; rewrite Hf; reflexivity).
  assert (Hspec : spec c fl p = match sel with [] => EFiles [] | _ => EFiles [(all_in_one_name c (all_in_one_file fl p), sel)] end).
  { unfold spec. rewrite Hfa, Hsp, Hsep, Hf. simpl. fold sel. destruct sel; reflexivity. }
  assert (R : refines o c fl p).
  { apply refines_listed; try assumption.
    - unfold k_star_no_generate_line. apply String.eqb_neq in Haio. rewrite Haio. rewrite andb_false_r. reflexivity.
    - unfold k_star_sep_file. rewrite Hsep. rewrite andb_false_r. reflexivity. }
  unfold refines in R. rewrite Hspec in R. destruct sel as [|T0 sel'].
  - destruct R as [R _]. rewrite R, perm_oracle_nil by exact Ho. reflexivity.
  - destruct R as [R _]. rewrite R, perm_oracle_one by exact Ho. reflexivity.
Qed.

(* getGoFile is independent of the iteration order of TypesInfo.Defs: the file
   holding the package-level declaration (type parameters and function-local
   types of the same name do not count) *)
Theorem get_go_file_decl : forall o p T, perm_oracle o -> wf_pkgb p = true -> get_go_file o p T = decl_file p T.
Proof. intros o p T Ho Hwf. apply get_go_file_perm; [exact Ho | apply wf_pkgb_wf; exact Hwf]. Qed.

Theorem decl_file_declares : forall p f t, wf_pkgb p = true -> In f (p_files p) -> In t (top_specs f) ->
  decl_file p (ts_name t) = f_name f.
Proof. intros p f t Hwf. apply decl_file_spec. apply wf_pkgb_wf. exact Hwf. Qed.

(* ------------------------- the class of K_star_no_generate_line, in general *)

(* -file / -type=* without -sep, computed without any assumption on //go:generate lines *)
Lemma run_listed_merged : forall o c fl p, perm_oracle o -> wf p ->
  fl_specified fl = false -> fl_sep fl = false -> file_arg_ok fl p = true ->
  run o c fl p =
  match spec_selection c fl p with
  | [] => Done [] []
  | sel => let n := all_in_one_name c (if fl_file fl =? "" then all_in_one_file fl p else fl_file fl) in
           Done [(n, sel)] [n]
  end.
Proof.
  intros o c fl p Ho W Hsp Hsep Hfa.
  set (pool := if fl_file fl =? "" then pkg_specs p else file_named p (fl_file fl)).
  assert (Hpool : forall t, In t pool -> In t (pkg_specs p)).
  { intros t Ht. unfold pool in Ht. destruct (fl_file fl =? ""); [exact Ht|].
    destruct (file_named_in p _ t Ht) as [f [Hf [_ Htf]]]. eapply top_specs_in_pkg; eassumption. }
  assert (Hlist : list_types c fl p = map ts_name (filter (test_node_list c) pool)).
  { unfold pool. destruct (fl_file fl =? "") eqn:Ef.
    - apply String.eqb_eq in Ef. apply list_types_all; assumption.
    - apply String.eqb_neq in Ef. apply list_types_file; assumption. }
  assert (Hnofatal : forall T d, In T (map ts_name (filter (test_node_list c) pool)) ->
            make_data c p (fl_specified fl) T <> MFatal d).
  { intros T d HT. rewrite Hsp. eapply listed_no_fatal; eassumption. }
  unfold run. rewrite (check_file_arg_ok fl p Hfa). unfold run_loaded. rewrite Hsp, Hlist.
  rewrite gen_loop_merge by assumption. rewrite Hsp, filter_keep_listable by assumption.
  unfold spec_selection. fold pool. simpl.
  destruct (map ts_name (filter (listable c p) pool)) as [|T0 sel'].
  - rewrite main_loop_spec, perm_oracle_nil by exact Ho. reflexivity.
  - rewrite main_loop_spec, perm_oracle_one by exact Ho. rewrite file_name_all. reflexivity.
Qed.

Lemma trim_go_head : forall n, visible_file n = true -> exists ch r, trim_go n = String ch r /\ ch <> "."%char.
Proof.
  intros [|ch n'] H; [discriminate|]. unfold visible_file in H. rewrite !andb_true_iff in H. destruct H as [[_ H] _].
  apply negb_true_iff in H. destruct (Ascii.eqb ch ".") eqn:E.
  - apply Ascii.eqb_eq in E. subst ch.
    assert (C : has_prefix "." (String "." n') = true) by (unfold has_prefix; simpl; apply prefix_empty).
    rewrite C in H. discriminate H.
  - exists ch, (trim_go n'). split.
    + simpl. rewrite E. reflexivity.
    + intros C. subst ch. discriminate E.
Qed.

Lemma dot_name_unanchored : forall c p, wf p -> anchored c p (all_in_one_name c "") = false.
Proof.
  intros c p W. unfold anchored. apply existsb_false_forall. intros f Hf.
  destruct (trim_go_head (f_name f) (wf_visible p W f Hf)) as [ch [r [Ht Hne]]]. rewrite Ht.
  unfold has_prefix, all_in_one_name. simpl. destruct (ascii_dec ch "."); [contradiction | reflexivity].
Qed.

(* `-type=*` in a package where no //go:generate line ends with the command
   line: whenever something is eligible, ALL of it goes to the dot-file
   .shoot<cmd>.go, which is not named after any source file (and which the go
   tool ignores) -- for every well-formed package, not only the witness *)
Theorem star_without_generate_line : forall o c fl p, perm_oracle o -> wf_pkgb p = true ->
  fl_specified fl = false -> fl_sep fl = false -> fl_file fl = "" -> all_in_one_file fl p = "" ->
  spec_selection c fl p <> [] ->
  run o c fl p = Done [("." ++ shootcmd c ++ ".go", spec_selection c fl p)] ["." ++ shootcmd c ++ ".go"] /\
  anchored c p ("." ++ shootcmd c ++ ".go") = false /\
  meets c p (run o c fl p) (spec c fl p) = false.
Proof.
  intros o c fl p Ho Hwf Hsp Hsep Hf Haio Hne. apply wf_pkgb_wf in Hwf.
  assert (Hfa : file_arg_ok fl p = true) by (unfold file_arg_ok; rewrite Hf; reflexivity).
  pose proof (run_listed_merged o c fl p Ho Hwf Hsp Hsep Hfa) as R.
  rewrite Hf, Haio in R. simpl in R.
  pose proof (dot_name_unanchored c p Hwf) as U. unfold all_in_one_name in U. simpl in U.
  destruct (spec_selection c fl p) as [|T0 sel'] eqn:Es; [contradiction|].
  unfold all_in_one_name in R. simpl in R. split; [exact R|]. split; [exact U|].
  rewrite R. destruct (spec c fl p); [reflexivity|]. simpl. rewrite U. rewrite !andb_false_r. reflexivity.
Qed.

(* -file naming an existing .go file that is not a file of the package (a _test.go
   file, a file excluded by a build constraint, a file of a sub-directory): no
   declaration of it belongs to the package; nothing is generated, exit 0 *)
Theorem other_file_generates_nothing : forall o c fl p,
  perm_oracle o -> wf_pkgb p = true -> fl_specified fl = false ->
  In (fl_file fl) (p_others p) -> ~ In (fl_file fl) (map f_name (p_files p)) -> ends_with ".go" (fl_file fl) = true ->
  run o c fl p = Done [] [] /\ spec c fl p = EFiles [].
Proof.
  intros o c fl p Ho Hwf Hsp Hin Hnot Hgo. apply wf_pkgb_wf in Hwf.
  assert (Hne : (fl_file fl =? "") = false).
  { destruct (fl_file fl =? "") eqn:E; [|reflexivity]. apply String.eqb_eq in E. rewrite E in Hgo. discriminate. }
  assert (Hfa : file_arg_ok fl p = true).
  { unfold file_arg_ok. rewrite Hne, Hgo. simpl. apply mem_In. apply in_or_app. right. exact Hin. }
  assert (Hfn : file_named p (fl_file fl) = []).
  { unfold file_named. destruct (find (fun f => f_name f =? fl_file fl) (p_files p)) as [f|] eqn:E; [|reflexivity].
    exfalso. apply find_some in E. destruct E as [Hf He]. apply String.eqb_eq in He. apply Hnot. rewrite <- He.
    apply in_map. exact Hf. }
  assert (Hspec : spec c fl p = EFiles []).
  { unfold spec. rewrite Hfa, Hsp, Hne. simpl. rewrite Hfn. simpl. destruct (fl_sep fl); reflexivity. }
  assert (R : refines o c fl p).
  { apply refines_listed; try assumption.
    - unfold k_star_no_generate_line, star_mode. rewrite Hsp, Hne. reflexivity.
    - unfold k_star_sep_file, star_mode. rewrite Hsp, Hne. reflexivity. }
  unfold refines in R. rewrite Hspec in R. destruct R as [R _]. rewrite R, perm_oracle_nil by exact Ho.
  split; [reflexivity | exact Hspec].
Qed.

(* -------- findCmdLine, declaratively: some line of the comment is
   "//go:generate" ++ anything ++ the command line *)

Lemma prefix_iff : forall a s, String.prefix a s = true <-> exists r, s = a ++ r.
Proof.
  induction a as [|x a IH]; intros s.
  - split; [intros _; exists s; reflexivity | intros _; apply prefix_empty].
  - destruct s as [|y s]; simpl.
    + split; [discriminate | intros [r H]; discriminate].
    + destruct (ascii_dec x y) as [E|N].
      * subst y. rewrite IH. split; intros [r H]; exists r; [rewrite H; reflexivity | inversion H; reflexivity].
      * split; [discriminate | intros [r H]; inversion H; congruence].
Qed.

Lemma ends_with_unfold : forall suf s,
  ends_with suf s = (s =? suf) || match s with EmptyString => false | String _ s' => ends_with suf s' end.
Proof. intros suf s. destruct s; reflexivity. Qed.

Lemma ends_with_iff : forall suf s, ends_with suf s = true <-> exists m, s = m ++ suf.
Proof.
  intros suf s. split.
  - induction s as [|c s IH]; intros H; rewrite ends_with_unfold in H; apply orb_true_iff in H; destruct H as [H|H].
    + apply String.eqb_eq in H. exists "". rewrite <- H. reflexivity.
    + discriminate.
    + apply String.eqb_eq in H. exists "". rewrite <- H. reflexivity.
    + destruct (IH H) as [m Hm]. exists (String c m). rewrite Hm. reflexivity.
  - intros [m Hm]. subst s. induction m as [|c m IH].
    + rewrite ends_with_unfold. simpl append. rewrite String.eqb_refl. reflexivity.
    + rewrite ends_with_unfold. simpl append. cbn iota. rewrite IH. apply orb_true_r.
Qed.

Lemma drop_app : forall a r, drop (String.length a) (a ++ r) = r.
Proof. induction a as [|x a IH]; intros r; simpl; [reflexivity | apply IH]. Qed.

Theorem line_matches_iff : forall cmdline line,
  line_matches cmdline line = true <-> exists mid, line = "//go:generate" ++ mid ++ cmdline.
Proof.
  intros cmdline line. unfold line_matches, has_prefix. rewrite andb_true_iff, prefix_iff. split.
  - intros [[r Hr] He]. subst line. change 13 with (String.length "//go:generate") in He. rewrite drop_app in He.
    apply ends_with_iff in He. destruct He as [m Hm]. exists m. rewrite Hm. reflexivity.
  - intros [mid H]. subst line. split; [exists (mid ++ cmdline); reflexivity|].
    change 13 with (String.length "//go:generate"). rewrite drop_app. apply ends_with_iff. exists mid. reflexivity.
Qed.

Theorem find_cmd_line_iff : forall text cmdline,
  find_cmd_line text cmdline = true <->
  exists line mid, In line (lines text) /\ line = "//go:generate" ++ mid ++ cmdline.
Proof.
  intros text cmdline. unfold find_cmd_line. rewrite existsb_exists. split.
  - intros [l [Hl Hm]]. apply line_matches_iff in Hm. destruct Hm as [mid Hm]. exists l, mid. tauto.
  - intros [l [mid [Hl Hm]]]. exists l. split; [exact Hl|]. apply line_matches_iff. exists mid. exact Hm.
Qed.
