(* Proofs for C16 (selection and naming): the literal front end of Model/Cli.v
   refines the declarative reading of Model/CliSpec.v on every well-formed
   skeleton outside the input classes of the open findings. *)
From Coq Require Import List String Ascii Bool Arith Lia Permutation.
From Shoot Require Import Model.Cli Model.CliSpec.
Import ListNotations.
Local Open Scope string_scope.

(* ------------------------------------------------------------ generic lists *)

Lemma mem_In : forall x l, mem x l = true <-> In x l.
Proof.
  intros x l. unfold mem. rewrite existsb_exists. split.
  - intros [y [Hy He]]. apply String.eqb_eq in He. subst. exact Hy.
  - intros H. exists x. split; [exact H | apply String.eqb_refl].
Qed.

Lemma mem_false : forall x l, mem x l = false <-> ~ In x l.
Proof.
  intros x l. rewrite <- mem_In. destruct (mem x l); split; intros H.
  - discriminate.
  - exfalso. apply H. reflexivity.
  - intros C. discriminate.
  - reflexivity.
Qed.

Lemma nodupb_NoDup : forall l, nodupb l = true <-> NoDup l.
Proof.
  induction l as [|x l IH]; simpl.
  - split; [constructor | reflexivity].
  - rewrite andb_true_iff, negb_true_iff, mem_false, IH. split.
    + intros [H1 H2]. constructor; assumption.
    + intros H. inversion H; subst. split; assumption.
Qed.

Lemma NoDup_app_disjoint : forall (A : Type) (l1 l2 : list A) x,
  NoDup (l1 ++ l2) -> In x l1 -> In x l2 -> False.
Proof.
  induction l1 as [|a l1 IH]; simpl; intros l2 x Hn H1 H2.
  - exact H1.
  - inversion Hn as [|a' l' Hna Hn']; subst. destruct H1 as [->|H1].
    + apply Hna. apply in_or_app. right. exact H2.
    + exact (IH l2 x Hn' H1 H2).
Qed.

Lemma NoDup_app_l : forall (A : Type) (l1 l2 : list A), NoDup (l1 ++ l2) -> NoDup l1.
Proof.
  induction l1 as [|a l1 IH]; simpl; intros l2 Hn.
  - constructor.
  - inversion Hn as [|a' l' Hna Hn']; subst. constructor.
    + intros C. apply Hna. apply in_or_app. left. exact C.
    + exact (IH l2 Hn').
Qed.

Lemma NoDup_app_r : forall (A : Type) (l1 l2 : list A), NoDup (l1 ++ l2) -> NoDup l2.
Proof.
  induction l1 as [|a l1 IH]; simpl; intros l2 Hn.
  - exact Hn.
  - inversion Hn; subst. apply IH. assumption.
Qed.

Lemma NoDup_map_inj : forall (A B : Type) (f : A -> B) l a b,
  NoDup (map f l) -> In a l -> In b l -> f a = f b -> a = b.
Proof.
  induction l as [|c l IH]; simpl; intros a b Hn Ha Hb He.
  - contradiction.
  - inversion Hn as [|c' l' Hnc Hn']; subst. destruct Ha as [->|Ha], Hb as [->|Hb].
    + reflexivity.
    + exfalso. apply Hnc. rewrite He. apply in_map. exact Hb.
    + exfalso. apply Hnc. rewrite <- He. apply in_map. exact Ha.
    + exact (IH a b Hn' Ha Hb He).
Qed.

Lemma map_flat_map : forall (A B C : Type) (f : B -> C) (g : A -> list B) l,
  map f (flat_map g l) = flat_map (fun x => map f (g x)) l.
Proof.
  induction l as [|a l IH]; simpl.
  - reflexivity.
  - rewrite map_app, IH. reflexivity.
Qed.

Lemma flat_map_flat_map : forall (A B C : Type) (g : A -> list B) (h : B -> list C) l,
  flat_map h (flat_map g l) = flat_map (fun x => flat_map h (g x)) l.
Proof.
  induction l as [|a l IH]; simpl.
  - reflexivity.
  - rewrite flat_map_app, IH. reflexivity.
Qed.

Lemma filter_flat_map : forall (A B : Type) (P : B -> bool) (g : A -> list B) l,
  filter P (flat_map g l) = flat_map (fun x => filter P (g x)) l.
Proof.
  induction l as [|a l IH]; simpl.
  - reflexivity.
  - rewrite filter_app, IH. reflexivity.
Qed.

Lemma filter_none : forall (A : Type) (P : A -> bool) l,
  (forall x, In x l -> P x = false) -> filter P l = [].
Proof.
  induction l as [|a l IH]; simpl; intros H.
  - reflexivity.
  - rewrite (H a (or_introl eq_refl)). apply IH. intros x Hx. apply H. right. exact Hx.
Qed.

Lemma existsb_false_forall : forall (A : Type) (P : A -> bool) l,
  existsb P l = false <-> (forall x, In x l -> P x = false).
Proof.
  induction l as [|a l IH]; simpl.
  - split; [intros _ x [] | reflexivity].
  - rewrite orb_false_iff, IH. split.
    + intros [H1 H2] x [->|Hx]; [exact H1 | exact (H2 x Hx)].
    + intros H. split; [apply H; left; reflexivity | intros x Hx; apply H; right; exact Hx].
Qed.

(* names distinct across the pieces of a flat_map: a name determines its piece *)
Lemma NoDup_flat_map_piece : forall (A B : Type) (g : A -> list B) l a b x,
  NoDup (flat_map g l) -> In a l -> In b l -> In x (g a) -> In x (g b) -> a = b.
Proof.
  induction l as [|c l IH]; simpl; intros a b x Hn Ha Hb Hxa Hxb.
  - contradiction.
  - destruct Ha as [->|Ha], Hb as [->|Hb].
    + reflexivity.
    + exfalso. apply (NoDup_app_disjoint _ _ _ x Hn Hxa). apply in_flat_map. exists b. split; assumption.
    + exfalso. apply (NoDup_app_disjoint _ _ _ x Hn Hxb). apply in_flat_map. exists a. split; assumption.
    + exact (IH a b x (NoDup_app_r _ _ _ Hn) Ha Hb Hxa Hxb).
Qed.

Lemma flat_map_split_perm : forall (A B : Type) (g h : A -> list B) l,
  Permutation (flat_map (fun x => (g x ++ h x)%list) l) (flat_map g l ++ flat_map h l)%list.
Proof.
  induction l as [|a l IH]; simpl.
  - constructor.
  - rewrite <- !app_assoc. apply Permutation_app_head.
    eapply Permutation_trans; [apply Permutation_app_head; exact IH|].
    apply Permutation_app_swap_app.
Qed.

(* find on a permuted list when all matches have the same image *)
Lemma find_perm_image : forall (A B : Type) (P : A -> bool) (g : A -> B) (d : B) l l',
  Permutation l' l ->
  (forall x y, In x l -> In y l -> P x = true -> P y = true -> g x = g y) ->
  match find P l' with Some x => g x | None => d end = match find P l with Some x => g x | None => d end.
Proof.
  intros A B P g d l l' Hp Hu.
  destruct (find P l') as [x|] eqn:E1; destruct (find P l) as [y|] eqn:E2.
  - apply find_some in E1. apply find_some in E2. destruct E1 as [I1 P1], E2 as [I2 P2].
    apply Hu; try assumption. eapply Permutation_in; eassumption.
  - apply find_some in E1. destruct E1 as [I1 P1].
    pose proof (find_none _ _ E2 x (Permutation_in _ Hp I1)) as C. congruence.
  - apply find_some in E2. destruct E2 as [I2 P2].
    pose proof (find_none _ _ E1 y (Permutation_in _ (Permutation_sym Hp) I2)) as C. congruence.
  - reflexivity.
Qed.

Lemma find_app : forall (A : Type) (P : A -> bool) l1 l2,
  find P (l1 ++ l2) = match find P l1 with Some x => Some x | None => find P l2 end.
Proof.
  induction l1 as [|a l1 IH]; simpl; intros l2.
  - reflexivity.
  - destruct (P a); [reflexivity | apply IH].
Qed.

(* ---------------------------------------------------- perm_eqb, srcmap_same *)

Lemma remove_one_perm : forall x l r, remove_one x l = Some r -> Permutation l (x :: r).
Proof.
  induction l as [|y l IH]; simpl; intros r H.
  - discriminate.
  - destruct (x =? y) eqn:E.
    + apply String.eqb_eq in E. inversion H; subst. apply Permutation_refl.
    + destruct (remove_one x l) as [r'|]; [|discriminate]. inversion H; subst.
      eapply Permutation_trans; [apply perm_skip; apply IH; reflexivity|]. apply perm_swap.
Qed.

Lemma remove_one_in : forall x l, In x l -> exists r, remove_one x l = Some r.
Proof.
  induction l as [|y l IH]; simpl; intros H.
  - contradiction.
  - destruct (x =? y) eqn:E.
    + eexists. reflexivity.
    + destruct H as [->|H]; [rewrite String.eqb_refl in E; discriminate|].
      destruct (IH H) as [r Hr]. rewrite Hr. eexists. reflexivity.
Qed.

Lemma perm_eqb_complete : forall a b, Permutation a b -> perm_eqb a b = true.
Proof.
  induction a as [|x a IH]; intros b Hp; simpl.
  - apply Permutation_nil in Hp. subst. reflexivity.
  - assert (Hx : In x b) by (eapply Permutation_in; [exact Hp | left; reflexivity]).
    destruct (remove_one_in x b Hx) as [r Hr]. rewrite Hr. apply IH.
    apply remove_one_perm in Hr. apply Permutation_cons_inv with (a := x).
    eapply Permutation_trans; eassumption.
Qed.

Lemma perm_eqb_sound : forall a b, perm_eqb a b = true -> Permutation a b.
Proof.
  induction a as [|x a IH]; intros b H; simpl in H.
  - destruct b; [constructor | discriminate].
  - destruct (remove_one x b) as [r|] eqn:E; [|discriminate].
    apply remove_one_perm in E. apply Permutation_sym.
    eapply Permutation_trans; [exact E|]. apply perm_skip. apply Permutation_sym. apply IH. exact H.
Qed.

Lemma types_eqb_refl : forall v, types_eqb v v = true.
Proof.
  intros v. unfold types_eqb. rewrite Nat.eqb_refl. simpl.
  induction v as [|x v IH]; simpl; [reflexivity|]. rewrite String.eqb_refl. exact IH.
Qed.

Lemma types_eqb_eq : forall v w, types_eqb v w = true -> v = w.
Proof.
  unfold types_eqb. induction v as [|x v IH]; intros [|y w] H; simpl in H; try discriminate; try reflexivity.
  rewrite !andb_true_iff in H. destruct H as [Hl [He Hr]]. apply String.eqb_eq in He. subst. f_equal.
  apply IH. rewrite Hl. exact Hr.
Qed.

Lemma has_entry_in : forall m kv, In kv m -> has_entry m kv = true.
Proof.
  intros m kv H. unfold has_entry. apply existsb_exists. exists kv. split; [exact H|].
  rewrite String.eqb_refl, types_eqb_refl. reflexivity.
Qed.

Lemma srcmap_same_refl : forall m, srcmap_same m m = true.
Proof.
  intros m. unfold srcmap_same. rewrite Nat.eqb_refl. simpl.
  assert (H : forallb (has_entry m) m = true) by (apply forallb_forall; intros kv Hkv; apply has_entry_in; exact Hkv).
  rewrite H. reflexivity.
Qed.

(* ------------------------------------------------------- views of a skeleton *)

Definition perm_oracle (o : oracle) : Prop := forall (A : Type) (l : list A), Permutation (o A l) l.

Lemma id_oracle_perm : perm_oracle id_oracle.
Proof. intros A l. apply Permutation_refl. Qed.

Definition names (l : list tspec) : list string := map ts_name l.

Lemma walk_pkg_decls : forall p, walk_pkg p = flat_map walk_decl (all_decls p).
Proof. intros p. unfold walk_pkg, walk_file, all_decls. symmetry. apply flat_map_flat_map. Qed.

Lemma pkg_specs_decls : forall p, pkg_specs p = flat_map top_decl (all_decls p).
Proof. intros p. unfold pkg_specs, top_specs, all_decls. symmetry. apply flat_map_flat_map. Qed.

Lemma local_specs_decls : forall p, local_specs p = flat_map local_decl (all_decls p).
Proof. intros p. unfold local_specs, all_decls. symmetry. apply flat_map_flat_map. Qed.

Lemma walk_decl_split : forall d, walk_decl d = (top_decl d ++ local_decl d)%list.
Proof. destruct d; simpl; try reflexivity. symmetry. apply app_nil_r. Qed.

Lemma walk_perm : forall p, Permutation (walk_pkg p) (pkg_specs p ++ local_specs p).
Proof.
  intros p. rewrite walk_pkg_decls, pkg_specs_decls, local_specs_decls.
  rewrite (flat_map_ext _ _ walk_decl_split). apply flat_map_split_perm.
Qed.

Lemma in_walk_pkg : forall p t, In t (walk_pkg p) <-> In t (pkg_specs p) \/ In t (local_specs p).
Proof.
  intros p t. rewrite <- in_app_iff. split; intros H.
  - eapply Permutation_in; [apply walk_perm | exact H].
  - eapply Permutation_in; [apply Permutation_sym; apply walk_perm | exact H].
Qed.

Lemma top_in_walk_file : forall f t, In t (top_specs f) -> In t (walk_file f).
Proof.
  intros f t H. unfold top_specs in H. unfold walk_file. apply in_flat_map in H. destruct H as [d [Hd Ht]].
  apply in_flat_map. exists d. split; [exact Hd|]. rewrite walk_decl_split. apply in_or_app. left. exact Ht.
Qed.

Lemma top_specs_in_pkg : forall p f t, In f (p_files p) -> In t (top_specs f) -> In t (pkg_specs p).
Proof. intros p f t Hf Ht. unfold pkg_specs. apply in_flat_map. exists f. split; assumption. Qed.

Lemma walk_file_in_pkg : forall p f t, In f (p_files p) -> In t (walk_file f) -> In t (walk_pkg p).
Proof. intros p f t Hf Ht. unfold walk_pkg. apply in_flat_map. exists f. split; assumption. Qed.

Lemma in_pkg_specs_file : forall p t, In t (pkg_specs p) -> exists f, In f (p_files p) /\ In t (top_specs f).
Proof. intros p t H. unfold pkg_specs in H. apply in_flat_map in H. exact H. Qed.

(* the conjuncts of wf_pkgb *)
Record wf (p : pkg) : Prop := {
  wf_names : NoDup (names (walk_pkg p));
  wf_idents : forall t, In t (walk_pkg p) -> is_ident (ts_name t) = true;
  wf_files : NoDup (map f_name (p_files p));
  wf_visible : forall f, In f (p_files p) -> visible_file (f_name f) = true;
  wf_alias : forall t, In t (walk_pkg p) -> ts_alias t = true -> ts_rhs t = RNamed
}.

Lemma wf_pkgb_wf : forall p, wf_pkgb p = true -> wf p.
Proof.
  intros p H. unfold wf_pkgb in H. rewrite !andb_true_iff in H. destruct H as [[[[H1 H2] H3] H4] H5].
  constructor.
  - apply nodupb_NoDup. exact H1.
  - intros t Ht. rewrite forallb_forall in H2. apply H2. apply in_map. exact Ht.
  - apply nodupb_NoDup. exact H3.
  - intros f Hf. rewrite forallb_forall in H4. apply H4. apply in_map. exact Hf.
  - intros t Ht Ha. rewrite forallb_forall in H5. specialize (H5 t Ht). rewrite Ha in H5. simpl in H5.
    destruct (ts_rhs t); try discriminate. reflexivity.
Qed.

Lemma named_unique : forall p t1 t2, wf p ->
  In t1 (walk_pkg p) -> In t2 (walk_pkg p) -> ts_name t1 = ts_name t2 -> t1 = t2.
Proof. intros p t1 t2 W H1 H2 He. exact (NoDup_map_inj _ _ ts_name _ t1 t2 (wf_names p W) H1 H2 He). Qed.

Lemma is_local_In : forall p T, is_local p T = true <-> exists t, In t (local_specs p) /\ ts_name t = T.
Proof.
  intros p T. unfold is_local. rewrite mem_In, in_map_iff. split; intros [t [A B]]; exists t; tauto.
Qed.

Lemma top_not_local : forall p t, wf p -> In t (pkg_specs p) -> is_local p (ts_name t) = false.
Proof.
  intros p t W Ht. destruct (is_local p (ts_name t)) eqn:E; [|reflexivity]. exfalso.
  apply is_local_In in E. destruct E as [t' [Ht' He]].
  pose proof (wf_names p W) as Hn. unfold names in Hn.
  assert (Hn' : NoDup (map ts_name (pkg_specs p ++ local_specs p))).
  { eapply Permutation_NoDup; [apply Permutation_map; apply walk_perm | exact Hn]. }
  rewrite map_app in Hn'. apply (NoDup_app_disjoint _ _ _ (ts_name t) Hn').
  - apply in_map. exact Ht.
  - rewrite <- He. apply in_map. exact Ht'.
Qed.

(* a non-local name that occurs at all occurs at package level *)
Lemma nonlocal_named_top : forall p t, is_local p (ts_name t) = false -> In t (walk_pkg p) -> In t (pkg_specs p).
Proof.
  intros p t Hl Ht. apply in_walk_pkg in Ht. destruct Ht as [Ht|Ht]; [exact Ht|].
  exfalso. assert (is_local p (ts_name t) = true) by (apply is_local_In; exists t; tauto). congruence.
Qed.

Lemma names_walk_pkg : forall p, names (walk_pkg p) = flat_map (fun f => names (walk_file f)) (p_files p).
Proof. intros p. unfold names, walk_pkg. apply map_flat_map. Qed.

(* the file a package-level type is declared in *)
Lemma decl_file_spec : forall p f t, wf p -> In f (p_files p) -> In t (top_specs f) -> decl_file p (ts_name t) = f_name f.
Proof.
  intros p f t W Hf Ht. unfold decl_file.
  destruct (find (declares (ts_name t)) (p_files p)) as [f1|] eqn:E.
  - apply find_some in E. destruct E as [Hf1 Hd]. unfold declares in Hd. apply existsb_exists in Hd.
    destruct Hd as [t1 [Ht1 He]]. apply String.eqb_eq in He.
    assert (f1 = f); [|subst; reflexivity].
    pose proof (wf_names p W) as Hn. rewrite names_walk_pkg in Hn.
    apply (NoDup_flat_map_piece _ _ _ _ f1 f (ts_name t) Hn Hf1 Hf).
    + rewrite <- He. apply in_map. apply top_in_walk_file. exact Ht1.
    + apply in_map. apply top_in_walk_file. exact Ht.
  - exfalso. pose proof (find_none _ _ E f Hf) as C. unfold declares in C.
    rewrite existsb_false_forall in C. specialize (C t Ht). rewrite String.eqb_refl in C. discriminate.
Qed.

Lemma decl_file_none : forall p T, (forall t, In t (pkg_specs p) -> ts_name t <> T) -> decl_file p T = "".
Proof.
  intros p T H. unfold decl_file. destruct (find (declares T) (p_files p)) as [f|] eqn:E; [|reflexivity].
  exfalso. apply find_some in E. destruct E as [Hf Hd]. unfold declares in Hd. apply existsb_exists in Hd.
  destruct Hd as [t [Ht He]]. apply String.eqb_eq in He. apply (H t); [|exact He].
  eapply top_specs_in_pkg; eassumption.
Qed.

(* ---------------------------------------------------------------- getGoFile *)

Definition gg_pred (T : string) (d : tdef) : bool := (td_name d =? T) && td_pkgscope d.

Definition ofile (o : option tdef) : option string :=
  match o with Some d => Some (td_file d) | None => None end.

Lemma find_scopeless : forall T (g : string -> tdef) l,
  (forall n, td_pkgscope (g n) = false) -> find (gg_pred T) (map g l) = None.
Proof.
  intros T g l H. induction l as [|n l IH]; simpl; [reflexivity|].
  unfold gg_pred at 1. rewrite H, andb_false_r. exact IH.
Qed.

Lemma find_scopeless_ts : forall T (g : tspec -> tdef) l,
  (forall n, td_pkgscope (g n) = false) -> find (gg_pred T) (map g l) = None.
Proof.
  intros T g l H. induction l as [|n l IH]; simpl; [reflexivity|].
  unfold gg_pred at 1. rewrite H, andb_false_r. exact IH.
Qed.

Definition defs_of_decl (fname : string) (d : decl) : list tdef :=
  match d with
  | DType l => flat_map (fun t =>
      {| td_name := ts_name t; td_pkgscope := true; td_file := fname |} ::
      map (fun n => {| td_name := n; td_pkgscope := false; td_file := fname |}) (ts_tparams t)) l
  | DFunc l => map (fun t => {| td_name := ts_name t; td_pkgscope := false; td_file := fname |}) l
  | _ => []
  end.

Lemma defs_of_file_decls : forall f, defs_of_file f = flat_map (defs_of_decl (f_name f)) (f_decls f).
Proof. intros f. unfold defs_of_file. apply flat_map_ext. intros d. destruct d; reflexivity. Qed.

Lemma find_defs_decl : forall T fname d,
  ofile (find (gg_pred T) (defs_of_decl fname d)) =
  if existsb (fun t => ts_name t =? T) (top_decl d) then Some fname else None.
Proof.
  intros T fname d. destruct d as [l|ty ns|l|txt]; simpl; try reflexivity.
  - induction l as [|t l IH]; simpl; [reflexivity|].
    unfold gg_pred at 1. simpl. rewrite andb_true_r. destruct (ts_name t =? T); [reflexivity|].
    rewrite find_app, find_scopeless by reflexivity. exact IH.
  - rewrite find_scopeless_ts by reflexivity. reflexivity.
Qed.

Lemma find_defs_file : forall T f,
  ofile (find (gg_pred T) (defs_of_file f)) = if declares T f then Some (f_name f) else None.
Proof.
  intros T f. rewrite defs_of_file_decls. unfold declares, top_specs.
  induction (f_decls f) as [|d ds IH]; simpl; [reflexivity|].
  rewrite find_app, existsb_app. pose proof (find_defs_decl T (f_name f) d) as Hd.
  destruct (find (gg_pred T) (defs_of_decl (f_name f) d)) as [x|]; simpl in Hd |- *.
  - destruct (existsb (fun t => ts_name t =? T) (top_decl d)); [simpl; exact Hd | discriminate].
  - destruct (existsb (fun t => ts_name t =? T) (top_decl d)); [discriminate | simpl; exact IH].
Qed.

Lemma get_go_file_id : forall p T, get_go_file id_oracle p T = decl_file p T.
Proof.
  intros p T. unfold get_go_file, decl_file, id_oracle, defs_of. fold (gg_pred T).
  induction (p_files p) as [|f fs IH]; simpl; [reflexivity|].
  rewrite find_app. pose proof (find_defs_file T f) as Hf.
  destruct (find (gg_pred T) (defs_of_file f)) as [x|]; simpl in Hf.
  - destruct (declares T f); [inversion Hf; reflexivity | discriminate].
  - destruct (declares T f); [discriminate | exact IH].
Qed.

Lemma gg_pred_origin : forall p T d, In d (defs_of p) -> gg_pred T d = true ->
  exists f t, In f (p_files p) /\ In t (top_specs f) /\ ts_name t = T /\ td_file d = f_name f.
Proof.
  intros p T d Hd Hp. unfold defs_of in Hd. apply in_flat_map in Hd. destruct Hd as [f [Hf Hd]].
  rewrite defs_of_file_decls in Hd. apply in_flat_map in Hd. destruct Hd as [dc [Hdc Hd]].
  unfold gg_pred in Hp. apply andb_true_iff in Hp. destruct Hp as [Hn Hs]. apply String.eqb_eq in Hn.
  destruct dc as [l|ty ns|l|txt]; simpl in Hd; try contradiction.
  - apply in_flat_map in Hd. destruct Hd as [t [Ht [Hd|Hd]]].
    + subst d. simpl in *. exists f, t. repeat split; try assumption.
      unfold top_specs. apply in_flat_map. exists (DType l). split; [exact Hdc | exact Ht].
    + apply in_map_iff in Hd. destruct Hd as [n [Hd _]]. subst d. simpl in Hs. discriminate.
  - apply in_map_iff in Hd. destruct Hd as [t [Hd _]]. subst d. simpl in Hs. discriminate.
Qed.

Lemma get_go_file_perm : forall o p T, perm_oracle o -> wf p -> get_go_file o p T = decl_file p T.
Proof.
  intros o p T Ho W. rewrite <- get_go_file_id. unfold get_go_file, id_oracle. fold (gg_pred T).
  apply (find_perm_image _ _ (gg_pred T) td_file "" (defs_of p) (o _ (defs_of p))); [apply Ho|].
  intros x y Hx Hy Px Py.
  destruct (gg_pred_origin p T x Hx Px) as [f1 [t1 [Hf1 [Ht1 [Hn1 He1]]]]].
  destruct (gg_pred_origin p T y Hy Py) as [f2 [t2 [Hf2 [Ht2 [Hn2 He2]]]]].
  rewrite He1, He2. rewrite <- (decl_file_spec p f1 t1 W Hf1 Ht1), <- (decl_file_spec p f2 t2 W Hf2 Ht2).
  rewrite Hn1, Hn2. reflexivity.
Qed.
