(* C13, second part: *T's method set (which SetDefault NewWith finds), NewWith = new(T).With
   under the guard, and the frame property of whole option sequences. *)
From Coq Require Import String Ascii List Bool Arith ZArith Lia.
From Shoot Require Import Base.Str Base.GoVal Model.Transfer Model.CtorDirective Model.Ctor Model.CtorSpec Model.CtorOpt.
From Shoot Require Import Proofs.GoValProofs Proofs.CtorFlattenProofs Proofs.CtorResolveProofs Proofs.CtorNewProofs
                          Proofs.CtorC02Proofs Proofs.CtorOptProofs Proofs.CtorOrderProofs.
Import ListNotations.
Local Open Scope list_scope.

Lemma set_default_at_nil : forall pkg fuel sd defs v,
  set_default_at pkg fuel sd [] defs v = set_default pkg fuel sd defs v.
Proof.
  intros pkg fuel sd defs. induction defs as [|[f t] r IH]; intros v; simpl; auto.
  unfold assign. destruct (resolve pkg fuel sd f) as [p|]; auto.
  cbn [app]. destruct (update v p (VDef t)); simpl; auto.
Qed.

(* no embedded struct declares a default => nothing is promoted *)
Lemma flat_map_nil : forall A B (f : A -> list B) l, (forall x, In x l -> f x = []) -> flat_map f l = [].
Proof. induction l as [|x l IH]; intros H; simpl; auto. rewrite H by (left; auto). apply IH. intros y Hy. apply H. right. auto. Qed.

Lemma no_candidates : forall pkg fuel sd k,
  no_promoted_setdefault pkg fuel sd = true -> k < fuel -> setdefault_candidates pkg (self_inst sd) k = [].
Proof.
  intros pkg fuel sd k G Hk. unfold setdefault_candidates. apply flat_map_nil. intros o Ho.
  unfold no_promoted_setdefault in G. rewrite forallb_forall in G.
  specialize (G o (in_all_occ _ _ _ _ _ Hk Ho)).
  destruct (occ_emb o); auto. destruct (struct_of pkg (occ_ty o)) as [[sd' args]|]; auto.
  apply negb_true_iff in G. unfold own_setdefault. rewrite G, andb_false_r. reflexivity.
Qed.

Lemma promoted_none : forall pkg fuel sd,
  no_promoted_setdefault pkg fuel sd = true -> promoted_setdefault pkg (self_inst sd) 0 fuel = None.
Proof.
  intros pkg fuel sd G.
  assert (A : forall f k, k + f <= fuel -> promoted_setdefault pkg (self_inst sd) k f = None).
  { induction f as [|f IH]; intros k Hk; simpl; auto.
    rewrite (no_candidates pkg fuel sd k G) by lia. apply IH. lia. }
  apply A. lia.
Qed.

(* the type has a default list exactly when its declaration carries a default on a field that
   is not excluded *)
Lemma has_default_iff_decl : forall pkg fl fuel sd fs hn,
  flatten pkg fl fuel sd = COk (fs, hn) ->
  c02_guard pkg fuel sd = true ->
  od_has_default (make_opt fl sd (make_new sd hn fs)) = decl_has_def sd.
Proof.
  intros pkg fl fuel sd fs hn H G.
  destruct (c02_guard_parts _ _ _ G) as [GB [GW [GU [GN [GP [GD [GX [GI [GPP GPN]]]]]]]]].
  destruct (flatten_is_marked_raw _ _ _ _ _ _ H) as [raw [Hraw [Hfs Hhn]]].
  assert (ND := top_names_nodup _ _ _ GW). unfold top_tfields in ND.
  unfold make_opt. cbn [od_has_default]. rewrite nd_def_list_spec.
  destruct (decl_has_def sd) eqn:D.
  - (* some declaration carries a default on a non-excluded name: its entry is in the list *)
    unfold decl_has_def in D. apply existsb_exists in D. destruct D as [fd [Hfd D]].
    apply andb_true_iff in D. destruct D as [Dd Dn]. apply existsb_exists in Dn. destruct Dn as [n [Hn Hex]].
    apply negb_true_iff in Hex.
    assert (L : map f_path (filter is_leaf_entry fs) = flat_map (decl_leaves_ne pkg fuel) (sd_fields sd)).
    { subst fs. rewrite mark_leaf_paths. apply (raw_top_leaves pkg fl fuel (sd_fields sd) raw Hraw).
      intros k. apply (levels_ok_of_guard pkg fuel sd k GN GB). }
    assert (Hin : In [n] (map f_path (filter is_leaf_entry fs))).
    { rewrite L. apply in_flat_map. exists fd. split; auto. unfold decl_leaves_ne.
      destruct (fd_names fd) as [|x ns] eqn:EN; [destruct Hn|].
      apply in_map_iff. exists n. split; [reflexivity|]. apply filter_In. split; auto. rewrite Hex. reflexivity. }
    apply in_map_iff in Hin. destruct Hin as [e [Ep He]]. apply filter_In in He. destruct He as [He Hl].
    unfold is_leaf_entry in Hl. apply negb_true_iff in Hl.
    assert (De : dentry e = true).
    { subst fs. destruct (in_mark _ _ He) as [e0 [He0 Ee]]. subst e.
      rewrite mark_with_embedded in Hl. rewrite mark_with_path in Ep.
      destruct (entry_spec_facts _ _ _ _ _ _ Hraw GW He0 Hl) as [_ [_ Fd]].
      assert (Hd0 : f_depth e0 = 0).
      { pose proof (raw_top_path_len _ _ _ _ _ _ Hraw He0) as Hlen. rewrite Ep in Hlen. simpl in Hlen. lia. }
      unfold dentry, oentry. rewrite mark_with_embedded, mark_with_def, Hl.
      rewrite mark_with_shadowed by (eapply raw_top_unmarked; eauto).
      assert (Sh : shadowed_in raw e0 = false).
      { apply shadowed_in_false_iff. intros x _ _. lia. }
      rewrite Sh. cbn [negb andb]. rewrite Fd, Ep. unfold def_text.
      assert (Hfind : top_decl sd [n] = Some fd).
      { unfold top_decl. apply find_decl_unique; auto. unfold decl_names. rewrite tfields_of_decl_names.
        destruct (fd_names fd); [destruct Hn|exact Hn]. }
      rewrite Hfind. destruct (fd_names fd); [destruct Hn|]. exact Dd. }
    assert (In e (filter dentry fs)) by (apply filter_In; auto).
    destruct (filter dentry fs); [destruct H0|reflexivity].
  - (* no such declaration: no entry carries a default *)
    destruct (filter dentry fs) as [|e l] eqn:E; [reflexivity|]. exfalso.
    assert (He : In e (filter dentry fs)) by (rewrite E; left; auto).
    apply filter_In in He. destruct He as [He De].
    unfold dentry, oentry in De. apply andb_true_iff in De. destruct De as [De Dd].
    apply andb_true_iff in De. destruct De as [_ Dem]. apply negb_true_iff in Dem.
    subst fs. destruct (in_mark _ _ He) as [e0 [He0 Ee]]. subst e.
    rewrite mark_with_embedded in Dem. rewrite mark_with_def in Dd.
    destruct (raw_entry_decl _ _ _ _ _ _ Hraw He0 Dem) as [fd [first [rest [Hfd [Hp [Hfirst [Hnew Hcase]]]]]]].
    destruct Hcase as [[Hr [Hf [Hin [Hex Hdef]]]]|[Hr [Hn Hdef]]].
    + assert (decl_has_def sd = true).
      { unfold decl_has_def. apply existsb_exists. exists fd. split; auto.
        rewrite <- Hdef, Dd. cbn [andb]. apply existsb_exists. exists first. split; auto. rewrite Hex. reflexivity. }
      congruence.
    + rewrite Hdef in Dd. discriminate.
Qed.

(* NewWith (the runtime, with *T's real method set) = new(T).With, inside the guard *)
Theorem new_with_real_is_with : forall pkg fl fuel sd fs hn short opts,
  flatten pkg fl fuel sd = COk (fs, hn) ->
  c13_guard short pkg fuel sd = true ->
  new_with_real pkg fl fuel sd opts =
  with_ pkg fuel sd (make_opt fl sd (make_new sd hn fs)) (VPtr (zero_struct pkg fuel (self_inst sd))) opts.
Proof.
  intros pkg fl fuel sd fs hn short opts H G.
  unfold c13_guard in G.
  apply andb_true_iff in G. destruct G as [G Gpkg]. apply andb_true_iff in G. destruct G as [G _].
  apply andb_true_iff in G. destruct G as [G _]. apply andb_true_iff in G. destruct G as [G Gprom].
  apply andb_true_iff in G. destruct G as [G _].
  apply String.eqb_eq in Gpkg.
  unfold new_with_real, with_, setdefault_target, own_setdefault.
  rewrite Gpkg, String.eqb_refl. cbn [andb].
  rewrite <- (has_default_iff_decl pkg fl fuel sd fs hn H G).
  destruct (od_has_default (make_opt fl sd (make_new sd hn fs))) eqn:D.
  - unfold new_of. rewrite H. rewrite set_default_at_nil. reflexivity.
  - rewrite (promoted_none pkg fuel sd Gprom). reflexivity.
Qed.

(* ------------------------------------------------- frame of a whole sequence *)
Lemma last_assign_none : forall q l,
  (forall p, In p (map fst l) -> diverge p q = true) -> last_assign q l = None.
Proof.
  intros q l. induction l as [|[p x] r IH]; intros H; simpl; auto.
  rewrite IH by (intros p' Hp'; apply H; right; exact Hp').
  assert (path_eqb p q = false).
  { apply not_true_is_false. intros E. apply path_eqb_eq in E.
    exact (diverge_neq _ _ (H p (or_introl eq_refl)) E). }
  rewrite H0. reflexivity.
Qed.

(* whatever the sequence: a path that overlaps none of the assigned fields reads the same
   before and after With *)
Theorem with_changes_nothing_else : forall pkg fuel sd od v opts v' q,
  with_ pkg fuel sd od v opts = Ok v' ->
  (forall o p, In o (with_sequence od opts) -> resolve pkg fuel sd (opt_field o) = Some p -> diverge p q = true) ->
  lookup v' q = lookup v q.
Proof.
  intros pkg fuel sd od v opts v' q H D. rewrite with_is_apply in H.
  destruct (apply_opts_run _ _ _ _ _ _ H) as [ps [F Rn]].
  assert (A : forall p, In p (map fst ps) -> diverge p q = true).
  { intros p Hp. apply in_map_iff in Hp. destruct Hp as [[p' y] [E Hin]]. simpl in E. subst p'.
    clear - F Hin D. induction F as [|o px os ps0 [Hr Hv] F IH]; [destruct Hin|].
    destruct Hin as [Hin|Hin].
    - subst px. apply (D o p); [left; reflexivity|exact Hr].
    - apply IH; auto. intros o' p' Ho'. apply D. right. exact Ho'. }
  rewrite (run_last_wins ps v v' q Rn).
  - rewrite (last_assign_none q ps A). reflexivity.
  - intros p Hp. right. apply A. exact Hp.
Qed.

(* two paths at which a value holds leaves never overlap *)
Lemma leaf_reads_apart : forall v p q a b,
  lookup v p = Ok a -> is_leaf_val a -> lookup v q = Ok b -> is_leaf_val b ->
  p = q \/ diverge p q = true.
Proof.
  intros v p q a b La Ha Lb Hb. unfold diverge.
  destruct (is_prefix p q) eqn:Ppq.
  - destruct (is_prefix_split _ _ Ppq) as [r Hr]. destruct r as [|x r].
    + left. rewrite app_nil_r in Hr. auto.
    + exfalso. rewrite Hr, lookup_app, La in Lb. cbn [bind] in Lb.
      eapply lookup_leaf_stuck; [exact Ha| |exact Lb]. discriminate.
  - destruct (is_prefix q p) eqn:Pqp; [|right; reflexivity].
    destruct (is_prefix_split _ _ Pqp) as [r Hr]. destruct r as [|x r].
    + left. rewrite app_nil_r in Hr. auto.
    + exfalso. rewrite Hr, lookup_app, Lb in La. cbn [bind] in La.
      eapply lookup_leaf_stuck; [exact Hb| |exact La]. discriminate.
Qed.

(* for the struct's own field list: With changes no leaf of the struct graph other than the
   fields its sequence names -- shadowed promoted fields and excluded fields included *)
Theorem with_frame_all_leaves : forall pkg fl fuel sd fs hn v opts v' q,
  flatten pkg fl fuel sd = COk (fs, hn) ->
  c02_guard pkg fuel sd = true ->
  let nd := make_new sd hn fs in
  let od := make_opt fl sd nd in
  with_ pkg fuel sd od v opts = Ok v' ->
  (forall o, In o opts -> In (opt_field o) (nd_all nd)) ->
  In q (leaf_paths pkg fuel (self_inst sd) []) ->
  (forall o, In o (with_sequence od opts) -> resolve pkg fuel sd (opt_field o) <> Some q) ->
  lookup v' q = lookup v q.
Proof.
  intros pkg fl fuel sd fs hn v opts v' q H G nd od W OK Hq NQ.
  destruct (c02_guard_parts _ _ _ G) as [GB [GW [GU [GN [GP [GD [GX [GI [GPP GPN]]]]]]]]].
  destruct (new_master pkg fl fuel sd fs hn (fun _ => VSent 0) H GB GW GU GN GX) as [kv [_ [U [_ [LK LX]]]]].
  destruct (options_exist_exactly pkg fl fuel sd fs hn H G) as [OA [_ [DA [_ OE]]]].
  fold nd od in OA, DA.
  assert (Leaf : forall e, is_leaf_val (leafv (name_map hn fs) (fun _ => VSent 0) e)).
  { intros e. unfold leafv, dv. destruct (assoc (f_name e) (name_map hn fs)).
    - destruct (negb (f_shadowed e)); simpl; auto. destruct (String.eqb (f_def e) ""); simpl; auto.
    - destruct (String.eqb (f_def e) ""); simpl; auto. }
  (* q is read as a leaf in NewT's value *)
  assert (Lq : exists b, lookup (VPtr (VStruct kv)) q = Ok b /\ is_leaf_val b).
  { destruct (leaves_covered pkg fl fuel sd fs hn q H G Hq) as [[e [He [Hemb Hp]]]|[fd [n [Hfd [Hn [Hex Hp]]]]]].
    - destruct (LK e He) as [b [Lb Vb]]. rewrite Hemb in Vb. subst b q. eexists. split; [exact Lb|apply Leaf].
    - subst q. exists VZero. split; [apply (LX fd n Hfd Hn Hex)|exact I]. }
  destruct Lq as [b [Lb Hb]].
  apply (with_changes_nothing_else pkg fuel sd od v opts v' q W).
  intros o p Ho Rp.
  (* the field of o is the name of an unshadowed leaf entry whose path is p *)
  assert (exists e, In e (filter oentry fs) /\ f_name e = opt_field o).
  { unfold with_sequence in Ho. apply in_app_or in Ho. destruct Ho as [Ho|Ho].
    - destruct (od_has_default od); [|destruct Ho]. unfold def_opts in Ho. apply in_map_iff in Ho.
      destruct Ho as [d [Ed Hd]]. subst o. simpl.
      assert (In (fst d) (map fst (od_defaults od))) by (apply in_map; exact Hd).
      rewrite DA in H0. apply in_map_iff in H0. destruct H0 as [e [En He]].
      exists e. split; auto. apply filter_In in He. apply filter_In. destruct He as [I0 D0].
      split; auto. apply dentry_oentry. exact D0.
    - specialize (OK o Ho). unfold nd in OK. rewrite nd_all_spec in OK. apply in_map_iff in OK.
      destruct OK as [e [En He]]. exists e. split; auto. }
  destruct H0 as [e [He Ne]]. apply filter_In in He. destruct He as [Ie Oe].
  assert (Re : resolve pkg fuel sd (f_name e) = Some (f_path e)) by (apply (OE e Ie) in Oe; tauto).
  rewrite Ne, Rp in Re. inversion Re; subst p.
  destruct (LK e Ie) as [a [La Va]].
  assert (Hemb : f_embedded e = false).
  { unfold oentry in Oe. apply andb_true_iff in Oe. destruct Oe as [_ Oe]. apply negb_true_iff in Oe. exact Oe. }
  rewrite Hemb in Va. subst a.
  destruct (leaf_reads_apart _ _ _ _ _ La (Leaf e) Lb Hb) as [E|D]; [|exact D].
  exfalso. apply (NQ o Ho). rewrite Rp, E. reflexivity.
Qed.
