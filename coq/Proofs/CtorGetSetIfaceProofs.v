(* Proofs about Model/CtorGetSet.v (shoot new -getset), part 3:  *T satisfies <T>Getter / <T>Setter.

   Every method of the complete method set of the interface shoot declares for T is in the method set of
   *T with the same signature.  The explicit methods are T's own accessors.  An embedded interface
   <E>Getter[args] was admitted only because *E implements it in the package view (the analysis checks
   that, AssignableToIface); E is an embedded struct of T, so the accessor that answers on *E is an
   accessor of a struct of T's embedding closure, hence -- by the visibility guard -- selected on *T too. *)
From Coq Require Import String Ascii List Bool Arith Lia.
From Shoot Require Import Base.Str Base.GoVal Model.Transfer Model.CtorDirective Model.Ctor Model.CtorSpec Model.CtorGetSet.
From Shoot Require Import Proofs.GoValProofs Proofs.CtorFlattenProofs Proofs.CtorResolveProofs Proofs.CtorNewProofs
                          Proofs.CtorC02Proofs Proofs.CtorOrderProofs Proofs.CtorOptProofs Proofs.CtorGetSetProofs
                          Proofs.CtorGetSetSemProofs.
Import ListNotations.
Local Open Scope list_scope.

(* ------------------------------------------------------------ levels compose *)
Lemma map_flat_map : forall A B C (f : B -> C) (g : A -> list B) l,
  map f (flat_map g l) = flat_map (fun x => map f (g x)) l.
Proof. intros. induction l as [|x r IH]; simpl; auto. rewrite map_app, IH. reflexivity. Qed.

Lemma level_prefix : forall pkg n si pre,
  level pkg n si pre = map (fun o => (pre ++ fst o, snd o)) (level pkg n si []).
Proof.
  intros pkg n. induction n as [|n IH]; intros si pre; simpl.
  - rewrite map_map. apply map_ext. intros tf. reflexivity.
  - rewrite map_flat_map. apply flat_map_ext. intros [[nm ft] emb]. destruct emb; [|reflexivity].
    destruct (struct_of pkg ft) as [si'|]; [|reflexivity].
    rewrite (IH si' (pre ++ [nm])), (IH si' [nm]), map_map. apply map_ext. intros o. cbn [fst snd].
    rewrite <- app_assoc. reflexivity.
Qed.

Lemma level_compose : forall pkg b si_e o' a si pre o_e,
  In o_e (level pkg a si pre) -> occ_emb o_e = true -> struct_of pkg (occ_ty o_e) = Some si_e ->
  In o' (level pkg b si_e []) ->
  In (fst o_e ++ fst o', snd o') (level pkg (a + 1 + b) si pre).
Proof.
  intros pkg b si_e o' a. induction a as [|a IH]; intros si pre o_e Hin Hemb Hs Ho'.
  - cbn [level] in Hin. apply in_map_iff in Hin. destruct Hin as [[[nm ft] emb] [E Htf]]. subst o_e.
    unfold occ_emb, occ_ty in *. cbn [fst snd] in *. subst emb.
    replace (0 + 1 + b) with (S b) by lia. cbn [level]. apply in_flat_map. exists (nm, ft, true). split; auto.
    rewrite Hs. rewrite level_prefix. apply in_map_iff. exists o'. split; auto.
  - cbn [level] in Hin. apply in_flat_map in Hin. destruct Hin as [[[nm ft] emb] [Htf Hin]].
    destruct emb; [|destruct Hin]. destruct (struct_of pkg ft) as [si1|] eqn:E1; [|destruct Hin].
    replace (S a + 1 + b) with (S (a + 1 + b)) by lia. cbn [level]. apply in_flat_map.
    exists (nm, ft, true). split; auto. rewrite E1. apply IH; auto.
Qed.

(* ------------------------------------------- methods at a depth belong to occurrences *)
Lemma methods_at_occ : forall pkg v n si pre pm,
  In pm (methods_at pkg v n si pre) ->
  (n = 0 /\ fst pm = pre /\ In (snd pm) (own_methods v si)) \/
  (exists k o si', n = S k /\ In o (level pkg k si pre) /\ occ_emb o = true /\
                   struct_of pkg (occ_ty o) = Some si' /\ fst pm = fst o /\ In (snd pm) (own_methods v si')).
Proof.
  intros pkg v n. induction n as [|n IH]; intros si pre pm H.
  - left. cbn [methods_at] in H. apply in_map_iff in H. destruct H as [m [E Hm]]. subst pm. auto.
  - right. cbn [methods_at] in H. apply in_flat_map in H. destruct H as [[[nm ft] emb] [Htf H]].
    destruct emb; [|destruct H]. destruct (struct_of pkg ft) as [si1|] eqn:E1; [|destruct H].
    destruct (IH si1 (pre ++ [nm]) pm H) as [[En [Ep Hm]]|[k [o [si' [En [Ho [Hemb [Hs [Ep Hm]]]]]]]]].
    + subst n. exists 0, (pre ++ [nm], (nm, ft, true)), si1. repeat split; auto.
      cbn [level]. apply in_map_iff. exists (nm, ft, true). auto.
    + subst n. exists (S k), o, si'. repeat split; auto.
      cbn [level]. apply in_flat_map. exists (nm, ft, true). split; auto. rewrite E1. exact Ho.
Qed.

(* ----------------------------------- embedded entries of the flattened list are occurrences *)
Lemma raw_fields_emb_level : forall pkg fuel depth pre is_new fs l e,
  raw_fields pkg fuel depth pre is_new fs = Some l -> emb_named fs ->
  In e l -> f_embedded e = true ->
  exists n o, f_depth e = depth + n /\ In o (level_fields pkg n fs pre) /\ fst o = f_path e /\
              occ_ty o = f_ty e /\ occ_emb o = true.
Proof.
  intros pkg fuel. induction fuel as [|fuel IHf]; intros depth pre is_new fs.
  - induction fs as [|[[nm ft] emb] fs IH]; intros l e H EN He Hemb.
    + inversion H; subst. destruct He.
    + rewrite raw_fields_cons in H. assert (ENt := emb_named_tail _ _ EN). destruct emb.
      * rewrite raw_type_unfold in H. destruct (struct_of pkg ft); [discriminate|].
        destruct (raw_fields pkg 0 depth pre is_new fs) as [b|] eqn:Eb; [|discriminate].
        inversion H; subst l. cbn [app] in He.
        destruct (IH b e eq_refl ENt He Hemb) as [n [o [A [B C]]]]. exists n, o. split; auto. split; auto.
        rewrite level_fields_cons. apply in_or_app. right. exact B.
      * destruct (raw_fields pkg 0 depth pre is_new fs) as [b|] eqn:Eb; [|discriminate].
        inversion H; subst l. destruct He as [He|He]; [subst e; discriminate|].
        destruct (IH b e eq_refl ENt He Hemb) as [n [o [A [B C]]]]. exists n, o. split; auto. split; auto.
        rewrite level_fields_cons. apply in_or_app. right. exact B.
  - induction fs as [|[[nm ft] emb] fs IH]; intros l e H EN He Hemb.
    + inversion H; subst. destruct He.
    + rewrite raw_fields_cons in H. assert (ENt := emb_named_tail _ _ EN). destruct emb.
      * assert (Hnm : nm = short_name ft) by (apply EN; left; reflexivity).
        destruct (raw_type pkg (S fuel) depth pre ft is_new) as [a|] eqn:Ea; [|discriminate].
        destruct (raw_fields pkg (S fuel) depth pre is_new fs) as [b|] eqn:Eb; [|discriminate].
        inversion H; subst l. apply in_app_or in He. destruct He as [He|He].
        -- rewrite raw_type_unfold in Ea. destruct (struct_of pkg ft) as [si|] eqn:Es; [|inversion Ea; subst; destruct He].
           destruct (raw_fields pkg fuel (S depth) (f_path (embedded_entry ft depth pre)) is_new (struct_fields si)) as [l'|] eqn:El;
             [|discriminate].
           inversion Ea; subst a. destruct He as [He|He].
           ++ subst e. exists 0, (pre ++ [nm], (nm, ft, true)).
              rewrite embedded_entry_depth, embedded_entry_path, embedded_entry_ty. subst nm.
              repeat split; auto; try lia. cbn [level_fields map]. left. reflexivity.
           ++ rewrite embedded_entry_path in El.
              destruct (IHf (S depth) (pre ++ [short_name ft]) is_new (struct_fields si) l' e El
                            (struct_fields_emb_named si) He Hemb) as [n [o [A [B C]]]].
              exists (S n), o. split; [lia|]. split; auto.
              rewrite level_fields_cons. apply in_or_app. left. cbn [level_fields flat_map]. rewrite Es, app_nil_r.
              subst nm. exact B.
        -- destruct (IH b e eq_refl ENt He Hemb) as [n [o [A [B C]]]]. exists n, o. split; auto. split; auto.
           rewrite level_fields_cons. apply in_or_app. right. exact B.
      * destruct (raw_fields pkg (S fuel) depth pre is_new fs) as [b|] eqn:Eb; [|discriminate].
        inversion H; subst l. destruct He as [He|He]; [subst e; discriminate|].
        destruct (IH b e eq_refl ENt He Hemb) as [n [o [A [B C]]]]. exists n, o. split; auto. split; auto.
        rewrite level_fields_cons. apply in_or_app. right. exact B.
Qed.

Lemma raw_top_emb_level : forall pkg fl fuel fds raw e,
  raw_top pkg fl fuel fds = COk raw -> In e raw -> f_embedded e = true ->
  exists o, In o (level_fields pkg (f_depth e) (flat_map tfields_of_decl fds) []) /\ fst o = f_path e /\
            occ_ty o = f_ty e /\ occ_emb o = true.
Proof.
  intros pkg fl fuel fds. induction fds as [|fd fds IH]; intros raw e H He Hemb; simpl in H.
  - inversion H; subst. destruct He.
  - destruct (raw_decl pkg fl fuel fd) as [a| |] eqn:Ea; try discriminate.
    destruct (raw_top pkg fl fuel fds) as [b| |] eqn:Eb; try discriminate.
    inversion H; subst raw. cbn [flat_map]. apply in_app_or in He. destruct He as [He|He].
    + unfold raw_decl in Ea. unfold tfields_of_decl at 1. destruct (fd_names fd) as [|x names] eqn:EN.
      * destruct (raw_type pkg fuel 0 [] (fd_ty fd) (parse_new_comment (fd_doc fd))) as [l|] eqn:Er; [|discriminate].
        inversion Ea; subst a.
        assert (R : raw_fields pkg fuel 0 [] (parse_new_comment (fd_doc fd)) [(short_name (fd_ty fd), fd_ty fd, true)] = Some l).
        { rewrite raw_fields_cons, Er. cbn [raw_fields raw_fields_with]. rewrite app_nil_r. reflexivity. }
        assert (EN1 : emb_named [(short_name (fd_ty fd), fd_ty fd, true)]).
        { intros nm ft [Hi|[]]. inversion Hi; subst. reflexivity. }
        destruct (raw_fields_emb_level _ _ _ _ _ _ _ e R EN1 He Hemb) as [n [o [A [B C]]]].
        simpl in A. subst n. exists o. split; auto. rewrite level_fields_app. apply in_or_app. left. exact B.
      * destruct (raw_names_facts _ _ _ _ _ _ Ea He) as [_ [_ [Hne _]]]. congruence.
    + destruct (IH b e eq_refl He Hemb) as [o [A B]]. exists o. split; auto.
      rewrite level_fields_app. apply in_or_app. right. exact A.
Qed.

(* ------------------------------------------------------------ views *)
Lemma find_ventry_put_other : forall v e n, n <> ve_name e -> find_ventry (view_put v e) n = find_ventry v n.
Proof.
  intros v e n Hne. induction v as [|x r IH]; simpl.
  - destruct (String.eqb (ve_name e) n) eqn:E; auto. apply String.eqb_eq in E. congruence.
  - destruct (String.eqb (ve_name x) (ve_name e)) eqn:E; simpl.
    + apply String.eqb_eq in E. destruct (String.eqb (ve_name e) n) eqn:E2; [apply String.eqb_eq in E2; congruence|].
      rewrite E, E2. reflexivity.
    + destruct (String.eqb (ve_name x) n); auto.
Qed.

Lemma iface_methods_put : forall v e getter fuel n args,
  iface_avoids v fuel getter (ve_name e) n = true ->
  iface_methods (view_put v e) fuel getter n args = iface_methods v fuel getter n args.
Proof.
  intros v e getter fuel. induction fuel as [|fuel IH]; intros n args H; [reflexivity|].
  cbn [iface_avoids] in H. apply andb_true_iff in H. destruct H as [Hne H]. apply negb_true_iff in Hne.
  apply String.eqb_neq in Hne. cbn [iface_methods]. rewrite (find_ventry_put_other v e n Hne).
  destruct (find_ventry v n) as [ve|]; [|reflexivity].
  destruct (iface_declared getter (ve_data ve)); [|reflexivity]. f_equal.
  rewrite forallb_forall in H. apply flat_map_ext_in. intros ia Hia. apply IH. apply H. exact Hia.
Qed.

Lemma own_methods_put : forall v e si,
  (String.eqb (sd_pkg (fst si)) "" && String.eqb (sd_name (fst si)) (ve_name e) = false)%bool ->
  own_methods (view_put v e) si = own_methods v si.
Proof.
  intros v e [sd args] H. unfold own_methods. cbn [fst] in H.
  destruct (String.eqb (sd_pkg sd) ""); [|reflexivity]. cbn [andb] in H. apply String.eqb_neq in H.
  rewrite find_ventry_put_other by exact H. reflexivity.
Qed.

(* sig_eqb is an equivalence on (name, kind, printed type) *)
Lemma sig_eqb_trans : forall a b c, sig_eqb a b = true -> sig_eqb b c = true -> sig_eqb a c = true.
Proof.
  intros a b c H1 H2. unfold sig_eqb in *.
  apply andb_true_iff in H1. destruct H1 as [H1 T1]. apply andb_true_iff in H1. destruct H1 as [N1 K1].
  apply andb_true_iff in H2. destruct H2 as [H2 T2]. apply andb_true_iff in H2. destruct H2 as [N2 K2].
  apply String.eqb_eq in N1, N2, T1, T2. rewrite N1, N2, T1, T2, !String.eqb_refl.
  destruct (gm_kind a), (gm_kind b), (gm_kind c); simpl in *; auto; discriminate.
Qed.

Lemma sig_eqb_refl : forall a, sig_eqb a a = true.
Proof. intros a. unfold sig_eqb. rewrite !String.eqb_refl. destruct (gm_kind a); reflexivity. Qed.

Lemma sig_eqb_name : forall a b, sig_eqb a b = true -> gm_name a = gm_name b.
Proof.
  intros a b H. unfold sig_eqb in H. apply andb_true_iff in H. destruct H as [H _].
  apply andb_true_iff in H. destruct H as [H _]. apply String.eqb_eq. exact H.
Qed.

(* ------------------------------------------------------------ the theorem *)
Lemma in_struct_occs : forall pkg fuel sd o si,
  In o (all_occ pkg fuel (self_inst sd)) -> occ_emb o = true -> struct_of pkg (occ_ty o) = Some si ->
  In (fst o, si) (struct_occs pkg fuel sd).
Proof.
  intros pkg fuel sd o si Ho Hemb Hs. unfold struct_occs. right. apply in_flat_map. exists o. split; auto.
  rewrite Hemb, Hs. left. reflexivity.
Qed.

Theorem pointer_receiver_satisfies : forall pkg v fl fuel sd fields d nd getter,
  getset_of pkg v fl fuel sd = COk (fields, d, nd) ->
  c03_guard pkg fl fuel sd = true -> sd_pkg sd = ""%string ->
  let v' := view_put v (ventry_of sd nd d) in
  accessors_visible pkg v' fuel sd = true ->
  not_self_embedded pkg fuel sd = true -> ifaces_avoid v fuel sd d = true ->
  implements pkg v' (S fuel) (self_inst sd)
             (iface_methods v' (S fuel) getter (sd_name sd) (map TParam (ve_tparams (ventry_of sd nd d)))) = true.
Proof.
  intros pkg v fl fuel sd fields d nd getter H G Hpkg v' VIS NSE AV.
  pose proof (interface_method_set pkg v fl fuel sd fields d nd getter fuel H G) as IMS. cbn zeta in IMS.
  fold v' in IMS. rewrite IMS. clear IMS.
  destruct (c03_guard_parts _ _ _ _ G) as [G2 _].
  destruct (c02_guard_parts _ _ _ G2) as [GB [GW [GU [GN [_ [_ [GX _]]]]]]].
  destruct (accessor_table _ _ _ _ _ _ _ _ H G) as [T1 T2].
  destruct (embedded_interfaces _ _ _ _ _ _ _ _ H) as [AG AS].
  unfold accessors_visible in VIS. rewrite forallb_forall in VIS.
  (* every accessor of a struct of the closure is selected on *T *)
  assert (SEL : forall p si m, In (p, si) (struct_occs pkg fuel sd) -> In m (own_methods v' si) ->
                exists pm, find_method pkg v' (S fuel) (self_inst sd) (gm_name m) = Some pm /\ sig_eqb m (snd pm) = true).
  { intros p si m Hps Hm. specialize (VIS _ Hps). rewrite forallb_forall in VIS. specialize (VIS m Hm).
    destruct (find_method pkg v' (S fuel) (self_inst sd) (gm_name m)) as [pm|]; [|discriminate]. eauto. }
  destruct (iface_declared getter d); [|reflexivity].
  unfold implements. apply forallb_forall. intros m Hm. apply in_app_or in Hm. destruct Hm as [Hm|Hm].
  - (* a method of an embedded interface *)
    apply in_flat_map in Hm. destruct Hm as [ia [Hia Hm]].
    assert (Adm : admitted pkg v fuel fields getter ia) by (destruct getter; [apply AG|apply AS]; exact Hia).
    assert (Av : iface_avoids v fuel getter (sd_name sd) (fst ia) = true).
    { unfold ifaces_avoid in AV. apply andb_true_iff in AV. destruct AV as [A1 A2].
      rewrite forallb_forall in A1, A2. destruct getter; [apply A1|apply A2]; exact Hia. }
    unfold v' in Hm. rewrite (iface_methods_put v (ventry_of sd nd d) getter fuel (fst ia) (snd ia) Av) in Hm.
    destruct Adm as [f [ve [si_e [Hf [Femb [Fname [Fargs [Fs [Ff [Flen Fimp]]]]]]]]]].
    rewrite (find_iface_name _ _ _ _ Ff) in Fimp.
    unfold implements in Fimp. rewrite forallb_forall in Fimp. specialize (Fimp m Hm).
    destruct (find_method pkg v fuel si_e (gm_name m)) as [pm'|] eqn:FM; [|discriminate].
    (* pm' is an accessor of a struct of E's closure *)
    destruct (find_method_from_in _ _ _ _ _ _ _ FM) as [j [Hj [MC _]]].
    assert (Hpm : In pm' (methods_at pkg v j si_e [])).
    { assert (In pm' (method_candidates pkg v j si_e (gm_name m))) by (rewrite MC; left; reflexivity).
      unfold method_candidates in H0. apply filter_In in H0. tauto. }
    (* the embedded entry f is an occurrence of T's closure *)
    unfold getset_of in H. destruct (flatten pkg fl fuel sd) as [[fs hn]| |] eqn:EF; try discriminate.
    inversion H; subst fields. clear H.
    destruct (flatten_is_marked_raw _ _ _ _ _ _ EF) as [raw [Hraw [Hfs _]]]. subst fs.
    destruct (in_mark _ _ Hf) as [f0 [Hf0 Ef]].
    assert (Femb0 : f_embedded f0 = true) by (rewrite Ef, mark_with_embedded in Femb; exact Femb).
    destruct (raw_top_emb_level _ _ _ _ _ _ Hraw Hf0 Femb0) as [oe [Hoe [Ope [Ote Oee]]]].
    fold (top_tfields sd) in Hoe. rewrite <- struct_fields_self, <- level_is_fields in Hoe.
    assert (Ote' : struct_of pkg (occ_ty oe) = Some si_e).
    { rewrite Ote. rewrite Ef, mark_with_ty in Fs. exact Fs. }
    assert (Target : exists p si, In (p, si) (struct_occs pkg fuel sd) /\ In (snd pm') (own_methods v si) /\
                                  (String.eqb (sd_pkg (fst si)) "" && String.eqb (sd_name (fst si)) (sd_name sd) = false)%bool).
    { unfold not_self_embedded in NSE. rewrite forallb_forall in NSE.
      destruct (methods_at_occ _ _ _ _ _ _ Hpm) as [[Ej [Ep Hown]]|[k [o' [si' [Ej [Ho' [Hemb' [Hs' [Ep Hown]]]]]]]]].
      - assert (Hocc : In oe (all_occ pkg fuel (self_inst sd))).
        { eapply in_all_occ; [|exact Hoe]. eapply depth_lt_fuel; eauto. }
        exists (fst oe), si_e. split; [eapply in_struct_occs; eauto|]. split; auto.
        specialize (NSE oe Hocc). rewrite Oee, Ote' in NSE. destruct si_e as [sde ae]. cbn [fst].
        apply negb_true_iff in NSE. exact NSE.
      - pose proof (level_compose pkg k si_e o' (f_depth f0) (self_inst sd) [] oe Hoe Oee Ote' Ho') as Hc.
        assert (Hocc : In (fst oe ++ fst o', snd o') (all_occ pkg fuel (self_inst sd))).
        { eapply in_all_occ; [|exact Hc]. eapply depth_lt_fuel; eauto. }
        exists (fst oe ++ fst o'), si'. split.
        + eapply (in_struct_occs pkg fuel sd (fst oe ++ fst o', snd o')); eauto.
        + split; auto. specialize (NSE _ Hocc). unfold occ_emb, occ_ty in *. cbn [snd fst] in NSE.
          rewrite Hemb', Hs' in NSE. destruct si' as [sd' a']. cbn [fst]. apply negb_true_iff in NSE. exact NSE. }
    destruct Target as [p [si [Hocc [Hown Hns]]]].
    assert (Hown' : In (snd pm') (own_methods v' si)).
    { unfold v'. rewrite own_methods_put; auto. }
    destruct (SEL p si (snd pm') Hocc Hown') as [pm [Fpm Spm]].
    rewrite (sig_eqb_name _ _ Fimp), Fpm. eapply sig_eqb_trans; eauto.
  - (* an explicit method: one of T's own accessors *)
    apply in_map_iff in Hm. destruct Hm as [a [Em Ha]]. subst m.
    assert (Hown : In (own_method getter a) (own_methods v' (self_inst sd))).
    { unfold own_methods, self_inst. rewrite Hpkg. cbn [String.eqb].
      unfold v'. replace (sd_name sd) with (ve_name (ventry_of sd nd d)) by reflexivity.
      rewrite find_ventry_put. cbn [ve_data ventry_of]. rewrite T1, T2.
      apply in_or_app. destruct getter; [left|right]; apply in_map_iff; exists a; split; auto; apply acc_method_self. }
    destruct (SEL [] (self_inst sd) _ (or_introl eq_refl) Hown) as [pm [Fpm Spm]].
    rewrite Fpm. exact Spm.
Qed.
