(* Proofs about Model/CtorGetSet.v (shoot new -getset), part 3:  *T satisfies <T>Getter / <T>Setter.

   Every method of the complete method set of the interface shoot declares for T is in the method set of
   *T with the same signature.  The explicit methods are T's own accessors.  An embedded interface
   <E>Getter[args] was admitted only because *E implements it in the package view (the analysis checks
   that, AssignableToIface); E is an embedded struct of T, so the accessor that answers on *E is an
   accessor of a struct of T's embedding closure, hence -- by the visibility guard -- selected on *T too. *)
From Coq Require Import String Ascii List Bool Arith Lia.
From Shoot Require Import Base.Str Base.GoVal Model.Transfer Model.CtorDirective Model.Ctor Model.CtorSpec Model.CtorGetSet.
From Shoot Require Import Proofs.GoValProofs Proofs.CtorFlattenProofs Proofs.CtorResolveProofs Proofs.CtorNewProofs
                          Proofs.CtorC02Proofs Proofs.CtorOrderProofs Proofs.CtorOptProofs Proofs.CtorGetSetProofs
                          Proofs.CtorGetSetSemProofs.
Import ListNotations.
Local Open Scope list_scope.

(* ------------------------------------------------------------ levels compose *)
Lemma map_flat_map : forall A B C (f : B -> C) (g : A -> list B) l,
  map f (flat_map g l) = flat_map (fun x => map f (g x)) l.
Proof. intros. induction l as [|x r IH]; simpl; auto. rewrite map_app, IH. reflexivity. Qed.

Lemma level_prefix : forall pkg n si pre,
  level pkg n si pre = map (fun o => (pre ++ fst o, snd o)) (level pkg n si []).
Proof.
  intros pkg n. induction n as [|n IH]; intros si pre; simpl.
  - rewrite map_map. apply map_ext. intros tf. reflexivity.
  - rewrite map_flat_map. apply flat_map_ext. intros [[nm ft] emb]. destruct emb; [|reflexivity].
    destruct (struct_of pkg ft) as [si'|]; [|reflexivity].
    rewrite (IH si' (pre ++ [nm])), (IH si' [nm]), map_map. apply map_ext. intros o. cbn [fst snd].
    rewrite <- app_assoc. reflexivity.
Qed.

Lemma level_compose : forall pkg b si_e o' a si pre o_e,
  In o_e (level pkg a si pre) -> occ_emb o_e = true -> struct_of pkg (occ_ty o_e) = Some si_e ->
  In o' (level pkg b si_e []) ->
  In (fst o_e ++ fst o', snd o') (level pkg (a + 1 + b) si pre).
Proof.
  intros pkg b si_e o' a. induction a as [|a IH]; intros si pre o_e Hin Hemb Hs Ho'.
  - cbn [level] in Hin. apply in_map_iff in Hin. destruct Hin as [[[nm ft] emb] [E Htf]]. subst o_e.
    unfold occ_emb, occ_ty in *. cbn [fst snd] in *. subst emb.
    replace (0 + 1 + b) with (S b) by lia. cbn [level]. apply in_flat_map. exists (nm, ft, true). split; auto.
    rewrite Hs. rewrite level_prefix. apply in_map_iff. exists o'. split; auto.
  - cbn [level] in Hin. apply in_flat_map in Hin. destruct Hin as [[[nm ft] emb] [Htf Hin]].
    destruct emb; [|destruct Hin]. destruct (struct_of pkg ft) as [si1|] eqn:E1; [|destruct Hin].
    replace (S a + 1 + b) with (S (a + 1 + b)) by lia. cbn [level]. apply in_flat_map.
    exists (nm, ft, true). split; auto. rewrite E1. apply IH; auto.
Qed.

(* ------------------------------------------- methods at a depth belong to occurrences *)
Lemma methods_at_occ : forall pkg v n si pre pm,
  In pm (methods_at pkg v n si pre) ->
  (n = 0 /\ fst pm = pre /\ In (snd pm) (own_methods v si)) \/
  (exists k o si', n = S k /\ In o (level pkg k si pre) /\ occ_emb o = true /\
                   struct_of pkg (occ_ty o) = Some si' /\ fst pm = fst o /\ In (snd pm) (own_methods v si')).
Proof.
  intros pkg v n. induction n as [|n IH]; intros si pre pm H.
  - left. cbn [methods_at] in H. apply in_map_iff in H. destruct H as [m [E Hm]]. subst pm. auto.
  - right. cbn [methods_at] in H. apply in_flat_map in H. destruct H as [[[nm ft] emb] [Htf H]].
    destruct emb; [|destruct H]. destruct (struct_of pkg ft) as [si1|] eqn:E1; [|destruct H].
    destruct (IH si1 (pre ++ [nm]) pm H) as [[En [Ep Hm]]|[k [o [si' [En [Ho [Hemb [Hs [Ep Hm]]]]]]]]].
    + subst n. exists 0, (pre ++ [nm], (nm, ft, true)), si1. repeat split; auto.
      cbn [level]. apply in_map_iff. exists (nm, ft, true). auto.
    + subst n. exists (S k), o, si'. repeat split; auto.
      cbn [level]. apply in_flat_map. exists (nm, ft, true). split; auto. rewrite E1. exact Ho.
Qed.

(* ----------------------------------- embedded entries of the flattened list are occurrences *)
Lemma raw_fields_emb_level : forall pkg fuel depth pre is_new fs l e,
  raw_fields pkg fuel depth pre is_new fs = Some l -> emb_named fs ->
  In e l -> f_embedded e = true ->
  exists n o, f_depth e = depth + n /\ In o (level_fields pkg n fs pre) /\ fst o = f_path e /\
              occ_ty o = f_ty e /\ occ_emb o = true.
Proof.
  intros pkg fuel. induction fuel as [|fuel IHf]; intros depth pre is_new fs.
  - induction fs as [|[[nm ft] emb] fs IH]; intros l e H EN He Hemb.
    + inversion H; subst. destruct He.
    + rewrite raw_fields_cons in H. assert (ENt := emb_named_tail _ _ EN). destruct emb.
      * rewrite raw_type_unfold in H. destruct (struct_of pkg ft); [discriminate|].
        destruct (raw_fields pkg 0 depth pre is_new fs) as [b|] eqn:Eb; [|discriminate].
        inversion H; subst l. cbn [app] in He.
        destruct (IH b e eq_refl ENt He Hemb) as [n [o [A [B C]]]]. exists n, o. split; auto. split; auto.
        rewrite level_fields_cons. apply in_or_app. right. exact B.
      * destruct (raw_fields pkg 0 depth pre is_new fs) as [b|] eqn:Eb; [|discriminate].
        inversion H; subst l. destruct He as [He|He]; [subst e; discriminate|].
        destruct (IH b e eq_refl ENt He Hemb) as [n [o [A [B C]]]]. exists n, o. split; auto. split; auto.
        rewrite level_fields_cons. apply in_or_app. right. exact B.
  - induction fs as [|[[nm ft] emb] fs IH]; intros l e H EN He Hemb.
    + inversion H; subst. destruct He.
    + rewrite raw_fields_cons in H. assert (ENt := emb_named_tail _ _ EN). destruct emb.
      * assert (Hnm : nm = short_name ft) by (apply EN; left; reflexivity).
        destruct (raw_type pkg (S fuel) depth pre ft is_new) as [a|] eqn:Ea; [|discriminate].
        destruct (raw_fields pkg (S fuel) depth pre is_new fs) as [b|] eqn:Eb; [|discriminate].
        inversion H; subst l. apply in_app_or in He. destruct He as [He|He].
        -- rewrite raw_type_unfold in Ea. destruct (struct_of pkg ft) as [si|] eqn:Es; [|inversion Ea; subst; destruct He].
           destruct (raw_fields pkg fuel (S depth) (f_path (embedded_entry ft depth pre)) is_new (struct_fields si)) as [l'|] eqn:El;
             [|discriminate].
           inversion Ea; subst a. destruct He as [He|He].
           ++ subst e. exists 0, (pre ++ [nm], (nm, ft, true)).
              rewrite embedded_entry_depth, embedded_entry_path, embedded_entry_ty. subst nm.
              repeat split; auto; try lia. cbn [level_fields map]. left. reflexivity.
           ++ rewrite embedded_entry_path in El.
              destruct (IHf (S depth) (pre ++ [short_name ft]) is_new (struct_fields si) l' e El
                            (struct_fields_emb_named si) He Hemb) as [n [o [A [B C]]]].
              exists (S n), o. split; [lia|]. split; auto.
              rewrite level_fields_cons. apply in_or_app. left. cbn [level_fields flat_map]. rewrite Es, app_nil_r.
              subst nm. exact B.
        -- destruct (IH b e eq_refl ENt He Hemb) as [n [o [A [B C]]]]. exists n, o. split; auto. split; auto.
           rewrite level_fields_cons. apply in_or_app. right. exact B.
      * destruct (raw_fields pkg (S fuel) depth pre is_new fs) as [b|] eqn:Eb; [|discriminate].
        inversion H; subst l. destruct He as [He|He]; [subst e; discriminate|].
        destruct (IH b e eq_refl ENt He Hemb) as [n [o [A [B C]]]]. exists n, o. split; auto. split; auto.
        rewrite level_fields_cons. apply in_or_app. right. exact B.
Qed.

Lemma raw_top_emb_level : forall pkg fl fuel fds raw e,
  raw_top pkg fl fuel fds = COk raw -> In e raw -> f_embedded e = true ->
  exists o, In o (level_fields pkg (f_depth e) (flat_map tfields_of_decl fds) []) /\ fst o = f_path e /\
            occ_ty o = f_ty e /\ occ_emb o = true.
Proof.
  intros pkg fl fuel fds. induction fds as [|fd fds IH]; intros raw e H He Hemb; simpl in H.
  - inversion H; subst. destruct He.
  - destruct (raw_decl pkg fl fuel fd) as [a| |] eqn:Ea; try discriminate.
    destruct (raw_top pkg fl fuel fds) as [b| |] eqn:Eb; try discriminate.
    inversion H; subst raw. cbn [flat_map]. apply in_app_or in He. destruct He as [He|He].
    + unfold raw_decl in Ea. unfold tfields_of_decl at 1. destruct (fd_names fd) as [|x names] eqn:EN.
      * destruct (raw_type pkg fuel 0 [] (fd_ty fd) (parse_new_comment (fd_doc fd))) as [l|] eqn:Er; [|discriminate].
        inversion Ea; subst a.
        assert (R : raw_fields pkg fuel 0 [] (parse_new_comment (fd_doc fd)) [(short_name (fd_ty fd), fd_ty fd, true)] = Some l).
        { rewrite raw_fields_cons, Er. cbn [raw_fields raw_fields_with]. rewrite app_nil_r. reflexivity. }
        assert (EN1 : emb_named [(short_name (fd_ty fd), fd_ty fd, true)]).
        { intros nm ft [Hi|[]]. inversion Hi; subst. reflexivity. }
        destruct (raw_fields_emb_level _ _ _ _ _ _ _ e R EN1 He Hemb) as [n [o [A [B C]]]].
        simpl in A. subst n. exists o. split; auto. rewrite level_fields_app. apply in_or_app. left. exact B.
      * destruct (raw_names_facts _ _ _ _ _ _ Ea He) as [_ [_ [Hne _]]]. congruence.
    + destruct (IH b e eq_refl He Hemb) as [o [A B]]. exists o. split; auto.
      rewrite level_fields_app. apply in_or_app. right. exact A.
Qed.

(* ------------------------------------------------------------ views *)
Lemma find_ventry_put_other : forall v e n, n <> ve_name e -> find_ventry (view_put v e) n = find_ventry v n.
Proof.
  intros v e n Hne. induction v as [|x r IH]; simpl.
  - destruct (String.eqb (ve_name e) n) eqn:E; auto. apply String.eqb_eq in E. congruence.
  - destruct (String.eqb (ve_name x) (ve_name e)) eqn:E; simpl.
    + apply String.eqb_eq in E. destruct (String.eqb (ve_name e) n) eqn:E2; [apply String.eqb_eq in E2; congruence|].
      rewrite E, E2. reflexivity.
    + destruct (String.eqb (ve_name x) n); auto.
Qed.

(* an interface whose nesting is bounded and avoids t looks the same after t's file is loaded, at every fuel *)
Lemma iface_methods_put : forall v e getter k n args k',
  iface_ok v k getter (ve_name e) n = true ->
  iface_methods (view_put v e) k' getter n args = iface_methods v k' getter n args.
Proof.
  intros v e getter k. induction k as [|k IH]; intros n args k' H; [discriminate|].
  cbn [iface_ok] in H. apply andb_true_iff in H. destruct H as [Hne H]. apply negb_true_iff in Hne.
  apply String.eqb_neq in Hne. destruct k' as [|k']; [reflexivity|].
  cbn [iface_methods]. rewrite (find_ventry_put_other v e n Hne).
  destruct (find_ventry v n) as [ve|]; [|reflexivity].
  destruct (iface_declared getter (ve_data ve)); [|reflexivity]. f_equal.
  rewrite forallb_forall in H. apply flat_map_ext_in. intros ia Hia. apply IH. apply H. exact Hia.
Qed.

(* ... and its complete method set does not depend on the fuel once the fuel covers the nesting *)
Lemma iface_methods_stable : forall v getter t k n args k1 k2,
  iface_ok v k getter t n = true -> k <= k1 -> k <= k2 ->
  iface_methods v k1 getter n args = iface_methods v k2 getter n args.
Proof.
  intros v getter t k. induction k as [|k IH]; intros n args k1 k2 H L1 L2; [discriminate|].
  cbn [iface_ok] in H. apply andb_true_iff in H. destruct H as [_ H].
  destruct k1 as [|k1]; [lia|]. destruct k2 as [|k2]; [lia|].
  cbn [iface_methods]. destruct (find_ventry v n) as [ve|]; [|reflexivity].
  destruct (iface_declared getter (ve_data ve)); [|reflexivity]. f_equal.
  rewrite forallb_forall in H. apply flat_map_ext_in. intros ia Hia. apply (IH (fst ia)); [apply H; exact Hia|lia|lia].
Qed.

Lemma own_methods_put : forall v e si,
  (String.eqb (sd_pkg (fst si)) "" && String.eqb (sd_name (fst si)) (ve_name e) = false)%bool ->
  own_methods (view_put v e) si = own_methods v si.
Proof.
  intros v e [sd args] H. unfold own_methods. cbn [fst] in H.
  destruct (String.eqb (sd_pkg sd) ""); [|reflexivity]. cbn [andb] in H. apply String.eqb_neq in H.
  rewrite find_ventry_put_other by exact H. reflexivity.
Qed.

(* sig_eqb is an equivalence on (name, kind, printed type) *)
Lemma sig_eqb_trans : forall a b c, sig_eqb a b = true -> sig_eqb b c = true -> sig_eqb a c = true.
Proof.
  intros a b c H1 H2. unfold sig_eqb in *.
  apply andb_true_iff in H1. destruct H1 as [H1 T1]. apply andb_true_iff in H1. destruct H1 as [N1 K1].
  apply andb_true_iff in H2. destruct H2 as [H2 T2]. apply andb_true_iff in H2. destruct H2 as [N2 K2].
  apply String.eqb_eq in N1, N2, T1, T2. rewrite N1, N2, T1, T2, !String.eqb_refl.
  destruct (gm_kind a), (gm_kind b), (gm_kind c); simpl in *; auto; discriminate.
Qed.

Lemma sig_eqb_refl : forall a, sig_eqb a a = true.
Proof. intros a. unfold sig_eqb. rewrite !String.eqb_refl. destruct (gm_kind a); reflexivity. Qed.

Lemma sig_eqb_name : forall a b, sig_eqb a b = true -> gm_name a = gm_name b.
Proof.
  intros a b H. unfold sig_eqb in H. apply andb_true_iff in H. destruct H as [H _].
  apply andb_true_iff in H. destruct H as [H _]. apply String.eqb_eq. exact H.
Qed.

(* -------------------------------- unique accessor names => every accessor is visible on *T *)
Definition emb_methods (pkg : pkg_spec) (v : view) (o : path * tfield) : list (path * gs_method) :=
  if occ_emb o then match struct_of pkg (occ_ty o) with
                    | Some si => map (fun m => (fst o, m)) (own_methods v si)
                    | None => [] end
  else [].

Lemma flat_map_flat_map : forall A B C (f : B -> list C) (g : A -> list B) l,
  flat_map f (flat_map g l) = flat_map (fun x => flat_map f (g x)) l.
Proof. intros. induction l as [|x r IH]; simpl; auto. rewrite flat_map_app, IH. reflexivity. Qed.

Lemma flat_map_map : forall A B C (f : B -> list C) (g : A -> B) l,
  flat_map f (map g l) = flat_map (fun x => f (g x)) l.
Proof. intros. induction l as [|x r IH]; simpl; auto. rewrite IH. reflexivity. Qed.

Lemma methods_at_level : forall pkg v n si pre,
  methods_at pkg v (S n) si pre = flat_map (emb_methods pkg v) (level pkg n si pre).
Proof.
  intros pkg v n. induction n as [|n IH]; intros si pre.
  - cbn [methods_at level]. rewrite flat_map_map.
    apply flat_map_ext. intros [[nm ft] emb]. unfold emb_methods, occ_emb, occ_ty. cbn [snd fst].
    destruct emb; [|reflexivity]. destruct (struct_of pkg ft); reflexivity.
  - change (methods_at pkg v (S (S n)) si pre) with
      (flat_map (fun tf : tfield => let '(nm, ft, emb) := tf in
         if emb then match struct_of pkg ft with
                     | Some si' => methods_at pkg v (S n) si' (pre ++ [nm])
                     | None => [] end else []) (struct_fields si)).
    cbn [level]. rewrite flat_map_flat_map. apply flat_map_ext. intros [[nm ft] emb].
    destruct emb; [|reflexivity]. destruct (struct_of pkg ft) as [si'|]; [|reflexivity]. apply IH.
Qed.

Fixpoint sum_list (l : list nat) : nat := match l with [] => 0 | x :: r => x + sum_list r end.

Lemma filter_flat_map_length : forall A B (p : B -> bool) (f : A -> list B) l,
  length (filter p (flat_map f l)) = sum_list (map (fun x => length (filter p (f x))) l).
Proof.
  intros. induction l as [|x r IH]; simpl; auto. rewrite filter_app, app_length, IH. reflexivity.
Qed.

Lemma sum_one : forall (f : nat -> nat) l j0,
  NoDup l -> In j0 l -> sum_list (map f l) = 1 -> 1 <= f j0 ->
  f j0 = 1 /\ forall j, In j l -> j <> j0 -> f j = 0.
Proof.
  intros f l j0. induction l as [|x r IH]; intros ND Hin S1 Hj; [destruct Hin|].
  inversion ND; subst. simpl in S1. destruct Hin as [Hin|Hin].
  - subst x. split; [lia|]. intros j [Hj'|Hj'] Hne; [congruence|].
    assert (sum_list (map f r) = 0) by lia.
    clear - H Hj'. induction r as [|y r IHr]; [destruct Hj'|]. simpl in H. destruct Hj' as [->|Hj']; [lia|apply IHr; auto; lia].
  - assert (Hx : x <> j0) by (intros ->; contradiction).
    assert (1 <= sum_list (map f r)).
    { clear - Hin Hj. induction r as [|y r IHr]; [destruct Hin|]. simpl. destruct Hin as [->|Hin]; [lia|]. specialize (IHr Hin). lia. }
    assert (f x = 0) by lia. assert (S' : sum_list (map f r) = 1) by lia.
    destruct (IH H2 Hin S' Hj) as [I1 I2]. split; auto.
    intros j [Hj'|Hj'] Hne; [subst; auto|apply I2; auto].
Qed.

(* all accessor methods of the closure, depth by depth *)
Definition all_methods (pkg : pkg_spec) (v : view) (fuel : nat) (sd : sdecl) : list (path * gs_method) :=
  flat_map (fun j => methods_at pkg v j (self_inst sd) []) (seq 0 (S fuel)).

Lemma all_methods_names : forall pkg v fuel sd,
  map (fun pm : path * gs_method => gm_name (snd pm)) (all_methods pkg v fuel sd) =
  flat_map (fun ps : path * sinst => map gm_name (own_methods v (snd ps))) (struct_occs pkg fuel sd).
Proof.
  intros pkg v fuel sd. unfold all_methods, struct_occs.
  change (seq 0 (S fuel)) with (0 :: seq 1 fuel). rewrite <- seq_shift. cbn [flat_map].
  rewrite map_app. f_equal.
  - cbn [methods_at]. rewrite map_map. reflexivity.
  - rewrite flat_map_map, map_flat_map. unfold all_occ. rewrite flat_map_flat_map, flat_map_flat_map.
    apply flat_map_ext. intros j.
    rewrite methods_at_level, map_flat_map. apply flat_map_ext. intros o.
    unfold emb_methods. destruct (occ_emb o); [|reflexivity].
    destruct (struct_of pkg (occ_ty o)); [|reflexivity]. cbn [flat_map snd]. rewrite app_nil_r, map_map. reflexivity.
Qed.

Lemma count_str_app : forall x a b, count_str x (a ++ b) = count_str x a + count_str x b.
Proof. intros. unfold count_str. rewrite filter_app, app_length. reflexivity. Qed.

Lemma find_method_from_found : forall pkg v si m k d j0 pm,
  d <= j0 -> j0 < d + k ->
  (forall i, d <= i <= j0 -> candidates pkg i si m = []) ->
  (forall i, d <= i < j0 -> method_candidates pkg v i si m = []) ->
  method_candidates pkg v j0 si m = [pm] ->
  find_method_from pkg v si m d k = Some pm.
Proof.
  intros pkg v si m k. induction k as [|k IH]; intros d j0 pm L1 L2 C M MC; [lia|].
  cbn [find_method_from]. rewrite (C d) by lia.
  destruct (Nat.eq_dec d j0) as [->|Hne].
  - rewrite MC. reflexivity.
  - rewrite (M d) by lia. apply (IH (S d) j0 pm); try lia; auto.
    + intros i Hi. apply C. lia.
    + intros i Hi. apply M. lia.
Qed.

Lemma level_emb_named : forall pkg n si pre o,
  In o (level pkg n si pre) -> occ_emb o = true -> occ_name o = short_name (occ_ty o).
Proof.
  intros pkg n. induction n as [|n IH]; intros si pre o H E; simpl in H.
  - apply in_map_iff in H. destruct H as [[[nm ft] emb] [Eo Htf]]. subst o.
    unfold occ_emb, occ_name, occ_ty in *. cbn [snd fst] in *. subst emb.
    apply (struct_fields_emb_named si). exact Htf.
  - apply in_flat_map in H. destruct H as [[[nm ft] emb] [_ H]]. destruct emb; [|destruct H].
    destruct (struct_of pkg ft); [|destruct H]. eapply IH; eauto.
Qed.

Theorem unique_names_visible : forall pkg v fuel sd,
  depth_bounded pkg fuel sd = true ->
  accessor_names_unique pkg v fuel sd = true -> accessors_visible pkg v fuel sd = true.
Proof.
  intros pkg v fuel sd GB U. unfold accessors_visible, accessor_names_unique in *.
  rewrite forallb_forall in *. intros [p si] Hps. specialize (U _ Hps). rewrite forallb_forall in *.
  intros m Hm. specialize (U m Hm). apply Nat.eqb_eq in U. cbn [snd] in *.
  set (name := gm_name m) in *.
  unfold member_names in U. rewrite count_str_app in U.
  rewrite <- all_methods_names in U.
  (* the depth of the declaring struct *)
  assert (Depth : exists j0, j0 <= fuel /\ In (p, m) (methods_at pkg v j0 (self_inst sd) [])).
  { unfold struct_occs in Hps. destruct Hps as [Hps|Hps].
    - inversion Hps; subst p si. exists 0. split; [lia|]. cbn [methods_at]. apply in_map. exact Hm.
    - apply in_flat_map in Hps. destruct Hps as [o [Ho Hps]].
      destruct (occ_emb o) eqn:Eo; [|destruct Hps]. destruct (struct_of pkg (occ_ty o)) as [si'|] eqn:Es; [|destruct Hps].
      destruct Hps as [Hps|[]]. inversion Hps; subst p si'.
      unfold all_occ in Ho. apply in_flat_map in Ho. destruct Ho as [n [Hn Ho]]. apply in_seq in Hn.
      exists (S n). split; [lia|]. rewrite methods_at_level. apply in_flat_map. exists o. split; auto.
      unfold emb_methods. rewrite Eo, Es. apply in_map. exact Hm. }
  destruct Depth as [j0 [Lj0 Hin0]].
  set (pn := fun pm : path * gs_method => String.eqb name (gm_name (snd pm))).
  assert (CM : count_str name (map (fun pm : path * gs_method => gm_name (snd pm)) (all_methods pkg v fuel sd)) =
               sum_list (map (fun j => length (filter pn (methods_at pkg v j (self_inst sd) []))) (seq 0 (S fuel)))).
  { unfold count_str, all_methods. rewrite <- filter_flat_map_length.
    clear. induction (flat_map (fun j : nat => methods_at pkg v j (self_inst sd) []) (seq 0 (S fuel))) as [|x r IH]; simpl; auto.
    unfold pn at 1. destruct (String.eqb name (gm_name (snd x))); simpl; rewrite IH; reflexivity. }
  assert (Ge1 : 1 <= length (filter pn (methods_at pkg v j0 (self_inst sd) []))).
  { assert (In (p, m) (filter pn (methods_at pkg v j0 (self_inst sd) []))).
    { apply filter_In. split; auto. unfold pn, name. cbn [snd]. apply String.eqb_refl. }
    destruct (filter pn (methods_at pkg v j0 (self_inst sd) [])); [destruct H|simpl; lia]. }
  assert (In0 : In j0 (seq 0 (S fuel))) by (apply in_seq; lia).
  assert (Ge1' : 1 <= sum_list (map (fun j => length (filter pn (methods_at pkg v j (self_inst sd) []))) (seq 0 (S fuel)))).
  { clear - Ge1 In0. induction (seq 0 (S fuel)) as [|y r IHr]; [destruct In0|]. simpl. destruct In0 as [->|In0]; [lia|].
    specialize (IHr In0). lia. }
  rewrite CM in U.
  assert (F0 : count_str name (map occ_name (all_occ pkg fuel (self_inst sd))) = 0) by lia.
  assert (S1 : sum_list (map (fun j => length (filter pn (methods_at pkg v j (self_inst sd) []))) (seq 0 (S fuel))) = 1) by lia.
  destruct (sum_one (fun j => length (filter pn (methods_at pkg v j (self_inst sd) []))) (seq 0 (S fuel)) j0
                    (seq_NoDup (S fuel) 0) In0 S1 Ge1) as [One Zero].
  (* no field of the closure has the accessor's name *)
  assert (NoField : forall i, candidates pkg i (self_inst sd) name = []).
  { intros i. unfold candidates. apply filter_none. intros c Hc.
    destruct (Nat.lt_ge_cases i fuel) as [Hlt|Hge].
    - apply not_true_is_false. intros T.
      assert (In (occ_name c) (filter (String.eqb name) (map occ_name (all_occ pkg fuel (self_inst sd))))).
      { apply filter_In. split; [apply in_map; eapply in_all_occ; eauto|].
        unfold occ_name. rewrite String.eqb_sym. exact T. }
      unfold count_str in F0. destruct (filter (String.eqb name) (map occ_name (all_occ pkg fuel (self_inst sd)))); [destruct H|discriminate].
    - exfalso. pose proof (depth_lt_fuel _ _ _ _ _ GB Hc). lia. }
  (* the candidates at each depth *)
  assert (MCeq : forall j, method_candidates pkg v j (self_inst sd) name = filter pn (methods_at pkg v j (self_inst sd) [])).
  { intros j. unfold method_candidates. apply filter_ext. intros pm. unfold pn. apply String.eqb_sym. }
  assert (MC0 : method_candidates pkg v j0 (self_inst sd) name = [(p, m)]).
  { rewrite MCeq.
    assert (In (p, m) (filter pn (methods_at pkg v j0 (self_inst sd) []))).
    { apply filter_In. split; auto. unfold pn, name. cbn [snd]. apply String.eqb_refl. }
    destruct (filter pn (methods_at pkg v j0 (self_inst sd) [])) as [|x [|y r]]; simpl in One; try lia.
    destruct H as [H|[]]. subst x. reflexivity. }
  unfold find_method.
  rewrite (find_method_from_found pkg v (self_inst sd) name (S fuel) 0 j0 (p, m)); try lia; auto.
  - apply sig_eqb_refl.
  - intros i Hi. rewrite MCeq.
    assert (length (filter pn (methods_at pkg v i (self_inst sd) [])) = 0).
    { apply Zero; [apply in_seq; lia|lia]. }
    destruct (filter pn (methods_at pkg v i (self_inst sd) [])); [reflexivity|discriminate].
Qed.

(* the guards depend on the view only through the accessor methods it declares *)
Lemma methods_at_ext : forall pkg v1 v2, (forall si, own_methods v1 si = own_methods v2 si) ->
  forall n si pre, methods_at pkg v1 n si pre = methods_at pkg v2 n si pre.
Proof.
  intros pkg v1 v2 H n. induction n as [|n IH]; intros si pre; cbn [methods_at].
  - rewrite H. reflexivity.
  - apply flat_map_ext. intros [[nm ft] emb]. destruct emb; [|reflexivity].
    destruct (struct_of pkg ft); [|reflexivity]. apply IH.
Qed.

Lemma find_method_ext : forall pkg v1 v2, (forall si, own_methods v1 si = own_methods v2 si) ->
  forall fuel si m, find_method pkg v1 fuel si m = find_method pkg v2 fuel si m.
Proof.
  intros pkg v1 v2 H fuel si m. unfold find_method. generalize 0.
  induction fuel as [|fuel IH]; intros d; cbn [find_method_from]; [reflexivity|].
  unfold method_candidates. rewrite (methods_at_ext pkg v1 v2 H). rewrite IH. reflexivity.
Qed.

Lemma forallb_ext' : forall A (f g : A -> bool) l, (forall x, f x = g x) -> forallb f l = forallb g l.
Proof. intros A f g l H. induction l as [|x r IH]; simpl; auto. rewrite H, IH. reflexivity. Qed.

Lemma accessors_visible_ext : forall pkg v1 v2 fuel sd, (forall si, own_methods v1 si = own_methods v2 si) ->
  accessors_visible pkg v1 fuel sd = accessors_visible pkg v2 fuel sd.
Proof.
  intros pkg v1 v2 fuel sd H. unfold accessors_visible. apply forallb_ext'. intros ps.
  rewrite H. apply forallb_ext'. intros m. rewrite (find_method_ext pkg v1 v2 H). reflexivity.
Qed.

(* the struct's generated file declares exactly the accessor table: as far as methods go, loading it is loading
   the table *)
Lemma own_methods_spec_entry : forall pkg v fl fuel sd fields d nd,
  getset_of pkg v fl fuel sd = COk (fields, d, nd) -> c03_guard pkg fl fuel sd = true ->
  forall si, own_methods (view_put v (ventry_of sd nd d)) si = own_methods (view_put v (spec_entry fl sd)) si.
Proof.
  intros pkg v fl fuel sd fields d nd H G [sd' args].
  destruct (accessor_table _ _ _ _ _ _ _ _ H G) as [T1 T2].
  unfold own_methods. destruct (String.eqb (sd_pkg sd') ""); [|reflexivity].
  destruct (String.eqb (sd_name sd') (sd_name sd)) eqn:E.
  - apply String.eqb_eq in E. rewrite E.
    replace (sd_name sd) with (ve_name (ventry_of sd nd d)) at 1 by reflexivity. rewrite find_ventry_put.
    replace (sd_name sd) with (ve_name (spec_entry fl sd)) by reflexivity. rewrite find_ventry_put.
    cbn [ve_data ventry_of spec_entry gs_getters gs_setters]. rewrite T1, T2. reflexivity.
  - apply String.eqb_neq in E.
    rewrite (find_ventry_put_other v (ventry_of sd nd d)) by exact E.
    rewrite (find_ventry_put_other v (spec_entry fl sd)) by exact E. reflexivity.
Qed.

(* ------------------------------------------------------------ the theorem *)
Lemma in_struct_occs : forall pkg fuel sd o si,
  In o (all_occ pkg fuel (self_inst sd)) -> occ_emb o = true -> struct_of pkg (occ_ty o) = Some si ->
  In (fst o, si) (struct_occs pkg fuel sd).
Proof.
  intros pkg fuel sd o si Ho Hemb Hs. unfold struct_occs. right. apply in_flat_map. exists o. split; auto.
  rewrite Hemb, Hs. left. reflexivity.
Qed.

Theorem pointer_receiver_satisfies : forall pkg v fl fuel sd fields d nd getter k,
  getset_of pkg v fl fuel sd = COk (fields, d, nd) ->
  c03_guard pkg fl fuel sd = true -> sd_pkg sd = ""%string ->
  accessor_names_unique pkg (view_put v (spec_entry fl sd)) fuel sd = true ->
  not_self_embedded pkg fuel sd = true -> view_ok pkg v fuel sd = true ->
  S fuel <= k ->
  let v' := view_put v (ventry_of sd nd d) in
  implements pkg v' (S fuel) (self_inst sd)
             (iface_methods v' k getter (sd_name sd) (map TParam (ve_tparams (ventry_of sd nd d)))) = true.
Proof.
  intros pkg v fl fuel sd fields d nd getter k H G Hpkg UNI NSE VOK Lk v'.
  destruct k as [|k]; [lia|].
  pose proof (interface_method_set pkg v fl fuel sd fields d nd getter k H G) as IMS. cbn zeta in IMS.
  fold v' in IMS. rewrite IMS. clear IMS.
  destruct (c03_guard_parts _ _ _ _ G) as [G2 _].
  destruct (c02_guard_parts _ _ _ G2) as [GB [GW [GU [GN [_ [_ [GX _]]]]]]].
  destruct (accessor_table _ _ _ _ _ _ _ _ H G) as [T1 T2].
  destruct (embedded_interfaces _ _ _ _ _ _ _ _ H) as [AG AS].
  (* visibility, from the uniqueness of the accessor names of the input *)
  assert (VIS : accessors_visible pkg v' fuel sd = true).
  { unfold v'. rewrite (accessors_visible_ext pkg _ (view_put v (spec_entry fl sd)) fuel sd
                          (own_methods_spec_entry pkg v fl fuel sd fields d nd H G)).
    apply unique_names_visible; auto. }
  unfold accessors_visible in VIS. rewrite forallb_forall in VIS.
  assert (SEL : forall p si m, In (p, si) (struct_occs pkg fuel sd) -> In m (own_methods v' si) ->
                exists pm, find_method pkg v' (S fuel) (self_inst sd) (gm_name m) = Some pm /\ sig_eqb m (snd pm) = true).
  { intros p si m Hps Hm. specialize (VIS _ Hps). rewrite forallb_forall in VIS. specialize (VIS m Hm).
    destruct (find_method pkg v' (S fuel) (self_inst sd) (gm_name m)) as [pm|]; [|discriminate]. eauto. }
  destruct (iface_declared getter d); [|reflexivity].
  unfold implements. apply forallb_forall. intros m Hm. apply in_app_or in Hm. destruct Hm as [Hm|Hm].
  - (* a method of an embedded interface *)
    apply in_flat_map in Hm. destruct Hm as [ia [Hia Hm]].
    assert (Adm : admitted pkg v fuel fields getter ia) by (destruct getter; [apply AG|apply AS]; exact Hia).
    destruct Adm as [f [ve [si_e [Hf [Femb [Fname [Fargs [Fs [Ff [Flen Fimp]]]]]]]]]].
    rewrite (find_iface_name _ _ _ _ Ff) in Fimp.
    (* the embedded entry f is an occurrence of T's closure *)
    unfold getset_of in H. destruct (flatten pkg fl fuel sd) as [[fs hn]| |] eqn:EF; try discriminate.
    inversion H; subst fields. clear H.
    destruct (flatten_is_marked_raw _ _ _ _ _ _ EF) as [raw [Hraw [Hfs _]]]. subst fs.
    destruct (in_mark _ _ Hf) as [f0 [Hf0 Ef]].
    assert (Femb0 : f_embedded f0 = true) by (rewrite Ef, mark_with_embedded in Femb; exact Femb).
    destruct (raw_top_emb_level _ _ _ _ _ _ Hraw Hf0 Femb0) as [oe [Hoe [Ope [Ote Oee]]]].
    fold (top_tfields sd) in Hoe. rewrite <- struct_fields_self, <- level_is_fields in Hoe.
    assert (Ote' : struct_of pkg (occ_ty oe) = Some si_e).
    { rewrite Ote. rewrite Ef, mark_with_ty in Fs. exact Fs. }
    assert (Hocc_e : In oe (all_occ pkg fuel (self_inst sd))).
    { eapply in_all_occ; [|exact Hoe]. eapply depth_lt_fuel; eauto. }
    (* its interface is bounded and avoids T: it looks the same at every fuel, before and after T's file is loaded *)
    assert (Ename : occ_name oe = fst ia).
    { rewrite (level_emb_named _ _ _ _ _ Hoe Oee), Ote. rewrite <- Fname, Ef, mark_with_name.
      (* an embedded entry is named by its type *)
      clear - Hraw Hf0 Femb0.
      assert (Gen : forall fds raw0, raw_top pkg fl fuel fds = COk raw0 -> In f0 raw0 -> f_name f0 = short_name (f_ty f0)).
      { induction fds as [|fd fds IH]; intros raw0 H0 Hin; simpl in H0.
        - inversion H0; subst. destruct Hin.
        - destruct (raw_decl pkg fl fuel fd) as [a| |] eqn:Ea; try discriminate.
          destruct (raw_top pkg fl fuel fds) as [b| |] eqn:Eb; try discriminate.
          inversion H0; subst raw0. apply in_app_or in Hin. destruct Hin as [Hin|Hin]; [|eapply IH; eauto].
          unfold raw_decl in Ea. destruct (fd_names fd) as [|x names] eqn:EN.
          + destruct (raw_type pkg fuel 0 [] (fd_ty fd) (parse_new_comment (fd_doc fd))) as [l|] eqn:Er; [|discriminate].
            inversion Ea; subst a.
            assert (Rt : forall fu depth pre t is_new l0, raw_type pkg fu depth pre t is_new = Some l0 ->
                         forall e, In e l0 -> f_embedded e = true -> f_name e = short_name (f_ty e)).
            { clear. intros fu. induction fu as [|fu IHf]; intros depth pre t is_new l0 H0; rewrite raw_type_unfold in H0.
              - destruct (struct_of pkg t); inversion H0; subst. intros e [].
              - destruct (struct_of pkg t) as [si|]; [|inversion H0; subst; intros e []].
                set (e0 := embedded_entry t depth pre) in *.
                assert (Gx : forall fs l', raw_fields pkg fu (S depth) (f_path e0) is_new fs = Some l' ->
                             forall e, In e l' -> f_embedded e = true -> f_name e = short_name (f_ty e)).
                { induction fs as [|[[n ft] emb] fs IHfs]; intros l' H'.
                  - inversion H'; subst. intros e [].
                  - rewrite raw_fields_cons in H'. destruct emb.
                    + destruct (raw_type pkg fu (S depth) (f_path e0) ft is_new) as [a|] eqn:Ea; [|discriminate].
                      destruct (raw_fields pkg fu (S depth) (f_path e0) is_new fs) as [b|] eqn:Eb; [|discriminate].
                      inversion H'; subst. intros e He. apply in_app_or in He. destruct He as [He|He].
                      * eapply IHf; eauto.
                      * eapply IHfs; eauto.
                    + destruct (raw_fields pkg fu (S depth) (f_path e0) is_new fs) as [b|] eqn:Eb; [|discriminate].
                      inversion H'; subst. intros e [He|He]; [subst; discriminate|eapply IHfs; eauto]. }
                destruct (raw_fields pkg fu (S depth) (f_path e0) is_new (struct_fields si)) as [l'|] eqn:E; [|discriminate].
                inversion H0; subst. intros e [He|He] Hemb.
                + subst e. unfold e0. rewrite embedded_entry_name, embedded_entry_ty. reflexivity.
                + eapply Gx; eauto. }
            eapply Rt; eauto.
          + destruct (raw_names_facts _ _ _ _ _ _ Ea Hin) as [_ [_ [Hne _]]]. congruence. }
      symmetry. eapply Gen; eauto. }
    assert (IOK : iface_ok v fuel getter (sd_name sd) (fst ia) = true).
    { unfold view_ok in VOK. rewrite forallb_forall in VOK. specialize (VOK oe Hocc_e).
      unfold occ_is_node in VOK. rewrite Oee, Ote' in VOK. cbn [is_some negb orb andb] in VOK.
      apply andb_true_iff in VOK. destruct VOK as [V1 V2]. rewrite Ename in V1, V2. destruct getter; assumption. }
    unfold v' in Hm. rewrite (iface_methods_put v (ventry_of sd nd d) getter fuel (fst ia) (snd ia) k IOK) in Hm.
    rewrite (iface_methods_stable v getter (sd_name sd) fuel (fst ia) (snd ia) k fuel IOK) in Hm by lia.
    unfold implements in Fimp. rewrite forallb_forall in Fimp. specialize (Fimp m Hm).
    destruct (find_method pkg v fuel si_e (gm_name m)) as [pm'|] eqn:FM; [|discriminate].
    (* pm' is an accessor of a struct of E's closure *)
    destruct (find_method_from_in _ _ _ _ _ _ _ FM) as [j [Hj [MC _]]].
    assert (Hpm : In pm' (methods_at pkg v j si_e [])).
    { assert (In pm' (method_candidates pkg v j si_e (gm_name m))) by (rewrite MC; left; reflexivity).
      unfold method_candidates in H. apply filter_In in H. tauto. }
    assert (Target : exists p si, In (p, si) (struct_occs pkg fuel sd) /\ In (snd pm') (own_methods v si) /\
                                  (String.eqb (sd_pkg (fst si)) "" && String.eqb (sd_name (fst si)) (sd_name sd) = false)%bool).
    { unfold not_self_embedded in NSE. rewrite forallb_forall in NSE.
      destruct (methods_at_occ _ _ _ _ _ _ Hpm) as [[Ej [Ep Hown]]|[k0 [o' [si' [Ej [Ho' [Hemb' [Hs' [Ep Hown]]]]]]]]].
      - exists (fst oe), si_e. split; [eapply in_struct_occs; eauto|]. split; auto.
        specialize (NSE oe Hocc_e). rewrite Oee, Ote' in NSE. destruct si_e as [sde ae]. cbn [fst].
        apply negb_true_iff in NSE. exact NSE.
      - pose proof (level_compose pkg k0 si_e o' (f_depth f0) (self_inst sd) [] oe Hoe Oee Ote' Ho') as Hc.
        assert (Hocc : In (fst oe ++ fst o', snd o') (all_occ pkg fuel (self_inst sd))).
        { eapply in_all_occ; [|exact Hc]. eapply depth_lt_fuel; eauto. }
        exists (fst oe ++ fst o'), si'. split.
        + eapply (in_struct_occs pkg fuel sd (fst oe ++ fst o', snd o')); eauto.
        + split; auto. specialize (NSE _ Hocc). unfold occ_emb, occ_ty in *. cbn [snd fst] in NSE.
          rewrite Hemb', Hs' in NSE. destruct si' as [sd' a']. cbn [fst]. apply negb_true_iff in NSE. exact NSE. }
    destruct Target as [p [si [Hocc [Hown Hns]]]].
    assert (Hown' : In (snd pm') (own_methods v' si)).
    { unfold v'. rewrite own_methods_put; auto. }
    destruct (SEL p si (snd pm') Hocc Hown') as [pm [Fpm Spm]].
    rewrite (sig_eqb_name _ _ Fimp), Fpm. eapply sig_eqb_trans; eauto.
  - (* an explicit method: one of T's own accessors *)
    apply in_map_iff in Hm. destruct Hm as [a [Em Ha]]. subst m.
    assert (Hown : In (own_method getter a) (own_methods v' (self_inst sd))).
    { unfold own_methods, self_inst. rewrite Hpkg. cbn [String.eqb].
      unfold v'. replace (sd_name sd) with (ve_name (ventry_of sd nd d)) by reflexivity.
      rewrite find_ventry_put. cbn [ve_data ventry_of]. rewrite T1, T2.
      apply in_or_app. destruct getter; [left|right]; apply in_map_iff; exists a; split; auto; apply acc_method_self. }
    destruct (SEL [] (self_inst sd) _ (or_introl eq_refl) Hown) as [pm [Fpm Spm]].
    rewrite Fpm. exact Spm.
Qed.

(* the complete method set of the emitted interface does not depend on the fuel *)
Theorem interface_method_set_stable : forall pkg v fl fuel sd fields d nd (getter : bool) k1 k2,
  getset_of pkg v fl fuel sd = COk (fields, d, nd) ->
  c03_guard pkg fl fuel sd = true ->
  (forall ia : ident * list ty, In ia (if getter then gs_get_ifaces d else gs_set_ifaces d) ->
     iface_ok v fuel getter (sd_name sd) (fst ia) = true) ->
  S fuel <= k1 -> S fuel <= k2 ->
  let v' := view_put v (ventry_of sd nd d) in
  let tps := ve_tparams (ventry_of sd nd d) in
  iface_methods v' k1 getter (sd_name sd) (map TParam tps) = iface_methods v' k2 getter (sd_name sd) (map TParam tps).
Proof.
  intros pkg v fl fuel sd fields d nd getter k1 k2 H G OK L1 L2 v' tps.
  destruct k1 as [|k1]; [lia|]. destruct k2 as [|k2]; [lia|].
  pose proof (interface_method_set pkg v fl fuel sd fields d nd getter k1 H G) as I1.
  pose proof (interface_method_set pkg v fl fuel sd fields d nd getter k2 H G) as I2.
  cbn zeta in I1, I2. fold v' tps in I1, I2. rewrite I1, I2.
  destruct (iface_declared getter d); [|reflexivity]. f_equal.
  apply flat_map_ext_in. intros ia Hia. specialize (OK ia Hia). unfold v'.
  rewrite !(iface_methods_put v (ventry_of sd nd d) getter fuel (fst ia) (snd ia) _ OK).
  apply (iface_methods_stable v getter (sd_name sd) fuel); auto; lia.
Qed.
