(* From the pass invariants (MapperProofs.v) to the emitted statement lists:
   write-once and soundness of the ToX/FromX plans, over arbitrary field
   arrays, mapper-method lists, tag maps and flags. *)
From Coq Require Import String Ascii List Bool Arith Lia.
From Shoot Require Import Base.Str Model.Transfer Model.MapVal Model.Mapper Proofs.MapperProofs.
Import ListNotations.
Local Open Scope string_scope.
Local Open Scope list_scope.

(* ------------------------------------------------------------ list helpers *)
Lemma nodup_app {A} (l1 l2 : list A) :
  NoDup l1 -> NoDup l2 -> (forall x, In x l1 -> In x l2 -> False) -> NoDup (l1 ++ l2).
Proof.
  induction l1 as [|a l1 IH]; intros N1 N2 D; simpl; auto.
  inversion N1; subst. constructor.
  - intros H. apply in_app_or in H. destruct H; auto. apply (D a); simpl; auto.
  - apply IH; auto. intros x X1 X2. apply (D x); simpl; auto.
Qed.

Lemma NoDup_flat_map_nth {A B} (F : A -> list B) (d : A) : forall (l : list A),
  (forall i, i < length l -> NoDup (F (nth i l d))) ->
  (forall i i' y, i < length l -> i' < length l -> In y (F (nth i l d)) -> In y (F (nth i' l d)) -> i = i') ->
  NoDup (flat_map F l).
Proof.
  induction l as [|x l IH]; intros H1 H2; simpl; [constructor|].
  apply nodup_app.
  - apply (H1 0). simpl; lia.
  - apply IH.
    + intros i Hi. apply (H1 (S i)). simpl; lia.
    + intros i i' y Hi Hi' Y Y'. assert (S i = S i') by (apply (H2 (S i) (S i') y); simpl; auto; lia). lia.
  - intros y Y1 Y2. apply in_flat_map in Y2. destruct Y2 as (x' & X' & Y2).
    destruct (In_nth _ _ d X') as (k & Hk & E).
    assert (0 = S k); [|lia].
    apply (H2 0 (S k) y); simpl; try lia; auto. rewrite E. auto.
Qed.

Lemma map_nth_ext {A B} (f : A -> B) (l l' : list A) d :
  length l' = length l -> (forall k, f (nth k l' d) = f (nth k l d)) -> map f l' = map f l.
Proof.
  revert l'. induction l as [|x l IH]; intros [|y l'] L H; simpl in *; try lia; auto.
  f_equal. { apply (H 0). } apply IH; [lia|]. intros k. apply (H (S k)).
Qed.

Lemma NoDup_map_nth {A B} (f : A -> B) (l : list A) d i j :
  NoDup (map f l) -> i < length l -> j < length l -> f (nth i l d) = f (nth j l d) -> i = j.
Proof.
  intros N Hi Hj E.
  rewrite <- (map_nth f l d i), <- (map_nth f l d j) in E.
  apply (proj1 (NoDup_nth (map f l) (f d)) N); rewrite ?map_length; auto.
Qed.

(* ------------------------------------------------ strategies vs the flags *)
Section Plan.
  Variable e : env.
  Variable tm : tagmap.
  Variable ic : bool.
  Variable fns : list mfunc.
  Variables W0s W0d : sset.

  (* strategy h may be used to write field w from field r *)
  Definition applicable (to_dir : bool) (r w : field) (h : strategy) : Prop :=
    let st := if to_dir then f_ty r else f_ty w in
    let dt := if to_dir then f_ty w else f_ty r in
    match h with
    | SAssign => type_equals (f_ty r) (f_ty w) = true
    | SConv a b => a = f_ty r /\ b = f_ty w /\ type_equals a b = false
                   /\ convertible e a b = true /\ may_mis_conv e a b = false
    | SFunc f => exists fn, In fn fns /\ mf_name fn = f
                            /\ type_equals (mf_param fn) (f_ty r) = true /\ type_equals (mf_result fn) (f_ty w) = true
    | SMap _ _ n1 n2 => snd (strip_ptr st) = TNamed PSrc n1 /\ snd (strip_ptr dt) = TNamed PDst n2
    | SEach _ _ n1 n2 => exists e1 e2, st = TSlice e1 /\ dt = TSlice e2
                                       /\ snd (strip_ptr e1) = TNamed PSrc n1 /\ snd (strip_ptr e2) = TNamed PDst n2
    end.

  Lemma strategies_length d w r : length (strategies d w r) = flagcount w.
  Proof.
    unfold strategies, flagcount, has_func, b2n. rewrite !app_length.
    destruct (f_canassign w), (f_isconv w), (negb (String.eqb (f_func w) "")), (f_canmap w), (f_caneach w); reflexivity.
  Qed.

  Lemma type_name_strip t n p : snd (strip_ptr t) = TNamed p n ->
    type_name (snd (strip_ptr (unslice t))) = n.
  Proof.
    destruct t as [| | t' | |]; simpl; intros H; try discriminate; try (inversion H; reflexivity).
  Qed.

  Lemma strategies_applicable d r w h :
    just e fns d r w -> In h (strategies d w r) -> applicable d r w h.
  Proof.
    intros (J1 & J2 & J3 & J4 & J5) H. unfold strategies in H.
    repeat (apply in_app_or in H; destruct H as [H|H]).
    - destruct (f_canassign w) eqn:E; [|contradiction]. destruct H as [<-|[]]. simpl. auto.
    - destruct (f_isconv w) eqn:E; [|contradiction]. destruct H as [<-|[]].
      destruct (J2 eq_refl) as (a&b&c&T). rewrite T. simpl. auto.
    - destruct (negb (String.eqb (f_func w) "")) eqn:E; [|contradiction]. destruct H as [<-|[]].
      simpl. apply J3. exact E.
    - destruct (f_canmap w) eqn:E; [|contradiction]. destruct H as [<-|[]].
      destruct (J4 eq_refl) as (n1 & n2 & A & B & T). rewrite T.
      destruct d; unfold applicable; cbn [named_name].
      + rewrite (type_name_strip _ _ _ A). auto.
      + rewrite (type_name_strip _ _ _ B). auto.
    - destruct (f_caneach w) eqn:E; [|contradiction]. destruct H as [<-|[]].
      destruct (J5 eq_refl) as (e1 & e2 & n1 & n2 & A & B & C & D & T). rewrite T.
      destruct d; unfold applicable; cbn [named_name].
      + rewrite A. cbn [unslice]. rewrite C. exists e1, e2. auto.
      + rewrite B. cbn [unslice]. rewrite D. exists e1, e2. auto.
  Qed.

  (* ---------------------------------------------------------------- ToX *)
  Theorem to_stmts_sound s spaths need :
    Inv e tm ic fns W0s W0d s ->
    forall st, In st (to_stmts spaths need s) ->
    exists i j, i < length (s_src s) /\ j < length (s_dst s)
                /\ st_src st = ref_of (src_at s i) /\ st_dst st = ref_of (dst_at s j)
                /\ f_target (src_at s i) = Some j
                /\ can_name_match (src_at s i) (dst_at s j) tm ic = true
                /\ applicable true (src_at s i) (dst_at s j) (st_how st).
  Proof.
    intros (IT & _) st H. unfold to_stmts in H. apply in_flat_map in H. destruct H as (sf & Hsf & H).
    destruct (In_nth _ _ fdummy Hsf) as (i & Hi & Ei).
    destruct (f_target sf) as [j|] eqn:T; [|contradiction].
    apply in_map_iff in H. destruct H as (h & <- & Hh). simpl.
    subst sf. unfold src_at, dst_at, rd, NMto in *.
    destruct (iv_tgt _ _ _ _ _ _ IT i j Hi T) as (Hj & _ & NM & JJ).
    exists i, j. unfold rd, NMto in *.
    split; [exact Hi|]. split; [exact Hj|]. split; [reflexivity|]. split; [reflexivity|].
    split; [exact T|]. split; [exact NM|]. apply strategies_applicable; auto.
  Qed.

  Theorem to_stmts_write_once s spaths need :
    Inv e tm ic fns W0s W0d s -> NoDup (map f_name (s_dst s)) ->
    NoDup (map (fun st => r_name (st_dst st)) (to_stmts spaths need s)).
  Proof.
    intros (IT & _) ND. unfold to_stmts.
    rewrite flat_map_concat_map, concat_map, map_map, <- flat_map_concat_map.
    apply (NoDup_flat_map_nth _ fdummy).
    - intros i Hi. destruct (f_target (nth i (s_src s) fdummy)) as [j|] eqn:T; simpl; [|constructor].
      rewrite map_map. simpl.
      destruct (iv_tgt _ _ _ _ _ _ IT i j Hi T) as (Hj & _).
      pose proof (iv_count _ _ _ _ _ _ IT j Hj) as C.
      unfold rd, dst_at in *.
      rewrite <- (strategies_length true (nth j (s_dst s) fdummy) (nth i (s_src s) fdummy)) in C.
      destruct (strategies true (nth j (s_dst s) fdummy) (nth i (s_src s) fdummy)) as [|a [|b l]]; simpl in *; try lia.
      + constructor.
      + constructor; [intros []|constructor].
    - intros i i' y Hi Hi' Y Y'.
      destruct (f_target (nth i (s_src s) fdummy)) as [j|] eqn:T; simpl in Y; [|contradiction].
      destruct (f_target (nth i' (s_src s) fdummy)) as [j'|] eqn:T'; simpl in Y'; [|contradiction].
      rewrite map_map in Y, Y'. simpl in Y, Y'.
      apply in_map_iff in Y. destruct Y as (_ & <- & _).
      apply in_map_iff in Y'. destruct Y' as (_ & E & _).
      destruct (iv_tgt _ _ _ _ _ _ IT i j Hi T) as (Hj & _).
      destruct (iv_tgt _ _ _ _ _ _ IT i' j' Hi' T') as (Hj' & _).
      assert (j' = j) by (apply (NoDup_map_nth f_name (s_dst s) fdummy); auto).
      subst j'. apply (iv_inj _ _ _ _ _ _ IT i i' j); auto.
  Qed.

  (* -------------------------------------------------------------- FromX *)
  Theorem from_stmts_sound s dpaths need :
    Inv e tm ic fns W0s W0d s ->
    forall st, In st (from_stmts dpaths need s) ->
    exists i j, i < length (s_src s) /\ j < length (s_dst s)
                /\ st_src st = ref_of (dst_at s j) /\ st_dst st = ref_of (src_at s i)
                /\ f_target (dst_at s j) = Some i
                /\ can_name_match (src_at s i) (dst_at s j) tm ic = true
                /\ applicable false (dst_at s j) (src_at s i) (st_how st).
  Proof.
    intros (_ & IF) st H. unfold from_stmts in H. apply in_flat_map in H. destruct H as (df & Hdf & H).
    destruct (In_nth _ _ fdummy Hdf) as (j & Hj & Ej).
    destruct (f_target df) as [i|] eqn:T; [|contradiction].
    apply in_map_iff in H. destruct H as (h & <- & Hh). simpl.
    subst df. unfold src_at, dst_at, rd, NMfrom in *.
    destruct (iv_tgt _ _ _ _ _ _ IF j i Hj T) as (Hi & _ & NM & JJ).
    exists i, j. unfold rd, NMfrom in *.
    split; [exact Hi|]. split; [exact Hj|]. split; [reflexivity|]. split; [reflexivity|].
    split; [exact T|]. split; [exact NM|]. apply strategies_applicable; auto.
  Qed.

  Theorem from_stmts_write_once s dpaths need :
    Inv e tm ic fns W0s W0d s -> NoDup (map f_name (s_src s)) ->
    NoDup (map (fun st => r_name (st_dst st)) (from_stmts dpaths need s)).
  Proof.
    intros (_ & IF) ND. unfold from_stmts.
    rewrite flat_map_concat_map, concat_map, map_map, <- flat_map_concat_map.
    apply (NoDup_flat_map_nth _ fdummy).
    - intros j Hj. destruct (f_target (nth j (s_dst s) fdummy)) as [i|] eqn:T; simpl; [|constructor].
      rewrite map_map. simpl.
      destruct (iv_tgt _ _ _ _ _ _ IF j i Hj T) as (Hi & _).
      pose proof (iv_count _ _ _ _ _ _ IF i Hi) as C.
      unfold rd, src_at in *.
      rewrite <- (strategies_length false (nth i (s_src s) fdummy) (nth j (s_dst s) fdummy)) in C.
      destruct (strategies false (nth i (s_src s) fdummy) (nth j (s_dst s) fdummy)) as [|a [|b l]]; simpl in *; try lia.
      + constructor.
      + constructor; [intros []|constructor].
    - intros j j' y Hj Hj' Y Y'.
      destruct (f_target (nth j (s_dst s) fdummy)) as [i|] eqn:T; simpl in Y; [|contradiction].
      destruct (f_target (nth j' (s_dst s) fdummy)) as [i'|] eqn:T'; simpl in Y'; [|contradiction].
      rewrite map_map in Y, Y'. simpl in Y, Y'.
      apply in_map_iff in Y. destruct Y as (_ & <- & _).
      apply in_map_iff in Y'. destruct Y' as (_ & E & _).
      destruct (iv_tgt _ _ _ _ _ _ IF j i Hj T) as (Hi & _).
      destruct (iv_tgt _ _ _ _ _ _ IF j' i' Hj' T') as (Hi' & _).
      assert (i' = i) by (apply (NoDup_map_nth f_name (s_src s) fdummy); auto).
      subst i'. apply (iv_inj _ _ _ _ _ _ IF j j' i); auto.
  Qed.

  (* no statement writes a name that was in the write set before the passes *)
  Theorem to_stmts_fresh s spaths need :
    Inv e tm ic fns W0s W0d s ->
    forall st, In st (to_stmts spaths need s) -> s_has W0d (r_name (st_dst st)) = false.
  Proof.
    intros (IT & _) st H. unfold to_stmts in H. apply in_flat_map in H. destruct H as (sf & Hsf & H).
    destruct (In_nth _ _ fdummy Hsf) as (i & Hi & Ei).
    destruct (f_target sf) as [j|] eqn:T; [|contradiction].
    apply in_map_iff in H. destruct H as (h & <- & Hh). simpl. subst sf.
    destruct (iv_tgt _ _ _ _ _ _ IT i j Hi T) as (Hj & _).
    apply (iv_fresh _ _ _ _ _ _ IT j Hj). unfold rd, dst_at in *.
    rewrite <- (strategies_length true (nth j (s_dst s) fdummy) (nth i (s_src s) fdummy)).
    destruct (strategies true (nth j (s_dst s) fdummy) (nth i (s_src s) fdummy)); [contradiction | simpl; lia].
  Qed.

  Theorem from_stmts_fresh s dpaths need :
    Inv e tm ic fns W0s W0d s ->
    forall st, In st (from_stmts dpaths need s) -> s_has W0s (r_name (st_dst st)) = false.
  Proof.
    intros (_ & IF) st H. unfold from_stmts in H. apply in_flat_map in H. destruct H as (df & Hdf & H).
    destruct (In_nth _ _ fdummy Hdf) as (j & Hj & Ej).
    destruct (f_target df) as [i|] eqn:T; [|contradiction].
    apply in_map_iff in H. destruct H as (h & <- & Hh). simpl. subst df.
    destruct (iv_tgt _ _ _ _ _ _ IF j i Hj T) as (Hi & _).
    apply (iv_fresh _ _ _ _ _ _ IF i Hi). unfold rd, src_at in *.
    rewrite <- (strategies_length false (nth i (s_src s) fdummy) (nth j (s_dst s) fdummy)).
    destruct (strategies false (nth i (s_src s) fdummy) (nth j (s_dst s) fdummy)); [contradiction | simpl; lia].
  Qed.
End Plan.

(* ------------------------------------------------ statements, membership *)
Lemma to_stmts_in sp need s st :
  In st (to_stmts sp need s) ->
  exists i j h, i < length (s_src s) /\ f_target (src_at s i) = Some j
                /\ In h (strategies true (dst_at s j) (src_at s i))
                /\ st = {| st_dst := ref_of (dst_at s j); st_src := ref_of (src_at s i); st_how := h;
                           st_guard := guard_of (need (f_name (src_at s i))) sp (f_name (src_at s i)) |}.
Proof.
  unfold to_stmts. intros H. apply in_flat_map in H. destruct H as (sf & Hsf & H).
  destruct (In_nth _ _ fdummy Hsf) as (i & Hi & Ei).
  destruct (f_target sf) as [j|] eqn:T; [|contradiction].
  apply in_map_iff in H. destruct H as (h & <- & Hh).
  exists i, j, h. unfold src_at. rewrite Ei. auto.
Qed.

Lemma from_stmts_in dp need s st :
  In st (from_stmts dp need s) ->
  exists j i h, j < length (s_dst s) /\ f_target (dst_at s j) = Some i
                /\ In h (strategies false (src_at s i) (dst_at s j))
                /\ st = {| st_dst := ref_of (src_at s i); st_src := ref_of (dst_at s j); st_how := h;
                           st_guard := guard_of (need (f_name (src_at s i))) dp (f_name (dst_at s j)) |}.
Proof.
  unfold from_stmts. intros H. apply in_flat_map in H. destruct H as (df & Hdf & H).
  destruct (In_nth _ _ fdummy Hdf) as (j & Hj & Ej).
  destruct (f_target df) as [i|] eqn:T; [|contradiction].
  apply in_map_iff in H. destruct H as (h & <- & Hh).
  exists j, i, h. unfold dst_at. rewrite Ej. auto.
Qed.

